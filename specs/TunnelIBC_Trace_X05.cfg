\* X05: tunnel packets over a delivering IBC route.  Tunnel creation / reconfiguration, route updates, triggers,
\* end-blocks, channel-open attempts, close attempts and the three packet callbacks are owned; sequence numbers, stored
\* packets and their receipts, latest prices, LastInterval, fee-payer balances, the fee book, the bandtss escrow, routes,
\* channel ends + capabilities and the committed IBC packets (with their commitments and next-sequence-send) are checked.
\* Deposits, withdrawals, (de)activation messages, funding, feeds prices, the counterparty's handshake answers and
\* channel failures are assumed as observed.
CONSTANTS
  MaxTun = 4
  Sig = {"s1", "s2"}
  Acct = {"p1", "p2", "p3"}
  Denom = {"ua", "ub"}
  FeeDenom = "ub"
  MinIv = 1
  MaxIv = 10
  MinDev = 50
  MaxDev = 3000
  ParamSet = {}
  KindSet = {}
  IvSet = {}
  SigSets = {}
  DevSet = {}
  AmtSet = {}
  FundSet = {}
  PriceSet = {}
  ModeSet = {}
  DtSet = {}
  InitBal = 0
  MaxCh = 4
  ChanArgs = {}
  RkSet = {}
  OrdSet = {}
  VerSet = {}
  HowSet = {}
  TraceFile = "trace.ndjson"
  Owned = {"CreateTunnel", "UpdateSignals", "UpdateRoute", "Trigger", "EndBlock", "ChanInit", "CloseInit", "RecvIn", "AckPkt", "TimeoutPkt"}
  Checked = {"count", "cfg", "active", "activeIdx", "seq", "latest", "lastInt", "pkts", "feeBal", "tssBal", "totalFees", "route", "chan", "ibc", "rcpt"}
  EBChecked = {"count", "cfg", "active", "activeIdx", "seq", "latest", "lastInt", "pkts", "feeBal", "tssBal", "totalFees", "route", "chan", "ibc", "rcpt", "ev", "frame"}
SPECIFICATION TraceSpec
INVARIANTS TIInv TraceBoundOK
PROPERTIES TIbcSend TIbcFee TIbcRoute TRouteRule TCallbackInert TChanRule TSeqStep TPacketRule TFeesOnlyWithPackets
POSTCONDITION TraceAccepted
CHECK_DEADLOCK FALSE
