CONSTANTS
  TraceFile = "trace.ndjson"
SPECIFICATION TraceSpec
INVARIANTS Total Deterministic Consecutive
POSTCONDITION TraceAccepted
CHECK_DEADLOCK FALSE
