---------------------------- MODULE Sampling_MC ----------------------------
(***************************************************************************)
(* MC role for Sampling.tla.  The sampler is a function of its inputs, so  *)
(* the state space is "one call from the initial state": every facet       *)
(* enumerates ALL inputs within its bounds (weight vectors x counts x      *)
(* tries x draw streams, draws as one small limb) and checks               *)
(*   Valid          C09: exact size, distinct, eligible, error iff too few *)
(*   Deterministic  the result is the value of a function of the call      *)
(*   Consumed       exactly cnt*tries (resp. 1, t) draws are consumed      *)
(*   OneSpec SomeSpec MaxSpec ShufSpec                                     *)
(*                  the loop-shaped transcriptions agree with independent, *)
(*                  declarative statements of the sampling specification   *)
(* Facet "scale" checks the two number devices of Sampling.tla (Horner on  *)
(* limbs, scaling by K) against plain arithmetic where that fits 31 bits.  *)
(***************************************************************************)
EXTENDS Sampling

CONSTANTS
    Facet,      \* "one" | "some" | "max" | "req" | "sign" | "seed" | "scale"
    MaxN,       \* participants
    WSet,       \* weights
    MaxCnt,
    MaxTries,
    DSet,       \* draw values (single limb)
    IdSet       \* member ids ("sign")

Min(a, b) == IF a < b THEN a ELSE b
WVecs == {w \in UNION {[1..n -> WSet] : n \in 1..MaxN} : SumSeq(w) > 0}
PosVecs == UNION {[1..n -> WSet \ {0}] : n \in 1..MaxN}
D1 == {<<d>> : d \in DSet}
Draws(k) == [1..k -> D1]

\* ascending sequence of a set of ids (the member store is iterated in id order)
RECURSIVE Asc(_)
Asc(S) == IF S = {} THEN <<>> ELSE LET m == CHOOSE x \in S : \A y \in S : x <= y IN <<m>> \o Asc(S \ {m})

MCInit == seed = [i \in 1..SeedLen |-> CHOOSE b \in Byte : TRUE] /\ call = NoCall /\ res = NoRes

Fresh == call.kind = "none" /\ Facet \notin {"seed", "scale"}

MCNext ==
    \/ /\ Fresh /\ Facet = "one"
       /\ \E w \in WVecs, d \in D1 : PureOne(w, <<d>>)
    \/ /\ Fresh /\ Facet = "some"
       /\ \E w \in WVecs : \E cnt \in 0..Min(MaxCnt, Cardinality(Positive(w))) : \E ds \in Draws(cnt) : PureSome(w, cnt, ds)
    \/ /\ Fresh /\ Facet = "max"
       /\ \E w \in WVecs, tries \in 1..MaxTries : \E cnt \in 1..Min(MaxCnt, Cardinality(Positive(w))) :
             \E ds \in Draws(cnt * tries) : PureMax(w, cnt, tries, ds)
    \/ /\ Fresh /\ Facet = "req"
       /\ \E w \in PosVecs, tries \in 1..MaxTries, cnt \in 1..MaxCnt :
             \E ds \in Draws(IF Len(w) < cnt THEN 0 ELSE cnt * tries) : ReqCommittee(w, cnt, tries, ds)
    \/ /\ Fresh /\ Facet = "sign"
       /\ \E S \in SUBSET IdSet, t \in 1..MaxCnt :
             /\ Cardinality(S) <= MaxN
             /\ \E ds \in Draws(IF t > Cardinality(S) THEN 0 ELSE t) : SignCommittee(Asc(S), t, ds)
    \/ /\ Facet = "seed"
       /\ \E hb \in Byte \cup {-1} : Block(hb)

MCSpec == MCInit /\ [][MCNext]_vars

-----------------------------------------------------------------------------
(* determinism: one function of the call yields the result in every reachable state *)
F(c) == CASE c.kind = "none" -> NoRes
          [] c.kind = "one"  -> Ok(<<ChooseOne(c.w, c.ds[1])>>)
          [] c.kind = "some" -> Ok(ChooseSome(c.w, c.cnt, c.ds).sel)
          [] c.kind = "max"  -> Ok(ChooseSomeMaxWeight(c.w, c.cnt, c.tries, c.ds).sel)
          [] c.kind = "req"  -> IF Len(c.w) < c.cnt THEN Rej ELSE Ok(ChooseSomeMaxWeight(c.w, c.cnt, c.tries, c.ds).sel)
          [] c.kind = "sign" -> IF c.cnt > Len(c.w) THEN Rej ELSE Ok(Shuffle(c.w, c.cnt, c.ds).sel)
Deterministic == res = F(call)

(* number of draws consumed *)
Rest == CASE call.kind = "some" -> ChooseSome(call.w, call.cnt, call.ds).rest
          [] call.kind \in {"max", "req"} -> ChooseSomeMaxWeight(call.w, call.cnt, call.tries, call.ds).rest
          [] call.kind = "sign" -> Shuffle(call.w, call.cnt, call.ds).rest
          [] OTHER -> <<>>
Consumed == (res.ok /\ call.kind \in {"some", "max", "req", "sign"}) =>
                Len(call.ds) - Len(Rest) = call.cnt * call.tries

-----------------------------------------------------------------------------
(* the sampling specification, stated without loops *)

Val(d) == d[1]      \* MC draws have one limb

\* cumulative-weight pick over a SET R of positions (in ascending order): the unique p in R whose
\* half-open interval [sum of lighter positions, + w[p]) contains x
RECURSIVE SumSet(_, _)
SumSet(w, S) == IF S = {} THEN 0 ELSE LET q == CHOOSE q \in S : TRUE IN w[q] + SumSet(w, S \ {q})
Below(w, R, p) == SumSet(w, {q \in R : q < p})
TotalOf(w, R) == SumSet(w, R)
PickIn(w, R, x, p) == p \in R /\ Below(w, R, p) <= x /\ x < Below(w, R, p) + w[p]

OneSpec == call.kind = "one" =>
    PickIn(call.w, 1..Len(call.w), Val(call.ds[1]) % SumSeq(call.w), res.sel[1])

\* without replacement: round k picks among the positions not picked before, with the k-th draw
SelOK(w, sel, ds) == \A k \in 1..Len(sel) :
    LET R == (1..Len(w)) \ {sel[j] : j \in 1..(k - 1)}
    IN PickIn(w, R, Val(ds[k]) % TotalOf(w, R), sel[k])
SomeSpec == call.kind = "some" => SelOK(call.w, res.sel, call.ds)

\* best of N: candidate k uses draws (k-1)*cnt+1 .. k*cnt; the result is the FIRST candidate of maximal weight
Cand(k) == ChooseSome(call.w, call.cnt, SubSeq(call.ds, (k - 1) * call.cnt + 1, k * call.cnt)).sel
MaxSpec == (call.kind \in {"max", "req"} /\ res.ok) =>
    \E k \in 1..call.tries :
        /\ res.sel = Cand(k)
        /\ SelOK(call.w, Cand(k), SubSeq(call.ds, (k - 1) * call.cnt + 1, k * call.cnt))
        /\ \A j \in 1..call.tries : WeightOf(call.w, Cand(j)) <= WeightOf(call.w, Cand(k))
        /\ \A j \in 1..(k - 1) : WeightOf(call.w, Cand(j)) < WeightOf(call.w, Cand(k))

\* partial Fisher-Yates on a shrinking pool: pick position (draw mod size), move the last element into the hole
RECURSIVE PoolPicks(_, _, _)
PoolPicks(pool, t, ds) ==
    IF t = 0 THEN {}
    ELSE LET r == (Val(Head(ds)) % Len(pool)) + 1
             moved == [pool EXCEPT ![r] = pool[Len(pool)]]
         IN {pool[r]} \cup PoolPicks(SubSeq(moved, 1, Len(pool) - 1), t - 1, Tail(ds))
ShufSpec == (call.kind = "sign" /\ res.ok) =>
    /\ Range(res.sel) = PoolPicks(call.w, call.cnt, call.ds)
    /\ Sorted(res.sel)

-----------------------------------------------------------------------------
(* facet "scale": the number devices *)
Scaled(w, K) == [i \in 1..Len(w) |-> K * w[i]]
ASSUME Facet = "scale" =>
    \* Horner on half-limbs = plain mod, two-limb values below 2^19
    /\ \A a \in 0..7, b \in {0, 1, 255, 256, 257, 4095, 32768, 65534, 65535},
          s \in {1, 2, 3, 7, 255, 256, 257, 1000, 65535, 65536, 65537, 524287} :
            ModLimbs(<<a, b>>, s) = (a * 65536 + b) % s
    \* leading zero limbs do not matter; s up to 2^23 stays inside 31 bits
    /\ \A b \in {0, 1, 65535}, s \in {8388607, 8388608} :
            ModLimbs(<<0, 0, 65535, b>>, s) = ModLimbs(<<65535, b>>, s)
    /\ ModLimbs(<<65535, 65535, 65535, 65535>>, 8388608) = 8388607      \* 2^64-1 mod 2^23
    /\ ModLimbs(<<65535, 65535, 65535, 65535>>, 65535) = 0              \* 2^64-1 = (2^16-1)(...)
    /\ ModLimbs(<<1, 0, 0, 0>>, 7) = 1                                   \* 2^48 mod 7 = (2^3)^16 mod 7
    \* scaling: the pick on K*w with draw d equals the pick on w with draw d \div K
    /\ \A K \in {1, 2, 3, 4, 8, 16} : \A w \in WVecs : \A d \in 0..63 :
            ChooseOne(Scaled(w, K), <<d>>) = ChooseOne(w, <<d \div K>>)

View == <<seed, call, res>>
=============================================================================
