\* thorough facet: three requests in flight, two validators
CONSTANTS
  Val = {v1, v2}
  Stranger = {}
  MaxReq = 3
  Units = 1
  ExpSet = {2}
  PenaltySet = {2}
  DtSet = {1}
  AskSet = {1, 2}
  MinSet = {1, 2}
  ShapeSet = {"exact", "wrongId"}
  MaxH = 5
INIT InitActive
NEXT Next
SYMMETRY Sym
VIEW View
CONSTRAINT Bound
INVARIANTS Inv ExpiredOnTime
PROPERTIES ResultImmutable ResultOnlyAtEndBlock CursorMonotone ReportOnce ActivationRule DeactivationRule StatusStable ReporterSafe
CHECK_DEADLOCK FALSE
