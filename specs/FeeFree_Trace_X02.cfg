\* X02: the admission decision (Check) is owned; after a Check the whole message-level state must be unchanged
CONSTANTS
  Val = {"v1", "v2", "v3"}
  Acct = {"m1", "m2", "m3", "g1", "g2", "x1", "p1", "rq", "sp", "ow", "zz"}
  ReqIds = {1, 2, 3, 4, 5, 6, 7, 8, 9, 10, 11, 12, 13, 14, 15, 16, 17, 18, 19, 20, 21, 22, 23, 24}
  SigIds = {1, 2, 3, 4, 5, 6, 7, 8, 9, 10, 11, 12}
  MaxRoom = 64
  PD = 10000
  TraceFile = "trace.ndjson"
  Checked = {"minp", "localp", "bonded", "active", "feedOn", "cool", "grants", "req", "rep", "members", "room", "sgn", "dkg", "bal"}
  Owned = {"Check"}
SPECIFICATION TraceSpec
INVARIANTS TInv
PROPERTIES TNoFreeRide TEntitledNeverCharged TEntitledAdmitted TPaidRule TClassSplit TSignerRule
POSTCONDITION TraceAccepted
ALIAS TAlias
CHECK_DEADLOCK FALSE
