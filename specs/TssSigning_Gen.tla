--------------------------- MODULE TssSigning_Gen ---------------------------
(***************************************************************************)
(* GEN role: TLC -simulate walks TssSigning's next-state relation and      *)
(* records each step as an abstract, role-relative script step: group      *)
(* members by index for queue / activation steps, "k-th assigned member of *)
(* signing id (current attempt)" / "k-th unassigned member" for signature  *)
(* submissions (the real sampler draws its own committees).  At depth      *)
(* Depth the script is appended to the file named by $GEN_OUT.             *)
(***************************************************************************)
EXTENDS TssSigning, IOUtils, Json

CONSTANTS Depth, InitDESet, MaxPerBlock, SrcSet
VARIABLES script, ide, per0, att0, de0, nb
gvars == <<vars, script, ide, per0, att0, de0, nb>>

Ord(v) == CHOOSE i \in 1..Cardinality(Addr) : ToString(v) = "m" \o ToString(i) \/ (v \in Stranger /\ i = Cardinality(Addr))
Rank(v, S) == Cardinality({u \in S : Ord(u) <= Ord(v)})

WhoA(a) == IF a \in Stranger THEN [role |-> "stranger", k |-> 1, id |-> 0] ELSE [role |-> "member", k |-> Ord(a), id |-> 0]
WhoS(m, id) ==
    IF m \in Stranger THEN [role |-> "stranger", k |-> 1, id |-> id]
    ELSE IF att[id].present /\ m \in att[id].mem THEN [role |-> "assigned", k |-> Rank(m, att[id].mem), id |-> id]
    ELSE IF att[id].present THEN [role |-> "unassigned", k |-> Rank(m, Member \ att[id].mem), id |-> id]
    ELSE [role |-> "member", k |-> Ord(m), id |-> id]

GInit ==
    /\ script = <<>>
    /\ ide \in InitDESet
    /\ h = 2
    /\ params \in [t : TSet, maxDE : MaxDESet, maxAtt : MaxAttSet, period : PeriodSet, penalty : PenaltySet]
    /\ ide <= params.maxDE
    /\ per0 = params.period
    /\ att0 = params.maxAtt
    /\ de0 = params.maxDE
    /\ nb = 0
    /\ q = [a \in Addr |-> IF a \in Member THEN [i \in 1..ide |-> i] ELSE <<>>]
    /\ nser = [a \in Addr |-> IF a \in Member THEN ide ELSE 0]
    /\ tssAct = [g \in Grp |-> [m \in Member |-> g = 1]]
    /\ ownAct = [g \in Grp |-> [m \in Member |-> g = 1]]
    /\ cool = [g \in Grp |-> [m \in Member |-> 0]]
    /\ count = 0
    /\ sig = [id \in Ids |-> NoSig]
    /\ att = [id \in Ids |-> NoAtt]
    /\ tok = [id \in Ids |-> NoTok]
    /\ exps = <<>> /\ pend = <<>>
    /\ mapped = [id \in Ids |-> FALSE]
    /\ nSucc = [id \in Ids |-> 0]
    /\ nFail = [id \in Ids |-> 0]
    /\ tr = "none" /\ trSig = 0
    /\ out = "init" /\ pen = {} /\ ret = <<>>
    /\ usedBy = [t \in Token |-> {}]
    /\ pchg = [p |-> FALSE, a |-> FALSE, d |-> FALSE]

\* the last step is a plain EndBlock (TLC evaluates the Emit invariant on every candidate successor);
\* at most MaxPerBlock messages per block so that a walk spans several expiry periods; the stranger
\* speaks only at the start of a block
Last == Len(script) >= Depth - 2 \/ nb >= MaxPerBlock
Quiet(a) == a \in Stranger => nb = 0

\* the committee the walk draws is irrelevant for the script (the real sampler draws its own): two
\* priority orders are enough to vary the walk and keep the number of successors small
P1 == CHOOSE pr \in Prios : TRUE
P2 == CHOOSE pr \in Prios : \A m \in Member : pr[m] = Cardinality(Member) + 1 - P1[m]
GPrios == {P1, P2}

\* keep the random walk on the interesting part of the input space
SigKinds(m, id) ==
    IF id > count THEN {}
    ELSE IF sig[id].status # "WAITING" THEN (IF m \in Member THEN {"good"} ELSE {})          \* finished signing
    ELSE IF m \notin att[id].mem THEN {"good"}                                                \* not assigned
    ELSE IF m \in att[id].signed THEN {"good"}                                                \* duplicate
    ELSE {"good", "bad", "stale"}

GNext ==
    \/ \E a \in Addr, k \in KSet :
          /\ ~Last /\ (a \in Stranger => k = 1) /\ Quiet(a)
          /\ SubmitDEs(a, k)
          /\ script' = Append(script, [e |-> "SubmitDEs", who |-> WhoA(a), k |-> k])
    \/ \E a \in Addr :
          /\ ~Last /\ q[a] # <<>> /\ Quiet(a)
          /\ ResetDE(a)
          /\ script' = Append(script, [e |-> "ResetDE", who |-> WhoA(a)])
    \/ \E src \in SrcSet :
          /\ ~Last
          /\ \/ \E S \in SUBSET Member : RequestOK(S, P1)
             \/ RequestRej
          /\ script' = Append(script, [e |-> "Request", src |-> src])
    \/ /\ ~Last /\ ~RequestRejGuard
       /\ RequestRollback
       /\ script' = Append(script, [e |-> "RequestRollback"])
    \/ /\ ~Last /\ TransOn /\ tr = "none" /\ count > 0
       /\ Transition
       /\ script' = Append(script, [e |-> "Transition"])
    \/ \E m \in Addr, id \in Ids : \E kind \in SigKinds(m, id) :
          /\ ~Last /\ Quiet(m)
          /\ SubmitSig(m, id, kind = "good" /\ att[id].present /\ m \in att[id].mem)
          /\ script' = Append(script, [e |-> "SubmitSig", id |-> id, who |-> WhoS(m, id), kind |-> kind])
    \/ \E a \in Addr, g \in Grp :
          /\ ~Last /\ Quiet(a) /\ (g = 2 => tr = "exec") /\ (IF a \in Stranger THEN g = 1 ELSE ~ownAct[g][a])
          /\ Activate(a, g)
          /\ script' = Append(script, [e |-> "Activate", who |-> WhoA(a), g |-> g])
    \/ \E n \in PreSet, k \in PostSet :
          /\ Last => (n = 0 /\ k = 0)
          /\ n + k <= 1
          /\ nb >= 2 \/ Last \/ count = 0              \* at least two messages per block once signings exist
          /\ \E pr \in GPrios : EndBlockP(n, k, pr, NoPick, FALSE, FALSE)
          /\ nb' = 0
          /\ script' = Append(script, [e |-> "EndBlock", npre |-> n, ntun |-> k])
    \/ \E p \in PeriodSet :
          /\ ~Last /\ count > 0
          /\ SetPeriod(p)
          /\ script' = Append(script, [e |-> "SetPeriod", p |-> p])
    \/ \E m \in MaxAttSet :
          /\ ~Last /\ count > 0
          /\ SetMaxAtt(m)
          /\ script' = Append(script, [e |-> "SetMaxAtt", m |-> m])
    \/ \E m \in MaxDESet :
          /\ ~Last /\ \E a \in Addr : q[a] # <<>>
          /\ SetMaxDE(m)
          /\ script' = Append(script, [e |-> "SetMaxDE", m |-> m])

GSpec == GInit /\ [][GNext /\ ide' = ide /\ per0' = per0 /\ att0' = att0 /\ de0' = de0 /\ (h' = h => nb' = nb + 1)]_gvars

Emit ==
    TLCGet("level") = Depth =>
        Serialize(<<[fam |-> "TssSigning",
                     c |-> [t |-> params.t, maxDE |-> de0, maxAtt |-> att0,
                            period |-> per0, penalty |-> params.penalty, initDE |-> ide,
                            oracle |-> PreSet # {0}, tunnel |-> (PostSet # {0} \/ "tunnel" \in SrcSet), trans |-> TransOn],
                     steps |-> script]>>,
                  IOEnv.GEN_OUT,
                  [format |-> "NDJSON", charset |-> "UTF-8", openOptions |-> <<"WRITE", "CREATE", "APPEND">>])
=============================================================================
