CONSTANTS
  Req = {1, 2, 3}
  DS = {1, 2, 3, 4}
  MaxTry = 3
  SliceBug = FALSE
  TxSkip = "return"
  AssumeSnapshot = TRUE
  Depth = 70
SPECIFICATION GSpec
INVARIANT Emit
CHECK_DEADLOCK FALSE
