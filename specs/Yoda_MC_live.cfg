\* liveness facet (no view, no constraint): under weak fairness of the daemon's own steps and of executor
\* completions every announced obliged request eventually has its report queued
CONSTANTS
  Req = {1, 2}
  DS = {1, 2}
  MaxTry = 3
  SliceBug = FALSE
  TxSkip = "return"
  AssumeSnapshot = TRUE
  NSet = {1, 2}
  NSet2 = {1, 2}
  WantSet = {"me", "other"}
  FReqSet = {0, 99}
  FHashSet = {0}
  FDataSet = {0, 99}
  LenSet = {5}
  CachedSet = {FALSE}
  DmgSet = {FALSE}
  KindSet = {"ok", "error"}
  Modes = {"direct"}
  DeliverAnyTime = FALSE
SPECIFICATION LiveSpec
PROPERTIES EveryObligedReported
CHECK_DEADLOCK FALSE
