\* facet "cb" (quick): ONE IBC tunnel with two open channels, two signals (partial
\* packets), interval 2: packets in flight, incoming packets, acknowledgements before and timeouts after the timeout
\* time, the route switched to the second channel and back, one channel failure
CONSTANTS
  MaxTun = 1
  Sig = {"s1", "s2"}
  Acct = {a1, a2}
  Denom = {"ua", "ub"}
  FeeDenom = "ub"
  MinIv = 1
  MaxIv = 10
  MinDev = 50
  MaxDev = 3000
  SigSets <- Sig_all
  AmtSet <- Amt_zero
  ModeSet = {"ok"}
  InitBal = 3
  ParamSet <- P_1_2_3_4
  KindSet = {"ibc"}
  IvSet = {2}
  DevSet <- Dev_one
  FundSet = {}
  PriceSet <- Price_two
  DtSet = {1}
  MaxCh = 2
  ChanArgs <- Ch_send
  RkSet = {"ibc"}
  OrdSet = {}
  VerSet = {}
  HowSet = {"closed"}
  MaxNow = 103
  NTun = 1
  InitFee = 12
  PreCh = 2
  MaxLog = 3
  MaxSteps = 0
INIT InitIbc
NEXT NextCb
VIEW IView
CONSTRAINT Bound
INVARIANTS IInv
PROPERTIES IbcSend IbcFee IbcRoute RouteRule CallbackInert ChanRule ISeqStep IPacketRule IFeesOnlyWithPackets IEndBlockFrame
CHECK_DEADLOCK FALSE
