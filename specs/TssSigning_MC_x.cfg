\* thorough facet: a non-member queues pairs / sends messages; threshold 2 and 3; 1 signing, h<=4
CONSTANTS
  Member = {m1, m2, m3}
  Stranger = {x1}
  TSet = {2, 3}
  MaxSig = 1
  MaxSerial = 2
  MaxDESet = {2}
  MaxAttSet = {2}
  PeriodSet = {1}
  PenaltySet = {1}
  KSet = {1, 2}
  PreSet = {0}
  PostSet = {0}
  TransOn = FALSE
  MaxH = 4
INIT Init
NEXT NextMC
SYMMETRY Sym
VIEW View
CONSTRAINT Bound
INVARIANTS Inv OnTime BoundedTermination
PROPERTIES AssignFromHead Fifo QueueStep Eligible RejectedNoChange GhostExact CreationExact DEPartOK Status Attempt NoEarlyTimeout ExactTimeout NewAttempt Success Timeout Penalty Signed Callback TransitionStep
CHECK_DEADLOCK FALSE
