\* facet "route" (quick): from scratch - two accounts create up to two tunnels (IBC / TSS, with and without a preset
\* channel), open channels on their ports, break them, and point any tunnel at any channel name: "", own channel, the
\* other tunnel's channel, an unknown id; histories of up to 14 steps
CONSTANTS
  MaxTun = 2
  Sig = {"s1"}
  Acct = {a1, a2}
  Denom = {"ua", "ub"}
  FeeDenom = "ub"
  MinIv = 1
  MaxIv = 10
  MinDev = 50
  MaxDev = 3000
  SigSets <- Sig_all
  AmtSet <- Amt_zero
  ModeSet = {"ok"}
  InitBal = 3
  ParamSet <- P_1_2_3_4
  KindSet = {"ibc", "tss"}
  IvSet = {2}
  DevSet <- Dev_one
  FundSet = {}
  PriceSet = {}
  DtSet = {1}
  MaxCh = 1
  ChanArgs <- Ch_route
  RkSet = {"ibc", "tss"}
  OrdSet = {"UNORDERED", "ORDERED"}
  VerSet = {"tunnel-1", "", "bad"}
  HowSet = {"closed", "nocap"}
  MaxNow = 103
  NTun = 0
  InitFee = 0
  PreCh = 0
  MaxLog = 0
  MaxSteps = 14
INIT InitRoute
NEXT NextRoute
VIEW IView
CONSTRAINT BoundRoute
INVARIANTS IInv
PROPERTIES IbcSend IbcFee IbcRoute RouteRule CallbackInert ChanRule ISeqStep IPacketRule IFeesOnlyWithPackets IEndBlockFrame
CHECK_DEADLOCK FALSE
