--------------------------- MODULE OracleFee_Trace ---------------------------
(* Trace validation for OracleFee.tla: one TLC step per recorded line (single property, every      *)
(* variable checked).  Lines come from harness/fam_oraclefee (real MsgRequestData on oracle script  *)
(* Wasm4, real bank balances).                                                                      *)
EXTENDS OracleFee, Json

CONSTANTS TraceFile
TraceLog == ndJsonDeserialize(TraceFile)
VARIABLE l
tvars == <<vars, l>>

\* genesis of the driver's world (must agree with harness/fam_oraclefee)
TFee == (1 :> ("u" :> 1 @@ "x" :> 0)) @@ (2 :> ("u" :> 2 @@ "x" :> 1)) @@
        (3 :> ("u" :> 0 @@ "x" :> 0)) @@ (4 :> ("u" :> 0 @@ "x" :> 2))
TTreasuryOf == (1 :> "t1") @@ (2 :> "t2") @@ (3 :> "t3") @@ (4 :> "t1")

Line == TraceLog[l]
Vec(r) == [d \in Denom |-> r[d]]

Observed(st) ==
    /\ bal' = [a \in Acct |-> Vec(st.bal[a])]
    /\ nreq' = st.nreq
    /\ remain' = Vec(st.remain)
    /\ esc' = st.esc /\ nsig' = st.nsig

TraceInit ==
    /\ l = 1
    /\ bal = [a \in Acct |-> Zero] /\ nreq = 0 /\ remain = Zero
    /\ sigFee = 0 /\ open = <<>> /\ esc = 0 /\ nsig = 0
    /\ out = "init"
    /\ last = [p |-> CHOOSE p \in Payer : TRUE, ask |-> 0, srcs |-> <<>>, limit |-> Zero, enc |-> FALSE]

TReset ==
    /\ Line.e = "Reset"
    /\ Observed(Line.s)
    /\ Line.s.nreq = 0
    /\ sigFee' = Line.c.sigFee /\ open' = <<>>
    /\ out' = "init"
    /\ last' = [p |-> CHOOSE p \in Payer : TRUE, ask |-> 0, srcs |-> <<>>, limit |-> Zero, enc |-> FALSE]

TRequest ==
    /\ Line.e = "Request"
    /\ Request(Line.a.p, Line.a.ask, Line.a.srcs, Vec(Line.a.limit), Line.a.enc)
    /\ out' = (IF Line.o.ok THEN "ok" ELSE "rej")
    /\ Observed(Line.s)

\* the end of a block (all open requests were reported by their validators: each is resolved now)
TResolve ==
    /\ Line.e = "EndBlock"
    /\ Line.o.ok
    /\ IF open = <<>> THEN UNCHANGED vars ELSE Resolve
    /\ Observed(Line.s)

TraceNext == l <= Len(TraceLog) /\ l' = l + 1 /\ (TReset \/ TRequest \/ TResolve)
TraceSpec == TraceInit /\ [][TraceNext]_tvars

TraceAccepted ==
    LET d == TLCGet("stats").diameter IN
    IF d - 1 = Len(TraceLog) THEN TRUE
    ELSE Print(<<"TRACE_REJECTED_AT_LINE", d, "PHASE", "act", "OF", Len(TraceLog)>>, FALSE)

IsReset == l <= Len(TraceLog) /\ TraceLog[l].e = "Reset"
TExact == [][IsReset \/ ExactA]_tvars
TConserved == [][IsReset \/ ConservedA]_tvars
TSigning == [][IsReset \/ SigningA]_tvars
=============================================================================
