--------------------------- MODULE Genesis_Trace ---------------------------
(* Trace validation for Genesis.tla (extension X01): one TLC step per recorded line.                *)
(*                                                                                                  *)
(* Lines come from harness/fam_genesis.  One RUN = chain A (real BandApp, real FinalizeBlock /   *)
(* Commit, signed transactions of every band module) runs n blocks, is exported with                *)
(* app.ExportAppStateAndValidators at the committed height, chain B is InitChain'ed from the        *)
(* exported state (initial height h+1), then both execute the same k further blocks.  The driver    *)
(* records the runs of a script once per FACET (a collection of a module's store, the result codes  *)
(* of one transaction group, or "chain.live"): each such trace is the projection of Genesis.tla's   *)
(* state onto one facet (the domain of a, b, g is the singleton {facet}) and holds that facet's     *)
(* view of every run, one after the other (a Run line after the first starts the next run).  A      *)
(* deviation in one collection is therefore reported in that collection's trace and cannot hide     *)
(* the verdict on the others (bin/check stops a trace at its first rejected line).                  *)
(*                                                                                                  *)
(*   Reset     c = [facet, grp, runs]                                                              *)
(*   Run       s.a = digest of the facet on chain A at the committed height h                       *)
(*   Export    o = [ok, valid, bad]            (bad = modules whose ValidateGenesis refused)        *)
(*   Import    o = [ok, init]                  (init = InitChain accepted; ok = valid /\ init)      *)
(*   Compare   s = [a, b]  o.diff = all collections whose digests differ after the import           *)
(*   StepBoth  s = [a, b]  o = [errA, errB]    (one line per common block)                          *)
(*                                                                                                  *)
(* TLC gives the verdict through invariants.  RoundTrip and SameBehaviour are evaluated in every    *)
(* facet's trace; ExportedAlwaysValid, ImportAccepts and Live speak about the chain as a whole and   *)
(* are owned by the "chain.live" facet (a refused export must not be reported ninety times).        *)
(* `bad` marks a line that is not a step of the specification in the current phase (Consecutive).   *)
(* l counts consumed lines: an invariant violated in a state with l = k is a statement about line k.*)
EXTENDS Genesis, Json, Sequences, TLC

CONSTANTS TraceFile
TraceLog == ndJsonDeserialize(TraceFile)
VARIABLES l, bad, facet
tvars == <<vars, l, bad, facet>>

(* ---- the store layout of the eight band modules (x/<module>/types/keys.go), as in digest.go ---- *)
OracleColls == {"oracle.requestCount", "oracle.requestLastExpired", "oracle.pendingList", "oracle.dataSourceCount",
    "oracle.oracleScriptCount", "oracle.legacyRollingSeed", "oracle.requests", "oracle.reports", "oracle.dataSources",
    "oracle.oracleScripts", "oracle.validatorStatuses", "oracle.params", "oracle.signingResults", "oracle.results",
    "oracle.port", "oracle.other"}
TssColls == {"tss.groupCount", "tss.signingCount", "tss.pendingProcessGroups", "tss.pendingSignings", "tss.lastExpiredGroupID",
    "tss.signingExpirations", "tss.groups", "tss.members", "tss.dkgContexts", "tss.round1Infos", "tss.round1InfoCounts",
    "tss.accumulatedCommits", "tss.round2Infos", "tss.round2InfoCounts", "tss.complaints", "tss.confirms",
    "tss.confirmComplainCounts", "tss.de", "tss.deQueue", "tss.signings", "tss.partialSignatureCounts",
    "tss.partialSignatures", "tss.signingAttempts", "tss.params", "tss.other"}
BandtssColls == {"bandtss.signingCount", "bandtss.currentGroup", "bandtss.groupTransition", "bandtss.members",
    "bandtss.signings", "bandtss.signingIDMapping", "bandtss.params", "bandtss.other"}
FeedsVoteSide == {"feeds.votes", "feeds.signalTotalPowers", "feeds.signalTotalPowersByPowerIndex", "feeds.params",
    "feeds.referenceSourceConfig"}
FeedsColls == FeedsVoteSide \cup {"feeds.currentFeeds", "feeds.validatorPrices", "feeds.prices", "feeds.other"}
TunnelColls == {"tunnel.tunnelCount", "tunnel.totalFees", "tunnel.activeTunnelIDs", "tunnel.tunnels", "tunnel.packets",
    "tunnel.latestPrices", "tunnel.deposits", "tunnel.params", "tunnel.other"}
RestakeColls == {"restake.vaults", "restake.locks", "restake.stakes", "restake.locksByPowerIndex", "restake.params",
    "restake.other"}
RollingseedColls == {"rollingseed.seed", "rollingseed.other"}
GlobalfeeColls == {"globalfee.params", "globalfee.other"}
AllColls == OracleColls \cup TssColls \cup BandtssColls \cup FeedsColls \cup TunnelColls \cup RestakeColls
            \cup RollingseedColls \cup GlobalfeeColls

TxGroups == {"oracle", "tss", "bandtss", "feeds", "feedsvote", "tunnel", "restake", "globalfee", "sdk", "multi"}
TxFacet == [gr \in TxGroups |-> gr \o ".tx"]
TxFacets == {TxFacet[gr] : gr \in TxGroups}
AllFacets == AllColls \cup TxFacets \cup {"chain.live"}

(* behaviour group of a facet *)
TGroupOf(f) ==
    CASE f = "chain.live" -> "chain"
      [] f \in TxFacets -> CHOOSE gr \in TxGroups : TxFacet[gr] = f
      [] f \in FeedsVoteSide -> "feedsvote"
      [] f \in OracleColls -> "oracle"
      [] f \in TssColls -> "tss"
      [] f \in BandtssColls -> "bandtss"
      [] f \in FeedsColls -> "feeds"
      [] f \in TunnelColls -> "tunnel"
      [] f \in RestakeColls -> "restake"
      [] f \in RollingseedColls -> "rollingseed"
      [] OTHER -> "globalfee"

(* What the behaviour of a group may depend on (module level, read from the keepers' expected-     *)
(* keeper interfaces and hooks; cfg: Deps <- TDeps):                                                *)
(*   globalfee    its params only                                                                   *)
(*   rollingseed  its own seed (and the block hash, an input)                                       *)
(*   restake      its own store; locks are set by feeds' MsgVote -> the vote side of x/feeds        *)
(*   feedsvote    votes, totals, index, params of x/feeds; voter power comes from staking + restake *)
(*   sdk          bank/staking/gov transactions; the staking hooks of x/restake read its locks      *)
(*   chain        liveness of the imported chain is required unconditionally                        *)
(*   oracle, tss, bandtss, feeds (price side), tunnel, multi: these call each other in both          *)
(*                directions (requests -> signings -> callbacks, prices -> packets -> signings,      *)
(*                validator status -> prices, rolling seed -> committees): everything                *)
VoteAndStake == RestakeColls \cup FeedsVoteSide
TDeps == [gr \in TxGroups \cup {"chain", "rollingseed"} |->
    CASE gr = "chain" -> {}
      [] gr = "globalfee" -> GlobalfeeColls
      [] gr = "rollingseed" -> RollingseedColls
      [] gr \in {"restake", "feedsvote", "sdk"} -> VoteAndStake
      [] OTHER -> AllColls]

Line == TraceLog[l + 1]
ToSet(s) == {s[i] : i \in 1..Len(s)}
One(v) == (facet :> v)

TraceInit ==
    /\ l = 0 /\ bad = FALSE /\ facet = "-"
    /\ Init({"-"}, [f \in {"-"} |-> "chain"], [f \in {"-"} |-> "-"])

IsReset == Line.e = "Reset" /\ Line.c.facet \in AllFacets /\ Line.c.grp = TGroupOf(Line.c.facet)
IsRun == Line.e = "Run" /\ phase \in {"run", "refused", "compared", "stepping"} /\ facet # "-"
IsExport == Line.e = "Export" /\ phase = "run" /\ facet # "-"
IsImport == Line.e = "Import" /\ phase = "exported" /\ Line.o.ok = (valid /\ Line.o.init)
IsCompare == Line.e = "Compare" /\ phase = "imported" /\ Line.a.facet = facet /\ Line.s.a = g[facet]
IsStepBoth == /\ Line.e = "StepBoth" /\ phase \in {"compared", "stepping"} /\ Line.a.facet = facet
              /\ errA = "none" /\ errB = "none"

TReset ==
    /\ IsReset
    /\ facet' = Line.c.facet
    /\ phase' = "run"
    /\ a' = (Line.c.facet :> "-") /\ b' = a' /\ g' = a'
    /\ grp' = (Line.c.facet :> Line.c.grp)
    /\ valid' = TRUE /\ initok' = TRUE /\ diff' = {}
    /\ errA' = "none" /\ errB' = "none"
    /\ bad' = FALSE

TRun == /\ IsRun
        /\ IF phase = "run" THEN Run(One(Line.s.a)) ELSE Restart(One(Line.s.a))
        /\ UNCHANGED <<bad, facet>>
TExport == IsExport /\ Export(Line.o.ok, Line.o.valid) /\ UNCHANGED <<bad, facet>>
TImport == IsImport /\ Import(Line.o.init) /\ UNCHANGED <<bad, facet>>
TCompare == IsCompare /\ Compare(One(Line.s.b), ToSet(Line.o.diff)) /\ UNCHANGED <<bad, facet>>
TStepBoth == IsStepBoth /\ StepBoth(One(Line.s.a), One(Line.s.b), Line.o.errA, Line.o.errB) /\ UNCHANGED <<bad, facet>>

TMalformed ==
    /\ ~IsReset /\ ~IsRun /\ ~IsExport /\ ~IsImport /\ ~IsCompare /\ ~IsStepBoth
    /\ bad' = TRUE
    /\ UNCHANGED <<vars, facet>>

TraceNext == l < Len(TraceLog) /\ l' = l + 1 /\ (TReset \/ TRun \/ TExport \/ TImport \/ TCompare \/ TStepBoth \/ TMalformed)
TraceSpec == TraceInit /\ [][TraceNext]_tvars

(* ---- the invariants of the trace cfg ---- *)
Whole == facet = "chain.live"
TExportedAlwaysValid == Whole => ExportedAlwaysValid
TImportAccepts == Whole => ImportAccepts
TLive == Whole => Live
(* the driver's list of differing collections agrees with what TLC sees in this collection's own trace *)
DiffConsistent == (phase = "compared" /\ facet \in AllColls) => ((facet \in diff) <=> ~RT(facet))
DiffKnown == diff \subseteq AllColls
Consecutive == ~bad

\* every line was consumed (false exactly when an invariant stopped the run earlier)
TraceAccepted == TLCGet("stats").diameter - 1 = Len(TraceLog)
=============================================================================
