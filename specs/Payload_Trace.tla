---------------------------- MODULE Payload_Trace ----------------------------
(***************************************************************************)
(* Trace validation for Payload.tla (property C11).  Every line was        *)
(* recorded from the real code by harness/fam_payload: the driver issues   *)
(* requests through bandtss MsgRequestSignature (every content kind), the  *)
(* oracle end-block (results with a TSS encoder), tunnel MsgTriggerTunnel  *)
(* and the tunnel end-block (TSS routes), and the bandtss group transition *)
(* callback; after every step it reads each new Signing.Message from the   *)
(* tss store and decodes it STRUCTURALLY (fixed offsets 32/8/8/4, tag      *)
(* table computed from the documented keccak pre-images, go-ethereum abi / *)
(* a protobuf wire reader for the payload), and logs                       *)
(*    created[i].dec    the decoded tuple                                  *)
(*    created[i].ohx    keccak(originator) recomputed from the documented  *)
(*                      layout                                             *)
(*    created[i].mh     a short hash of the message bytes                  *)
(*    created[i].src/o/c  the request: source, originator and the on-chain *)
(*                      data the content must encode (result, prices,      *)
(*                      packet, key), read by the driver at request time   *)
(* The spec builds Msg(request) and compares; it keeps the hashes and the  *)
(* (originator, hash) pairs seen so far.                                   *)
(*                                                                         *)
(* Act / Sync as in Oracle_Trace.tla.                                      *)
(***************************************************************************)
EXTENDS Payload, Json

CONSTANTS TraceFile, Checked, Owned
TraceLog == ndJsonDeserialize(TraceFile)

VARIABLES l, ph,
          mhs,     \* short hashes of the messages of signings 1..sigc
          ohs      \* pairs <<originator, keccak(originator) as found in a message>>
tvars == <<vars, l, ph, mhs, ohs>>

Line == TraceLog[l]
Outcome == IF Line.o.ok THEN "ok" ELSE "rej"
Range(s) == {s[i] : i \in 1..Len(s)}

TraceInit ==
    /\ l = 1 /\ ph = "act"
    /\ chain = <<>> /\ now = 0 /\ sigc = 0 /\ reqs = <<>> /\ out = "init"
    /\ mhs = <<>> /\ ohs = {}

ResetVars(c, st) ==
    /\ c.maxMemo = MaxMemo /\ c.maxText = MaxText /\ c.maxSigs = MaxSigs
    /\ st.sigc = 0
    /\ chain' = c.chain /\ now' = st.now /\ sigc' = 0 /\ reqs' = <<>> /\ out' = "init"
    /\ mhs' = <<>> /\ ohs' = {}

\* the structural decoding of the stored message equals the abstract message of the request
DecOK(it, r) ==
    /\ it.dec.ok
    /\ it.dec.oh = it.ohx                      \* keccak(originator) as recomputed from the documented layout
    /\ it.o = r.o /\ it.c = r.c /\ it.src = r.src
    /\ [time |-> it.dec.time, id |-> it.dec.id, tag |-> it.dec.tag, shape |-> it.dec.shape, fields |-> it.dec.fields]
         = [time |-> Msg(r).time, id |-> Msg(r).id, tag |-> Msg(r).tag, shape |-> Msg(r).shape, fields |-> Msg(r).fields]

\* bookkeeping over the whole run: message hashes pairwise distinct; originator <-> hash is one-to-one
Seen(items) ==
    /\ \A i \in 1..Len(items) : items[i].mh \notin Range(mhs) /\ \A j \in 1..Len(items) : i # j => items[i].mh # items[j].mh
    /\ mhs' = mhs \o [i \in 1..Len(items) |-> items[i].mh]
    /\ ohs' = ohs \cup {<<items[i].o, items[i].dec.oh>> : i \in 1..Len(items)}
    /\ \A x, y \in ohs' : (x[1] = y[1]) <=> (x[2] = y[2])

Decoded(items) ==
    /\ sigc' = sigc + Len(items)
    /\ \A i \in 1..Len(items) : DecOK(items[i], reqs'[sigc + i])
    /\ Seen(items)

FromItems(items) == [i \in 1..Len(items) |-> [src |-> items[i].src, o |-> items[i].o, t |-> now, id |-> sigc + i, c |-> items[i].c]]

TRequest ==
    LET a == Line.a IN
    /\ UserRequest(a.sender, a.memo, a.c, IF a.created = <<>> THEN 1 ELSE Len(a.created))
    /\ out' = Outcome
    /\ Decoded(a.created)

\* a tunnel trigger / an environment step that happened to create signings: the modules' rule applies
TModule ==
    LET a == Line.a IN
    IF a.created = <<>> THEN UNCHANGED vars /\ UNCHANGED <<mhs, ohs>>
    ELSE /\ EndBlock(FromItems(a.created), 0)
         /\ Decoded(a.created)

TEndBlock ==
    LET a == Line.a IN
    /\ Line.o.ok
    /\ EndBlock(FromItems(a.created), a.dt)
    /\ Decoded(a.created)

Act ==
    /\ ph = "act" /\ l <= Len(TraceLog)
    /\ ph' = "sync" /\ l' = l
    /\ IF Line.e = "Reset" THEN ResetVars(Line.c, Line.s)
       ELSE IF Line.e \notin Owned THEN UNCHANGED vars /\ UNCHANGED <<mhs, ohs>>
       ELSE CASE Line.e = "Request"  -> TRequest
              [] Line.e = "Trigger"  -> TModule
              [] Line.e = "Env"      -> TModule
              [] Line.e = "EndBlock" -> TEndBlock

Bind(name, cur, nxt, obs) == IF name \in Checked THEN cur = obs /\ nxt = cur ELSE nxt = obs

Sync ==
    /\ ph = "sync"
    /\ ph' = "act" /\ l' = l + 1
    /\ LET st == Line.s IN
        /\ Bind("now", now, now', st.now)
        /\ Bind("sigc", sigc, sigc', st.sigc)
        /\ Bind("mhs", mhs, mhs', st.mhs)
    /\ UNCHANGED <<chain, reqs, out, ohs>>

TraceNext == Act \/ Sync
TraceSpec == TraceInit /\ [][TraceNext]_tvars

TraceAccepted ==
    LET d == TLCGet("stats").diameter IN
    IF d - 1 = 2 * Len(TraceLog) THEN TRUE
    ELSE Print(<<"TRACE_REJECTED_AT_LINE", (d + 1) \div 2, "PHASE", IF d % 2 = 1 THEN "act" ELSE "sync", "OF", Len(TraceLog)>>, FALSE)

TraceBoundOK == sigc < MaxSig

AtLine == ph = "act"
TInv == AtLine => (Inv /\ Len(mhs) = sigc)

Exempt == ph = "sync" \/ (l <= Len(TraceLog) /\ TraceLog[l].e = "Reset")
TAppendOnly == [][Exempt \/ AppendOnlyA]_tvars
TRejectRule == [][Exempt \/ RejectA]_tvars
=============================================================================
