\* facet: no current group at the start (first group ever: key generation completes with nobody to sign)
CONSTANTS
  Addr = {"a1", "a2", "a3"}
  Payer = {"p1"}
  MaxG = 2
  MaxSig = 1
  MemberMenu = {{"a1", "a2"}, {"a2", "a3"}}
  MinDur = 1
  MaxDur = 3
  PeriodSet = {1}
  CreateSet = {2}
  FeeSet = {1}
  DtSet = {1}
  LimitSet = {1, 2}
  ExecOffsets = {1, 3}
  MaxH = 6
  StartWithGroup = FALSE
  Bal0 = 3
INIT Init
NEXT Next
VIEW View
CONSTRAINT Bound
INVARIANTS Inv
PROPERTIES GroupChange WaitingExec OneTransition Start Conserved PayIn PayOut RejectedUnchanged NoPayOnFail
CHECK_DEADLOCK FALSE
