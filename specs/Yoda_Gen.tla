----------------------------- MODULE Yoda_Gen -----------------------------
(***************************************************************************)
(* GEN role: `tlc -simulate` draws a scenario (requests, raw requests with *)
(* repeated data sources, executable lengths, cache content, RPC failure   *)
(* budgets, executor outcomes, direct calls or start-up list +             *)
(* transactions), then walks Yoda's next-state relation under the driver's *)
(* discipline (an environment action only when the daemon has come to      *)
(* rest) and records the environment actions as a role-relative script:    *)
(* "request j", "raw request k of request j", "transaction group g".       *)
(* At depth Depth the script is appended to the file named by GEN_OUT.     *)
(* The driver (harness/fam_yoda) completes every script by letting the     *)
(* remaining executor calls return and delivering the queued reports.      *)
(***************************************************************************)
EXTENDS Yoda, IOUtils, Json

CONSTANTS Depth

LenSeq == <<1, 5, 24, 25, 31, 32, 33, 1000>>     \* executable lengths (DESIGN C19)

VARIABLES script, wish, gph, n, groups, rnd
gvars == <<vars, script, wish, gph, n, groups, rnd>>

SeqOf(S) == CHOOSE s \in [1..Cardinality(S) -> S] : {s[i] : i \in 1..Cardinality(S)} = S
SortedSeq(S) == CHOOSE s \in [1..Cardinality(S) -> S] :
                    /\ {s[i] : i \in 1..Cardinality(S)} = S
                    /\ \A i, j \in 1..Cardinality(S) : i < j => s[i] < s[j]

Empty ==
    [exists |-> [r \in Req |-> FALSE], hasMe |-> [r \in Req |-> FALSE], raws |-> [r \in Req |-> <<>>],
     exec |-> [r \in Req |-> <<>>], fReq |-> [r \in Req |-> 0], fHash |-> [d \in DS |-> 0],
     fData |-> [d \in DS |-> 0], len |-> [d \in DS |-> 1000], cached |-> [d \in DS |-> TRUE], dmg |-> [d \in DS |-> FALSE]]

GInit ==
    /\ sc = Empty /\ Init0 /\ InitCache
    /\ script = <<>> /\ wish = <<>> /\ gph = "draw" /\ n = 0 /\ groups = <<>> /\ rnd = <<>>

\* all randomness of a scenario is drawn once, as a vector of independent numbers; everything else is a
\* deterministic function of it (RandomElement must not be evaluated twice for the same choice)
NRnd == 80
GDraw ==
    /\ gph = "draw" /\ gph' = "setup"
    /\ rnd' = [i \in 1..NRnd |-> RandomElement(0..55439)]
    /\ UNCHANGED <<vars, script, wish, groups>>

Mod(i, k) == rnd[i] % k
Chance(i, k) == Mod(i, k) = 0                 \* TRUE with probability 1/k
PickOf(i, s) == s[Mod(i, Len(s)) + 1]

QB(r) == 2 + (r - 1) * 16                     \* index base of request r
DB(d) == 52 + (d - 1) * 6                     \* index base of data source d

BudgetAt(i, pAlways, pTransient) ==
    IF Chance(i, pAlways) THEN Always ELSE IF Mod(i + 1, pTransient) = 0 THEN 1 + Mod(i + 2, MaxTry - 1) ELSE 0

OutcomeAt(i, k) ==
    LET x == Mod(i, 20) IN
    IF x < 4 THEN [kind |-> "error", code |-> 0, out |-> 0]
    ELSE IF x < 8 THEN [kind |-> "nonZero", code |-> PickOf(i, <<1, 2, 127, 254>>), out |-> k]
    ELSE IF x < 10 THEN [kind |-> "slow", code |-> 0, out |-> k + 4]
    ELSE [kind |-> "ok", code |-> 0, out |-> k]

GSetup ==
    LET nreq   == PickOf(1, <<1, 2, 2, 3>>)
        txmode == Chance(2, 4)
        want   == [r \in Req |-> IF r > nreq THEN "none" ELSE IF Chance(QB(r) + 1, 8) THEN "other"
                                 ELSE IF ~txmode /\ Mod(QB(r) + 1, 8) = 1 /\ Chance(QB(r) + 15, 2) THEN "absent" ELSE "me"]
        shape  == [r \in Req |-> IF Chance(QB(r) + 2, 8) THEN "ok3" ELSE IF Mod(QB(r) + 2, 8) = 1 THEN "ok1" ELSE "w4"]
        cnt    == [r \in Req |-> IF shape[r] = "ok3" THEN 3 ELSE IF shape[r] = "ok1" THEN 1 ELSE 1 + Mod(QB(r) + 3, 4)]
        dsOf   == [r \in Req |-> [k \in 1..cnt[r] |-> IF shape[r] = "w4" THEN 1 + Mod(QB(r) + 3 + k, Cardinality(DS)) ELSE k]]
        fixed  == {d \in DS : \E r \in Req : want[r] \in {"me", "other"} /\ shape[r] # "w4" /\ d \in {dsOf[r][k] : k \in 1..cnt[r]}}
        lens   == [d \in DS |-> IF d \in fixed THEN 1000 ELSE PickOf(DB(d) + 1, LenSeq)]
        \* short executables are mostly cached: the fetch path with fewer than 25 bytes is a known crash
        cach   == [d \in DS |-> IF lens[d] < 25 THEN ~Chance(DB(d) + 2, 12) ELSE Chance(DB(d) + 2, 2)]
        \* now and then the cache holds a damaged file under the hash of an executable that is not cached
        dmgv   == [d \in DS |-> ~cach[d] /\ lens[d] >= 25 /\ Chance(DB(d) + 5, 4)]
        exec   == [r \in Req |-> [k \in 1..cnt[r] |-> OutcomeAt(QB(r) + 7 + k, k)]]
        fReq   == [r \in Req |-> BudgetAt(QB(r) + 12, 12, 6)]
        fHash  == [d \in DS |-> BudgetAt(DB(d) + 3, 16, 6)]
        fData  == [d \in DS |-> IF Chance(DB(d) + 2, 7) THEN Always ELSE BudgetAt(DB(d) + 3, 1000, 5)]
        tx     == [r \in Req |-> IF txmode /\ want[r] \in {"me", "other"} THEN 1 + Mod(QB(r) + 15, 2) ELSE 0]
    IN
    /\ gph = "setup" /\ gph' = "run"
    /\ sc' = [exists |-> [r \in Req |-> want[r] \in {"me", "other"}],
              hasMe  |-> [r \in Req |-> want[r] = "me"],
              raws   |-> [r \in Req |-> IF want[r] \in {"me", "other"} THEN [k \in 1..cnt[r] |-> [eid |-> k - 1, ds |-> dsOf[r][k]]] ELSE <<>>],
              exec   |-> [r \in Req |-> IF want[r] \in {"me", "other"} THEN exec[r] ELSE <<>>],
              fReq   |-> fReq, fHash |-> fHash, fData |-> fData, len |-> lens, cached |-> cach, dmg |-> dmgv]
    /\ cache' = {d \in DS : cach[d]}
    /\ wish' = [maxTry |-> MaxTry,
                reqs |-> [r \in 1..nreq |-> [want |-> want[r], shape |-> shape[r], raws |-> dsOf[r], fReq |-> fReq[r],
                                             tx |-> tx[r], exec |-> exec[r]]],
                ds   |-> [d \in DS |-> [len |-> lens[d], cached |-> cach[d], dmg |-> dmgv[d], fHash |-> fHash[d], fData |-> fData[d]]]]
    /\ groups' = [g \in 1..2 |-> {r \in Req : tx[r] = g}]
    /\ script' = <<>>
    /\ UNCHANGED <<rnd, booted, pend, announced, intx, txs, hpc, hidx, wpc, results, collected, msgs, crashed, reported, delivered, out>>

Live == {r \in Req : r <= Len(wish.reqs)}
TxMode == \E g \in 1..2 : groups[g] # {}
AtGate == {w \in Req \X (1..4) : w[2] <= Len(wpc[w[1]]) /\ wpc[w[1]][w[2]] = "atGate"}
Fast == {w \in AtGate : sc.exec[w[1]][w[2]].kind # "slow"}
\* slow executor calls return only when nothing else can happen
Releasable == IF Fast # {} THEN Fast ELSE AtGate

\* the start-up answer of a real node is a consistent snapshot: whole transactions
StartupSets == {UNION {{r \in groups[g] : Wanted(r)} : g \in G} : G \in SUBSET {1, 2}}

\* pairs of simultaneous releases are taken with probability 1/3 (position n of the random vector)
EnvStep ==
    \/ /\ ~TxMode
       /\ \E S \in SUBSET (Live \ announced) :
            /\ Cardinality(S) \in {1, 2}
            /\ Start(S)
            /\ script' = Append(script, [e |-> "Start", rs |-> SeqOf(S)])
    \/ /\ TxMode /\ ~booted
       /\ \E P \in StartupSets :
            /\ Startup(P)
            /\ script' = Append(script, [e |-> "Startup", P |-> SortedSeq(P)])
    \/ /\ TxMode /\ booted
       /\ \E g \in 1..2 :
            /\ groups[g] # {} /\ groups[g] \cap intx = {}
            /\ Tx(SortedSeq(groups[g]))
            /\ script' = Append(script, [e |-> "Tx", g |-> g])
    \/ \E W \in SUBSET Releasable :
            /\ Cardinality(W) \in {1, 2}
            /\ ReleaseMany(SeqOf(W))
            /\ script' = Append(script, [e |-> "Release", ws |-> SeqOf(W)])

Idle ==
    /\ AtGate = {}
    /\ IF TxMode THEN booted /\ \A g \in 1..2 : groups[g] \subseteq intx ELSE Live \subseteq announced

Last == n >= Depth - 3

GNext ==
    /\ n' = n + 1
    /\ \/ GDraw
       \/ GSetup
       \/ /\ gph = "run" /\ ~Last /\ ~Quiescent
          /\ Internal /\ UNCHANGED <<script, wish, gph, groups, rnd>>
       \/ /\ gph = "run" /\ ~Last /\ Quiescent /\ ~Idle
          /\ EnvStep /\ UNCHANGED <<wish, gph, groups, rnd>>
       \/ /\ gph = "run" /\ (Last \/ (Quiescent /\ Idle))
          /\ UNCHANGED <<vars, script, wish, gph, groups, rnd>>

GSpec == GInit /\ [][GNext]_gvars

Emit ==
    TLCGet("level") = Depth =>
        Serialize(<<[fam |-> "Yoda", c |-> wish, steps |-> script]>>,
                  IOEnv.GEN_OUT,
                  [format |-> "NDJSON", charset |-> "UTF-8", openOptions |-> <<"WRITE", "CREATE", "APPEND">>])
=============================================================================
