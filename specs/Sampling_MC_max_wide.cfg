\* ChooseSomeMaxWeight: <= 4 entries over 1..2, cnt 1..2, tries 1..2, every stream of cnt*tries draws over 0..7
CONSTANTS
  SeedLen = 3
  Byte = {0, 1}
  Facet = "max"
  MaxN = 4
  WSet = {1, 2}
  MaxCnt = 2
  MaxTries = 2
  DSet = {0, 1, 2, 3, 4, 5, 6, 7}
  IdSet = {1}
INIT MCInit
NEXT MCNext
VIEW View
INVARIANTS Valid Deterministic Consumed OneSpec SomeSpec MaxSpec ShufSpec
PROPERTIES SeedRule
CHECK_DEADLOCK FALSE
