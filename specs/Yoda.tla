------------------------------- MODULE Yoda -------------------------------
(***************************************************************************)
(* The request handling of the yoda daemon (yoda/handler.go, execute.go),  *)
(* written in the style of a PlusCal translation: one program counter per  *)
(* goroutine, one action per step of the code between two blocking points. *)
(*                                                                         *)
(*   Handler(r)    = handleRequest(c, l, r)      hpc[r]                    *)
(*   Worker(r, k)  = handleRawRequest(...)       wpc[r][k]                 *)
(*   TxProc        = handleTransaction(c, l, tx) txs                       *)
(*                                                                         *)
(* The environment (chain content, RPC failures, file cache, executor      *)
(* results) is the scenario `sc`; it does not change during a behaviour.   *)
(* Environment actions: Startup / Start / Tx announce requests to the      *)
(* daemon, WRelease lets a blocked executor call return, Deliver hands a   *)
(* queued report to the chain's report validation.                         *)
(*                                                                         *)
(* RPC failures (abciQuery retries maxTry times, execute.go): a failure    *)
(* budget f per query key: the first f calls for the key fail.  f < MaxTry *)
(* is a transient failure (the retry loop masks it, whatever the           *)
(* interleaving of concurrent callers, because at most f < MaxTry calls    *)
(* fail in total); f = Always is a persistent failure (every call fails,   *)
(* the loop gives up).  The loop itself has no other effect and is one     *)
(* atomic step here.                                                       *)
(*                                                                         *)
(* Two switches describe the code AS WRITTEN where it differs from what    *)
(* the property demands; the checked configuration has both off:           *)
(*   SliceBug = TRUE  GetExecutable evaluates resValue[:32]; on the fetch  *)
(*                    path the slice has capacity < 32 for executables     *)
(*                    shorter than 25 bytes: the goroutine panics and      *)
(*                    the daemon dies.                                     *)
(*   TxSkip = "return"  handleTransaction leaves the loop at the first id  *)
(*                    found in c.pendingRequests (the code);               *)
(*          = "continue" it skips only that id.                            *)
(***************************************************************************)
EXTENDS Integers, Sequences, FiniteSets, TLC

CONSTANTS Req,        \* request ids of a scenario
          DS,         \* data sources of a scenario
          MaxTry,     \* c.maxTry
          SliceBug, TxSkip,
          AssumeSnapshot  \* environment assumption on Startup/Tx (see SnapshotOK)

Always == 99          \* failure budget "every call fails"

VARIABLES
    sc,         \* scenario: [exists, hasMe, raws, fReq, exec : per request; fHash, fData, len, cached, dmg : per data source]
                \* (dmg: the cache holds a DAMAGED file under the executable's hash - not cached; the integrity check of
                \*  the file cache refuses it at every read and AddFile never rewrites an existing name)
    booted,     \* runImpl has queried the pending requests
    pend,       \* c.pendingRequests
    announced,  \* ghost: requests the daemon has been told about (start-up list, a transaction, or a direct call)
    intx,       \* ghost: requests that occurred in an inspected transaction
    txs,        \* handleTransaction: ids still to be looked at (<<>> = no transaction being inspected)
    hpc, hidx,  \* handler: program counter, index of the next raw request whose data source hash is looked up
    wpc,        \* worker program counters
    results,    \* resultsChan of handleRawRequests (buffered: capacity = number of raw requests)
    collected,  \* reports gathered by the handler so far
    cache,      \* data sources whose executable is in the daemon's file cache
    msgs,       \* every message ever sent on c.pendingMsgs, in order
    crashed,    \* a goroutine panicked: the process is gone
    reported,   \* chain side: requests for which this validator's report was accepted
    delivered,  \* indices of msgs already handed to the chain
    out         \* outcome of the last Deliver ("ok"/"rej")

vars == <<sc, booted, pend, announced, intx, txs, hpc, hidx, wpc, results, collected, cache, msgs, crashed,
          reported, delivered, out>>

Range(s) == {s[i] : i \in 1..Len(s)}
N(r) == Len(sc.raws[r])
Raw(r, k) == sc.raws[r][k]
Rep(e, c, o) == [eid |-> e, code |-> c, out |-> o]

\* what the executor call of raw request k of r yields (handler.go: error => 255 with empty output)
ExecRep(r, k) ==
    LET o == sc.exec[r][k] e == Raw(r, k).eid
    IN IF o.kind = "error" THEN Rep(e, 255, 0) ELSE Rep(e, o.code, o.out)

-----------------------------------------------------------------------------
Init0 ==
    /\ booted = FALSE /\ pend = {} /\ announced = {} /\ intx = {} /\ txs = <<>>
    /\ hpc = [r \in Req |-> "idle"] /\ hidx = [r \in Req |-> 0]
    /\ wpc = [r \in Req |-> <<>>]
    /\ results = [r \in Req |-> <<>>] /\ collected = [r \in Req |-> <<>>]
    /\ msgs = <<>> /\ crashed = FALSE /\ reported = {} /\ delivered = {} /\ out = "init"

\* the daemon's cache at start: exactly the data sources the scenario marks cached
InitCache == cache = {d \in DS : sc.cached[d]}

\* `go handleRequest(c, l, id)` for every id of S
Spawn(S) == hpc' = [r \in Req |-> IF r \in S THEN "getReq" ELSE hpc[r]]

\* an id of a transaction that is already in the start-up list while a LATER id of the same transaction
\* that selects this validator is not: impossible on a real chain, where the start-up query sees either
\* all requests of a transaction or none, and lists every unreported request that selects the validator
Wanted(r) == sc.exists[r] /\ sc.hasMe[r]
SnapshotOK(P, ids) ==
    \A i, j \in 1..Len(ids) : (i < j /\ ids[i] \in P /\ Wanted(ids[j])) => ids[j] \in P

(* ---- environment: how requests reach the daemon ---- *)

\* runImpl: query PendingRequests, remember the ids, spawn a handler for each
Startup(P) ==
    /\ ~crashed /\ ~booted /\ announced = {}
    /\ booted' = TRUE /\ pend' = P /\ announced' = P
    /\ Spawn(P)
    /\ UNCHANGED <<sc, intx, txs, hidx, wpc, results, collected, cache, msgs, crashed, reported, delivered, out>>

\* direct calls of handleRequest (what runImpl/handleTransaction do with `go`)
Start(S) ==
    /\ ~crashed /\ S # {} /\ S \cap announced = {}
    /\ announced' = announced \cup S
    /\ Spawn(S)
    /\ UNCHANGED <<sc, booted, pend, intx, txs, hidx, wpc, results, collected, cache, msgs, crashed, reported, delivered, out>>

\* a transaction event with request ids `ids` arrives: `go handleTransaction`
Tx(ids) ==
    /\ ~crashed /\ txs = <<>> /\ Len(ids) > 0
    /\ \A i, j \in 1..Len(ids) : i # j => ids[i] # ids[j]
    /\ Range(ids) \cap intx = {}
    /\ \A i \in 1..Len(ids) : ids[i] \in pend \/ ids[i] \notin announced
    /\ AssumeSnapshot => SnapshotOK(pend, ids)
    /\ txs' = ids /\ intx' = intx \cup Range(ids) /\ announced' = announced \cup Range(ids)
    /\ UNCHANGED <<sc, booted, pend, hpc, hidx, wpc, results, collected, cache, msgs, crashed, reported, delivered, out>>

(* ---- handleTransaction: one loop iteration ---- *)
TxIter ==
    /\ ~crashed /\ txs # <<>>
    /\ LET id == Head(txs) IN
         IF id \in pend
         THEN /\ txs' = IF TxSkip = "return" THEN <<>> ELSE Tail(txs)
              /\ UNCHANGED hpc
         ELSE /\ txs' = Tail(txs)
              /\ Spawn({id})
    /\ UNCHANGED <<sc, booted, pend, announced, intx, hidx, wpc, results, collected, cache, msgs, crashed, reported, delivered, out>>

(* ---- handleRequest ---- *)

\* GetRequest + the hasMe test.  A request that does not exist yields an empty value, which unmarshals
\* to the zero request: no validator matches.
HGetRequest(r) ==
    /\ ~crashed /\ hpc[r] = "getReq"
    /\ IF sc.fReq[r] = Always \/ ~sc.exists[r] \/ ~sc.hasMe[r]
       THEN hpc' = [hpc EXCEPT ![r] = "done"] /\ UNCHANGED hidx
       ELSE hpc' = [hpc EXCEPT ![r] = "getHash"] /\ hidx' = [hidx EXCEPT ![r] = 1]
    /\ UNCHANGED <<sc, booted, pend, announced, intx, txs, wpc, results, collected, cache, msgs, crashed, reported, delivered, out>>

\* the loop over req.RawRequests calling GetDataSourceHash; after the last one handleRawRequests makes
\* the channel and spawns one worker per raw request
HGetHash(r) ==
    /\ ~crashed /\ hpc[r] = "getHash"
    /\ LET k == hidx[r] IN
         IF k > N(r)
         THEN /\ wpc' = [wpc EXCEPT ![r] = [j \in 1..N(r) |-> "getExec"]]
              /\ hpc' = [hpc EXCEPT ![r] = IF N(r) = 0 THEN "push" ELSE "collect"]
              /\ UNCHANGED hidx
         ELSE IF sc.fHash[Raw(r, k).ds] = Always
         THEN hpc' = [hpc EXCEPT ![r] = "done"] /\ UNCHANGED <<hidx, wpc>>
         ELSE hidx' = [hidx EXCEPT ![r] = k + 1] /\ UNCHANGED <<hpc, wpc>>
    /\ UNCHANGED <<sc, booted, pend, announced, intx, txs, results, collected, cache, msgs, crashed, reported, delivered, out>>

\* `result := <-resultsChan` ; after len(reqs) results the loop ends
HCollect(r) ==
    /\ ~crashed /\ hpc[r] = "collect" /\ results[r] # <<>>
    /\ collected' = [collected EXCEPT ![r] = Append(@, Head(results[r]))]
    /\ results' = [results EXCEPT ![r] = Tail(@)]
    /\ hpc' = [hpc EXCEPT ![r] = IF Len(collected[r]) + 1 = N(r) THEN "push" ELSE "collect"]
    /\ UNCHANGED <<sc, booted, pend, announced, intx, txs, hidx, wpc, cache, msgs, crashed, reported, delivered, out>>

\* c.pendingMsgs <- ReportMsgWithKey{msg: NewMsgReportData(id, reports, validator)}
HPush(r) ==
    /\ ~crashed /\ hpc[r] = "push"
    /\ msgs' = Append(msgs, [rid |-> r, reps |-> collected[r]])
    /\ hpc' = [hpc EXCEPT ![r] = "done"]
    /\ UNCHANGED <<sc, booted, pend, announced, intx, txs, hidx, wpc, results, collected, cache, crashed, reported, delivered, out>>

(* ---- handleRawRequest ---- *)

\* GetExecutable (then the verification message is signed, and the worker blocks in executor.Exec)
WGetExec(r, k) ==
    /\ ~crashed /\ k \in 1..Len(wpc[r]) /\ wpc[r][k] = "getExec"
    /\ LET d == Raw(r, k).ds IN
         IF d \in cache                                   \* cache path: io.ReadAll slice, capacity >= 512
         THEN /\ wpc' = [wpc EXCEPT ![r][k] = "atGate"]
              /\ UNCHANGED <<cache, results, crashed>>
         ELSE IF sc.fData[d] = Always                     \* fetch path, the Data query fails: exit code 255
         THEN /\ results' = [results EXCEPT ![r] = Append(@, Rep(Raw(r, k).eid, 255, 0))]
              /\ wpc' = [wpc EXCEPT ![r][k] = "done"]
              /\ UNCHANGED <<cache, crashed>>
         ELSE /\ cache' = (IF sc.dmg[d] THEN cache ELSE cache \cup {d})   \* fetch path: c.fileCache.AddFile(dr.Data)
              /\ IF SliceBug /\ sc.len[d] < 25            \* resValue[:32] on a slice of capacity < 32
                 THEN crashed' = TRUE /\ UNCHANGED wpc
                 ELSE crashed' = crashed /\ wpc' = [wpc EXCEPT ![r][k] = "atGate"]
              /\ UNCHANGED results
    /\ UNCHANGED <<sc, booted, pend, announced, intx, txs, hpc, hidx, collected, msgs, reported, delivered, out>>

\* environment: the executor call of worker (r,k) returns; the worker puts its report on the channel
WRelease(r, k) ==
    /\ ~crashed /\ k \in 1..Len(wpc[r]) /\ wpc[r][k] = "atGate"
    /\ results' = [results EXCEPT ![r] = Append(@, ExecRep(r, k))]
    /\ wpc' = [wpc EXCEPT ![r][k] = "done"]
    /\ UNCHANGED <<sc, booted, pend, announced, intx, txs, hpc, hidx, collected, cache, msgs, crashed, reported, delivered, out>>

\* several executor calls return "at once": their reports reach the channels in some order
WPerms(ws) == {p \in [1..Len(ws) -> 1..Len(ws)] : \A i, j \in 1..Len(ws) : i # j => p[i] # p[j]}
ReleaseMany(ws) ==
    /\ ~crashed /\ Len(ws) > 0
    /\ \A i \in 1..Len(ws) : ws[i][1] \in Req /\ ws[i][2] \in 1..Len(wpc[ws[i][1]]) /\ wpc[ws[i][1]][ws[i][2]] = "atGate"
    /\ \A i, j \in 1..Len(ws) : i # j => ws[i] # ws[j]
    /\ \E p \in WPerms(ws) :
         LET ord == [i \in 1..Len(ws) |-> ws[p[i]]]
             of(r) == SelectSeq(ord, LAMBDA w : w[1] = r)
         IN results' = [r \in Req |-> results[r] \o [i \in 1..Len(of(r)) |-> ExecRep(r, of(r)[i][2])]]
    /\ wpc' = [r \in Req |-> [k \in 1..Len(wpc[r]) |-> IF \E i \in 1..Len(ws) : ws[i] = <<r, k>> THEN "done" ELSE wpc[r][k]]]
    /\ UNCHANGED <<sc, booted, pend, announced, intx, txs, hpc, hidx, collected, cache, msgs, crashed, reported, delivered, out>>

(* ---- chain side: MsgReportData.ValidateBasic + CheckValidReport ---- *)
Eids(r) == {Raw(r, k).eid : k \in 1..N(r)}
Acceptable(m) ==
    /\ sc.exists[m.rid] /\ sc.hasMe[m.rid]
    /\ Len(m.reps) > 0
    /\ \A i, j \in 1..Len(m.reps) : i # j => m.reps[i].eid # m.reps[j].eid
    /\ Len(m.reps) = N(m.rid)
    /\ \A i \in 1..Len(m.reps) : m.reps[i].eid \in Eids(m.rid)

Deliver(i) ==
    /\ i \in 1..Len(msgs) /\ i \notin delivered
    /\ delivered' = delivered \cup {i}
    /\ IF Acceptable(msgs[i]) /\ msgs[i].rid \notin reported
       THEN reported' = reported \cup {msgs[i].rid} /\ out' = "ok"
       ELSE reported' = reported /\ out' = "rej"
    /\ UNCHANGED <<sc, booted, pend, announced, intx, txs, hpc, hidx, wpc, results, collected, cache, msgs, crashed>>

-----------------------------------------------------------------------------
\* steps the daemon takes on its own
Internal ==
    \/ TxIter
    \/ \E r \in Req : HGetRequest(r) \/ HGetHash(r) \/ HCollect(r) \/ HPush(r)
    \/ \E r \in Req : \E k \in 1..Len(wpc[r]) : WGetExec(r, k)

\* nothing but the environment can move
Quiescent ==
    \/ crashed
    \/ /\ txs = <<>>
       /\ \A r \in Req : \/ hpc[r] \in {"idle", "done"}
                         \/ hpc[r] = "collect" /\ results[r] = <<>>
       /\ \A r \in Req : \A k \in 1..Len(wpc[r]) : wpc[r][k] # "getExec"

-----------------------------------------------------------------------------
(* The property (C19). *)

\* lookups of r that fail persistently remove the obligation (DESIGN C19: a persistent RPC failure makes
\* the request unobservable to the daemon)
LookupsOK(r) == sc.fReq[r] # Always /\ \A k \in 1..N(r) : sc.fHash[Raw(r, k).ds] # Always
Obliged(r) == r \in announced /\ Wanted(r) /\ LookupsOK(r)

\* the raw report owed for raw request k: 255 when the executable cannot be fetched, else the executor's
Expected(r, k) ==
    LET d == Raw(r, k).ds
    IN IF ~sc.cached[d] /\ sc.fData[d] = Always THEN Rep(Raw(r, k).eid, 255, 0) ELSE ExecRep(r, k)

MsgRight(m) ==
    /\ Obliged(m.rid)
    /\ Len(m.reps) = N(m.rid)
    /\ \A k \in 1..N(m.rid) : \E i \in 1..Len(m.reps) : m.reps[i] = Expected(m.rid, k)

MsgsOf(r) == {i \in 1..Len(msgs) : msgs[i].rid = r}

NoCrash      == ~crashed
AtMostOnce   == \A r \in Req : Cardinality(MsgsOf(r)) <= 1
MsgsRight    == \A i \in 1..Len(msgs) : MsgRight(msgs[i])
ChainAccepts == \A i \in 1..Len(msgs) : Acceptable(msgs[i])
\* never drops: a finished handler of an obliged request has queued its report ...
NoDrop       == \A r \in Req : (Obliged(r) /\ hpc[r] = "done") => MsgsOf(r) # {}
\* ... and every obliged request gets a handler once the transaction has been looked through
NoSkip       == (txs = <<>>) => \A r \in Req : Obliged(r) => hpc[r] # "idle"
\* a report on the channel never waits for room (buffered with capacity = number of raw requests)
ChanBound    == \A r \in Req : Len(results[r]) + Len(collected[r]) <= N(r)

TypeOK ==
    /\ hpc \in [Req -> {"idle", "getReq", "getHash", "collect", "push", "done"}]
    /\ \A r \in Req : \A k \in 1..Len(wpc[r]) : wpc[r][k] \in {"getExec", "atGate", "done"}
    /\ pend \subseteq Req /\ announced \subseteq Req /\ cache \subseteq DS

Inv == TypeOK /\ NoCrash /\ AtMostOnce /\ MsgsRight /\ ChainAccepts /\ NoDrop /\ NoSkip /\ ChanBound

\* every obliged request ends with exactly one queued report, once all executor calls have returned
Finished == Quiescent /\ \A r \in Req : \A k \in 1..Len(wpc[r]) : wpc[r][k] = "done"
ExactlyOnceAtEnd == Finished => \A r \in Req : Obliged(r) => Cardinality(MsgsOf(r)) = 1

\* action properties: the queue only grows, one message at a time; a crash is final
QueueAppendOnlyA == \/ msgs' = msgs
                    \/ Len(msgs') = Len(msgs) + 1 /\ SubSeq(msgs', 1, Len(msgs)) = msgs
QueueAppendOnly == [][QueueAppendOnlyA]_vars
=============================================================================
