---------------------------- MODULE TssDkg_Trace ----------------------------
(***************************************************************************)
(* Trace validation for TssDkg.tla.  Every line of the ndjson file was     *)
(* recorded from the real x/tss code driven by harness/fam_dkg, whose      *)
(* members run pkg/tss and the cylinder daemon's share handling on         *)
(* secp256k1.                                                              *)
(*                                                                         *)
(* The model's Z_Q values are NOT compared with curve values.  The trace   *)
(* carries flags and booleans: which shares a dealer corrupted (d = -1/0/  *)
(* +1 added to the real share), what kind of complaint was filed, and      *)
(* booleans the harness computed with its own elliptic-curve arithmetic    *)
(* from the polynomials it dealt (gpOK: group key = (sum a_i0) G; pubOK_j: *)
(* member key = (sum_i f_i(j)) G; lagOK: every t derived private keys      *)
(* interpolate the group secret; km: the key a member derived is the       *)
(* discrete log of its registered key).  The specification predicts every  *)
(* outcome, flag and boolean from its own state.                           *)
(*                                                                         *)
(* Act / Sync as in Oracle_Trace.tla: Act applies the named action with    *)
(* the logged arguments if the event is Owned; Sync compares the Checked   *)
(* variables with the projection of the real stores and adopts the rest.   *)
(***************************************************************************)
EXTENDS TssDkg, Json

CONSTANTS TraceFile, Checked, Owned
TraceLog == ndJsonDeserialize(TraceFile)

VARIABLES l, ph
tvars == <<vars, l, ph>>

Line == TraceLog[l]

TraceInit == Init /\ l = 1 /\ ph = "act"

BoolVec(v, k) == [i \in Mem |-> IF i <= k /\ i <= Len(v) THEN v[i] ELSE FALSE]
LClog(st) == [c \in Mem |-> IF c <= st.n /\ c <= Len(st.clog)
                            THEN [k \in 1..Len(st.clog[c]) |-> [r |-> st.clog[c][k].r, st |-> st.clog[c][k].st]]
                            ELSE <<>>]

ResetVars(st) ==
    /\ st.n \in 1..MaxN /\ st.t \in 1..st.n /\ st.status = "R1" /\ st.h = st.createdH
    /\ n' = st.n /\ t' = st.t /\ period' = st.period
    /\ h' = st.h /\ createdH' = st.createdH
    /\ status' = "R1"
    /\ poly' = [i \in Mem |-> <<>>]
    /\ acc' = [k \in 1..st.t |-> 0]
    /\ groupPub' = Nil
    /\ r1' = [i \in Mem |-> FALSE] /\ r2' = [i \in Mem |-> FALSE]
    /\ sh' = [i \in Mem |-> [j \in Mem |-> Nil]]
    /\ pub' = [i \in Mem |-> Nil]
    /\ conf' = [i \in Mem |-> FALSE] /\ comp' = [i \in Mem |-> FALSE]
    /\ clog' = [i \in Mem |-> <<>>]
    /\ mal' = [i \in Mem |-> FALSE]
    /\ pend' = FALSE /\ interim' = TRUE /\ expDone' = FALSE
    /\ out' = OkOut
    /\ deviant' = [i \in Mem |-> FALSE] /\ ndev' = 0
    /\ cb' = [completed |-> 0, failed |-> 0, expired |-> 0]

\* logged corruption vector -> Z_Q
DeltaOf(a) == [j \in Mem |-> IF j <= Len(a.d) THEN (a.d[j] + Q) % Q ELSE 0]

OutMatches == out'.ok = Line.o.ok /\ out'.res = Line.o.res

TSubmitR1 ==
    LET a == Line.a IN
    /\ a.shape \in R1Shapes
    /\ \E p \in PolyChoice(a.m) : SubmitR1(a.m, a.shape, p)
    /\ OutMatches

TSubmitR2 ==
    LET a == Line.a IN
    /\ a.shape \in R2Shapes
    /\ \A j \in 1..Len(a.d) : a.d[j] \in {-1, 0, 1} /\ ((j = a.m \/ j > n) => a.d[j] = 0)
    /\ SubmitR2(a.m, a.shape, DeltaOf(a))
    /\ OutMatches

\* km: did the key the member derived (daemon code, real curve) match its registered key?
TConfirm ==
    LET a == Line.a IN
    /\ a.shape \in ConfShapes
    /\ ~a.dp                                     \* the daemon's share handling must not panic
    \* hon: the step is what the unmodified daemon decided to do - it confirms only if every share checks
    /\ (a.hon /\ a.m \in Members /\ status = "R3") => BadDealers(a.m) = {}
    /\ ("keys" \in Checked /\ a.km # "na" /\ a.m \in Members /\ status = "R3")
          => ((a.km = "yes") <=> (SumShares(a.m) = pub[a.m]))
    /\ Confirm(a.m, a.shape)
    /\ OutMatches

\* sg: the harness's own record of whether the share it dealt from r to c was the correct one
TComplain ==
    LET a == Line.a
        cs == [k \in 1..Len(a.cs) |-> [r |-> a.cs[k].r, kind |-> a.cs[k].kind]]
    IN
    /\ a.shape \in CompShapes
    /\ ~a.dp
    \* hon: the unmodified daemon complains about exactly the dealers whose share fails the check
    /\ (a.hon /\ a.c \in Members /\ status = "R3") => (BadDealers(a.c) # {} /\ cs = HonestList(a.c))
    /\ \A k \in 1..Len(a.cs) : a.cs[k].kind \in Kinds
    /\ (a.c \in Members /\ status = "R3") =>
          \A k \in 1..Len(a.cs) : a.cs[k].sg # "na" => ((a.cs[k].sg = "bad") <=> ShareBad(a.cs[k].r, a.c))
    /\ Complain(a.c, a.shape, cs)
    /\ OutMatches

TEndBlock == Line.o.ok /\ EndBlock

Act ==
    /\ ph = "act" /\ l <= Len(TraceLog)
    /\ ph' = "sync" /\ l' = l
    /\ IF Line.e = "Reset" THEN ResetVars(Line.s)
       ELSE IF Line.e \notin Owned THEN UNCHANGED vars
       ELSE CASE Line.e = "SubmitR1" -> TSubmitR1
              [] Line.e = "SubmitR2" -> TSubmitR2
              [] Line.e = "Confirm"  -> TConfirm
              [] Line.e = "Complain" -> TComplain
              [] Line.e = "EndBlock" -> TEndBlock

\* checked variable: must equal the observation; unchecked: adopt the observation
Bind(name, cur, nxt, seen) == IF name \in Checked THEN cur = seen /\ nxt = cur ELSE nxt = seen

Sync ==
    /\ ph = "sync"
    /\ ph' = "act" /\ l' = l + 1
    /\ LET st == Line.s IN
        /\ h = st.h /\ createdH = st.createdH /\ n = st.n /\ t = st.t /\ period = st.period    \* inputs
        /\ Bind("status", status, status', st.status)
        /\ Bind("r1", r1, r1', BoolVec(st.r1, st.n))
        /\ Bind("r2", r2, r2', BoolVec(st.r2, st.n))
        /\ Bind("conf", conf, conf', BoolVec(st.conf, st.n))
        /\ Bind("comp", comp, comp', BoolVec(st.comp, st.n))
        /\ Bind("clog", clog, clog', LClog(st))
        /\ Bind("mal", mal, mal', BoolVec(st.mal, st.n))
        /\ Bind("pend", pend, pend', st.pend)
        /\ Bind("interim", interim, interim', st.interim)
        /\ Bind("expDone", expDone, expDone', st.expDone)
        \* key material: model values stay the model's; what is observed are the flags and the
        \* harness-computed consistency booleans, which must be what the model's identities say
        /\ "keys" \in Checked =>
              /\ st.gpSet = (groupPub # Nil)
              /\ \A j \in Members : st.pubSet[j] = (pub[j] # Nil)
              /\ st.gpOK = (groupPub = Nil \/ groupPub = SumA0)
              /\ \A j \in Members : st.pubOK[j] = (pub[j] = Nil \/ pub[j] = TruePub(j))
              /\ st.lagOK = (status = "ACTIVE" => Lagrange)
              /\ (~expDone) => st.accLen = (IF \E i \in Members : Dealt(i) THEN t ELSE 0)
    /\ UNCHANGED <<n, t, period, h, createdH, poly, acc, groupPub, sh, pub, out, deviant, ndev, cb>>

TraceNext == Act \/ Sync
TraceSpec == TraceInit /\ [][TraceNext]_tvars

TraceAccepted ==
    LET d == TLCGet("stats").diameter IN
    IF d - 1 = 2 * Len(TraceLog) THEN TRUE
    ELSE Print(<<"TRACE_REJECTED_AT_LINE", (d + 1) \div 2, "PHASE", IF d % 2 = 1 THEN "act" ELSE "sync", "OF", Len(TraceLog)>>, FALSE)

\* invariants are evaluated on the states between lines (after Sync)
AtLine == ph = "act"
TInv == AtLine => Inv

\* the action properties of TssDkg, on every Act step that is not a Reset
Exempt == ph = "sync" \/ (l <= Len(TraceLog) /\ TraceLog[l].e = "Reset")
TStatusMonotone == [][Exempt \/ StatusMonotoneA]_tvars
TMalSticky == [][Exempt \/ MalStickyA]_tvars
TNeverActiveAfterMal == [][Exempt \/ NeverActiveAfterMalA]_tvars
TKeysImmutable == [][Exempt \/ KeysImmutableA]_tvars
TMalOnlyByComplain == [][Exempt \/ MalOnlyByComplainA]_tvars
TRejectedNoEffect == [][Exempt \/ RejectedNoEffectA]_tvars
=============================================================================
