\* quick protocol facet: n=3, t=2, q=5, one polynomial per dealer, every interleaving, every input shape, <= 2 deviations
CONSTANTS
  MaxN = 3
  NSet = {3}
  TSet = {2}
  Q = 5
  Periods = {4}
  PolyMode = "one"
  MaxH = 7
  MaxDev = 2
INIT Init
NEXT MCNext
VIEW View
CONSTRAINT Bound
INVARIANTS Inv
PROPERTIES StatusMonotone MalSticky NeverActiveAfterMal KeysImmutable MalOnlyByComplain RejectedNoEffect
CHECK_DEADLOCK FALSE
