\* activation gate and interplay (C17, C08): one tunnel from scratch, two symmetric accounts, ALL actions of the
\* specification (deposits in single denoms around the two-denom minimum, activation by creator / stranger, funding,
\* trigger, reconfiguration, route states, end-blocks), histories of up to 9 steps
CONSTANTS
  MaxTun = 1
  Sig = {"s1"}
  Acct = {a1, a2}
  Denom = {"ua", "ub"}
  FeeDenom = "ub"
  MinIv = 1
  MaxIv = 10
  MinDev = 50
  MaxDev = 3000
  ParamSet <- P_1_2_3_4
  KindSet = {"tss"}
  IvSet = {2}
  SigSets <- Sig_all
  DevSet <- Dev_one
  AmtSet <- Amt_tiny
  FundSet = {7}
  PriceSet <- Price_one
  ModeSet = {"ok", "noGroup"}
  DtSet = {1}
  InitBal = 3
  MaxNow = 103
  MaxSteps = 9
  NTun = 0
  InitFee = 0
INIT InitLedger
NEXT NextAllMC
SYMMETRY SymAcct
VIEW View
CONSTRAINT BoundSteps
INVARIANTS Inv
PROPERTIES WithdrawOwn DepositOwn ActivationGate Deactivation EndBlockFrame SeqStep PacketRule FeesOnlyWithPackets
CHECK_DEADLOCK FALSE
