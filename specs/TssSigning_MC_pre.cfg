\* thorough facet: signings created inside the end-block by resolving oracle requests (before aggregation / expiry / retries of the same block); h<=4
CONSTANTS
  Member = {m1, m2, m3}
  Stranger = {}
  TSet = {2}
  MaxSig = 2
  MaxSerial = 3
  MaxDESet = {2}
  MaxAttSet = {2}
  PeriodSet = {1}
  PenaltySet = {1}
  KSet = {1, 2}
  PreSet = {0, 1}
  PostSet = {0}
  TransOn = FALSE
  MaxH = 4
INIT Init
NEXT NextMC
SYMMETRY Sym
VIEW View
CONSTRAINT Bound
INVARIANTS Inv OnTime BoundedTermination
PROPERTIES AssignFromHead Fifo QueueStep Eligible RejectedNoChange GhostExact CreationExact DEPartOK Status Attempt NoEarlyTimeout ExactTimeout NewAttempt Success Timeout Penalty Signed Callback TransitionStep
CHECK_DEADLOCK FALSE
