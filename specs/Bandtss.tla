------------------------------- MODULE Bandtss -------------------------------
(***************************************************************************)
(* The signing group of the chain (x/bandtss) — properties C18 (the group  *)
(* changes only through a completed, scheduled transition) and the signing *)
(* half of C13 (signing fees exact, within the limit, atomic, paid out     *)
(* only for completed current-group signings).                             *)
(*                                                                         *)
(* One action per real entry point:                                        *)
(*   Propose   bandtss MsgTransitionGroup  (authority only)                *)
(*   Force     bandtss MsgForceTransitionGroup (authority only)            *)
(*   Request   bandtss MsgRequestSignature -> createSigningRequest         *)
(*   SignAll   every assigned member of one tss signing submits its share  *)
(*   DkgDone   the incoming group's key generation reaches its last round  *)
(*             (ok / with a malicious member); processed by the end-block  *)
(*   EndBlock  x/tss EndBlocker (pending groups -> callbacks, expired      *)
(*             groups, aggregation, signing time-outs) then x/bandtss      *)
(*             EndBlocker (execute or drop a due transition), then the     *)
(*             next block header                                           *)
(* Environment: `canSign[g]` (the group has a threshold of active members  *)
(* with a queued nonce) changes arbitrarily (member de/activation, nonce   *)
(* top-ups) — property C10/C05 own that machinery.                         *)
(* tss parameters in this family: max_signing_attempt = 1 (a timed-out     *)
(* signing fails), signing_period = par.period, creation_period = par.create.*)
(***************************************************************************)
EXTENDS Integers, Sequences, FiniteSets, TLC

CONSTANTS
    Addr,          \* member addresses
    Payer,         \* fee-paying requesters (never the authority)
    MaxG,          \* group ids 1..MaxG
    MaxSig,        \* tss signing ids 1..MaxSig
    MemberMenu,    \* member sets a proposal may name (subset of SUBSET Addr)
    MinDur, MaxDur,\* transition window [now+MinDur, now+MaxDur]
    PeriodSet,     \* values of tss signing_period (blocks)
    CreateSet,     \* values of tss creation_period (blocks)
    FeeSet,        \* values of fee_per_signer
    DtSet,         \* block time increments
    LimitSet,      \* fee limits tried
    ExecOffsets    \* exec-time offsets tried by Propose/Force (relative to now)

Groups == 1..MaxG
Sigs   == 1..MaxSig

VARIABLES
    par,        \* [period, create, fx]: tss signing_period / creation_period of this history (never change); fx = amount of a
                \* SECOND denom in fee_per_signer (0 = single-denom fee; changed by governance: SetFx)
    h, now,
    fee,        \* params.fee_per_signer (single denom)
    current,    \* current group id (0 = none)
    tr,         \* transition record; status "NONE" when there is none
    gcount,     \* number of tss groups
    grp,        \* g -> [st, mem, thr, createdH]   st: none|dkg|r3ok|r3bad|active|fallen|expired
    pendG,      \* sequence of groups to process at the next end-block (tss pending process groups)
    lastExpG,   \* tss expired-group cursor
    bm,         \* bandtss member list: set of <<addr, g>>
    canSign,    \* g -> BOOLEAN   (environment)
    sigc,       \* number of tss signings
    sig,        \* id -> [g, kind, st, expH, com, bid]  kind: none|user|handover   st: none|waiting|agg|success|failed
    bsigc,      \* number of bandtss signing records
    bsig,       \* bid -> [fee, cur, inc]   (tss signing ids; 0 = none)
    bal,        \* Payer -> balance
    escrow,     \* bandtss module account balance
    earned,     \* Addr -> coins received from escrow
    out,        \* "init" | "ok" | "rej"
    owed        \* ghost: escrow that belongs to unfinished or failed paid requests

vars == <<par, h, now, fee, current, tr, gcount, grp, pendG, lastExpG, bm, canSign, sigc, sig, bsigc, bsig,
          bal, escrow, earned, out, owed>>

NoTr  == [status |-> "NONE", incoming |-> 0, cur |-> 0, execTime |-> 0, sid |-> 0, forced |-> FALSE]
NoGrp == [st |-> "none", mem |-> {}, thr |-> 0, createdH |-> 0]
NoSig == [g |-> 0, kind |-> "none", st |-> "none", expH |-> 0, com |-> {}, bid |-> 0]
NoBsig == [fee |-> 0, cur |-> 0, inc |-> 0]

Range(s) == {s[i] : i \in 1..Len(s)}
MembersOf(g) == {<<a, g>> : a \in grp[g].mem}
Incoming == IF tr.status = "WAITING_EXEC" THEN tr.incoming ELSE 0    \* GetIncomingGroupID

Rejected ==
    /\ out' = "rej"
    /\ UNCHANGED <<par, h, now, fee, current, tr, gcount, grp, pendG, lastExpG, bm, canSign, sigc, sig, bsigc, bsig,
                   bal, escrow, earned, owed>>

-----------------------------------------------------------------------------
(* MsgTransitionGroup *)
Propose(auth, ms, thr, off) ==
    IF /\ auth = "authority"
       /\ off >= MinDur /\ off <= MaxDur
       /\ tr.status = "NONE"
       /\ ms # {} /\ thr >= 1 /\ thr <= Cardinality(ms)
       /\ gcount < MaxG
    THEN LET g == gcount + 1 IN
         /\ gcount' = g
         /\ grp' = [grp EXCEPT ![g] = [st |-> "dkg", mem |-> ms, thr |-> thr, createdH |-> h]]
         /\ tr' = [status |-> "CREATING", incoming |-> g, cur |-> current, execTime |-> now + off,
                   sid |-> 0, forced |-> FALSE]
         /\ out' = "ok"
         /\ UNCHANGED <<par, h, now, fee, current, pendG, lastExpG, bm, canSign, sigc, sig, bsigc, bsig, bal, escrow, earned, owed>>
    ELSE Rejected

(* MsgForceTransitionGroup *)
Force(auth, g, off) ==
    IF /\ auth = "authority"
       /\ off >= MinDur /\ off <= MaxDur
       /\ tr.status = "NONE"
       /\ g \in Groups /\ g # current /\ grp[g].st = "active"
       /\ MembersOf(g) \cap bm = {}
    THEN /\ bm' = bm \cup MembersOf(g)
         /\ tr' = [status |-> "WAITING_EXEC", incoming |-> g, cur |-> current, execTime |-> now + off,
                   sid |-> 0, forced |-> TRUE]
         /\ out' = "ok"
         /\ UNCHANGED <<par, h, now, fee, current, gcount, grp, pendG, lastExpG, canSign, sigc, sig, bsigc, bsig, bal, escrow, earned, owed>>
    ELSE Rejected

(* key generation of g reaches the end of round 3 (environment): processed by the next end-block *)
DkgDone(g, good) ==
    /\ g \in Groups /\ grp[g].st = "dkg"
    /\ grp' = [grp EXCEPT ![g].st = IF good THEN "r3ok" ELSE "r3bad"]
    /\ pendG' = Append(pendG, g)
    /\ out' = "ok"
    /\ UNCHANGED <<par, h, now, fee, current, tr, gcount, lastExpG, bm, canSign, sigc, sig, bsigc, bsig, bal, escrow, earned, owed>>

(* environment: an ACTIVE tss group that bandtss does not know yet (e.g. created earlier); a target for Force *)
InstallGroup(ms, thr) ==
    /\ gcount < MaxG /\ ms # {} /\ thr >= 1 /\ thr <= Cardinality(ms)
    /\ gcount' = gcount + 1
    /\ grp' = [grp EXCEPT ![gcount + 1] = [st |-> "active", mem |-> ms, thr |-> thr, createdH |-> h]]
    /\ out' = "ok"
    /\ UNCHANGED <<par, h, now, fee, current, tr, pendG, lastExpG, bm, canSign, sigc, sig, bsigc, bsig, bal, escrow, earned, owed>>

(* environment: governance changes fee_per_signer (MsgUpdateParams); requests already paid keep the fee they recorded *)
SetFee(f) ==
    /\ f # fee
    /\ fee' = f
    /\ UNCHANGED <<par, h, now, current, tr, gcount, grp, pendG, lastExpG, bm, canSign, sigc, sig, bsigc, bsig, bal, escrow, earned, out, owed>>

\* environment: governance adds / removes a second denom in fee_per_signer.  Only the acceptance rule is modelled for it
\* (the limit must cover fee x threshold in EVERY denom of the fee); its money is not tracked (payers hold plenty of it)
SetFx(x) ==
    /\ x # par.fx
    /\ par' = [par EXCEPT !.fx = x]
    /\ UNCHANGED <<h, now, fee, current, tr, gcount, grp, pendG, lastExpG, bm, canSign, sigc, sig, bsigc, bsig, bal, escrow, earned, out, owed>>

SetCanSign(g, b) ==
    /\ canSign' = [canSign EXCEPT ![g] = b]
    /\ UNCHANGED <<par, h, now, fee, current, tr, gcount, grp, pendG, lastExpG, bm, sigc, sig, bsigc, bsig, bal, escrow, earned, out, owed>>

Committees(g) == {S \in SUBSET grp[g].mem : Cardinality(S) = grp[g].thr}

ComOrNone(g) == (IF g # 0 THEN Committees(g) ELSE {}) \cup {{}}

NewSig(g, kind, S, bid) == [g |-> g, kind |-> kind, st |-> "waiting", expH |-> h + par.period, com |-> S, bid |-> bid]

(***************************************************************************)
(* MsgRequestSignature (createSigningRequest).  p = "authority" is free.   *)
(* The incoming group is asked too when the transition awaits execution:   *)
(* best effort — whether that second signing gets created (incOK) never    *)
(* changes the outcome for the current group or the fee.                   *)
(***************************************************************************)
Request(p, limit, lx, S, incOK, SI) ==
    LET cur  == current
        inc  == Incoming
        paid == p # "authority" /\ cur # 0
        cost == IF paid THEN fee * grp[cur].thr ELSE 0
        f    == IF paid THEN fee ELSE 0
        curOK == cur # 0 /\ canSign[cur]
        mkInc == inc # 0 /\ incOK
    IN
    \* limit = the limit in the fee's denom, lx = an amount of some other denom in the same limit (the fee is never
    \* payable from it).  ValidateBasic: the fee limit must be a non-empty list of positive coins
    IF /\ (limit >= 1 \/ lx >= 1)
       /\ (cur # 0 \/ inc # 0)
       /\ cost <= limit
       /\ (paid => par.fx * grp[cur].thr <= lx)
       /\ (paid => bal[p] >= cost)
       /\ (cur # 0 => canSign[cur])
       /\ (curOK \/ mkInc)
       /\ sigc + (IF curOK THEN 1 ELSE 0) + (IF mkInc THEN 1 ELSE 0) <= MaxSig
    THEN LET id1 == IF curOK THEN sigc + 1 ELSE 0
             id2 == IF mkInc THEN sigc + (IF curOK THEN 2 ELSE 1) ELSE 0
             bid == bsigc + 1
         IN
         /\ curOK => S \in Committees(cur)
         /\ mkInc => SI \in Committees(inc)
         /\ ~curOK => S = {}
         /\ ~mkInc => SI = {}
         /\ sig' = [id \in Sigs |-> IF id = id1 THEN NewSig(cur, "user", S, bid)
                                    ELSE IF id = id2 THEN NewSig(inc, "user", SI, bid) ELSE sig[id]]
         /\ sigc' = sigc + (IF curOK THEN 1 ELSE 0) + (IF mkInc THEN 1 ELSE 0)
         /\ bsigc' = bid
         /\ bsig' = [bsig EXCEPT ![bid] = [fee |-> f, cur |-> id1, inc |-> id2]]
         /\ bal' = IF paid THEN [bal EXCEPT ![p] = @ - cost] ELSE bal
         /\ escrow' = escrow + cost
         /\ owed' = owed + cost
         /\ out' = "ok"
         /\ UNCHANGED <<par, h, now, fee, current, tr, gcount, grp, pendG, lastExpG, bm, canSign, earned>>
    ELSE /\ S = {} /\ SI = {} /\ incOK = FALSE
         /\ Rejected

(* every assigned member of signing id submits a correct share in this block *)
SignAll(id) ==
    /\ id \in Sigs /\ sig[id].st = "waiting"
    /\ sig' = [sig EXCEPT ![id].st = "agg"]
    /\ out' = "ok"
    /\ UNCHANGED <<par, h, now, fee, current, tr, gcount, grp, pendG, lastExpG, bm, canSign, sigc, bsigc, bsig, bal, escrow, earned, owed>>

-----------------------------------------------------------------------------
(* EndBlock, as a pipeline of pure functions on a record of the affected variables *)

St == [tr |-> tr, grp |-> grp, bm |-> bm, sig |-> sig, sigc |-> sigc, escrow |-> escrow, earned |-> earned,
       owed |-> owed, current |-> current, lastExpG |-> lastExpG]

\* OnGroupCreationCompleted(g); handover committee HS is what the sampler picks (any committee)
Completed(s, g, HS) ==
    IF ~(s.tr.status = "CREATING" /\ s.tr.incoming = g /\ ~(s.tr.execTime < now)) THEN s
    ELSE IF s.tr.cur = 0
         THEN [s EXCEPT !.bm = @ \cup {<<a, g>> : a \in s.grp[g].mem}, !.tr.status = "WAITING_EXEC"]
         ELSE IF canSign[s.current] /\ s.sigc < MaxSig
              THEN LET id == s.sigc + 1 IN
                   [s EXCEPT !.sigc = id,
                             !.sig[id] = [g |-> s.current, kind |-> "handover", st |-> "waiting",
                                          expH |-> h + par.period, com |-> HS, bid |-> 0],
                             !.tr.status = "WAITING_SIGN", !.tr.sid = id]
              ELSE [s EXCEPT !.tr = NoTr]

DropIfCreating(s, g) ==
    IF s.tr.status = "CREATING" /\ s.tr.incoming = g THEN [s EXCEPT !.tr = NoTr] ELSE s

ProcessGroup(s, g, HS) ==
    IF s.grp[g].st = "r3ok" THEN Completed([s EXCEPT !.grp[g].st = "active"], g, HS)
    ELSE IF s.grp[g].st = "r3bad" THEN DropIfCreating([s EXCEPT !.grp[g].st = "fallen"], g)
    ELSE s

RECURSIVE ProcessGroups(_, _, _)
ProcessGroups(s, gs, HS) == IF gs = <<>> THEN s ELSE ProcessGroups(ProcessGroup(s, Head(gs), HS), Tail(gs), HS)

\* HandleExpiredGroups: prefix of groups whose creation period is over
ExpiringG(s) == {g \in (s.lastExpG + 1)..gcount : \A j \in (s.lastExpG + 1)..g : s.grp[j].createdH + par.create <= h}
ExpireGroup(s, g) ==
    IF s.grp[g].st \in {"active", "fallen"} THEN s
    ELSE DropIfCreating([s EXCEPT !.grp[g].st = "expired"], g)
RECURSIVE ExpireGroups(_, _)
ExpireGroups(s, G) ==
    IF G = {} THEN s
    ELSE LET g == CHOOSE x \in G : \A y \in G : x <= y IN
         ExpireGroups([ExpireGroup(s, g) EXCEPT !.lastExpG = g], G \ {g})

\* OnSigningCompleted(id)
SigCompleted(s, id) ==
    LET sg == s.sig[id] IN
    IF sg.kind = "user"
    THEN LET b == bsig[sg.bid] IN
         IF id = b.cur /\ b.fee > 0
         THEN [s EXCEPT !.earned = [a \in Addr |-> IF a \in sg.com THEN @[a] + b.fee ELSE @[a]],
                        !.escrow = @ - b.fee * Cardinality(sg.com),
                        !.owed = @ - b.fee * Cardinality(sg.com)]
         ELSE s
    ELSE IF s.tr.status = "WAITING_SIGN" /\ s.tr.sid = id
         THEN [s EXCEPT !.bm = @ \cup {<<a, s.tr.incoming>> : a \in s.grp[s.tr.incoming].mem},
                        !.tr.status = "WAITING_EXEC"]
         ELSE s

\* OnSigningFailed(id)
SigFailed(s, id) ==
    IF s.sig[id].kind = "handover" /\ s.tr.status = "WAITING_SIGN" /\ s.tr.sid = id
    THEN [s EXCEPT !.tr = NoTr] ELSE s

RECURSIVE Aggregate(_, _)
Aggregate(s, I) ==
    IF I = {} THEN s
    ELSE LET id == CHOOSE x \in I : \A y \in I : x <= y IN
         Aggregate(SigCompleted([s EXCEPT !.sig[id].st = "success"], id), I \ {id})

RECURSIVE TimeOut(_, _)
TimeOut(s, I) ==
    IF I = {} THEN s
    ELSE LET id == CHOOSE x \in I : \A y \in I : x <= y IN
         TimeOut(SigFailed([s EXCEPT !.sig[id].st = "failed"], id), I \ {id})

\* x/bandtss EndBlocker
ExecTransition(s) ==
    IF s.tr.status = "NONE" \/ s.tr.execTime > now THEN s
    ELSE IF s.tr.status = "WAITING_EXEC"
         THEN [s EXCEPT !.bm = {x \in @ : s.tr.cur = 0 \/ x[2] # s.tr.cur},
                        !.current = s.tr.incoming, !.tr = NoTr]
         ELSE [s EXCEPT !.tr = NoTr]

EndBlock(dt, HS) ==
    LET s1 == ProcessGroups(St, pendG, HS)
        s2 == ExpireGroups(s1, ExpiringG(s1))
        s3 == Aggregate(s2, {id \in Sigs : s2.sig[id].st = "agg"})
        s4 == TimeOut(s3, {id \in Sigs : s3.sig[id].st = "waiting" /\ s3.sig[id].expH <= h})
        s5 == ExecTransition(s4)
    IN
    /\ (s1.sigc > sigc => HS \in Committees(current))
    /\ (s1.sigc = sigc => HS = {})
    /\ tr' = s5.tr /\ grp' = s5.grp /\ bm' = s5.bm /\ sig' = s5.sig /\ sigc' = s5.sigc
    /\ escrow' = s5.escrow /\ earned' = s5.earned /\ owed' = s5.owed /\ current' = s5.current
    /\ lastExpG' = s5.lastExpG
    /\ pendG' = <<>>
    /\ h' = h + 1 /\ now' = now + dt
    /\ out' = "ok"
    /\ UNCHANGED <<par, fee, gcount, canSign, bsigc, bsig, bal>>

-----------------------------------------------------------------------------
Next ==
    \/ \E auth \in {"authority", "user"}, ms \in MemberMenu, thr \in 1..2, off \in ExecOffsets : Propose(auth, ms, thr, off)
    \/ \E auth \in {"authority", "user"}, g \in Groups, off \in ExecOffsets : Force(auth, g, off)
    \/ \E g \in Groups, good \in BOOLEAN : DkgDone(g, good)
    \/ \E g \in Groups, b \in BOOLEAN : SetCanSign(g, b)
    \/ \E ms \in MemberMenu : InstallGroup(ms, 1)
    \/ \E f \in FeeSet : SetFee(f)
    \/ \E x \in {0, 1} : SetFx(x)
    \/ \E p \in Payer \cup {"authority"}, limit \in LimitSet, lx \in {0, 2}, incOK \in BOOLEAN :
          \E S \in ComOrNone(current), SI \in ComOrNone(Incoming) : Request(p, limit, lx, S, incOK, SI)
    \/ \E id \in Sigs : SignAll(id)
    \/ \E dt \in DtSet : \E HS \in ComOrNone(current) : EndBlock(dt, HS)

-----------------------------------------------------------------------------
(* C18 *)
\* the member list is exactly the current group's members, plus the incoming group's while it awaits execution
MembersInv ==
    bm = (IF current = 0 THEN {} ELSE MembersOf(current))
         \cup (IF tr.status = "WAITING_EXEC" THEN MembersOf(tr.incoming) ELSE {})

TransitionInv ==
    /\ tr.status # "NONE" => /\ tr.incoming \in 1..gcount /\ tr.incoming # current /\ tr.cur = current
    /\ tr.status = "CREATING" => grp[tr.incoming].st \in {"dkg", "r3ok", "r3bad"}
    /\ tr.status \in {"WAITING_SIGN", "WAITING_EXEC"} => grp[tr.incoming].st = "active"
    /\ tr.status = "WAITING_SIGN" => /\ tr.sid \in 1..sigc /\ sig[tr.sid].kind = "handover"
                                     /\ sig[tr.sid].st \in {"waiting", "agg"} /\ sig[tr.sid].g = current
    /\ current # 0 => grp[current].st = "active"

\* the group changes only by executing a due transition that awaits execution
GroupChangeA ==
    current' # current =>
        /\ h' = h + 1
        /\ tr' = NoTr
        /\ current' \in Groups /\ grp'[current'].st = "active"
        /\ \/ tr.status = "WAITING_EXEC" /\ tr.incoming = current' /\ tr.execTime <= now
           \* or it reached WAITING_EXEC inside this very end-block (completion and due time in one block)
           \/ tr.status \in {"CREATING", "WAITING_SIGN"} /\ tr.incoming = current' /\ tr.execTime <= now
        /\ bm' = {<<a, current'>> : a \in grp'[current'].mem}
\* WAITING_EXEC is entered only by force, by a completed key generation when there is nobody to sign, or by a
\* completed hand-over signature of the current group
WaitingExecA ==
    (tr'.status = "WAITING_EXEC" /\ tr.status # "WAITING_EXEC") =>
        \/ tr'.forced /\ tr.status = "NONE" /\ h' = h
        \/ tr.status = "CREATING" /\ tr.cur = 0 /\ grp'[tr.incoming].st = "active" /\ h' = h + 1
        \/ tr.status = "WAITING_SIGN" /\ sig'[tr.sid].st = "success" /\ h' = h + 1
\* executing without WAITING_EXEC never happens: a transition that disappears without being due+ready keeps the group
DropKeepsGroupA ==
    (tr.status # "NONE" /\ tr'.status = "NONE" /\ current' = current) => TRUE
\* at most one transition: an existing one is never replaced by another
OneTransitionA ==
    (tr.status # "NONE" /\ tr'.status # "NONE") => /\ tr'.incoming = tr.incoming /\ tr'.execTime = tr.execTime
                                                    /\ tr'.cur = tr.cur /\ tr'.forced = tr.forced
\* only the authority starts transitions
StartA == (tr.status = "NONE" /\ tr'.status # "NONE") => h' = h /\ out' = "ok"

(* C13, signing half *)
EscrowInv == escrow >= 0 /\ owed >= 0 /\ escrow = owed /\ \A p \in Payer : bal[p] >= 0

\* money moves only: payer -> escrow at an accepted request (exactly fee*threshold, never above the limit),
\* escrow -> assigned members at the completion of a current-group signing (exactly the recorded fee each)
RECURSIVE SumF(_, _)
SumF(f, S) == IF S = {} THEN 0 ELSE LET x == CHOOSE x \in S : TRUE IN f[x] + SumF(f, S \ {x})
ConservedA == SumF(bal, Payer)' + escrow' + SumF(earned, Addr)' = SumF(bal, Payer) + escrow + SumF(earned, Addr)
PayInA == (\E p \in Payer : bal'[p] # bal[p]) =>
              /\ out' = "ok" /\ h' = h /\ bsigc' = bsigc + 1
              /\ \E p \in Payer : /\ bal[p] - bal'[p] = fee * grp[current].thr
                                  /\ \A q \in Payer \ {p} : bal'[q] = bal[q]
                                  /\ escrow' = escrow + fee * grp[current].thr
              /\ current # 0
PayOutA == (\E a \in Addr : earned'[a] # earned[a]) =>
              /\ h' = h + 1
              /\ \A a \in Addr : earned'[a] >= earned[a]
              \* every payee was assigned to a current-group signing of a paid request that completed in this block
              /\ \A a \in Addr : earned'[a] > earned[a] =>
                    \E id \in Sigs : /\ sig[id].st = "agg" /\ sig'[id].st = "success" /\ a \in sig[id].com
                                     /\ sig[id].kind = "user" /\ bsig[sig[id].bid].cur = id
                                     /\ bsig[sig[id].bid].fee > 0
RejectedA == out' = "rej" => UNCHANGED <<current, tr, bm, bal, escrow, earned, sig, bsig, grp>>
\* nobody is paid for failed signings
NoPayOnFailA == \A id \in Sigs : (sig'[id].st = "failed" /\ sig[id].st # "failed") =>
                    \A a \in sig[id].com : earned'[a] = earned[a] \/ \E j \in Sigs \ {id} : sig'[j].st = "success" /\ sig[j].st = "agg" /\ a \in sig[j].com

StepProps == GroupChangeA /\ WaitingExecA /\ OneTransitionA /\ StartA /\ ConservedA /\ PayInA /\ PayOutA /\ RejectedA /\ NoPayOnFailA

GroupChange == [][GroupChangeA]_vars
WaitingExec == [][WaitingExecA]_vars
OneTransition == [][OneTransitionA]_vars
Start == [][StartA]_vars
Conserved == [][ConservedA]_vars
PayIn == [][PayInA]_vars
PayOut == [][PayOutA]_vars
RejectedUnchanged == [][RejectedA]_vars
NoPayOnFail == [][NoPayOnFailA]_vars
=============================================================================
