\* facet "price": MsgSubmitSignalPrices by a validator / its feeder; bonded, active, cooldown, feed present
CONSTANTS
  Val = {"v1", "v2"}
  Acct = {"g1", "x1"}
  ReqIds = {1}
  SigIds = {1}
  MaxRoom = 1
  PD = 10000
  Kinds = {"price"}
  Grantees = {"g1", "x1"}
  Members = {}
  MinpSet = {25}
  LocalpSet = {0, 50}
  GasSet = {200000}
  FeeSet = {0, 499, 500, 999, 1000}
  Stranger = "x1"
  DeliverSet = {}
  Poor = {}
  PoorBal = 0
  RichBal = 2000
  Depth2 = TRUE
  Pairs = TRUE
  GrantUsed <- GrantU_price
SPECIFICATION Spec
VIEW View
INVARIANTS TypeOK ExemptSound ExemptComplete
PROPERTIES NoFreeRide EntitledNeverCharged EntitledAdmitted PaidRule ClassSplit CheckPure SignerRule
CHECK_DEADLOCK FALSE
