------------------------------ MODULE TssDkg_MC ------------------------------
EXTENDS TssDkg
CONSTANTS MaxH, MaxDev

Bound == h <= MaxH
\* output-only variable `out` is not part of the state identity
View == <<n, t, period, h, createdH, status, poly, acc, groupPub, r1, r2, sh, pub, conf, comp, clog, mal, pend,
          interim, expDone, deviant, ndev, cb>>

\* at most MaxDev deviating steps per behaviour
MCNext == Next /\ ndev' <= MaxDev
MCSpec == Init /\ [][MCNext]_vars

\* algebra facet: every polynomial of every dealer, but one schedule - members act in id order and a
\* block ends exactly when a round is complete (the interleavings are the other facets' subject)
InOrder(f) == \A i \in 2..n : f[i] => f[i - 1]
AlgNext == /\ MCNext
           /\ h' # h => pend
           /\ InOrder(r1') /\ InOrder(r2') /\ InOrder([i \in Mem |-> conf'[i] \/ comp'[i]])
           /\ out'.ok

\* "fewer than t cannot": t-1 private keys are consistent with every value of the group secret -
\* for every t-1 points, every value vector on them and every candidate secret s there is a polynomial
\* of degree < t through those points with constant term s.  (Constant-level: evaluated once.)
FewerCannot ==
    \A nn \in NSet, tt \in TSet : tt <= nn =>
           \A S \in SUBSET (1..nn) : Cardinality(S) = tt - 1 =>
              \A v \in [S -> Zq] : \A s \in Zq :
                  \E g \in [1..tt -> Zq] : g[1] = s /\ \A j \in S : Eval(g, j) = v[j]
ASSUME FewerCannot
ASSUME Q > MaxN + 1
=============================================================================
