------------------------------ MODULE Oracle_MC ------------------------------
EXTENDS Oracle
CONSTANTS MaxH
Sym == Permutations(Val)
Bound == h <= MaxH
\* output-only variable `out` is not part of the state identity
View == <<h, now, params, count, lastExpired, req, rep, res, pending, vstat, resolveEv, gvals, minAt, resAt>>
\* facet initial state: every validator already oracle-active since before the first request
InitActive ==
    /\ h = 2 /\ now = 100
    /\ params \in [exp : ExpSet, penalty : PenaltySet]
    /\ count = 0 /\ lastExpired = 0
    /\ req = [id \in Ids |-> NoReq]
    /\ rep = [id \in Ids |-> {}]
    /\ res = [id \in Ids |-> NoRes]
    /\ pending = <<>>
    /\ vstat = [a \in Addr |-> IF a \in Val THEN [active |-> TRUE, since |-> 50] ELSE [active |-> FALSE, since |-> Never]]
    /\ resolveEv = [id \in Ids |-> 0]
    /\ out = "init"
    /\ gvals = [id \in Ids |-> {}]
    /\ minAt = [id \in Ids |-> 0]
    /\ resAt = [id \in Ids |-> 0]
\* liveness cfg: stop time instead of constraining (a constraint can hide non-progress cycles)
NextBounded ==
    /\ h < MaxH                                            \* the clock stops at MaxH (finite state space) ...
    /\ Next
    /\ (count' > count => h + params.exp < MaxH)           \* ... and requests are made early enough to run their course
SpecBounded == InitActive /\ [][NextBounded]_vars /\ WF_vars(\E dt \in DtSet : EndBlock(dt))
EveryRequestResolvedBounded == \A id \in Ids : (id <= count) ~> (res[id].status # "NONE")
=============================================================================
