\* C06 system facet (thorough): as FeedsPrice_MC_price.cfg with any subset of validators inactive and quorum 50 % / 100 %
CONSTANTS
  Val = {v1, v2, v3}
  Stranger = {}
  Sig = {s1}
  GraceSet = {10}
  CoolSet = {1}
  DiscSet = {1}
  UpdSet = {100}
  QuorumSet = {50, 100}
  PenaltySet = {1}
  DtSet = {1, 2}
  IntervalSet = {1}
  PowerSet = {1, 2}
  PriceSet = {1, 2}
  StatusSet = {"avail", "unavail", "unsupp"}
  ToffSet = {0}
  MaxH = 4
  MaxN = 0
  AllOrders = TRUE
  PPowerSet = {1}
  PTsSet = {0}
  PPriceSet = {1}
INIT MCInit
NEXT PriceNext
SYMMETRY Sym
VIEW View
CONSTRAINT Bound
INVARIANTS Inv NoEndBlockError
PROPERTIES MCPriceRule MCPriceOnlyAtEndBlock MCVPriceRule MCStatusStable MCDeactivationRule
CHECK_DEADLOCK FALSE
