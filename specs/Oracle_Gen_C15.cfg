CONSTANTS
  Val = {v1, v2, v3}
  Stranger = {x1}
  MaxReq = 3
  Units = 2
  ExpSet = {1, 2}
  PenaltySet = {0, 2, 5}
  DtSet = {0, 1, 2, 4}
  AskSet = {1, 2, 3, 4}
  MinSet = {1, 2, 3}
  ShapeSet = {"exact", "missing", "extra", "wrongId", "perm", "dup", "dupAdj"}
  Depth = 24
  NVal = 3
SPECIFICATION GSpec
INVARIANT Emit
CHECK_DEADLOCK FALSE
