\* quick retry facet: two attempts (time-out, new committee, fresh nonces), shares of the previous attempt, any
\* submission order; q = 11, n in {3, 4}, t = 2, three sampled polynomials
\* measured: 78,216 distinct / 2,933,454 generated states, 30 s
CONSTANTS
  Q = 11
  NSet = {3, 4}
  TMin = 2
  TMax = 2
  PolyMode = "few"
  NonceD = {2, 6}
  NonceE = {1}
  RhoSet = {3}
  CSet = {1, 7}
  MaxAttempt = 2
  Period = 1
  MinHigh = 0
  SecrecyOn = FALSE
  MaxH = 4
  AscOnly = FALSE
  MCKinds = {"none", "scalar", "nonceOther", "signer", "committee", "staleRho", "prevAttempt"}
SPECIFICATION MCSpec
VIEW View
CONSTRAINT Bound
INVARIANTS Safety
PROPERTIES BadNeverStored SuccessRule CompleteSucceeds SigImmutable Final GroupFixed
CHECK_DEADLOCK FALSE
