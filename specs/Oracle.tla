------------------------------- MODULE Oracle -------------------------------
(***************************************************************************)
(* Oracle data-request life cycle of BandChain (x/oracle), properties C01  *)
(* (exactly-once, correct, authorised resolution) and the oracle half of   *)
(* C15 (deactivation only for genuine misses, re-activation after the      *)
(* penalty).                                                               *)
(*                                                                         *)
(* One action per entry point of the real code:                            *)
(*   Request   x/oracle/keeper/msg_server.go RequestData -> PrepareRequest *)
(*   Report    x/oracle/keeper/msg_server.go ReportData  -> AddReport      *)
(*   Activate  x/oracle/keeper/msg_server.go Activate                      *)
(*   EndBlock  x/oracle/abci.go EndBlocker (resolve pending, clear list,   *)
(*             ProcessExpiredRequests) followed by the next block's header *)
(* Inputs the code must refuse are actions too (outcome "rej", state       *)
(* unchanged).  `out` records the outcome of the last step.                *)
(***************************************************************************)
EXTENDS Integers, Sequences, FiniteSets, TLC

CONSTANTS
    Val,        \* bonded validators (all bonded for the whole history in this family)
    Stranger,   \* addresses that are not validators (may still send Activate / Report)
    MaxReq,     \* bound on the number of requests (ids 1..MaxReq)
    ExpSet,     \* possible values of params.expiration_block_count
    PenaltySet, \* possible values of params.inactive_penalty_duration (seconds)
    DtSet,      \* possible block-time increments (seconds); 0 = equal timestamps
    ShapeSet,   \* report shapes tried: subset of {"exact","missing","extra","wrongId"}
    AskSet, MinSet, \* ask_count / min_count values tried by Request
    Units       \* clock units per second (1, or 2 = half seconds): block times and validator-status times carry the full
                \* block time, request and resolve times are stored in WHOLE seconds (BlockTime().Unix())

Addr  == Val \cup Stranger
Never == -1                      \* "zero time" of a validator status that was never set
Ids   == 1..MaxReq
Whole(t) == (t \div Units) * Units     \* a time truncated to the whole second

VARIABLES
    h,           \* height of the block in progress
    now,         \* its block time (clock units since genesis)
    params,      \* [exp, penalty]
    count,       \* number of requests ever accepted (= last id)
    lastExpired, \* expiry cursor
    req,         \* id -> request record (NoReq when not created or deleted at expiry)
    rep,         \* id -> set of validators with a stored report
    res,         \* id -> result record (status "NONE" when there is none)
    pending,     \* sequence of ids to resolve at the end of this block
    vstat,       \* address -> [active, since]
    resolveEv,   \* id -> number of `resolve` events emitted so far
    out,         \* outcome of the last step: "init" | "ok" | "rej"
    \* ---- ghosts (never logged by the implementation; TLC computes them) ----
    gvals,       \* id -> committee (survives deletion of the request)
    minAt,       \* id -> height at which the min-th in-time report arrived (0 = never)
    resAt        \* id -> height whose EndBlock produced the result (0 = none)

core   == <<h, now, params, count, lastExpired, req, rep, res, pending, vstat, resolveEv, out>>
ghosts == <<gvals, minAt, resAt>>
vars   == <<h, now, params, count, lastExpired, req, rep, res, pending, vstat, resolveEv, out, gvals, minAt, resAt>>

NoReq == [present |-> FALSE, vals |-> {}, min |-> 0, rh |-> 0, rt |-> 0, ok |-> FALSE]
NoRes == [status |-> "NONE", ans |-> 0, ask |-> 0, min |-> 0, rt |-> 0, resT |-> 0]

Range(s) == {s[i] : i \in 1..Len(s)}

Eligible == {v \in Val : vstat[v].active}

Init ==
    /\ h = 2 /\ now = 100
    /\ params \in [exp : ExpSet, penalty : PenaltySet]
    /\ count = 0 /\ lastExpired = 0
    /\ req = [id \in Ids |-> NoReq]
    /\ rep = [id \in Ids |-> {}]
    /\ res = [id \in Ids |-> NoRes]
    /\ pending = <<>>
    /\ vstat = [a \in Addr |-> [active |-> FALSE, since |-> Never]]
    /\ resolveEv = [id \in Ids |-> 0]
    /\ out = "init"
    /\ gvals = [id \in Ids |-> {}]
    /\ minAt = [id \in Ids |-> 0]
    /\ resAt = [id \in Ids |-> 0]

Rejected == /\ out' = "rej"
            /\ UNCHANGED <<h, now, params, count, lastExpired, req, rep, res, pending, vstat, resolveEv, ghosts>>

(***************************************************************************)
(* MsgRequestData.  The committee S is chosen by the sampler (property     *)
(* C09); here it is any ask-sized subset of the eligible validators.       *)
(* ValidateBasic: 1 <= min <= ask.  Keeper: ask <= |eligible|.             *)
(***************************************************************************)
RequestOK(ask, min, ok, S) ==
    /\ count < MaxReq
    /\ min >= 1 /\ min <= ask
    /\ S \subseteq Eligible /\ Cardinality(S) = ask
    /\ LET id == count + 1 IN
        /\ count' = id
        /\ req' = [req EXCEPT ![id] = [present |-> TRUE, vals |-> S, min |-> min, rh |-> h, rt |-> Whole(now), ok |-> ok]]
        /\ gvals' = [gvals EXCEPT ![id] = S]
    /\ out' = "ok"
    /\ UNCHANGED <<h, now, params, lastExpired, rep, res, pending, vstat, resolveEv, minAt, resAt>>

RequestRej(ask, min) ==
    /\ (min < 1 \/ min > ask \/ ask > Cardinality(Eligible))
    /\ Rejected

(***************************************************************************)
(* MsgReportData.  shape: "exact" (one raw report per requested external   *)
(* id), "missing" (one left out), "extra" (one more), "wrongId" (right     *)
(* number, one id not requested), "perm" (exactly the requested ids in     *)
(* another order: as good as "exact"), "dup" (right number, the last id    *)
(* replaced by a copy of the first: not adjacent when three ids were       *)
(* requested), "dupAdj" (the second id replaced by a copy of the first).   *)
(* A report is a SET of answers, one per requested id: order is no part of *)
(* it, a repeated id is never one.                                         *)
(***************************************************************************)
OKShapes == {"exact", "perm"}

ReportAcceptable(v, id, shape) ==
    /\ id > lastExpired
    /\ id <= count
    /\ req[id].present
    /\ v \in req[id].vals
    /\ v \notin rep[id]
    /\ shape \in OKShapes

Report(v, id, shape) ==
    IF ReportAcceptable(v, id, shape)
    THEN /\ rep' = [rep EXCEPT ![id] = @ \cup {v}]
         /\ IF res[id].status = "NONE" /\ Cardinality(rep[id]) + 1 = req[id].min
            THEN /\ pending' = Append(pending, id)
                 /\ minAt' = [minAt EXCEPT ![id] = h]
            ELSE UNCHANGED <<pending, minAt>>
         /\ out' = "ok"
         /\ UNCHANGED <<h, now, params, count, lastExpired, req, res, vstat, resolveEv, gvals, resAt>>
    ELSE Rejected

(***************************************************************************)
(* MsgActivate (keeper.Activate): not active, and never deactivated or the *)
(* penalty has fully elapsed (since + penalty <= now).                     *)
(***************************************************************************)
Activate(a) ==
    IF /\ ~vstat[a].active
       /\ (vstat[a].since = Never \/ vstat[a].since + params.penalty <= now)
    THEN /\ vstat' = [vstat EXCEPT ![a] = [active |-> TRUE, since |-> now]]
         /\ out' = "ok"
         /\ UNCHANGED <<h, now, params, count, lastExpired, req, rep, res, pending, resolveEv, ghosts>>
    ELSE Rejected

(***************************************************************************)
(* End of block h, then the header of block h+1 (time + dt).               *)
(***************************************************************************)
Result(id, status) ==
    [status |-> status, ans |-> Cardinality(rep[id]), ask |-> Cardinality(req[id].vals),
     min |-> req[id].min, rt |-> req[id].rt, resT |-> Whole(now)]

EndBlock(dt) ==
    LET toResolve == Range(pending)
        res1 == [id \in Ids |->
                    IF id \in toResolve
                    THEN Result(id, IF req[id].ok THEN "SUCCESS" ELSE "FAILURE")
                    ELSE res[id]]
        expiring == {id \in (lastExpired + 1)..count : req[id].rh + params.exp <= h}
        newlyExpired == {id \in expiring : res1[id].status = "NONE"}
        missed(v) == \E id \in expiring : v \in req[id].vals /\ v \notin rep[id] /\ vstat[v].since < req[id].rt
    IN
    /\ res' = [id \in Ids |-> IF id \in newlyExpired THEN Result(id, "EXPIRED") ELSE res1[id]]
    /\ resAt' = [id \in Ids |-> IF id \in toResolve \cup newlyExpired THEN h ELSE resAt[id]]
    /\ resolveEv' = [id \in Ids |-> resolveEv[id]
                        + (IF id \in toResolve THEN 1 ELSE 0) + (IF id \in newlyExpired THEN 1 ELSE 0)]
    /\ vstat' = [a \in Addr |-> IF vstat[a].active /\ missed(a)
                                THEN [active |-> FALSE, since |-> now] ELSE vstat[a]]
    /\ req' = [id \in Ids |-> IF id \in expiring THEN NoReq ELSE req[id]]
    /\ rep' = [id \in Ids |-> IF id \in expiring THEN {} ELSE rep[id]]
    /\ lastExpired' = IF expiring = {} THEN lastExpired
                      ELSE CHOOSE m \in expiring : \A x \in expiring : x <= m
    /\ pending' = <<>>
    /\ h' = h + 1 /\ now' = now + dt
    /\ out' = "ok"
    /\ UNCHANGED <<params, count, gvals, minAt>>

Shapes == ShapeSet

Next ==
    \/ \E ask \in AskSet, min \in MinSet, ok \in BOOLEAN :
          \/ \E S \in SUBSET Eligible : RequestOK(ask, min, ok, S)
          \/ RequestRej(ask, min)
    \/ \E v \in Addr, id \in 1..(MaxReq + 1), shape \in Shapes : Report(v, id, shape)
    \/ \E a \in Addr : Activate(a)
    \/ \E dt \in DtSet : EndBlock(dt)

Spec == Init /\ [][Next]_vars /\ WF_vars(\E dt \in DtSet : EndBlock(dt))

-----------------------------------------------------------------------------
(* Invariants (C01) *)

TypeOK ==
    /\ h \in Nat /\ now \in Nat /\ count \in 0..MaxReq /\ lastExpired \in 0..count
    /\ \A id \in Ids : /\ rep[id] \subseteq Val
                       /\ res[id].status \in {"NONE", "SUCCESS", "FAILURE", "EXPIRED"}
    /\ out \in {"init", "ok", "rej"}

\* reports only from the committee, only while the request is stored
AuthorisedReports == \A id \in Ids : rep[id] \subseteq gvals[id] /\ (rep[id] # {} => req[id].present)

\* the pending list holds exactly the unresolved ids whose in-time report count reached min in this block
PendingSound ==
    /\ \A i, j \in 1..Len(pending) : i # j => pending[i] # pending[j]
    /\ \A id \in Ids : (id \in Range(pending)) <=> (minAt[id] = h /\ res[id].status = "NONE")
    /\ \A id \in Range(pending) : req[id].present /\ Cardinality(rep[id]) >= req[id].min

\* a result exists exactly as the statement says, with the right timing
ResultTiming ==
    \A id \in Ids :
        /\ res[id].status \in {"SUCCESS", "FAILURE"} => /\ minAt[id] # 0 /\ resAt[id] = minAt[id]
                                                          /\ res[id].ans >= res[id].min
        /\ res[id].status = "EXPIRED" => minAt[id] = 0 /\ res[id].ans < res[id].min
        /\ (res[id].status = "NONE" /\ minAt[id] # 0) => minAt[id] = h
        /\ res[id].status # "NONE" => /\ res[id].ask = Cardinality(gvals[id])
                                       /\ res[id].ans <= res[id].ask
                                       /\ res[id].resT <= now /\ res[id].rt <= res[id].resT
                                       /\ resAt[id] < h

\* stored requests are exactly the ids above the cursor; nothing outlives its expiry unresolved
ExpiryComplete ==
    \A id \in Ids :
        /\ (id <= count /\ id > lastExpired) <=> req[id].present
        /\ id <= lastExpired => res[id].status # "NONE" /\ rep[id] = {}
        /\ req[id].present => req[id].rh <= h

OneResolveEvent == \A id \in Ids : resolveEv[id] = (IF res[id].status = "NONE" THEN 0 ELSE 1)

Inv == TypeOK /\ AuthorisedReports /\ PendingSound /\ ResultTiming /\ ExpiryComplete /\ OneResolveEvent

\* with a constant expiration parameter a request is resolved or expired no later than block rh+exp
ExpiredOnTime == \A id \in Ids : req[id].present => req[id].rh + params.exp >= h

(* Action properties: XxxA is the action-level formula, Xxx the temporal property *)
ResultImmutableA == \A id \in Ids : res[id].status # "NONE" => res'[id] = res[id]
ResultOnlyAtEndBlockA == (\E id \in Ids : res'[id] # res[id]) => h' = h + 1
CursorMonotoneA == lastExpired' >= lastExpired /\ count' >= count
ReportOnceA == \A id \in Ids : \/ (rep[id] \subseteq rep'[id] /\ Cardinality(rep'[id]) <= Cardinality(rep[id]) + 1)
                               \/ rep'[id] = {}

(* C15, oracle half *)
ActivationRuleA ==
    \A a \in Addr : (~vstat[a].active /\ vstat'[a].active) =>
            /\ h' = h
            /\ (vstat[a].since = Never \/ vstat[a].since + params.penalty <= now)
            /\ vstat'[a].since = now
DeactivationRuleA ==
    \A a \in Addr : (vstat[a].active /\ ~vstat'[a].active) =>
            /\ h' = h + 1
            /\ vstat'[a].since = now
            /\ \E id \in Ids : /\ req[id].present /\ ~req'[id].present
                               /\ a \in req[id].vals /\ a \notin rep[id]
                               /\ vstat[a].since < req[id].rt
StatusStableA == \A a \in Addr : (vstat[a].active = vstat'[a].active) => vstat'[a] = vstat[a]
\* a validator that reported every expiring request it was chosen for stays active
ReporterSafeA ==
    \A a \in Addr : (vstat[a].active /\ h' = h + 1 /\
            \A id \in Ids : (req[id].present /\ ~req'[id].present /\ a \in req[id].vals) => a \in rep[id])
          => vstat'[a].active

StepProps == /\ ResultImmutableA /\ ResultOnlyAtEndBlockA /\ CursorMonotoneA /\ ReportOnceA
             /\ ActivationRuleA /\ DeactivationRuleA /\ StatusStableA /\ ReporterSafeA

ResultImmutable == [][ResultImmutableA]_vars
ResultOnlyAtEndBlock == [][ResultOnlyAtEndBlockA]_vars
CursorMonotone == [][CursorMonotoneA]_vars
ReportOnce == [][ReportOnceA]_vars
ActivationRule == [][ActivationRuleA]_vars
DeactivationRule == [][DeactivationRuleA]_vars
StatusStable == [][StatusStableA]_vars
ReporterSafe == [][ReporterSafeA]_vars

(* Liveness: every accepted request eventually has a result *)
EveryRequestResolved == \A id \in Ids : (id <= count) ~> (res[id].status # "NONE")

=============================================================================
