CONSTANTS
  MaxTun = 3
  Sig = {"s1", "s2"}
  Acct = {"p1", "p2", "p3"}
  Denom = {"ua", "ub"}
  FeeDenom = "ub"
  MinIv = 1
  MaxIv = 10
  MinDev = 50
  MaxDev = 3000
  ParamSet <- G_Params
  KindSet = {"tss", "ibc", "tssLong"}
  IvSet = {2, 3, 0}
  SigSets <- G_Sigs
  DevSet <- G_Dev
  AmtSet <- G_Amt
  FundSet = {3, 7, 14}
  PriceSet <- G_Price
  ModeSet = {"ok", "noGroup", "noNonces", "inactive", "maxAtt0", "panic"}
  DtSet = {0, 1, 2, 3}
  InitBal = 6
  Depth = 32
  Bias = "dep"
SPECIFICATION GSpec
INVARIANT Emit
CHECK_DEADLOCK FALSE
