--------------------------- MODULE FeedsPrice_Gen ---------------------------
(***************************************************************************)
(* GEN role: TLC -simulate walks FeedsPrice and records abstract scripts.  *)
(*  mode "sys"  : one script step per spec action (Submit / Activate /     *)
(*                Jail / EndBlock); validators are named by role           *)
(*                ("val k" = k-th genesis validator, whose tokens are a    *)
(*                constant of the script; "stranger").                     *)
(*  mode "calc" : a list of Calc cases for the pure binding; each case is  *)
(*                built entry by entry (<= 5 entries), closed with a       *)
(*                quorum around the decision boundaries, a power scale     *)
(*                2^kexp and a price scale 2^pexp.                         *)
(* After Depth - 4 steps (3 set-up steps first) the script is appended to $GEN_OUT.  Successors   *)
(* are replicated (\E w \in 1..W) to weight the uniform random choice.     *)
(***************************************************************************)
EXTENDS FeedsPrice, IOUtils, Json

CONSTANTS Depth, ModeSet, MinActive, SubmitW
VARIABLES script, mode, n, cur, target, ia, f0, kind
gvars == <<vars, script, mode, n, cur, target, ia, f0, kind>>

ToffG == {-2, -1, 0, 1, 2}       \* cfg files cannot write negative numbers: ToffSet <- ToffG

NVal     == Cardinality(Val)
Ord(v)   == CHOOSE i \in 1..NVal : v = "v" \o ToString(i)
ValAt(i) == CHOOSE v \in Val : Ord(v) = i
Who(a)   == IF a \in Stranger THEN [role |-> "stranger", k |-> 1] ELSE [role |-> "val", k |-> Ord(a)]
SigSeq   == <<"s1", "s2">>
SeqOfMsg(m) == LET present == SelectSeq(SigSeq, LAMBDA s : s \in DOMAIN m)
               IN [i \in 1..Len(present) |-> [sig |-> present[i], st |-> m[present[i]].st, price |-> m[present[i]].price]]

\* genesis token vectors (the driver keeps one in-process chain per vector): distinct powers, one validator holding
\* most of the power, equal powers
Palette == {<<1, 2, 3>>, <<9, 1, 1>>, <<2, 2, 2>>, <<4, 3, 1>>}

CanonOrder == CHOOSE o \in Perms(InPowerIndex) : TRUE
FullMsgs   == [Cur -> StPrice]

GEntries == {[pw |-> p, ts |-> t, price |-> c, st |-> "avail"] : p \in PowerSet, t \in 0..3, c \in 1..4}
       \cup {[pw |-> p, ts |-> t, price |-> 0, st |-> st] : p \in PowerSet, t \in 0..3, st \in {"unavail", "unsupp"}}

\* quorum values around every comparison of the status rule
Quorums(s) == LET t == SumPw(s) IN {0, t, t + 1, (t + 1) \div 2} \cup (IF t > 0 THEN {t - 1} ELSE {})

\* The constants of a script are drawn in three set-up steps (one big Init would have ~10^7 initial states).
GInit ==
    /\ h = 3 /\ now = 101 /\ updT = 101 /\ updH = 3
    /\ params = [grace |-> 1, cool |-> 1, disc |-> 1, upd |-> 1, qn |-> 1, penalty |-> 1]
    /\ feeds = [s \in Sig |-> 0]
    /\ vprice = [v \in Val |-> [s \in Sig |-> NoVP]]
    /\ price = [s \in Sig |-> NoPrice]
    /\ vstat = [a \in Addr |-> [active |-> FALSE, since |-> Never]]
    /\ deactEv = [a \in Addr |-> 0]
    /\ bonded = [v \in Val |-> TRUE] /\ jailed = {} /\ power = [v \in Val |-> 1]
    /\ out = "init"
    /\ ia = <<>> /\ f0 = feeds /\ mode = "setup0"
    /\ script = <<>> /\ n = 0 /\ cur = <<>> /\ target = 0 /\ kind = "pick"

Setup ==
    /\ UNCHANGED <<h, now, updT, updH, vprice, price, deactEv, bonded, jailed, out, script, n, cur, kind>>
    /\ CASE mode = "setup0" ->
               /\ params' \in [grace : GraceSet, cool : CoolSet, disc : DiscSet, upd : UpdSet, qn : QuorumSet, penalty : PenaltySet]
               /\ mode' = "setup1"
               /\ UNCHANGED <<feeds, vstat, power, ia, f0, target>>
         [] mode = "setup1" ->
               /\ power' \in {[v \in Val |-> t[Ord(v)]] : t \in Palette}
               /\ mode' = "setup2"
               /\ UNCHANGED <<params, feeds, vstat, ia, f0, target>>
         [] mode = "setup2" ->
               /\ feeds' \in [Sig -> IntervalSet \cup {0}]
               /\ f0' = feeds'
               /\ \E act \in {S \in SUBSET Val : Cardinality(S) >= MinActive} :
                     /\ vstat' = [a \in Addr |-> IF a \in act THEN [active |-> TRUE, since |-> 100] ELSE [active |-> FALSE, since |-> Never]]
                     /\ ia' = [i \in 1..NVal |-> ValAt(i) \in act]
               /\ mode' \in ModeSet
               /\ target' \in 0..5
               /\ UNCHANGED <<params, power>>

Last == n >= Depth - 5

\* The kind of the next step is drawn first (weights = multiplicity in KindW), then only that kind's successors are
\* enumerated: TLC's simulator picks uniformly among ALL successors, so without this the rare kinds would starve and
\* every step would pay for evaluating every end-block variant.
KindW == [i \in 1..SubmitW |-> "submit"] \o <<"submitT", "bad", "foreign", "activate", "jail", "endblock", "endblock", "endblock", "endblock">>
KindOK(k) == CASE k \in {"submitT", "bad"} -> Cur # {}
               [] k = "foreign" -> Cur # Sig
               [] k = "jail" -> Cardinality(InPowerIndex) >= 2
               [] OTHER -> TRUE

SysPick == /\ \E w \in 1..Len(KindW) : KindOK(KindW[w]) /\ kind' = KindW[w]
           /\ UNCHANGED <<vars, script>>

SysStep ==
    /\ kind' = "pick"
    /\ CASE kind = "submit" ->
            \E a \in Addr, m \in UNION {[S -> StPrice] : S \in SUBSET Cur} :
              /\ Submit(a, 0, m, "wf")
              /\ script' = Append(script, [e |-> "Submit", who |-> Who(a), toff |-> 0, sps |-> SeqOfMsg(m), shape |-> "wf"])
         [] kind = "submitT" ->
            \E a \in Addr, toff \in ToffSet \ {0}, m \in FullMsgs :
              /\ Submit(a, toff, m, "wf")
              /\ script' = Append(script, [e |-> "Submit", who |-> Who(a), toff |-> toff, sps |-> SeqOfMsg(m), shape |-> "wf"])
         [] kind = "bad" ->
            \E a \in Val, shape \in {"dup", "nzprice", "unspec"} :
              /\ Submit(a, 0, [s \in Cur |-> [st |-> "unavail", price |-> 0]], shape)
              /\ script' = Append(script, [e |-> "Submit", who |-> Who(a), toff |-> 0,
                                           sps |-> SeqOfMsg([s \in Cur |-> [st |-> "unavail", price |-> 0]]), shape |-> shape])
         [] kind = "foreign" ->          \* a message naming a signal that is not a current feed
            \E a \in Val, m \in Msgs :
              /\ ~(DOMAIN m \subseteq Cur)
              /\ Submit(a, 0, m, "wf")
              /\ script' = Append(script, [e |-> "Submit", who |-> Who(a), toff |-> 0, sps |-> SeqOfMsg(m), shape |-> "wf"])
         [] kind = "activate" ->
            \E a \in Addr :
              /\ Activate(a)
              /\ script' = Append(script, [e |-> "Activate", who |-> Who(a)])
         [] kind = "jail" ->
            \E v \in Val :
              /\ Jail(v)
              /\ script' = Append(script, [e |-> "Jail", who |-> Who(v)])
         [] kind = "endblock" ->
            \E dt \in DtSet, nf \in [Sig -> IntervalSet \cup {0}] :
              /\ (h % params.upd # 0 => nf = feeds)
              /\ EndBlock(dt, nf, CanonOrder)
              /\ script' = Append(script, [e |-> "EndBlock", dt |-> dt, feeds |-> nf])

SysNext == IF kind = "pick" THEN SysPick ELSE SysStep

SysLast ==
    /\ kind' = kind
    /\ EndBlock(1, feeds, CanonOrder)
    /\ script' = Append(script, [e |-> "EndBlock", dt |-> 1, feeds |-> feeds])

CalcNext ==
    \/ /\ Len(cur) < target
       /\ \E e \in GEntries : cur' = Append(cur, e)
       /\ UNCHANGED <<script, target>>
    \/ /\ Len(cur) = target
       /\ \E q \in Quorums(cur), kexp \in {0, 32, 58}, pexp \in {0, 60}, fn \in {"price", "price", "median"}, t2 \in 0..5 :
             /\ script' = Append(script, [e |-> "Calc", fn |-> fn, infos |-> cur, quorum |-> q, kexp |-> kexp, pexp |-> pexp])
             /\ target' = t2
       /\ cur' = <<>>

GNext ==
  IF mode \in {"setup0", "setup1", "setup2"} THEN Setup
  ELSE
    /\ n' = n + 1
    /\ UNCHANGED <<mode, ia, f0>>
    /\ IF mode = "sys"
       THEN /\ (IF Last THEN SysLast ELSE SysNext)
            /\ UNCHANGED <<cur, target>>
       ELSE /\ (IF Last THEN UNCHANGED <<script, cur, target>> ELSE CalcNext)
            /\ UNCHANGED <<vars, kind>>

GSpec == GInit /\ [][GNext]_gvars

Emit ==
    TLCGet("level") = Depth =>
        Serialize(<<[c |-> [mode |-> mode, nval |-> NVal, tokens |-> [i \in 1..NVal |-> power[ValAt(i)]], active |-> ia, feeds0 |-> f0,
                            grace |-> params.grace, cool |-> params.cool, disc |-> params.disc, upd |-> params.upd,
                            qn |-> params.qn, penalty |-> params.penalty],
                     steps |-> script]>>,
                  IOEnv.GEN_OUT,
                  [format |-> "NDJSON", charset |-> "UTF-8", openOptions |-> <<"WRITE", "CREATE", "APPEND">>])
=============================================================================
