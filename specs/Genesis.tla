------------------------------ MODULE Genesis ------------------------------
(* Extension X01 of the specification (DESIGN.md section 6, "Genesis"):                              *)
(*                                                                                                   *)
(*   export -> import is the identity on the observable state of every band module, and the          *)
(*   imported chain behaves the same afterwards.                                                     *)
(*                                                                                                   *)
(* Two chains.  Chain A executes blocks (Run: opaque, any change of its state), then its state is    *)
(* exported (Export).  Chain B is created from the exported genesis (Import).  From then on both     *)
(* chains execute the SAME blocks (StepBoth).                                                        *)
(*                                                                                                   *)
(* The observable state is a function from FACETS to abstract values.  A facet is                    *)
(*   - a collection of a band module's store (requests, reports, signings, votes, packets, locks,    *)
(*     counters, indices, params ...): its value is a canonical digest of its key/value pairs;       *)
(*   - "<group>.tx": the result codes of the block's transactions of one behaviour group;            *)
(*   - "chain.live": whether the block executed at all ("none" = no error).                          *)
(* As in Block.tla, what the two chains showed is an ARGUMENT of the actions (TLA+ cannot compute a  *)
(* store digest and need not); the property is the set of invariants below, evaluated on every       *)
(* recorded step (Genesis_Trace.tla).  Genesis_MC.tla drives the same actions from a small           *)
(* executable model of a chain whose export/import may drop or alter a collection, and shows that    *)
(* the invariants accept the faithful implementation and reject every deviation - in the facet of    *)
(* the deviating collection and in no facet that cannot depend on it.                                *)
(*                                                                                                   *)
(* Behaviour after the import is compared per facet, and only where it can be expected to agree:     *)
(* every facet belongs to a behaviour GROUP, Deps[group] is the set of collections the group's       *)
(* handlers and end-blockers read.  If a collection in Deps[group] did not survive the round trip    *)
(* (it is reported by RoundTrip in its own facet), divergence of the group is a consequence, not a   *)
(* second finding: the facet is exempt (not Intact).                                                 *)
EXTENDS Naturals, FiniteSets

CONSTANTS
    Deps          \* function: behaviour group -> set of collections its behaviour may depend on

VARIABLES
    phase,        \* "run" | "exported" | "imported" | "refused" | "compared" | "stepping"
    a,            \* chain A: facet -> value
    b,            \* chain B: facet -> value
    g,            \* the exported state: facet -> value (what chain A held when Export was called)
    grp,          \* facet -> behaviour group
    valid,        \* the export succeeded and every module's own Validate accepted its section
    initok,       \* InitChain accepted the exported state
    diff,         \* collections (of ALL modules) whose value on B after the import differs from g
    errA, errB    \* block execution error of the last common block ("none" | "error" | "panic")

vars == <<phase, a, b, g, grp, valid, initok, diff, errA, errB>>

Facets == DOMAIN a

Init(facets, groupOf, a0) ==
    /\ phase = "run"
    /\ a = a0 /\ b = a0 /\ g = a0
    /\ grp = [f \in facets |-> groupOf[f]]
    /\ valid = TRUE /\ initok = TRUE
    /\ diff = {}
    /\ errA = "none" /\ errB = "none"

(* Blocks on chain A before the export: any change.                                                  *)
Run(newA) ==
    /\ phase = "run"
    /\ DOMAIN newA = Facets
    /\ a' = newA
    /\ UNCHANGED <<phase, b, g, grp, valid, initok, diff, errA, errB>>

(* Another pair of chains (the next run of a script): everything starts over.                        *)
Restart(newA) ==
    /\ phase \in {"refused", "compared", "stepping"}
    /\ DOMAIN newA = Facets
    /\ phase' = "run"
    /\ a' = newA /\ b' = newA /\ g' = newA
    /\ valid' = TRUE /\ initok' = TRUE /\ diff' = {}
    /\ errA' = "none" /\ errB' = "none"
    /\ UNCHANGED grp

(* app.ExportAppStateAndValidators at the committed height; ok = it returned without error/panic,   *)
(* v = every module's ValidateGenesis accepted the exported section.  In the abstract the exported   *)
(* genesis IS chain A's observable state.                                                            *)
Export(ok, v) ==
    /\ phase = "run"
    /\ g' = a
    /\ valid' = (ok /\ v)
    /\ phase' = "exported"
    /\ UNCHANGED <<a, b, grp, initok, diff, errA, errB>>

(* validate-genesis + InitChain of a fresh application with the exported state.  The import is       *)
(* refused iff validation fails or InitChain refuses (i = InitChain accepted).                        *)
Import(i) ==
    /\ phase = "exported"
    /\ initok' = i
    /\ phase' = IF i THEN "imported" ELSE "refused"
    /\ UNCHANGED <<a, b, g, grp, valid, diff, errA, errB>>

(* The state of chain B right after the import, and the set of collections that differ.              *)
Compare(obsB, d) ==
    /\ phase = "imported"
    /\ DOMAIN obsB = Facets
    /\ b' = obsB
    /\ diff' = d
    /\ phase' = "compared"
    /\ UNCHANGED <<a, g, grp, valid, initok, errA, errB>>

(* One more block, the same on both chains.                                                          *)
StepBoth(newA, newB, ea, eb) ==
    /\ phase \in {"compared", "stepping"}
    /\ errA = "none" /\ errB = "none"          \* a halted chain executes nothing more
    /\ DOMAIN newA = Facets /\ DOMAIN newB = Facets
    /\ a' = newA /\ b' = newB
    /\ errA' = ea /\ errB' = eb
    /\ phase' = "stepping"
    /\ UNCHANGED <<g, grp, valid, initok, diff>>

(* ------------------------------- the property ------------------------------- *)

(* A state reached by real execution always exports to a genesis its own modules accept.            *)
ExportedAlwaysValid == phase # "run" => valid

(* ... and a genesis that validates is accepted by InitChain.                                        *)
ImportAccepts == (phase \notin {"run", "exported"} /\ valid) => initok

(* Round trip: per facet, and for all.                                                               *)
RT(f) == b[f] = g[f]
RoundTrip == phase = "compared" => \A f \in Facets : RT(f)

(* Same behaviour: per facet, and for all.                                                           *)
Intact(gr) == diff \cap Deps[gr] = {}
SB(f) == Intact(grp[f]) => a[f] = b[f]
SameBehaviour == phase = "stepping" => \A f \in Facets : SB(f)

(* The imported chain is live: a block that chain A executes is executed by chain B.                *)
Live == phase = "stepping" => (errA = "none" => errB = "none")
=============================================================================
