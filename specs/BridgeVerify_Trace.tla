------------------------- MODULE BridgeVerify_Trace -------------------------
(* Trace validation for BridgeVerify.tla (property C12): one TLC step per recorded line.            *)
(* Lines come from harness/fam_bridge: a Reset line starts a chain (real BandApp behind a fake       *)
(* CometBFT node that builds real headers and real signed precommits) and carries the store names    *)
(* the multistore really commits plus the sibling sides of the proof the SDK really serves; every     *)
(* Proof line is one call of the real proof service (client/grpc/oracle/proof) - a = the request,     *)
(* o = whether it answered and the ProofResponse fields in hex, s = observations obtained from        *)
(* trusted libraries only (CometBFT header hash / app hash / VoteSignBytes, SHA-256 of the stored     *)
(* bytes read from the oracle store, the store's committed root, go-ethereum's Ecrecover).            *)
(*                                                                                                    *)
(* TLC gives the verdict through INVARIANTS: Verified (every stage of the bridge algorithm, computed   *)
(* by TLC with SHA-256 as the only external primitive, agrees with the observations), LayoutOK and     *)
(* Consecutive (every line was a step of the specification).  l counts consumed lines, so an           *)
(* invariant violated in a state with l = k is a statement about line k.                               *)
EXTENDS BridgeVerify, Json

CONSTANTS TraceFile
TraceLog == ndJsonDeserialize(TraceFile)
VARIABLES l, bad
tvars == <<vars, l, bad>>

Line == TraceLog[l + 1]

TraceInit == l = 0 /\ bad = FALSE /\ Init

IsReset == Line.e = "Reset"
IsProof == Line.e = "Proof"

\* observations of a Proof line, with the chain id of the running chain
Obs == Line.s

TReset ==
    /\ IsReset
    /\ Boot(Line.s.stores, Line.s.sides)
    /\ bad' = FALSE

TProof ==
    /\ IsProof
    /\ (Relay(Line.a, Line.o, Obs) \/ Refuse(Line.a, Line.o, Obs))
    /\ bad' = FALSE

TMalformed == ~IsReset /\ ~IsProof /\ bad' = TRUE /\ UNCHANGED vars

TraceNext == l < Len(TraceLog) /\ l' = l + 1 /\ (TReset \/ TProof \/ TMalformed)
TraceSpec == TraceInit /\ [][TraceNext]_tvars

Consecutive == ~bad

\* how a violating state is printed (cfg: ALIAS): the stages that failed instead of the whole record and store list
TAlias == [l |-> l, failedStages |-> {k \in DOMAIN chk : ~chk[k]}, failedLayout |-> {k \in DOMAIN layout : ~layout[k]},
           nproof |-> nproof, bad |-> bad]

\* every line was consumed (false exactly when an invariant stopped the run earlier)
TraceAccepted == TLCGet("stats").diameter - 1 = Len(TraceLog)
=============================================================================
