\* all pairs of (content, time): equal bytes <=> equal tag, shape and field values
CONSTANTS
  MaxSig = 3
  MaxMemo = 2
  MaxText = 2
  MaxSigs = 1
  Zero = 0
  FineFrom = 10
  MaxNow = 1
  OrigMode = "each"
  StrDom <- Strs6
  SigDom <- SigsPlain
INIT InitCont
NEXT Stay
INVARIANTS ContInj
CHECK_DEADLOCK FALSE
