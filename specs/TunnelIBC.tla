------------------------------ MODULE TunnelIBC ------------------------------
(***************************************************************************)
(* Extension X05 (not one of the twenty listed properties; DESIGN.md 8.8): *)
(* tunnel packets over an IBC route that really DELIVERS.  The module      *)
(* EXTENDS Tunnel.tla (packet rule, sequence numbers, fees, deposits) and  *)
(* adds the channels of the tunnel ports, the channel a tunnel's IBCRoute  *)
(* names, and the IBC packets committed by ibc core.                       *)
(*                                                                         *)
(* PROPERTY X05 (in the style of properties.jsonl).                        *)
(* statement:                                                              *)
(*  (a) Production.  For an active, funded tunnel with an IBC route whose  *)
(*      channel is OPEN (and whose channel capability the tunnel module    *)
(*      holds) a packet is produced exactly when the packet rule of        *)
(*      Tunnel.tla says so (interval due, or some signal moved by at least *)
(*      its hard deviation; MsgTriggerTunnel sends everything); tunnel     *)
(*      sequence numbers are gap-free.                                     *)
(*  (b) One IBC packet per tunnel packet.  Exactly one IBC packet is       *)
(*      committed on the route's channel (port `tunnel.<id>`) per produced *)
(*      tunnel packet, IBC sequence numbers on a channel are gap-free, the *)
(*      stored tunnel packet's receipt carries that IBC sequence; the data *)
(*      decodes (types.TunnelPricesPacketData, JSON) to the tunnel's id,   *)
(*      the tunnel sequence, the prices of exactly the signals the rule    *)
(*      selects (current feeds prices; a signal without a feeds price is   *)
(*      sent with price 0) and created_at = the block time; the timeout    *)
(*      is as the code computes it: no timeout height, timeout timestamp = *)
(*      block time + tunnel.Interval seconds (keeper_packet_ibc.go).       *)
(*  (c) Fees.  The base packet fee is charged exactly once per packet to   *)
(*      the tunnel's fee payer and booked in TotalFees; no TSS route fee   *)
(*      is charged or escrowed for an IBC route (GetRouteFee = 0), also    *)
(*      while bandtss has a current group and a positive fee per signer.   *)
(*  (d) Failure.  When the channel is closed, the capability is missing,   *)
(*      or the channel does not exist (route "" of a fresh tunnel), the    *)
(*      send fails and NOTHING of the attempt persists: no sequence        *)
(*      advance, no stored packet, no fee, no commitment, latest prices    *)
(*      and LastInterval unchanged; at end-block the tunnel stays active   *)
(*      (one produce_packet_fail event), a MsgTriggerTunnel is refused.    *)
(*  (e) Route.  MsgUpdateRoute of an IBC tunnel is accepted exactly for    *)
(*      the tunnel's creator, a route of the same type, and a channel id   *)
(*      that names an existing OPEN channel on the tunnel's OWN port       *)
(*      `tunnel.<id>`; otherwise refused, nothing changes.  (The code at   *)
(*      msg_server.go UpdateRoute only tests that the channel EXISTS on    *)
(*      that port, in any state: see findings/X05-*, opt-in entry X05D.)   *)
(*      MsgCreateTunnel with an IBC route that already names a channel is  *)
(*      refused; creating an IBC tunnel binds its port (a channel can be   *)
(*      opened on `tunnel.<id>` exactly when <id> is an IBC tunnel); the   *)
(*      tunnel module accepts only UNORDERED channels of version           *)
(*      `tunnel-1` and refuses user-initiated channel closing.             *)
(*  (f) Callbacks.  The tunnel IBC module refuses incoming packets (error  *)
(*      acknowledgement) and ignores acknowledgements and timeouts of its  *)
(*      own packets: no tunnel state changes (ibc core clears the packet   *)
(*      commitment; an UNORDERED channel stays open after a timeout).      *)
(* quantifier: all interleavings of price moves, end-blocks with different *)
(*      time steps, triggers, funding, re-configuration, channel           *)
(*      handshakes, channel failures, route updates by creators and        *)
(*      strangers over all channel names, incoming packets, relayed        *)
(*      acknowledgements and timeouts; several tunnels in one end-block.   *)
(* observe_at: x/tunnel stores (tunnel, packets + receipts, latest prices, *)
(*      total fees), bank balances, `send_packet` events of ibc core and   *)
(*      the packet commitments / next-sequence-send of every tunnel        *)
(*      channel, channel ends and capabilities, the acknowledgement ibc    *)
(*      core writes for MsgRecvPacket.                                     *)
(*                                                                         *)
(* One action per entry point of the real code (the I-prefixed actions     *)
(* restate an action of Tunnel.tla with the route test of an IBC route):   *)
(*   ICreate      msg_server.go CreateTunnel (+ ensureIBCPort)             *)
(*   IUpdateRoute msg_server.go UpdateRoute                                *)
(*   ITrigger     msg_server.go TriggerTunnel -> SendPacket ->             *)
(*                keeper_packet_ibc.go SendIBCPacket -> ics4Wrapper        *)
(*   IEndBlock    abci.go -> ProduceActiveTunnelPackets -> ... the same    *)
(*   ChanInit     ibc core MsgChannelOpenInit -> ibc_module.go             *)
(*                OnChanOpenInit                                           *)
(*   CloseInit    ibc core MsgChannelCloseInit -> OnChanCloseInit          *)
(*   RecvIn       ibc core MsgRecvPacket -> OnRecvPacket                   *)
(*   AckPkt       ibc core MsgAcknowledgement -> OnAcknowledgementPacket   *)
(*   TimeoutPkt   ibc core MsgTimeout -> OnTimeoutPacket                   *)
(* Environment: ChanOpenRest (the counterparty answers: Try / Ack /        *)
(* Confirm), Break (channel end CLOSED / capability released), and         *)
(* Tunnel's SetFeed, Fund.                                                 *)
(***************************************************************************)
EXTENDS Tunnel

CONSTANTS
    MaxCh,      \* channels per tunnel port: (t, 1..MaxCh), created in this order
    \* ---- input domains enumerated by the MC next-state relations ----
    ChanArgs,   \* channel names [p, k] tried by MsgUpdateRoute ([0,0] = "", a name without channel = unknown id)
    RkSet,      \* route types of a MsgUpdateRoute: "ibc", "tss"
    OrdSet,     \* channel orderings tried by ChanOpenInit
    VerSet,     \* channel versions tried by ChanOpenInit
    HowSet      \* ways a channel breaks: "closed", "nocap"

Chs      == 1..MaxCh
NoRoute  == [p |-> 0, k |-> 0]                     \* IBCRoute.ChannelID = ""
NoChan   == [st |-> "none", cap |-> FALSE]
Version  == "tunnel-1"

VARIABLES
    route,      \* t -> [p, k]: the channel the tunnel's IBCRoute names (k-th channel of port tunnel.<p>)
    chan,       \* t -> k -> [st, cap]: state of the channel end ("none" | "init" | "open" | "closed"), and whether the
                \*                      tunnel module holds the channel capability
    ibc,        \* sequence (in sending order) of the IBC packets committed on tunnel channels:
                \*   [p, k, iseq, tid, tseq, prices : [Sig -> price | NoPrice], at, to, live]
                \*   live = the packet commitment is still in the ibc store (cleared by an acknowledgement / a timeout)
    rcpt,       \* t -> sequence of the receipts of the stored tunnel packets (IBC sequence; 0 = not an IBC receipt)
    ack         \* output: class of the acknowledgement written for an incoming packet ("none" | "err" | "res")

ibcvars == <<route, chan, ibc, rcpt>>
ivars   == <<vars, route, chan, ibc, rcpt, ack>>

IInit ==
    /\ Init
    /\ route = [t \in Tuns |-> NoRoute]
    /\ chan = [t \in Tuns |-> [k \in Chs |-> NoChan]]
    /\ ibc = <<>>
    /\ rcpt = [t \in Tuns |-> <<>>]
    /\ ack = "none"

IDone(e, who, t, o) == Done(e, who, t, o) /\ ack' = "none"
IRejected(e, who, t) == Rejected(e, who, t) /\ ack' = "none" /\ UNCHANGED ibcvars

\* ---- channels ----
NCh(t)            == Cardinality({k \in Chs : chan[t][k].st # "none"})
ChanExists(p, k)  == p \in Tuns /\ k \in Chs /\ chan[p][k].st # "none"
ChanIsOpen(p, k)  == ChanExists(p, k) /\ chan[p][k].st = "open"
ChanUsable(p, k)  == ChanIsOpen(p, k) /\ chan[p][k].cap
OnChan(log, p, k) == {i \in 1..Len(log) : log[i].p = p /\ log[i].k = k}
\* ibc core's NextSequenceSend of a channel
NextSeqSend(p, k) == Cardinality(OnChan(ibc, p, k)) + 1

\* the route delivers: SendIBCPacket finds the capability of (tunnel.<t>, route.ChannelID) and ibc core finds the
\* channel end OPEN
IbcOK(t) == route[t].p = t /\ ChanUsable(route[t].p, route[t].k)
ROK(t)   == IF cfg[t].kind = "ibc" THEN IbcOK(t) ELSE RouteOK(t)

\* the IBC packet of the next tunnel packet of t with content S
IbcPkt(t, S) == [p |-> route[t].p, k |-> route[t].k, iseq |-> NextSeqSend(route[t].p, route[t].k),
                 tid |-> t, tseq |-> seq[t] + 1,
                 prices |-> [s \in Sig |-> IF s \in S THEN FeedP(s) ELSE NoPrice],
                 at |-> now, to |-> now + cfg[t].interval, live |-> TRUE]
Receipt(t)   == IF cfg[t].kind = "ibc" THEN NextSeqSend(route[t].p, route[t].k) ELSE 0

RECURSIVE AscSeq(_)
AscSeq(S) == IF S = {} THEN <<>> ELSE LET m == CHOOSE x \in S : \A y \in S : x <= y IN <<m>> \o AscSeq(S \ {m})

(***************************************************************************)
(* MsgCreateTunnel.  `preset` = the IBC route of the message already names *)
(* a channel: refused ("channel id should be set after create tunnel").    *)
(***************************************************************************)
ICreate(a, kind, iv, sigs, soft, hard, d0, preset) ==
    IF preset /\ kind = "ibc"
    THEN count < MaxTun /\ IRejected("CreateTunnel", a, count + 1)
    ELSE CreateTunnel(a, kind, iv, sigs, soft, hard, d0) /\ ack' = "none" /\ UNCHANGED ibcvars

IUpdateSignals(a, t, iv, sigs, soft, hard) ==
    UpdateSignals(a, t, iv, sigs, soft, hard) /\ ack' = "none" /\ UNCHANGED ibcvars

(***************************************************************************)
(* MsgUpdateRoute(creator a, tunnel t, route of type rk naming channel     *)
(* (p, k)).  The channel is looked up on the tunnel's own port, so a       *)
(* channel of another port is "not found" whatever its id.                 *)
(***************************************************************************)
IUpdateRoute(a, t, rk, p, k) ==
    IF Exists(t) /\ a = cfg[t].creator /\ cfg[t].kind = "ibc" /\ rk = "ibc" /\ p = t /\ ChanIsOpen(p, k)
    THEN /\ route' = [route EXCEPT ![t] = [p |-> p, k |-> k]]
         /\ IDone("UpdateRoute", a, t, "ok")
         /\ UNCHANGED <<now, params, tunvars, envvars, balvars, chan, ibc, rcpt>>
    ELSE IRejected("UpdateRoute", a, t)

(***************************************************************************)
(* MsgTriggerTunnel: Tunnel!Trigger with the route test of the tunnel's    *)
(* kind; an IBC tunnel commits one IBC packet with all signals.            *)
(***************************************************************************)
ITrigger(a, t) ==
    IF Exists(t) /\ a = cfg[t].creator /\ active[t] /\ Funded(t) /\ ROK(t)
    THEN /\ seq' = [seq EXCEPT ![t] = @ + 1]
         /\ pkts' = [pkts EXCEPT ![t] = Append(@, NewPkt(t, cfg[t].sigs))]
         /\ latest' = [latest EXCEPT ![t] = NewLatest(t, cfg[t].sigs)]
         /\ lastInt' = [lastInt EXCEPT ![t] = now]
         /\ feeBal' = [feeBal EXCEPT ![t] = @ - params.base - RouteFee(t)]
         /\ totalFees' = totalFees + params.base
         /\ modBal' = [modBal EXCEPT ![FeeDenom] = @ + params.base]
         /\ tssBal' = tssBal + RouteFee(t)
         /\ ibc' = IF cfg[t].kind = "ibc" THEN Append(ibc, IbcPkt(t, cfg[t].sigs)) ELSE ibc
         /\ rcpt' = [rcpt EXCEPT ![t] = Append(@, Receipt(t))]
         /\ IDone("Trigger", a, t, "ok")
         /\ UNCHANGED <<now, params, count, cfg, active, activeIdx, envvars, bal, dep, totDep, route, chan>>
    ELSE IRejected("Trigger", a, t)

(***************************************************************************)
(* End of the block: Tunnel!EndBlock with the route test of each tunnel's  *)
(* kind.  The tunnels are processed in ascending id order, each on its own *)
(* port, so the IBC packets appear in that order and a channel's next      *)
(* sequence number is the one before the block.                            *)
(***************************************************************************)
IEndBlock(dt) ==
    LET deact   == {t \in activeIdx : ~Funded(t)}
        attempt == {t \in activeIdx \ deact : Content(t) # {}}
        succ    == {t \in attempt : ROK(t)}
        fail    == attempt \ succ
        isucc   == AscSeq({t \in succ : cfg[t].kind = "ibc"})
        nBase   == params.base * Cardinality(succ)
        nRoute  == SumF([t \in Tuns |-> RouteFee(t)], succ)
    IN
    /\ seq' = [t \in Tuns |-> IF t \in succ THEN seq[t] + 1 ELSE seq[t]]
    /\ pkts' = [t \in Tuns |-> IF t \in succ THEN Append(pkts[t], NewPkt(t, Content(t))) ELSE pkts[t]]
    /\ latest' = [t \in Tuns |-> IF t \in succ THEN NewLatest(t, Content(t)) ELSE latest[t]]
    /\ lastInt' = [t \in Tuns |-> IF t \in succ /\ SendAll(t) THEN now ELSE lastInt[t]]
    /\ feeBal' = [t \in Tuns |-> IF t \in succ THEN feeBal[t] - params.base - RouteFee(t) ELSE feeBal[t]]
    /\ totalFees' = totalFees + nBase
    /\ modBal' = [modBal EXCEPT ![FeeDenom] = @ + nBase]
    /\ tssBal' = tssBal + nRoute
    /\ active' = [t \in Tuns |-> active[t] /\ t \notin deact]
    /\ activeIdx' = activeIdx \ deact
    /\ ibc' = ibc \o [i \in 1..Len(isucc) |-> IbcPkt(isucc[i], Content(isucc[i]))]
    /\ rcpt' = [t \in Tuns |-> IF t \in succ THEN Append(rcpt[t], Receipt(t)) ELSE rcpt[t]]
    /\ now' = now + dt
    /\ out' = "ok" /\ ack' = "none"
    /\ ev' = [succ |-> succ, fail |-> fail, deact |-> deact]
    /\ last' = [e |-> "EndBlock", who |-> "none", t |-> 0]
    /\ UNCHANGED <<params, count, cfg, envvars, bal, dep, totDep, route, chan>>

(***************************************************************************)
(* Channel handshake and closing.                                          *)
(*   ChanInit: anybody sends MsgChannelOpenInit for port tunnel.<t>.  ibc  *)
(*   core finds the owner of the port (bound by CreateTunnel for an IBC    *)
(*   tunnel only), OnChanOpenInit wants UNORDERED and version "" or        *)
(*   "tunnel-1" and claims the channel capability.                         *)
(***************************************************************************)
ChanInit(t, ord, ver) ==
    /\ t \in Tuns
    /\ IF Exists(t) /\ cfg[t].kind = "ibc" /\ ord = "UNORDERED" /\ ver \in {"", Version}
       THEN /\ NCh(t) < MaxCh                                       \* (bound of the model, not of the code)
            /\ chan' = [chan EXCEPT ![t][NCh(t) + 1] = [st |-> "init", cap |-> TRUE]]
            /\ IDone("ChanInit", "none", t, "ok")
            /\ UNCHANGED <<now, params, tunvars, envvars, balvars, route, ibc, rcpt>>
       ELSE IRejected("ChanInit", "none", t)

\* environment: the counterparty answers and the handshake completes
ChanOpenRest(t, k) ==
    /\ ChanExists(t, k) /\ chan[t][k].st = "init"
    /\ chan' = [chan EXCEPT ![t][k].st = "open"]
    /\ IDone("ChanOpen", "none", t, "ok")
    /\ UNCHANGED <<now, params, tunvars, envvars, balvars, route, ibc, rcpt>>

\* environment: the channel end is closed (as after the counterparty closed it) / the module lost the capability
Break(t, k, how) ==
    /\ ChanIsOpen(t, k)
    /\ chan' = [chan EXCEPT ![t][k] = IF how = "closed" THEN [@ EXCEPT !.st = "closed"] ELSE [@ EXCEPT !.cap = FALSE]]
    /\ IDone("Break", "none", t, "ok")
    /\ UNCHANGED <<now, params, tunvars, envvars, balvars, route, ibc, rcpt>>

\* MsgChannelCloseInit by a user: OnChanCloseInit refuses
CloseInit(t, k) == t \in Tuns /\ k \in Chs /\ IRejected("CloseInit", "none", t)

(***************************************************************************)
(* Packet callbacks.                                                       *)
(***************************************************************************)
\* a packet arrives on channel (t, k): error acknowledgement, nothing changes
RecvIn(t, k) ==
    /\ ChanUsable(t, k)
    /\ Done("RecvIn", "none", t, "ok") /\ ack' = "err"
    /\ UNCHANGED <<now, params, tunvars, envvars, balvars, ibcvars>>

\* the i-th IBC packet was received by the counterparty before its timeout and the acknowledgement is relayed back:
\* ibc core clears the commitment, OnAcknowledgementPacket does nothing
AckPkt(i) ==
    /\ i \in 1..Len(ibc) /\ ibc[i].live /\ now < ibc[i].to
    /\ ChanUsable(ibc[i].p, ibc[i].k)
    /\ ibc' = [ibc EXCEPT ![i].live = FALSE]
    /\ IDone("AckPkt", "none", ibc[i].tid, "ok")
    /\ UNCHANGED <<now, params, tunvars, envvars, balvars, route, chan, rcpt>>

\* the i-th IBC packet was not received before its timeout and the timeout is relayed back
TimeoutPkt(i) ==
    /\ i \in 1..Len(ibc) /\ ibc[i].live /\ now >= ibc[i].to
    /\ ChanUsable(ibc[i].p, ibc[i].k)
    /\ ibc' = [ibc EXCEPT ![i].live = FALSE]
    /\ IDone("TimeoutPkt", "none", ibc[i].tid, "ok")
    /\ UNCHANGED <<now, params, tunvars, envvars, balvars, route, chan, rcpt>>

\* ---- Tunnel actions that do not touch the IBC side ----
Plain(A) == A /\ ack' = "none" /\ UNCHANGED ibcvars
ISetFeed(s, p)      == Plain(SetFeed(s, p))
IFund(t, x)         == Plain(Fund(t, x))
IActivate(a, t)     == Plain(Activate(a, t))
IDeactivate(a, t)   == Plain(Deactivate(a, t))
IDeposit(a, t, amt, bad)  == Plain(Deposit(a, t, amt, bad))
IWithdraw(a, t, amt, bad) == Plain(Withdraw(a, t, amt, bad))

-----------------------------------------------------------------------------
INextRoute ==
    \/ \E a \in Acct, t \in Tuns, rk \in RkSet, c \in ChanArgs : IUpdateRoute(a, t, rk, c.p, c.k)
    \/ \E t \in Tuns, ord \in OrdSet, ver \in VerSet : ChanInit(t, ord, ver)
    \/ \E t \in Tuns, k \in Chs : ChanOpenRest(t, k) \/ CloseInit(t, k)
    \/ \E t \in Tuns, k \in Chs, how \in HowSet : Break(t, k, how)

INextCallbacks ==
    \/ \E t \in Tuns, k \in Chs : RecvIn(t, k)
    \/ \E i \in 1..Len(ibc) : AckPkt(i) \/ TimeoutPkt(i)

INextPacket ==
    \/ \E a \in Acct, t \in Tuns : ITrigger(a, t)
    \/ \E s \in Sig, p \in PriceSet : ISetFeed(s, p)
    \/ \E t \in Tuns, x \in FundSet : IFund(t, x)
    \/ \E dt \in DtSet : IEndBlock(dt)

INext == INextRoute \/ INextCallbacks \/ INextPacket
ISpec == IInit /\ [][INext]_ivars

-----------------------------------------------------------------------------
(* Invariants *)

IbcTuns == {t \in Tuns : cfg[t].kind = "ibc"}
Of(log, t) == {i \in 1..Len(log) : log[i].tid = t}
Rank(S, i) == Cardinality({j \in S : j <= i})

ITypeOK ==
    /\ TypeOK
    /\ \A t \in Tuns : route[t].p \in 0..MaxTun /\ route[t].k \in 0..MaxCh
    /\ \A t \in Tuns, k \in Chs : chan[t][k].st \in {"none", "init", "open", "closed"} /\ chan[t][k].cap \in BOOLEAN
    /\ ack \in {"none", "err", "res"}

\* channels exist only on the ports of IBC tunnels, are numbered in creation order, capabilities belong to channels
ChanWf == \A t \in Tuns, k \in Chs :
              /\ chan[t][k].st # "none" => (Exists(t) /\ cfg[t].kind = "ibc" /\ \A j \in 1..k : chan[t][j].st # "none")
              /\ chan[t][k].cap => chan[t][k].st # "none"
\* a route names nothing or an existing channel of the tunnel's own port; only IBC tunnels have a route
RouteWf == \A t \in Tuns : route[t] # NoRoute => (cfg[t].kind = "ibc" /\ route[t].p = t /\ ChanExists(route[t].p, route[t].k))
\* IBC sequence numbers on a channel are 1, 2, 3, ... in sending order
IbcGapFree == \A p \in Tuns, k \in Chs : \A i \in OnChan(ibc, p, k) : ibc[i].iseq = Rank(OnChan(ibc, p, k), i)
\* the IBC packets of a tunnel are in bijection with its tunnel packets, in order, on its own port, and each stored
\* tunnel packet's receipt names its IBC packet; tunnels of another kind have no IBC packet
IbcOnePerPacket ==
    /\ \A t \in Tuns : Len(rcpt[t]) = seq[t]
    /\ \A t \in Tuns \ IbcTuns : Of(ibc, t) = {} /\ \A j \in 1..Len(rcpt[t]) : rcpt[t][j] = 0
    /\ \A t \in IbcTuns :
          /\ Cardinality(Of(ibc, t)) = seq[t]
          /\ \A i \in Of(ibc, t) : /\ ibc[i].tseq = Rank(Of(ibc, t), i)
                                   /\ ibc[i].p = t /\ ChanExists(ibc[i].p, ibc[i].k)
                                   /\ ibc[i].tseq <= Len(rcpt[t]) /\ rcpt[t][ibc[i].tseq] = ibc[i].iseq
    /\ \A i \in 1..Len(ibc) : ibc[i].tid \in Tuns
\* the signals of an IBC packet are those of the stored tunnel packet; prices are non-negative; timeout after creation
IbcContent == \A i \in 1..Len(ibc) :
                  LET e == ibc[i] IN
                  /\ e.tid \in Tuns /\ e.tseq \in 1..Len(pkts[e.tid])
                  /\ {s \in Sig : e.prices[s] # NoPrice} = pkts[e.tid][e.tseq].sigs
                  /\ \A s \in Sig : e.prices[s] >= NoPrice
                  /\ e.to >= e.at + MinIv
\* the base fee of every packet is in the fee book; only packets of TSS tunnels escrow a route fee
IFeesBooked == /\ totalFees = params.base * SumF(seq, Tuns)
               /\ tssBal = params.route * SumF(seq, Tuns \ IbcTuns)

\* X05 proper (also evaluated on every state of a recorded trace)
IInvX05 == /\ ITypeOK /\ SeqGapFree /\ AbsentEmpty /\ IFeesBooked
           /\ ChanWf /\ RouteWf /\ IbcGapFree /\ IbcOnePerPacket /\ IbcContent
\* with the deposit ledger of Tunnel.tla (C17's subject; MC only)
IInv == IInvX05 /\ LedgerTotal /\ LedgerBacked /\ ActiveIndex

-----------------------------------------------------------------------------
(* Action properties *)

Advanced == {t \in Tuns : seq'[t] = seq[t] + 1}

\* (b): every advance of an IBC tunnel's sequence number appends exactly one IBC packet - on the route's channel, which
\* is usable, with the channel's next sequence number, the tunnel's id and new sequence number, the feeds prices of
\* exactly the signals of the stored tunnel packet, created at the block time, timing out `interval` seconds later -
\* and nothing else is ever appended; an old entry changes only by losing its commitment to an ack / a timeout
IbcSendA ==
    LET adv == Advanced \cap IbcTuns IN
    /\ Len(ibc') = Len(ibc) + Cardinality(adv)
    /\ \A i \in 1..Len(ibc) :
          \/ ibc'[i] = ibc[i]
          \/ /\ last'.e \in {"AckPkt", "TimeoutPkt"} /\ ibc[i].live /\ ibc'[i] = [ibc[i] EXCEPT !.live = FALSE]
             /\ (last'.e = "AckPkt" <=> now < ibc[i].to)
    /\ \A t \in adv :
          /\ IbcOK(t)
          /\ \E i \in (Len(ibc) + 1)..Len(ibc') :
                LET e == ibc'[i] IN
                /\ e.tid = t /\ e.tseq = seq'[t]
                /\ e.p = route[t].p /\ e.k = route[t].k
                /\ e.iseq = NextSeqSend(e.p, e.k)
                /\ e.at = now /\ e.to = now + cfg[t].interval /\ e.live
                /\ \A s \in Sig : e.prices[s] = (IF s \in pkts'[t][seq'[t]].sigs THEN FeedP(s) ELSE NoPrice)
                /\ rcpt'[t] = Append(rcpt[t], e.iseq)
    /\ \A t \in Tuns \ Advanced : rcpt'[t] = rcpt[t]
    /\ \A i \in (Len(ibc) + 1)..Len(ibc') : \A j \in (Len(ibc) + 1)..Len(ibc') : i < j => ibc'[i].tid < ibc'[j].tid

\* (c): an IBC packet costs its fee payer exactly the base fee; a step in which only IBC tunnels advance moves nothing
\* into the bandtss escrow and exactly base per packet into the tunnel module's fee book
IbcFeeA ==
    /\ \A t \in Advanced \cap IbcTuns : feeBal'[t] = feeBal[t] - params.base /\ feeBal[t] >= params.base
    /\ Advanced \subseteq IbcTuns =>
          /\ tssBal' = tssBal
          /\ totalFees' = totalFees + params.base * Cardinality(Advanced)

\* (a)/(d): at end-block an IBC tunnel's attempt succeeds exactly when its route delivers
IbcRouteA ==
    last'.e = "EndBlock" =>
        \A t \in IbcTuns : /\ t \in ev'.succ => IbcOK(t)
                           /\ t \in ev'.fail => ~IbcOK(t)

\* (e): a route changes only by its creator's MsgUpdateRoute, to an OPEN channel of the tunnel's own port
RouteRuleA ==
    \A t \in Tuns : route'[t] # route[t] =>
        /\ last' = [e |-> "UpdateRoute", who |-> cfg[t].creator, t |-> t]
        /\ cfg[t].kind = "ibc" /\ route'[t].p = t /\ ChanIsOpen(route'[t].p, route'[t].k)

\* (f): the packet callbacks and a refused close change no tunnel state, no channel, no route
CallbackInertA ==
    last'.e \in {"RecvIn", "AckPkt", "TimeoutPkt", "CloseInit"} =>
        /\ UNCHANGED <<tunvars, balvars, route, chan, rcpt, params>>
        /\ last'.e = "RecvIn" => (ack' = "err" /\ ibc' = ibc)
        /\ last'.e = "CloseInit" => (out' = "rej" /\ ibc' = ibc)
        /\ last'.e \in {"RecvIn", "AckPkt", "TimeoutPkt"} => out' = "ok"

\* channel ends change only by the handshake / by the environment; a channel never disappears
ChanRuleA ==
    \A t \in Tuns, k \in Chs : chan'[t][k] # chan[t][k] =>
        /\ last'.e \in {"ChanInit", "ChanOpen", "Break"} /\ last'.t = t
        /\ chan[t][k].st = "none" => (last'.e = "ChanInit" /\ chan'[t][k] = [st |-> "init", cap |-> TRUE]
                                      /\ cfg[t].kind = "ibc")
        /\ chan'[t][k].st # "none" \/ chan[t][k].st = "none"

IbcSend == [][IbcSendA]_ivars
IbcFee == [][IbcFeeA]_ivars
IbcRoute == [][IbcRouteA]_ivars
RouteRule == [][RouteRuleA]_ivars
CallbackInert == [][CallbackInertA]_ivars
ChanRule == [][ChanRuleA]_ivars
\* Tunnel's action properties over the extended state
ISeqStep == [][SeqStepA]_ivars
IPacketRule == [][PacketRuleA]_ivars
IFeesOnlyWithPackets == [][FeesOnlyWithPacketsA]_ivars
IEndBlockFrame == [][EndBlockFrameA]_ivars
=============================================================================
