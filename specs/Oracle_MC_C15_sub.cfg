\* C15 timing facet with a half-second clock (Units = 2): block times with sub-second parts (dt 0 / 1 / 3 half seconds), penalty
\* of 3 half seconds, request times truncated to whole seconds: activation boundary and the since < request-time rule
CONSTANTS
  Val = {v1, v2}
  Stranger = {x1}
  MaxReq = 2
  Units = 2
  ExpSet = {1}
  PenaltySet = {0, 3}
  DtSet = {0, 1, 3}
  AskSet = {1, 2}
  MinSet = {1}
  ShapeSet = {"exact"}
  MaxH = 5
INIT Init
NEXT Next
SYMMETRY Sym
VIEW View
CONSTRAINT Bound
INVARIANTS Inv
PROPERTIES ActivationRule DeactivationRule StatusStable ReporterSafe ResultImmutable
CHECK_DEADLOCK FALSE
