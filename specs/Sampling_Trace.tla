--------------------------- MODULE Sampling_Trace ---------------------------
(***************************************************************************)
(* Trace validation for Sampling.tla (property C09): one TLC step per      *)
(* recorded line (single property, every variable checked).  Lines come    *)
(* from harness/fam_sampling:                                              *)
(*   Pure   bandrng.ChooseOne / ChooseSome / ChooseSomeMaxWeight           *)
(*   Req    a real MsgRequestData -> Request.RequestedValidators           *)
(*   Sign   a real bandtss MsgRequestSignature, or a retry made by the     *)
(*          real tss end-blocker -> SigningAttempt.AssignedMembers         *)
(*   Block  the real begin-blocker -> rolling seed                         *)
(*   Drbg   bandrng.Rng against the driver's twin HMAC_DRBG                *)
(* `a.ds` are the first outputs of the twin generator built from (rolling  *)
(* seed, request id | signingID||attempt, chain id), as limbs of           *)
(* draw \div 2^kexp; `a.w` the eligible list in the code's iteration order *)
(* (abstract weights = tokens \div 2^kexp, resp. available member ids).    *)
(* The action recomputes the selection and the step is enabled only if it  *)
(* equals what the code returned (o.sel; positions are 0-based in the log).*)
(* o.again is the same call made a second time on a copy of the state.     *)
(***************************************************************************)
EXTENDS Sampling, Json

CONSTANTS TraceFile
TraceLog == ndJsonDeserialize(TraceFile)
VARIABLE l
tvars == <<vars, l>>

TByte == 0..255
Line == TraceLog[l]
Plus1(s) == [i \in 1..Len(s) |-> s[i] + 1]
\* what the code returned, in the spec's terms
Returned(posBased) == [ok |-> Line.o.ok, sel |-> IF posBased THEN Plus1(Line.o.sel) ELSE Line.o.sel]
\* determinism on the recording: the second execution returned the same
Same == Line.o.okAgain = Line.o.ok /\ Line.o.again = Line.o.sel

TraceInit ==
    /\ l = 1
    /\ seed = [i \in 1..SeedLen |-> 0] /\ call = NoCall /\ res = NoRes

TReset ==
    /\ Line.e = "Reset"
    /\ seed' = Line.s.seed /\ call' = NoCall /\ res' = NoRes

TPure ==
    /\ Line.e = "Pure"
    /\ LET a == Line.a IN
         CASE a.fn = "one"  -> PureOne(a.w, a.ds)
           [] a.fn = "some" -> PureSome(a.w, a.cnt, a.ds)
           [] a.fn = "max"  -> PureMax(a.w, a.cnt, a.tries, a.ds)
    /\ res' = Returned(TRUE) /\ Same

TReq ==
    /\ Line.e = "Req"
    /\ ReqCommittee(Line.a.w, Line.a.cnt, Line.a.tries, Line.a.ds)
    /\ res' = Returned(TRUE) /\ Same

TSign ==
    /\ Line.e = "Sign"
    /\ SignCommittee(Line.a.w, Line.a.cnt, Line.a.ds)
    /\ res' = Returned(FALSE) /\ Same

TBlock ==
    /\ Line.e = "Block"
    /\ Line.o.ok
    /\ Block(Line.a.hb)

\* the real generator and the twin produce the same stream (the twin is what binds `ds` to the seed material)
TDrbg ==
    /\ Line.e = "Drbg"
    /\ Len(Line.a.twin) = Line.a.k /\ Line.a.real = Line.a.twin
    /\ UNCHANGED seed /\ call' = NoCall /\ res' = NoRes

TraceNext ==
    /\ l <= Len(TraceLog) /\ l' = l + 1
    /\ (TReset \/ TPure \/ TReq \/ TSign \/ TBlock \/ TDrbg)
    /\ seed' = Line.s.seed                      \* the projected rolling seed after the step

TraceSpec == TraceInit /\ [][TraceNext]_tvars

TraceAccepted ==
    LET d == TLCGet("stats").diameter IN
    IF d - 1 = Len(TraceLog) THEN TRUE
    ELSE Print(<<"TRACE_REJECTED_AT_LINE", d, "PHASE", "act", "OF", Len(TraceLog)>>, FALSE)

IsReset == l <= Len(TraceLog) /\ TraceLog[l].e = "Reset"
TSeedRule == [][IsReset \/ SeedRuleA]_tvars
=============================================================================
