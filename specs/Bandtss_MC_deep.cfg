\* thorough: deeper horizon, two signing periods
CONSTANTS
  Addr = {"a1", "a2", "a3"}
  Payer = {"p1"}
  MaxG = 2
  MaxSig = 2
  MemberMenu = {{"a1", "a2"}, {"a2", "a3"}}
  MinDur = 1
  MaxDur = 3
  PeriodSet = {1, 2}
  CreateSet = {2}
  FeeSet = {1}
  DtSet = {1}
  LimitSet = {1, 2}
  ExecOffsets = {0, 1, 3, 4}
  MaxH = 7
  StartWithGroup = TRUE
  Bal0 = 3
INIT Init
NEXT Next
VIEW View
CONSTRAINT Bound
INVARIANTS Inv
PROPERTIES GroupChange WaitingExec OneTransition Start Conserved PayIn PayOut RejectedUnchanged NoPayOnFail
CHECK_DEADLOCK FALSE
