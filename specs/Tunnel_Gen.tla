----------------------------- MODULE Tunnel_Gen -----------------------------
(***************************************************************************)
(* GEN role: TLC -simulate walks Tunnel's actions and records each step as *)
(* an abstract, role-relative script step (senders are "the creator of t", *)
(* "the k-th account that is not the creator of t", "account k").  At      *)
(* depth Depth the script is appended to the file named by the environment *)
(* variable GEN_OUT.                                                       *)
(*                                                                         *)
(* TLC's simulator picks uniformly among all successor states, so a plain  *)
(* walk would be dominated by the actions with the largest argument        *)
(* domains.  The walk therefore draws a ticket for the class of the next   *)
(* step (variable tk) and a short prelude creates, funds and activates the *)
(* first tunnel.                                                           *)
(***************************************************************************)
EXTENDS Tunnel, IOUtils, Json

CONSTANTS Depth, Bias      \* Bias: "pkt" (C08) or "dep" (C17)
VARIABLES script, tk, md0
gvars == <<vars, script, tk, md0>>

Coins(a, b) == [d \in Denom |-> IF d = FeeDenom THEN b ELSE a]
G_Params == {[minDep |-> Coins(1, 2), base |-> 3, route |-> 4], [minDep |-> Coins(1, 2), base |-> 0, route |-> 2],
             [minDep |-> Coins(1, 2), base |-> 3, route |-> 0], [minDep |-> Coins(2, 1), base |-> 1, route |-> 2]}
G_Dev    == {[soft |-> 300, hard |-> 3000], [soft |-> 3000, hard |-> 300], [soft |-> 50, hard |-> 300],
             [soft |-> 1000, hard |-> 1000], [soft |-> 10, hard |-> 300], [soft |-> 300, hard |-> 3001]}
G_DevOK  == {dv \in G_Dev : dv.soft >= MinDev /\ dv.hard <= MaxDev}
G_Amt    == {Coins(0, 0), Coins(1, 0), Coins(0, 1), Coins(0, 2), Coins(1, 2), Coins(2, 3), Coins(7, 0)}
G_Price  == {NoPrice, 0, 100, 101, 103, 110, 130, 200}
G_Sigs   == {{"s1"}, {"s2"}, {"s1", "s2"}, {}}

Ord(a) == CHOOSE i \in 1..Cardinality(Acct) : a = "p" \o ToString(i)
Who(a, t) ==
    IF Exists(t)
    THEN IF a = cfg[t].creator THEN [role |-> "creator", t |-> t, k |-> 1]
         ELSE [role |-> "other", t |-> t, k |-> Cardinality({b \in Acct \ {cfg[t].creator} : Ord(b) <= Ord(a)})]
    ELSE [role |-> "acct", t |-> t, k |-> Ord(a)]

GInit ==
    /\ Init
    /\ md0 = params.minDep
    /\ script = <<>>
    /\ tk = 1

\* ---- one recorded step per class ----
\* Arguments are drawn with TLC's RandomElement (seeded by -seed) and bound by a singleton \E, so that a step
\* has one successor instead of the whole argument space (the simulator enumerates all successors before it
\* picks one).
SoftOf(dv) == [s \in Sig |-> dv[s].soft]
HardOf(dv) == [s \in Sig |-> dv[s].hard]
One(S) == {RandomElement(S)}
\* (a random draw must be bound by \E before it is used twice: LET bodies are re-evaluated at every use)
KindOf(r) == IF r <= 4 THEN "tss" ELSE IF r = 5 THEN "ibc" ELSE "tssLong"
ModeOf(r) == CASE r <= 3 -> "ok" [] r = 4 -> "noGroup" [] r = 5 -> "noNonces" [] r = 6 -> "inactive" [] r = 7 -> "maxAtt0" [] r = 8 -> "panic" [] OTHER -> "ok"
\* mostly the creator (the rules for strangers are simple refusals)
Sender(t) == IF Exists(t) /\ RandomElement(1..10) <= 7 THEN cfg[t].creator ELSE RandomElement(Acct)   \* used once per step
TunId == RandomElement(1..(IF RandomElement(1..12) = 1 \/ count = 0 THEN count + 1 ELSE count))

GCreate(devs, ivs, sigsets, amts) ==
    \E r \in One(1..6) : \E a \in One(Acct), k \in {KindOf(r)}, iv \in One(ivs), S \in One(sigsets), dv \in One([Sig -> devs]), d0 \in One(amts) :
        /\ CreateTunnel(a, k, iv, S, SoftOf(dv), HardOf(dv), d0)
        /\ script' = Append(script, [e |-> "CreateTunnel", who |-> [role |-> "acct", k |-> Ord(a)], kind |-> k, iv |-> iv,
                                     sigs |-> S, soft |-> SoftOf(dv), hard |-> HardOf(dv), dep |-> d0])
GUpdate ==
    \E t \in One(1..count) : \E a \in {Sender(t)}, iv \in One(IvSet), S \in One(G_Sigs), dv \in One([Sig -> G_Dev]) :
        /\ UpdateSignals(a, t, iv, S, SoftOf(dv), HardOf(dv))
        /\ script' = Append(script, [e |-> "UpdateSignals", t |-> t, who |-> Who(a, t), iv |-> iv, sigs |-> S,
                                     soft |-> SoftOf(dv), hard |-> HardOf(dv)])
GMsg(name, Op(_, _)) ==
    \E t \in {TunId} : \E a \in {Sender(t)} :
        /\ Op(a, t)
        /\ script' = Append(script, [e |-> name, t |-> t, who |-> Who(a, t)])
\* deposits / withdrawals: any account; withdrawals mostly by somebody who has a deposit
Holder(t) == LET H == {a \in Acct : Exists(t) /\ ~IsZero(dep[t][a])} IN
             IF H # {} /\ RandomElement(1..10) <= 7 THEN RandomElement(H) ELSE RandomElement(Acct)
GCoins(name, Op(_, _, _, _)) ==
    \E t \in {TunId} : \E a \in {IF name = "Withdraw" THEN Holder(t) ELSE RandomElement(Acct)}, amt \in One(G_Amt), bad \in {RandomElement(1..15) = 1} :
        /\ Op(a, t, amt, bad)
        /\ script' = Append(script, [e |-> name, t |-> t, who |-> Who(a, t), amt |-> amt, bad |-> bad])
GFeed ==
    \E s \in One(Sig), p \in One(G_Price) :
        /\ SetFeed(s, p)
        /\ script' = Append(script, [e |-> "SetFeed", s |-> s, p |-> p, st |-> IF p = 0 THEN "notReady" ELSE "avail"])
GRoute ==
    \E r \in One(1..9) : \E m \in {ModeOf(r)} :
        /\ SetRoute(m)
        /\ script' = Append(script, [e |-> "SetRoute", m |-> m])
GFund ==
    \E t \in One(1..count), x \in One(FundSet) :
        /\ Fund(t, x)
        /\ script' = Append(script, [e |-> "Fund", t |-> t, x |-> x])
\* governance changes the minimum deposit (ledger-biased walks only)
G_MinDep == {Coins(1, 2), Coins(0, 2), Coins(2, 1), Coins(1, 0), Coins(3, 3)}
GMinDep ==
    \E md \in One(G_MinDep \ {params.minDep}) :
        /\ SetMinDep(md)
        /\ script' = Append(script, [e |-> "SetMinDep", md |-> md])
GBlock(dts) ==
    \E dt \in One(dts) :
        /\ EndBlock(dt)
        /\ script' = Append(script, [e |-> "EndBlock", dt |-> dt])

\* ticket -> class
Class(k) ==
    IF Bias = "pkt"
    THEN CASE k \in 1..2   -> "create"  [] k \in 3..3   -> "update"  [] k \in 4..4   -> "activate"
           [] k \in 5..5   -> "deactivate" [] k \in 6..6 -> "withdraw" [] k \in 7..9  -> "trigger"
           [] k \in 10..16 -> "feed"    [] k \in 17..19 -> "route"   [] k \in 20..21 -> "fund"
           [] k \in 22..22 -> "uroute"  [] OTHER -> "block"
    ELSE CASE k \in 1..3   -> "create"  [] k \in 4..8   -> "deposit" [] k \in 9..14  -> "withdraw"
           [] k \in 15..18 -> "activate" [] k \in 19..20 -> "deactivate" [] k \in 21..21 -> "fund"
           [] k \in 22..22 -> "trigger" [] k \in 23..23 -> "route"   [] k \in 24..25 -> "mindep" [] OTHER -> "block"
Tickets == 1..32

\* the last step is a plain EndBlock so that the final level has a single successor (TLC evaluates the Emit
\* invariant on every candidate successor, each would be written as a script)
Last == Len(script) >= Depth - 2

Free(c) ==
    CASE c = "create"     -> IF count >= MaxTun THEN GBlock({1})
                             ELSE IF RandomElement(1..5) <= 4                     \* mostly valid configurations
                                  THEN GCreate(G_DevOK, IvSet \cap MinIv..MaxIv, G_Sigs \ {{}}, G_Amt)
                                  ELSE GCreate(G_Dev, IvSet, G_Sigs, G_Amt)
      [] c = "update"     -> IF count > 0 THEN GUpdate ELSE GBlock({1})
      [] c = "activate"   -> GMsg("Activate", Activate)
      [] c = "deactivate" -> GMsg("Deactivate", Deactivate)
      [] c = "trigger"    -> GMsg("Trigger", Trigger)
      [] c = "uroute"     -> GMsg("UpdateRoute", UpdateRoute)
      [] c = "deposit"    -> GCoins("Deposit", Deposit)
      [] c = "withdraw"   -> GCoins("Withdraw", Withdraw)
      [] c = "feed"       -> GFeed
      [] c = "route"      -> GRoute
      [] c = "fund"       -> IF count > 0 THEN GFund ELSE GBlock({1})
      [] c = "mindep"     -> IF count > 0 THEN GMinDep ELSE GBlock({1})
      [] OTHER            -> GBlock(DtSet)

GNext ==
    /\ IF Last THEN GBlock({1}) /\ tk' = 1
       ELSE IF Bias = "pkt" /\ Len(script) = 0
            THEN SetFeed("s1", 100) /\ script' = Append(script, [e |-> "SetFeed", s |-> "s1", p |-> 100, st |-> "avail"]) /\ tk' = 1
       ELSE IF Bias = "pkt" /\ Len(script) = 1 THEN GCreate(G_DevOK, IvSet \cap MinIv..MaxIv, {{"s1"}, {"s1", "s2"}}, {params.minDep}) /\ tk' = 1
       ELSE IF Bias = "pkt" /\ Len(script) = 2 THEN GFund /\ tk' = 1
       ELSE IF Bias = "pkt" /\ Len(script) = 3
            THEN Activate(cfg[1].creator, 1) /\ script' = Append(script, [e |-> "Activate", t |-> 1, who |-> Who(cfg[1].creator, 1)])
                 /\ tk' = RandomElement(Tickets)
       ELSE Free(Class(tk)) /\ tk' = RandomElement(Tickets)

GSpec == GInit /\ [][GNext /\ md0' = md0]_gvars

Emit ==
    TLCGet("level") = Depth =>
        Serialize(<<[c |-> [minA |-> CHOOSE x \in 0..9 : \E d \in Denom \ {FeeDenom} : md0[d] = x,
                            minB |-> md0[FeeDenom], base |-> params.base, fps |-> params.route \div 2,
                            initBal |-> InitBal],
                     steps |-> script]>>,
                  IOEnv.GEN_OUT,
                  [format |-> "NDJSON", charset |-> "UTF-8", openOptions |-> <<"WRITE", "CREATE", "APPEND">>])
=============================================================================
