\* facet "two" (quick): TWO tunnels of every pair of kinds (IBC on an open channel with the route set / TSS), two fee
\* parameter sets (base 3 + route 4, base 0 + route 2), fee payers at the funding boundary, capability lost
\* inside a block, triggers; canonical order of the commuting steps inside a block
CONSTANTS
  MaxTun = 2
  Sig = {"s1"}
  Acct = {a1, a2}
  Denom = {"ua", "ub"}
  FeeDenom = "ub"
  MinIv = 1
  MaxIv = 10
  MinDev = 50
  MaxDev = 3000
  SigSets <- Sig_all
  AmtSet <- Amt_zero
  ModeSet = {"ok"}
  InitBal = 3
  ParamSet <- P_fees
  KindSet = {"ibc", "tss"}
  IvSet = {2}
  DevSet <- Dev_one
  FundSet = {4}
  PriceSet <- Price_two
  DtSet = {1}
  MaxCh = 1
  ChanArgs <- Ch_none
  RkSet = {"ibc"}
  OrdSet = {}
  VerSet = {}
  HowSet = {"nocap"}
  MaxNow = 103
  NTun = 2
  InitFee = 7
  PreCh = 1
  MaxLog = 6
  MaxSteps = 0
INIT InitIbc
NEXT NextTwo
VIEW IView
CONSTRAINT Bound
INVARIANTS IInv
PROPERTIES IbcSend IbcFee IbcRoute RouteRule CallbackInert ChanRule ISeqStep IPacketRule IFeesOnlyWithPackets IEndBlockFrame
CHECK_DEADLOCK FALSE
