----------------------------- MODULE Bandtss_MC -----------------------------
EXTENDS Bandtss
CONSTANTS MaxH, StartWithGroup, Bal0

Init ==
    \* (the second fee denom is explored in the fee facets only: they are the ones with more than two limits)
    /\ par \in [period : PeriodSet, create : CreateSet, fx : IF Cardinality(LimitSet) > 2 THEN {0, 1} ELSE {0}]
    /\ h = 2 /\ now = 10
    /\ fee \in FeeSet
    /\ IF StartWithGroup
       THEN /\ current = 1 /\ gcount = 1
            /\ grp = [g \in Groups |-> IF g = 1 THEN [st |-> "active", mem |-> CHOOSE m \in MemberMenu : Cardinality(m) >= 2, thr |-> 2, createdH |-> 1] ELSE NoGrp]
            /\ bm = {<<a, 1>> : a \in (CHOOSE m \in MemberMenu : Cardinality(m) >= 2)}
       ELSE /\ current = 0 /\ gcount = 0
            /\ grp = [g \in Groups |-> NoGrp]
            /\ bm = {}
    /\ tr = NoTr
    /\ pendG = <<>> /\ lastExpG = 0
    /\ canSign = [g \in Groups |-> TRUE]
    /\ sigc = 0 /\ sig = [id \in Sigs |-> NoSig]
    /\ bsigc = 0 /\ bsig = [b \in 1..MaxSig |-> NoBsig]
    /\ bal = [p \in Payer |-> Bal0]
    /\ escrow = 0 /\ earned = [a \in Addr |-> 0] /\ owed = 0
    /\ out = "init"

\* fee facet: no Force / Install / SetCanSign, user proposals dropped
NextFees ==
    \/ \E ms \in MemberMenu, off \in ExecOffsets : Propose("authority", ms, 1, off)
    \/ \E g \in Groups : DkgDone(g, TRUE)
    \/ \E f \in FeeSet : SetFee(f)
    \/ \E x \in {0, 1} : SetFx(x)
    \/ \E p \in Payer \cup {"authority"}, limit \in LimitSet, lx \in {0, 2}, incOK \in BOOLEAN :
          \E S \in ComOrNone(current), SI \in ComOrNone(Incoming) : Request(p, limit, lx, S, incOK, SI)
    \/ \E id \in Sigs : SignAll(id)
    \/ \E dt \in DtSet : \E HS \in ComOrNone(current) : EndBlock(dt, HS)

\* hand-over facet: two proposals in a row, a long signing period (the first hand-over signing outlives its dropped
\* transition and may complete while the second transition waits for ITS signature)
NextStale ==
    \/ \E ms \in MemberMenu, off \in ExecOffsets : Propose("authority", ms, 1, off)
    \/ \E g \in Groups : DkgDone(g, TRUE)
    \/ \E id \in Sigs : SignAll(id)
    \/ \E dt \in DtSet : \E HS \in ComOrNone(current) : EndBlock(dt, HS)

Bound == h <= MaxH /\ bsigc < MaxSig
View == <<par, h, now, fee, current, tr, gcount, grp, pendG, lastExpG, bm, canSign, sigc, sig, bsigc, bsig, bal, escrow, earned, owed>>
Inv == MembersInv /\ TransitionInv /\ EscrowInv
=============================================================================
