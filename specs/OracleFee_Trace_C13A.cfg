CONSTANTS
  Denom = {"u", "x"}
  DS = {1, 2, 3, 4}
  Fee <- TFee
  TreasuryOf <- TTreasuryOf
  Treasury = {"t1", "t2", "t3"}
  Payer = {"p1", "p2", "t1"}
  MaxBal = 0
  AskSet = {1}
  MaxSrc = 1
  MaxLimit = 0
  MaxReq = 1000000
  SigFeeSet = {0}
  SigDenom = "u"
  EncSet = {TRUE, FALSE}
  TraceFile = "trace.ndjson"
SPECIFICATION TraceSpec
INVARIANTS NonNegative
PROPERTIES TExact TConserved TSigning
POSTCONDITION TraceAccepted
CHECK_DEADLOCK FALSE
