----------------------------- MODULE Grogu_Trace -----------------------------
(***************************************************************************)
(* Trace validation for Grogu.tla.  Every line of the ndjson file was      *)
(* recorded from the real grogu signaller / submitter running against the  *)
(* real x/feeds handlers of the in-process chain (harness/fam_grogu).      *)
(* Act / Sync two-phase structure as in Oracle_Trace.tla: an OWNED event   *)
(* must be explained by the spec action with the logged arguments and      *)
(* outcome; CHECKED variables must equal the projection after every step;  *)
(* everything else is adopted as observed.  The clock, the quotes of the   *)
(* price service and the feed list are inputs: their actions always run    *)
(* (they maintain the ghost `calm`).                                       *)
(***************************************************************************)
EXTENDS Grogu, Json

CONSTANTS TraceFile, Checked, Owned
TraceLog == ndJsonDeserialize(TraceFile)

VARIABLES l, ph, liveDecl    \* liveDecl: the script of the current trace declares itself within the assumptions
tvars == <<vars, l, ph, liveDecl>>

Line == TraceLog[l]

\* JSON object {sig: {st, price}} -> function over its signals
LM(o) == [s \in DOMAIN o |-> [st |-> o[s].st, price |-> o[s].price]]
LSvc(st) == [s \in Sig |-> [st |-> st.svc[s].st, price |-> st.svc[s].price]]
LFeeds(st) == [s \in Sig |-> [iv |-> st.feeds[s].iv, dev |-> st.feeds[s].dev]]
LVp(st) == [s \in Sig |-> [st |-> st.vp[s].st, price |-> st.vp[s].price, ts |-> st.vp[s].ts, bh |-> st.vp[s].bh]]
LSlot(st) == [s \in Sig |-> st.slot[s]]
LSubs(st) == {[id |-> st.subs[i].id, m |-> LM(st.subs[i].m), ts |-> st.subs[i].ts, st |-> st.subs[i].st,
               try |-> st.subs[i].try, res |-> st.subs[i].res] : i \in 1..Len(st.subs)}
LMem(st) == [i \in 1..Len(st.mempool) |-> [id |-> st.mempool[i].id, try |-> st.mempool[i].try,
                                            m |-> LM(st.mempool[i].m), ts |-> st.mempool[i].ts]]
ToSet(q) == {q[i] : i \in 1..Len(q)}
AllSlots == Start..(Start + Offset - 1)

TraceInit ==
    /\ l = 1 /\ ph = "act" /\ liveDecl = FALSE
    /\ clk = 0 /\ bt = 0 /\ h = 0
    /\ par = [cool |-> 0, disc |-> 0, grace |-> 0, tries |-> 1, P |-> 1, L |-> 1, D |-> 0]
    /\ feeds = [s \in Sig |-> [iv |-> 0, dev |-> 0]]
    /\ updT = 0 /\ updH = 0
    /\ vp = [s \in Sig |-> NoVP]
    /\ slot = [s \in Sig |-> 0]
    /\ active = TRUE /\ since = 0
    /\ svc = [s \in Sig |-> [st |-> "missing", price |-> 0]]
    /\ pending = {} /\ subs = {} /\ nsub = 0 /\ mempool = <<>>
    /\ lastPoll = 0 /\ down = FALSE /\ out = "init"
    /\ calm = FALSE /\ waited = [s \in Sig |-> 0] /\ rejSeen = FALSE

ResetVars(c, st) ==
    /\ clk' = st.clk /\ bt' = st.bt /\ h' = st.h
    /\ par' = [cool |-> c.cool, disc |-> c.disc, grace |-> c.grace, tries |-> c.tries, P |-> c.P, L |-> c.L, D |-> c.D]
    /\ feeds' = LFeeds(st)
    /\ updT' = st.updT /\ updH' = st.updH
    /\ vp' = LVp(st) /\ slot' = LSlot(st)
    /\ active' = st.active /\ since' = st.since
    /\ svc' = LSvc(st)
    /\ st.pending = <<>> /\ st.subs = <<>> /\ st.mempool = <<>> /\ st.nsub = 0
    /\ pending' = {} /\ subs' = {} /\ nsub' = 0 /\ mempool' = <<>>
    /\ lastPoll' = st.lastPoll
    /\ ~st.down /\ down' = FALSE
    /\ out' = "init"
    \* the script declares whether it stays within the timing assumptions; the exact conditions are re-checked
    /\ calm' = (c.live /\ \A s \in Sig : feeds'[s].iv > 0 => TimingOKp(par', feeds'[s].iv))
    /\ waited' = [s \in Sig |-> 0]
    /\ rejSeen' = FALSE

TPoll ==
    /\ Poll
    /\ ~Line.o.dup
    /\ out'.stage = Line.o.stage
    /\ Line.o.stage = "submitted" => out'.m = LM(Line.o.m)

TPollFail ==
    /\ PollFail(ToSet(Line.a.q))
    /\ out'.stage = Line.o.stage
    /\ Line.o.n = 0                     \* nothing was handed to the submitter

TBcast ==
    LET a == Line.a IN
    /\ a.wf /\ a.val
    /\ a.id \in SubIds
    /\ SubOf(a.id).m = LM(a.m)       \* the broadcast message carries exactly what the signaller decided
    /\ SubOf(a.id).try = a.try
    /\ Bcast(a.id, a.r)

TBlock ==
    /\ Line.o.ok
    /\ Block(Line.a.d, Line.a.k)
    /\ out' = Line.o.res

TTxResult == TxResult(Line.a.id, Line.a.r)

\* inputs
TTick     == Tick(Line.a.dt)
TSvc      == Svc(LSvc(Line.s))
TSetFeeds == SetFeeds(LFeeds(Line.s))
TEnv      == Env(Line.s.down)

Act ==
    /\ ph = "act" /\ l <= Len(TraceLog)
    /\ ph' = "sync" /\ l' = l
    /\ liveDecl' = IF Line.e = "Reset" THEN Line.c.live ELSE liveDecl
    /\ IF Line.e = "Reset" THEN ResetVars(Line.c, Line.s)
       ELSE CASE Line.e = "Tick"     -> TTick
              [] Line.e = "Svc"      -> TSvc
              [] Line.e = "SetFeeds" -> TSetFeeds
              [] Line.e = "Env"      -> TEnv
              [] Line.e \notin Owned -> UNCHANGED vars
              [] Line.e = "Poll"     -> TPoll
              [] Line.e = "PollFail" -> TPollFail
              [] Line.e = "Bcast"    -> TBcast
              [] Line.e = "Block"    -> TBlock
              [] Line.e = "TxResult" -> TTxResult

\* checked variable: must equal the observation; unchecked: adopt the observation
Bind(name, cur, nxt, obs) == IF name \in Checked THEN cur = obs /\ nxt = cur ELSE nxt = obs

Sync ==
    /\ ph = "sync"
    /\ ph' = "act" /\ l' = l + 1
    /\ LET st == Line.s IN
        /\ clk = st.clk /\ bt = st.bt /\ h = st.h /\ UNCHANGED <<clk, bt, h>>   \* the clocks are inputs
        /\ svc = LSvc(st) /\ feeds = LFeeds(st) /\ UNCHANGED <<svc, feeds>>     \* so are quotes and feed list
        /\ down = st.down /\ UNCHANGED down                                    \* and the local prerequisites
        /\ st.extraFeeds = 0
        /\ Bind("upd", updT, updT', st.updT)
        /\ Bind("upd", updH, updH', st.updH)
        /\ Bind("vp", vp, vp', LVp(st))
        /\ Bind("slot", slot, slot', LSlot(st))
        \* the assigned time the real calculateAssignedTime yields for the real interval
        /\ ("slot" \in Checked) =>
               \A s \in Sig : (st.vp[s].st # "none" /\ st.feeds[s].iv > 0) => st.asg[s] = AsgOff(st.feeds[s].iv, st.slot[s])
        /\ Bind("active", active, active', st.active)
        /\ Bind("active", since, since', st.since)
        /\ Bind("pending", pending, pending', ToSet(st.pending))
        /\ Bind("subs", subs, subs', LSubs(st))
        /\ ("subs" \in Checked) => st.queued = 0      \* every hand-off was picked up by the submitter
        \* a feeder key is in use exactly while a submitPrice runs (handed back on every exit)
        /\ ("subs" \in Checked) => st.keysBusy = Cardinality(LSubs(st))
        /\ Bind("nsub", nsub, nsub', st.nsub)
        /\ Bind("mempool", mempool, mempool', LMem(st))
        /\ Bind("lastPoll", lastPoll, lastPoll', st.lastPoll)
    /\ UNCHANGED <<par, out, calm, waited, rejSeen, liveDecl>>

TraceNext == Act \/ Sync
TraceSpec == TraceInit /\ [][TraceNext]_tvars

TraceAccepted ==
    LET d == TLCGet("stats").diameter IN
    IF d - 1 = 2 * Len(TraceLog) THEN TRUE
    ELSE Print(<<"TRACE_REJECTED_AT_LINE", (d + 1) \div 2, "PHASE", IF d % 2 = 1 THEN "act" ELSE "sync", "OF", Len(TraceLog)>>, FALSE)

\* invariants are evaluated on the states between lines (after Sync)
AtLine == ph = "act" /\ l > 1
TInv == AtLine => Inv

\* development aid (not part of the C20 cfg): a script that declares itself live keeps the assumptions
TCalmKept == (AtLine /\ liveDecl) => calm

Exempt == ph = "sync" \/ (l <= Len(TraceLog) /\ TraceLog[l].e = "Reset")
TRelease == [][Exempt \/ ReleaseA]_tvars
=============================================================================
