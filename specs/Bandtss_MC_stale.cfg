\* hand-over facet: signing period 3 blocks, transition window 1..3 s, two proposals, two hand-over signings
CONSTANTS
  Addr = {"a1", "a2", "a3"}
  Payer = {"p1"}
  MaxG = 3
  MaxSig = 2
  MemberMenu = {{"a1", "a2"}, {"a3"}}
  MinDur = 1
  MaxDur = 3
  PeriodSet = {3}
  CreateSet = {4}
  FeeSet = {1}
  DtSet = {1, 2}
  LimitSet = {1}
  ExecOffsets = {1, 2}
  MaxH = 8
  StartWithGroup = TRUE
  Bal0 = 3
INIT Init
NEXT NextStale
VIEW View
CONSTRAINT Bound
INVARIANTS Inv
PROPERTIES GroupChange WaitingExec OneTransition Start
CHECK_DEADLOCK FALSE
