\* ChooseSome: <= 5 entries over 1..2, cnt 0..4, every stream over 0..9 (all residues of every total)
CONSTANTS
  SeedLen = 3
  Byte = {0, 1}
  Facet = "some"
  MaxN = 5
  WSet = {1, 2}
  MaxCnt = 4
  MaxTries = 1
  DSet = {0, 1, 2, 3, 4, 5, 6, 7, 8, 9}
  IdSet = {1}
INIT MCInit
NEXT MCNext
VIEW View
INVARIANTS Valid Deterministic Consumed OneSpec SomeSpec MaxSpec ShufSpec
PROPERTIES SeedRule
CHECK_DEADLOCK FALSE
