CONSTANTS
  Member = {m1, m2, m3}
  Stranger = {x1}
  TSet = {1, 2, 3}
  MaxSig = 7
  MaxSerial = 12
  MaxDESet = {1, 2, 3}
  MaxAttSet = {1, 2, 3}
  PeriodSet = {1, 2}
  PenaltySet = {1, 2, 4}
  KSet = {1, 2}
  PreSet = {0, 1}
  PostSet = {0, 1}
  TransOn = TRUE
  Depth = 26
  InitDESet = {0, 1, 2}
  MaxPerBlock = 4
  SrcSet = {"direct", "tunnel"}
SPECIFICATION GSpec
INVARIANT Emit
CHECK_DEADLOCK FALSE
