\* limb comparison against integers; the bracket on limbs determines the tick
CONSTANTS
  MaxSig = 3
  MaxMemo = 2
  MaxText = 2
  MaxSigs = 1
  Zero = 0
  FineFrom = 10
  MaxNow = 1
  OrigMode = "each"
  StrDom <- Strs6
  SigDom <- SigsPlain
INIT InitOne
NEXT Stay
INVARIANTS LimbSanity TickDet TickZero
CHECK_DEADLOCK FALSE
