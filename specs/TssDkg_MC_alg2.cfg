\* thorough algebra facet: n=2, t in {1,2}, q=5, EVERY polynomial of both dealers, every interleaving, <= 2 deviations
CONSTANTS
  MaxN = 2
  NSet = {2}
  TSet = {1, 2}
  Q = 5
  Periods = {4}
  PolyMode = "all"
  MaxH = 6
  MaxDev = 2
INIT Init
NEXT MCNext
VIEW View
CONSTRAINT Bound
INVARIANTS Inv
PROPERTIES StatusMonotone MalSticky NeverActiveAfterMal KeysImmutable MalOnlyByComplain RejectedNoEffect
CHECK_DEADLOCK FALSE
