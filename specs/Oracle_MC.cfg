\* quick exhaustive cfg: 3 validators (symmetric, initially active), 2 requests, exp 2, fixed block time
CONSTANTS
  Val = {v1, v2, v3}
  Stranger = {}
  MaxReq = 2
  Units = 1
  ExpSet = {2}
  PenaltySet = {2}
  DtSet = {1}
  AskSet = {1, 2}
  MinSet = {1, 2}
  ShapeSet = {"exact", "missing", "extra", "wrongId", "perm", "dup", "dupAdj"}
  MaxH = 5
INIT InitActive
NEXT Next
SYMMETRY Sym
VIEW View
CONSTRAINT Bound
INVARIANTS Inv ExpiredOnTime
PROPERTIES ResultImmutable ResultOnlyAtEndBlock CursorMonotone ReportOnce ActivationRule DeactivationRule StatusStable ReporterSafe
CHECK_DEADLOCK FALSE
