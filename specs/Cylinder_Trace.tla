--------------------------- MODULE Cylinder_Trace ---------------------------
(***************************************************************************)
(* Trace validation for Cylinder.tla.  Every line of the ndjson file was   *)
(* recorded from the real cylinder workers (harness/fam_cylinder) running  *)
(* against the real in-process chain.                                      *)
(*                                                                         *)
(* Each line is consumed in two TLC steps (as Oracle_Trace.tla):           *)
(*   Act  - if the event is OWNED, the spec action it names must be        *)
(*          enabled with the logged arguments and produce the logged       *)
(*          outcome (no daemon step may have crashed; Land ok / refused);  *)
(*          otherwise the spec stutters;                                   *)
(*   Sync - every CHECKED variable must equal the projection of the real   *)
(*          state (local store, message queue, counter); every other       *)
(*          variable (the chain side) adopts the observed value.           *)
(***************************************************************************)
EXTENDS Cylinder, Json

CONSTANTS TraceFile, Checked, Owned
TraceLog == ndJsonDeserialize(TraceFile)

VARIABLES l, ph
tvars == <<vars, l, ph>>

ToSet(s) == {s[i] : i \in 1..Len(s)}
Line == TraceLog[l]

TraceInit == Init0 /\ par = [minDE |-> 1, maxDE |-> 2, gas |-> FALSE] /\ l = 1 /\ ph = "act"

LSg(st) == [s \in Sigs |-> IF s <= Len(st.sg)
                           THEN [a |-> st.sg[s].a, open |-> st.sg[s].open, me |-> st.sg[s].me, de |-> st.sg[s].de,
                                 signed |-> st.sg[s].signed]
                           ELSE NoSig]
LMsg(m) == IF m.k = "sig" THEN [k |-> "sig", sid |-> m.sid, a |-> m.a, de |-> m.de, good |-> m.good]
           ELSE [k |-> "des", des |-> m.des, pre |-> m.pre]
LMq(st) == [i \in 1..Len(st.mq) |-> LMsg(st.mq[i])]

ResetVars(c, st) ==
    /\ par' = [minDE |-> c.minDE, maxDE |-> c.maxDE, gas |-> c.gas]
    /\ cq' = st.cq /\ sg' = LSg(st) /\ pendN' = st.pendN /\ evDE' = ToSet(st.evDE)
    /\ priv' = ToSet(st.priv) /\ mq' = LMq(st) /\ cnt' = st.cnt /\ nextTok' = st.nextTok
    /\ usedFor' = [t \in Toks |-> {}] /\ everSub' = {} /\ sentKeys' = {} /\ calm' = TRUE /\ out' = "-"

DaemonOK == ~Line.o.crashed

EventAct(e, a, o) ==
    CASE e = "HandleSigning" -> DaemonOK /\ HandleSigning(a.sid, a.q)
      [] e = "Tick"          -> DaemonOK /\ Tick(a.qde, a.qmem) /\ o.err = (a.qde = "fail")
      [] e = "AssignEv"      -> DaemonOK /\ AssignEv(a.dup, a.qmem)
      [] e = "DeleteDE"      -> DaemonOK /\ DeleteDE(ToSet(a.D))
      [] e = "Crash"         -> Crash
      [] e = "CrashInUpdate" -> CrashInUpdateVia(a.via, a.k, a.qmem)
      [] e = "Land"          -> Land(a.n) /\ out' = (IF o.ok THEN "ok" ELSE "rej")
      [] e = "GiveUp"        -> GiveUp(a.n)
      [] OTHER               -> FALSE

Act ==
    /\ ph = "act" /\ l <= Len(TraceLog)
    /\ ph' = "sync" /\ l' = l
    /\ IF Line.e = "Reset" THEN ResetVars(Line.c, Line.s)
       ELSE IF Line.e \notin Owned THEN UNCHANGED vars
       ELSE EventAct(Line.e, Line.a, Line.o)

Bind(name, cur, nxt, obs) == IF name \in Checked THEN cur = obs /\ nxt = cur ELSE nxt = obs

Sync ==
    /\ ph = "sync"
    /\ ph' = "act" /\ l' = l + 1
    /\ LET st == Line.s IN
        /\ Len(st.sg) <= NSig /\ st.nextTok <= MaxTok
        /\ Bind("cq", cq, cq', st.cq)
        /\ Bind("sg", sg, sg', LSg(st))
        /\ Bind("pendN", pendN, pendN', st.pendN)
        /\ Bind("evDE", evDE, evDE', ToSet(st.evDE))
        /\ Bind("priv", priv, priv', ToSet(st.priv))
        /\ Bind("mq", mq, mq', LMq(st))
        /\ Bind("cnt", cnt, cnt', st.cnt)
        /\ Bind("nextTok", nextTok, nextTok', st.nextTok)
    /\ UNCHANGED <<par, ghostVars, out>>

TraceNext == Act \/ Sync
TraceSpec == TraceInit /\ [][TraceNext]_tvars

TraceAccepted ==
    LET d == TLCGet("stats").diameter IN
    IF d - 1 = 2 * Len(TraceLog) THEN TRUE
    ELSE Print(<<"TRACE_REJECTED_AT_LINE", (d + 1) \div 2, "PHASE", IF d % 2 = 1 THEN "act" ELSE "sync", "OF", Len(TraceLog)>>, FALSE)

\* invariants are evaluated on the states between lines (after Sync)
AtLine == ph = "act"
TInv == AtLine => Inv

\* action properties on every Act step that is not a Reset
Exempt == ph = "sync" \/ (l <= Len(TraceLog) /\ TraceLog[l].e = "Reset")
TPrivRule  == [][Exempt \/ PrivRuleA]_tvars
TQueueRule == [][Exempt \/ QueueRuleA]_tvars
\* a MsgSubmitDEs-only transaction landing under a calm schedule (and 2*MinDE <= MaxDESize) is accepted
TCalmLandOK == [][(ph = "act" /\ l <= Len(TraceLog) /\ TraceLog[l].e = "Land" /\ calm /\ M2 <= par.maxDE
                    /\ \A i \in 1..TraceLog[l].a.n : i <= Len(mq) /\ mq[i].k = "des") => out' = "ok"]_tvars
=============================================================================
