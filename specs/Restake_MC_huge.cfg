\* quick facet: powers above 2^63 (HM = 100000000 stands for 2^63, U64Lim for 2^64): locks at H, H+1, 2H
CONSTANTS
  Acct = {a1}
  Val = {v1}
  Vault = {k1, k2}
  Denom = {d1, d2}
  AmtSet = {1}
  CoinAmts = {1, 100000000, 100000001}
  CoinSet <- MCCoins
  LockAmts = {1, 99999999, 100000000, 100000001, 199999999, 200000000, 200000001}
  LockSet <- MCLocks
  MaxHi = 1
  U64Lim = 200000000
  MaxEntry = 1
  InitAllowed = {d1, d2}
INIT InitFixed
NEXT NextFixed
SYMMETRY SymAV
VIEW View
CONSTRAINT Bound
INVARIANTS Inv LocksCovered
PROPERTIES WithdrawGuard RejUnchanged LockRule VaultRule BackingStep
CHECK_DEADLOCK FALSE
