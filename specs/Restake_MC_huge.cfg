\* quick facet: powers above 2^63 (HM = 1000000 stands for 2^63, U64Lim for 2^64): locks at H, H+1, 2H
CONSTANTS
  Acct = {a1}
  Val = {v1}
  Vault = {k1, k2}
  Denom = {d1, d2}
  AmtSet = {1}
  CoinAmts = {1, 1000000, 1000001}
  CoinSet <- MCCoins
  LockAmts = {1, 999999, 1000000, 1000001, 1999999, 2000000, 2000001}
  LockSet <- MCLocks
  MaxHi = 1
  U64Lim = 2000000
  MaxEntry = 1
  InitAllowed = {d1, d2}
INIT InitFixed
NEXT NextFixed
SYMMETRY SymAV
VIEW View
CONSTRAINT Bound
INVARIANTS Inv LocksCovered
PROPERTIES WithdrawGuard RejUnchanged LockRule VaultRule BackingStep
CHECK_DEADLOCK FALSE
