\* thorough: n=4, t=2, q=7, <= 2 deviations, every interleaving and input shape
CONSTANTS
  MaxN = 4
  NSet = {4}
  TSet = {2}
  Q = 7
  Periods = {4}
  PolyMode = "one"
  MaxH = 6
  MaxDev = 2
INIT Init
NEXT MCNext
VIEW View
CONSTRAINT Bound
INVARIANTS Inv
PROPERTIES StatusMonotone MalSticky NeverActiveAfterMal KeysImmutable MalOnlyByComplain RejectedNoEffect
CHECK_DEADLOCK FALSE
