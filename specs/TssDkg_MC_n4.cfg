\* thorough: n=4, t=2, q=7, <= 2 deviations, every interleaving and input shape (no expiry here: see the exp facet)
CONSTANTS
  MaxN = 4
  NSet = {4}
  TSet = {2}
  Q = 7
  Periods = {9}
  PolyMode = "one"
  MaxH = 5
  MaxDev = 2
INIT Init
NEXT MCNext
VIEW View
CONSTRAINT Bound
INVARIANTS Inv
PROPERTIES StatusMonotone MalSticky NeverActiveAfterMal KeysImmutable MalOnlyByComplain RejectedNoEffect
CHECK_DEADLOCK FALSE
