\* the request state machine: <=2 signings, users x memos x all content kinds x 1..2 signing groups, module requests
CONSTANTS
  MaxSig = 2
  MaxMemo = 2
  MaxText = 2
  MaxSigs = 1
  Zero = 0
  FineFrom = 10
  MaxNow = 1
  OrigMode = "each"
  StrDom <- Strs6
  SigDom <- SigsPlain
INIT InitSM
NEXT NextSM
VIEW View
INVARIANTS Inv DistinctBytes MsgIffBytes TickExact UserRule
PROPERTIES AppendOnly RejectRule
CHECK_DEADLOCK FALSE
