\* GetRandomValidators: <= 3 eligible over 1..3, ask 1..4 (too few included), one try, every stream over 0..8 (two tries: Sampling_MC_req_deep.cfg)
CONSTANTS
  SeedLen = 3
  Byte = {0, 1}
  Facet = "req"
  MaxN = 3
  WSet = {1, 2, 3}
  MaxCnt = 4
  MaxTries = 1
  DSet = {0, 1, 2, 3, 4, 5, 6, 7, 8}
  IdSet = {1}
INIT MCInit
NEXT MCNext
VIEW View
INVARIANTS Valid Deterministic Consumed OneSpec SomeSpec MaxSpec ShufSpec
PROPERTIES SeedRule
CHECK_DEADLOCK FALSE
