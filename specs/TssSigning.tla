----------------------------- MODULE TssSigning -----------------------------
(***************************************************************************)
(* Threshold-signing life cycle of BandChain (x/tss driven through         *)
(* x/bandtss), properties                                                  *)
(*   C05  a signing nonce pair (DE) is used at most once, taken from the   *)
(*        head of the member's queue, in registration order; queue bound;  *)
(*        only active members with a queued pair sit on a committee;       *)
(*        a failed / rolled-back creation leaves nothing behind;           *)
(*   C10  every signing terminates (SUCCESS | FALLEN), attempts are timed  *)
(*        out exactly after the signing period, exactly the idle members   *)
(*        are penalised, the owner is notified once, interim data goes.    *)
(*                                                                         *)
(* One action per entry point of the real code:                            *)
(*   SubmitDEs        x/tss msg_server.SubmitDEs -> EnqueueDEs             *)
(*   ResetDE          x/tss msg_server.ResetDE   -> ResetDE                *)
(*   RequestOK/Rej    a signing request inside a block: bandtss            *)
(*                    MsgRequestSignature or tunnel MsgTriggerTunnel ->    *)
(*                    bandtss createSigningRequest -> tss.RequestSigning   *)
(*                    on the current group -> InitiateNewSigningRound ->   *)
(*                    AssignMembersForSigning; then, while a group         *)
(*                    transition awaits execution, best effort (cache      *)
(*                    context) the same on the incoming group              *)
(*   RequestRollback  the same message followed, in the same transaction,  *)
(*                    by a message that fails: everything is undone        *)
(*   SubmitSig        x/tss msg_server.SubmitSignature                     *)
(*   Activate         x/bandtss msg_server.Activate -> ActivateMember      *)
(*   Transition       bandtss MsgTransitionGroup (authority) + the key     *)
(*                    generation of the incoming group reaching round 3    *)
(*   EndBlock         app.EndBlocker in module order: oracle (resolved     *)
(*                    requests with a TSS encoder create signings), tss    *)
(*                    (pending groups: the hand-over signing of a group    *)
(*                    transition; then HandleSigningEndBlock: aggregate,   *)
(*                    expirations FIFO, retries / HandleFailedSigning),    *)
(*                    bandtss, ..., tunnel (packets of TSS-route tunnels   *)
(*                    create signings); then the header of the next block  *)
(* Inputs the code must refuse are actions too (outcome "rej", state       *)
(* unchanged).  `out`, `pen`, `ret` describe the last step only.           *)
(***************************************************************************)
EXTENDS Integers, Sequences, FiniteSets, TLC

CONSTANTS
    Member,     \* the accounts that are members of the current group (and of the incoming group of a transition)
    Stranger,   \* addresses outside the groups (may still send any message)
    TSet,       \* possible group thresholds (= committee size; the incoming group has the same)
    MaxSig,     \* bound on the number of signings (ids 1..MaxSig)
    MaxSerial,  \* bound on the number of nonce pairs an address registers
    MaxDESet,   \* possible values of tss params.max_de_size
    MaxAttSet,  \* possible values of tss params.max_signing_attempt
    PeriodSet,  \* possible values of tss params.signing_period (blocks)
    PenaltySet, \* possible values of bandtss params.inactive_penalty_duration (seconds = blocks: 1 s per block)
    KSet,       \* batch sizes tried by SubmitDEs
    PreSet,     \* numbers of oracle-originated signing requests tried inside an end-block (before the tss end-blocker)
    PostSet,    \* numbers of tunnel packets (TSS route) tried inside an end-block (after the tss end-blocker)
    TransOn     \* BOOLEAN: a group transition may be started in this history

Addr  == Member \cup Stranger
Ids   == 1..MaxSig
Token == Addr \X (1..MaxSerial)      \* <<address, registration serial>>
Grp   == {1, 2}                      \* 1 = current group, 2 = incoming group of the transition

VARIABLES
    h,        \* height of the block in progress
    params,   \* [t, maxDE, maxAtt, period, penalty]
    q,        \* address -> sequence of serials: the DE queue (head first); one queue per address, whatever the group
    nser,     \* address -> number of nonce pairs registered so far
    tssAct,   \* group -> member -> x/tss Member.IsActive
    ownAct,   \* group -> member -> x/bandtss Member.IsActive (the owner module's flag)
    cool,     \* group -> member -> blocks until MsgActivate is allowed again
    count,    \* number of signings ever created
    sig,      \* id -> [status, attempt, created, grp]
    att,      \* id -> stored SigningAttempt record of the signing (NoAtt when none)
    tok,      \* id -> [a, asg]: latest assignment announced for the signing (member -> serial)
    exps,     \* SigningExpirations FIFO: sequence of <<id, attempt>>
    pend,     \* PendingProcessSignings: sequence of ids
    mapped,   \* id -> the owner module still waits for the outcome (bandtss signing-id mapping / transition in WAITING_SIGN)
    nSucc,    \* id -> number of signing_success events so far
    nFail,    \* id -> number of signing_failed events so far
    tr,       \* group transition: "none" | "pending" (incoming group about to become active) | "sign" (hand-over
              \* message being signed by the current group) | "exec" (awaiting execution: requests also go to the
              \* incoming group) | "dropped"
    trSig,    \* id of the hand-over signing (0 = none)
    \* ---- description of the last step only (not part of the state identity) ----
    out,      \* "init" | "ok" | "rej"
    pen,      \* <<group, member>> pairs deactivated by the last step
    ret,      \* assignments made by the last step: sequence of [id, a, g, S, post]
    \* ---- ghost ----
    usedBy,   \* token -> set of <<id, attempt>> the pair was assigned to, history-wide
    pchg      \* [p, a, d]: signing_period (p) / max_signing_attempt (a) / max_de_size (d) was changed at some point of this history

core  == <<h, params, q, nser, tssAct, ownAct, cool, count, sig, att, tok, exps, pend, mapped, nSucc, nFail, tr, trSig>>
vars  == <<h, params, q, nser, tssAct, ownAct, cool, count, sig, att, tok, exps, pend, mapped, nSucc, nFail, tr, trSig,
           out, pen, ret, usedBy, pchg>>
\* the variables a step that creates attempts writes through Commit
cvars == <<q, tok, usedBy, att, sig, exps, count, mapped, nFail, tr, trSig, ret>>

NoSig == [status |-> "NONE", attempt |-> 0, created |-> 0, grp |-> 0]
NoAtt == [present |-> FALSE, a |-> 0, mem |-> {}, expH |-> 0, signed |-> {}]
NoTok == [a |-> 0, asg |-> [m \in {} |-> 0]]

T == params.t                        \* group threshold = committee size

Range(s) == {s[i] : i \in 1..Len(s)}
Hd(s) == IF s = <<>> THEN 0 ELSE Head(s)         \* total versions (0 is no serial)
Tl(s) == IF s = <<>> THEN <<>> ELSE Tail(s)
Pos(x) == IF x > 0 THEN x ELSE 0

\* GetAvailableMembers of a group: its tss-active members with a non-empty DE queue
Avail(qq, act) == {m \in Member : act[m] /\ qq[m] # <<>>}

\* the sampler (property C09) is free: any priority order over the members; the committee is the
\* first T available members in that order
Prios == {f \in [Member -> 1..Cardinality(Member)] : \A x, y \in Member : x # y => f[x] # f[y]}
Pick(av, pr) == {m \in av : Cardinality({x \in av : pr[x] < pr[m]}) < T}
\* committees fixed from outside (trace validation): id -> [S, g]; S = {} : nothing observed for that id
NoP == [S |-> {}, g |-> 0]
NoPick == [id \in 1..(MaxSig + 2) |-> NoP]
PAt(P, id) == IF id \in DOMAIN P THEN P[id] ELSE NoP

AllOf(b) == [g \in Grp |-> [m \in Member |-> b]]

Init ==
    /\ h = 2
    /\ params \in [t : TSet, maxDE : MaxDESet, maxAtt : MaxAttSet, period : PeriodSet, penalty : PenaltySet]
    /\ q = [a \in Addr |-> <<>>]
    /\ nser = [a \in Addr |-> 0]
    /\ tssAct = [g \in Grp |-> [m \in Member |-> g = 1]]
    /\ ownAct = [g \in Grp |-> [m \in Member |-> g = 1]]
    /\ cool = [g \in Grp |-> [m \in Member |-> 0]]
    /\ count = 0
    /\ sig = [id \in Ids |-> NoSig]
    /\ att = [id \in Ids |-> NoAtt]
    /\ tok = [id \in Ids |-> NoTok]
    /\ exps = <<>> /\ pend = <<>>
    /\ mapped = [id \in Ids |-> FALSE]
    /\ nSucc = [id \in Ids |-> 0]
    /\ nFail = [id \in Ids |-> 0]
    /\ tr = "none" /\ trSig = 0
    /\ out = "init" /\ pen = {} /\ ret = <<>>
    /\ usedBy = [t \in Token |-> {}]
    /\ pchg = [p |-> FALSE, a |-> FALSE, d |-> FALSE]

Rejected == /\ out' = "rej" /\ pen' = {} /\ ret' = <<>>
            /\ UNCHANGED <<core, usedBy, pchg>>

(***************************************************************************)
(* MsgSubmitDEs: EnqueueDEs refuses iff queue length + k > max_de_size.    *)
(* Anybody may queue pairs.  Each registered pair gets a fresh serial.     *)
(***************************************************************************)
SubmitDEs(a, k) ==
    /\ nser[a] + k <= MaxSerial                         \* model bound only
    /\ IF Len(q[a]) + k <= params.maxDE
       THEN /\ q' = [q EXCEPT ![a] = @ \o [i \in 1..k |-> nser[a] + i]]
            /\ nser' = [nser EXCEPT ![a] = @ + k]
            /\ out' = "ok" /\ pen' = {} /\ ret' = <<>>
            /\ UNCHANGED <<h, params, tssAct, ownAct, cool, count, sig, att, tok, exps, pend, mapped, nSucc, nFail, tr, trSig, usedBy, pchg>>
       ELSE Rejected

(* MsgResetDE: every queued pair of the sender is deleted *)
ResetDE(a) ==
    /\ q' = [q EXCEPT ![a] = <<>>]
    /\ out' = "ok" /\ pen' = {} /\ ret' = <<>>
    /\ UNCHANGED <<h, params, nser, tssAct, ownAct, cool, count, sig, att, tok, exps, pend, mapped, nSucc, nFail, tr, trSig, usedBy, pchg>>

(***************************************************************************)
(* The running state threaded through the steps that create attempts.      *)
(***************************************************************************)
Run0 == [q |-> q, tok |-> tok, used |-> usedBy, att |-> att, sig |-> sig, exps |-> exps, count |-> count,
         mapped |-> mapped, nFail |-> nFail, tr |-> tr, trSig |-> trSig, ret |-> <<>>]

\* InitiateNewSigningRound: attempt a of signing id (group g) with committee S: each member's head pair is dequeued
Assign(st, id, a, S, g, post) ==
    [st EXCEPT
        !.q    = [m \in Addr |-> IF m \in S THEN Tl(st.q[m]) ELSE st.q[m]],
        !.tok  = [st.tok EXCEPT ![id] = [a |-> a, asg |-> [m \in S |-> Hd(st.q[m])]]],
        !.used = [t \in Token |-> IF t[1] \in S /\ t[2] = Hd(st.q[t[1]]) THEN st.used[t] \cup {<<id, a>>} ELSE st.used[t]],
        !.att  = [st.att EXCEPT ![id] = [present |-> TRUE, a |-> a, mem |-> S, expH |-> h + params.period, signed |-> {}]],
        !.sig  = [st.sig EXCEPT ![id] = [status |-> "WAITING", attempt |-> a,
                                         created |-> IF a = 1 THEN h ELSE st.sig[id].created, grp |-> g]],
        !.exps = Append(st.exps, <<id, a>>),
        !.ret  = Append(st.ret, [id |-> id, a |-> a, g |-> g, S |-> S, post |-> post])]

\* tss.RequestSigning: CreateSigning + first round; the owner module waits for the outcome
Create(st, S, g, post) ==
    LET id == st.count + 1 IN
    [Assign(st, id, 1, S, g, post) EXCEPT !.count = id, !.mapped = [st.mapped EXCEPT ![id] = TRUE]]

\* HandleFailedSigning: status FALLEN (the attempt counter stays: the failed round was rolled back);
\* OnSigningFailed: the mapping goes / the transition whose hand-over signing this is, is dropped
Fall(st, id) ==
    [st EXCEPT !.sig = [st.sig EXCEPT ![id].status = "FALLEN"],
               !.nFail = [st.nFail EXCEPT ![id] = @ + 1],
               !.mapped = [st.mapped EXCEPT ![id] = FALSE],
               !.tr = IF id = st.trSig /\ st.tr = "sign" THEN "dropped" ELSE st.tr]

(***************************************************************************)
(* bandtss createSigningRequest on the running state, with the tss flags   *)
(* `act` in force: the current group must provide a committee (otherwise   *)
(* nothing happens: error); while the transition awaits execution the      *)
(* incoming group is asked too, in a cache context: a failure there leaves *)
(* nothing.  obs = FALSE: decided by availability, committees by pr or P;  *)
(* obs = TRUE (trace, life-cycle facet): exactly what was observed in P.   *)
(***************************************************************************)
CreateReq(st, act, pr, P, obs, post) ==
    LET id1 == st.count + 1
        av1 == Avail(st.q, act[1])
        do1 == IF obs THEN PAt(P, id1).S # {} /\ PAt(P, id1).g = 1 ELSE Cardinality(av1) >= T
        S1  == IF PAt(P, id1).S # {} THEN PAt(P, id1).S ELSE Pick(av1, pr)
        st1 == Create(st, S1, 1, post)
        id2 == id1 + 1
        av2 == Avail(st1.q, act[2])
        do2 == st.tr = "exec" /\ (IF obs THEN PAt(P, id2).S # {} /\ PAt(P, id2).g = 2 ELSE Cardinality(av2) >= T)
        S2  == IF PAt(P, id2).S # {} THEN PAt(P, id2).S ELSE Pick(av2, pr)
    IN IF ~do1 THEN st ELSE IF do2 THEN Create(st1, S2, 2, post) ELSE st1

Commit(st) ==
    /\ q' = st.q /\ tok' = st.tok /\ usedBy' = st.used /\ att' = st.att /\ sig' = st.sig
    /\ exps' = st.exps /\ count' = st.count /\ mapped' = st.mapped /\ nFail' = st.nFail
    /\ tr' = st.tr /\ trSig' = st.trSig /\ ret' = st.ret

(***************************************************************************)
(* A signing request inside a block (MsgRequestSignature, MsgTriggerTunnel)*)
(* GetRandomMembers fails when fewer than T members of the current group   *)
(* are available; otherwise any T of them.                                 *)
(***************************************************************************)
RequestRejGuard == Cardinality(Avail(q, tssAct[1])) < T
RequestEffect(pr, P, obs) ==
    /\ count + (IF tr = "exec" THEN 2 ELSE 1) <= MaxSig    \* model bound only
    /\ Commit(CreateReq(Run0, tssAct, pr, P, obs, FALSE))
    /\ out' = "ok" /\ pen' = {}
    /\ UNCHANGED <<h, params, nser, tssAct, ownAct, cool, pend, nSucc, pchg>>
\* S: committee of the current group; pr only matters for the incoming group
RequestOK(S, pr) ==
    /\ S \subseteq Avail(q, tssAct[1]) /\ Cardinality(S) = T
    /\ RequestEffect(pr, [NoPick EXCEPT ![count + 1] = [S |-> S, g |-> 1]], FALSE)
RequestRej == RequestRejGuard /\ Rejected

\* the signing was created, then a later message of the same transaction failed: nothing remains
RequestRollback == Rejected

(***************************************************************************)
(* MsgSubmitSignature.  `valid` = the signature verifies for the current   *)
(* attempt (right nonce, right share).                                     *)
(***************************************************************************)
SigAcceptable(m, id, valid) ==
    /\ id \in Ids /\ sig[id].status = "WAITING"
    /\ att[id].present /\ att[id].a = sig[id].attempt
    /\ m \in att[id].mem /\ m \notin att[id].signed
    /\ valid

SubmitSig(m, id, valid) ==
    IF SigAcceptable(m, id, valid)
    THEN /\ att' = [att EXCEPT ![id].signed = @ \cup {m}]
         /\ pend' = IF att[id].signed \cup {m} = att[id].mem THEN Append(pend, id) ELSE pend
         /\ out' = "ok" /\ pen' = {} /\ ret' = <<>>
         /\ UNCHANGED <<h, params, q, nser, tssAct, ownAct, cool, count, sig, tok, exps, mapped, nSucc, nFail, tr, trSig, usedBy, pchg>>
    ELSE Rejected

(***************************************************************************)
(* MsgActivate (bandtss) for group g: a member that is inactive in the     *)
(* owner module and whose penalty has elapsed; both flags are raised.  The *)
(* incoming group has owner-module members only while it awaits execution. *)
(***************************************************************************)
Activate(a, g) ==
    IF a \in Member /\ (g = 1 \/ tr = "exec") /\ ~ownAct[g][a] /\ cool[g][a] = 0
    THEN /\ ownAct' = [ownAct EXCEPT ![g][a] = TRUE]
         /\ tssAct' = [tssAct EXCEPT ![g][a] = TRUE]
         /\ out' = "ok" /\ pen' = {} /\ ret' = <<>>
         /\ UNCHANGED <<h, params, q, nser, cool, count, sig, att, tok, exps, pend, mapped, nSucc, nFail, tr, trSig, usedBy, pchg>>
    ELSE Rejected

(***************************************************************************)
(* MsgTransitionGroup from the authority, and the key generation of the    *)
(* incoming group reaching round 3 (environment): the tss end-blocker of   *)
(* this block will activate the group and call OnGroupCreationCompleted.   *)
(***************************************************************************)
Transition ==
    IF TransOn /\ tr = "none"
    THEN /\ tr' = "pending"
         /\ out' = "ok" /\ pen' = {} /\ ret' = <<>>
         /\ UNCHANGED <<h, params, q, nser, tssAct, ownAct, cool, count, sig, att, tok, exps, pend, mapped, nSucc, nFail, trSig, usedBy, pchg>>
    ELSE Rejected

(***************************************************************************)
(* End of block h, in the order of the end-blockers:                       *)
(*  0. oracle: npre resolved requests with a TSS encoder each call         *)
(*     createSigningRequest in a cache context (a failure leaves nothing). *)
(*  1. tss, pending groups: the incoming group of a "pending" transition   *)
(*     becomes active; OnGroupCreationCompleted asks the CURRENT group to  *)
(*     sign the hand-over message in a cache context: created ->           *)
(*     WAITING_SIGN, failed -> the transition is dropped.                  *)
(*  2. tss, HandleSigningEndBlock: every pending signing is aggregated:    *)
(*     SUCCESS, OnSigningCompleted (hand-over signing: the members of the  *)
(*     incoming group join the owner module, WAITING_EXECUTION).           *)
(*  3. HandleExpiredSignings: the FIFO is consumed while the head attempt  *)
(*     has expH <= h.  Not all assigned signed -> time-out: OnSigningTime- *)
(*     out deactivates the idle members in the signing's group (owner +    *)
(*     tss flag), the signing joins the retry list.  Interim data of every *)
(*     consumed entry goes.                                                *)
(*  4. each retry in its own cache context: attempt+1 <= maxAtt and >= T   *)
(*     available in its group -> new committee, fresh heads, new FIFO      *)
(*     entry; otherwise the cache is dropped and the signing is FALLEN,    *)
(*     OnSigningFailed.                                                    *)
(*  5. tunnel: npost TSS-route packets each call createSigningRequest in   *)
(*     the packet's cache context (a failure drops the whole packet).      *)
(* pr: sampler freedom; P: committees fixed from outside (trace);          *)
(* obs / hand: creations exactly as observed (trace, life-cycle facet).    *)
(***************************************************************************)
RECURSIVE ReqFold(_, _, _, _, _, _, _)
ReqFold(n, st, act, pr, P, obs, post) ==
    IF n = 0 THEN st ELSE ReqFold(n - 1, CreateReq(st, act, pr, P, obs, post), act, pr, P, obs, post)

\* OnGroupCreationCompleted
HandOver(st, act, pr, P, obs, hand) ==
    IF st.tr # "pending" THEN st
    ELSE LET id == st.count + 1
             av == Avail(st.q, act[1])
             do == IF obs THEN hand ELSE Cardinality(av) >= T
             S  == IF PAt(P, id).S # {} THEN PAt(P, id).S ELSE Pick(av, pr)
         IN IF do THEN [Create(st, S, 1, FALSE) EXCEPT !.tr = "sign", !.trSig = id]
            ELSE [st EXCEPT !.tr = "dropped"]

RECURSIVE DueLen(_, _)
DueLen(es, at) == IF es = <<>> \/ at[Head(es)[1]].expH > h THEN 0 ELSE 1 + DueLen(Tail(es), at)

RECURSIVE Retry(_, _, _, _, _)
Retry(todo, st, act, pr, P) ==
    IF todo = <<>> THEN st
    ELSE LET id == Head(todo)[1]
             g  == st.sig[id].grp
             a  == st.sig[id].attempt + 1
             av == Avail(st.q, act[g])
             ok == a <= params.maxAtt /\ Cardinality(av) >= T
             S  == IF PAt(P, id).S # {} THEN PAt(P, id).S ELSE Pick(av, pr)
         IN Retry(Tail(todo), IF ok THEN Assign(st, id, a, S, g, TRUE) ELSE Fall(st, id), act, pr, P)

TimedOut(e, at) == at[e[1]].signed # at[e[1]].mem

\* creations an end-block may need ids for (model bound only)
Need(npre, npost) == (npre + npost) * (IF tr \in {"sign", "exec"} THEN 2 ELSE 1) + (IF tr = "pending" THEN 1 ELSE 0)

EndBlockP(npre, npost, pr, P, obs, hand) ==
    /\ count + Need(npre, npost) <= MaxSig               \* model bound only
    /\ LET st0   == ReqFold(npre, Run0, tssAct, pr, P, obs, FALSE)
           st1   == HandOver(st0, tssAct, pr, P, obs, hand)
           agg   == Range(pend)
           sigA  == [id \in Ids |-> IF id \in agg THEN [st1.sig[id] EXCEPT !.status = "SUCCESS"] ELSE st1.sig[id]]
           mapA  == [id \in Ids |-> st1.mapped[id] /\ id \notin agg]
           exec  == st1.tr = "sign" /\ st1.trSig \in agg      \* the hand-over message is signed
           trA   == IF exec THEN "exec" ELSE st1.tr
           tssA  == IF exec THEN [tssAct EXCEPT ![2] = [m \in Member |-> TRUE]] ELSE tssAct
           ownA  == IF exec THEN [ownAct EXCEPT ![2] = [m \in Member |-> TRUE]] ELSE ownAct
           nDue  == DueLen(st1.exps, st1.att)
           due   == SubSeq(st1.exps, 1, nDue)
           timed == SelectSeq(due, LAMBDA e : TimedOut(e, st1.att))
           idle  == UNION {{<<sigA[e[1]].grp, m>> : m \in st1.att[e[1]].mem \ st1.att[e[1]].signed} : e \in Range(timed)}
           pens  == {x \in idle : ownA[x[1]][x[2]]}
           actT  == [g \in Grp |-> [m \in Member |-> tssA[g][m] /\ <<g, m>> \notin pens]]
           dueId == {e[1] : e \in Range(due)}
           st2   == [st1 EXCEPT !.sig = sigA, !.mapped = mapA, !.tr = trA,
                                !.att = [id \in Ids |-> IF id \in dueId THEN NoAtt ELSE st1.att[id]],
                                !.exps = SubSeq(st1.exps, nDue + 1, Len(st1.exps))]
           st3   == Retry(timed, st2, actT, pr, P)
           st4   == ReqFold(npost, st3, actT, pr, P, obs, TRUE)
       IN /\ Commit(st4)
          /\ nSucc' = [id \in Ids |-> nSucc[id] + (IF id \in agg THEN 1 ELSE 0)]
          /\ ownAct' = [g \in Grp |-> [m \in Member |-> ownA[g][m] /\ <<g, m>> \notin pens]]
          /\ tssAct' = actT
          /\ pen' = pens
          /\ cool' = [g \in Grp |-> [m \in Member |-> IF <<g, m>> \in pens THEN Pos(params.penalty - 1) ELSE Pos(cool[g][m] - 1)]]
    /\ pend' = <<>>
    /\ h' = h + 1
    /\ out' = "ok"
    /\ UNCHANGED <<params, nser, pchg>>

\* the sampler's choice matters only when some attempt is created in this end-block
NoCreation(npre, npost) ==
    /\ npre = 0 /\ npost = 0 /\ tr # "pending"
    /\ \A e \in Range(exps) : att[e[1]].expH > h \/ att[e[1]].signed = att[e[1]].mem
EndBlock(npre, npost) ==
    IF NoCreation(npre, npost) THEN EndBlockP(npre, npost, CHOOSE pr \in Prios : TRUE, NoPick, FALSE, FALSE)
    ELSE \E pr \in Prios : EndBlockP(npre, npost, pr, NoPick, FALSE, FALSE)

(***************************************************************************)
(* Environment: governance changes signing_period (MsgUpdateParams).       *)
(* Attempts already stored keep their expiry height.                       *)
(***************************************************************************)
SetPeriod(p) ==
    /\ p # params.period
    /\ params' = [params EXCEPT !.period = p]
    /\ pchg' = [pchg EXCEPT !.p = TRUE]
    /\ out' = "ok" /\ pen' = {} /\ ret' = <<>>
    /\ UNCHANGED <<h, q, nser, tssAct, ownAct, cool, count, sig, att, tok, exps, pend, mapped, nSucc, nFail, tr, trSig, usedBy>>

\* Environment: governance changes max_signing_attempt.  Nothing stored changes; the rule "attempt + 1 > maximum =>
\* the signing falls" reads the value current at the time-out, so a signing whose attempt counter is already at or
\* beyond a lowered maximum falls at its next time-out.
SetMaxAtt(m) ==
    /\ m # params.maxAtt
    /\ params' = [params EXCEPT !.maxAtt = m]
    /\ pchg' = [pchg EXCEPT !.a = TRUE]
    /\ out' = "ok" /\ pen' = {} /\ ret' = <<>>
    /\ UNCHANGED <<h, q, nser, tssAct, ownAct, cool, count, sig, att, tok, exps, pend, mapped, nSucc, nFail, tr, trSig, usedBy>>

\* Environment: governance changes max_de_size.  Queues longer than a lowered maximum stay as they are; every later
\* submission is judged against the value current at that time (queued + batch <= maximum).
SetMaxDE(m) ==
    /\ m # params.maxDE
    /\ params' = [params EXCEPT !.maxDE = m]
    /\ pchg' = [pchg EXCEPT !.d = TRUE]
    /\ out' = "ok" /\ pen' = {} /\ ret' = <<>>
    /\ UNCHANGED <<h, q, nser, tssAct, ownAct, cool, count, sig, att, tok, exps, pend, mapped, nSucc, nFail, tr, trSig, usedBy>>

Next ==
    \/ \E a \in Addr, k \in KSet : SubmitDEs(a, k)
    \/ \E a \in Addr : ResetDE(a)
    \/ \E S \in SUBSET Member, pr \in Prios : RequestOK(S, pr)
    \/ RequestRej
    \/ RequestRollback
    \/ \E m \in Addr, id \in Ids, valid \in BOOLEAN : SubmitSig(m, id, valid)
    \/ \E a \in Addr, g \in Grp : Activate(a, g)
    \/ Transition
    \/ \E n \in PreSet, k \in PostSet : EndBlock(n, k)
    \/ \E p \in PeriodSet : SetPeriod(p)
    \/ \E m \in MaxAttSet : SetMaxAtt(m)
    \/ \E m \in MaxDESet : SetMaxDE(m)

Spec == Init /\ [][Next]_vars /\ WF_vars(EndBlock(0, 0))

-----------------------------------------------------------------------------
(* Invariants *)

TypeOK ==
    /\ h \in Nat /\ count \in 0..MaxSig
    /\ \A a \in Addr : nser[a] \in 0..MaxSerial /\ Range(q[a]) \subseteq 1..nser[a]
    /\ \A id \in Ids : /\ sig[id].status \in {"NONE", "WAITING", "SUCCESS", "FALLEN"}
                       /\ att[id].signed \subseteq att[id].mem /\ att[id].mem \subseteq Member
                       /\ (sig[id].status = "NONE") <=> (id > count)
                       /\ (sig[id].status # "NONE") => sig[id].grp \in Grp
    /\ out \in {"init", "ok", "rej"}
    /\ tr \in {"none", "pending", "sign", "exec", "dropped"}

(* ---- C05 ---- *)
\* every nonce pair is assigned to at most one signing attempt, history-wide
NoReuse == \A t \in Token : Cardinality(usedBy[t]) <= 1
\* a pair still queued was never assigned; queues hold distinct pairs in registration order
QueueFresh == \A a \in Addr : \A i \in 1..Len(q[a]) :
                  /\ usedBy[<<a, q[a][i]>>] = {}
                  /\ \A j \in 1..Len(q[a]) : i < j => q[a][i] < q[a][j]
QueueBound == pchg.d \/ \A a \in Addr : Len(q[a]) <= params.maxDE
\* what an attempt announces is what the ghost recorded, and it is a real pair of that member
TokSound == \A id \in Ids : \A m \in DOMAIN tok[id].asg :
                /\ tok[id].asg[m] \in 1..nser[m]
                /\ <<id, tok[id].a>> \in usedBy[<<m, tok[id].asg[m]>>]
\* every signing that exists announced an assignment: no creation is left half-done
TokCount == \A id \in Ids : (id <= count) <=> (tok[id].a > 0)
\* the stored attempt record carries the announced assignment
TokAtt == \A id \in Ids : att[id].present => (tok[id].a = att[id].a /\ DOMAIN tok[id].asg = att[id].mem)
CommitteeSize == \A id \in Ids : att[id].present => Cardinality(att[id].mem) = T

InvC05 == NoReuse /\ QueueFresh /\ QueueBound /\ TokSound /\ TokCount /\ TokAtt /\ CommitteeSize

(* ---- C10 ---- *)
\* the FIFO holds exactly the stored attempt records, each the current attempt of its signing (this is
\* why reading the idle members of signing.CurrentAttempt equals reading those of the expiring attempt)
ExpsSound ==
    /\ \A i, j \in 1..Len(exps) : i # j => exps[i][1] # exps[j][1]
    /\ \A e \in Range(exps) : /\ att[e[1]].present /\ att[e[1]].a = e[2]
                              /\ sig[e[1]].attempt = e[2]
                              /\ sig[e[1]].status \in {"WAITING", "SUCCESS"}
    /\ \A id \in Ids : att[id].present => <<id, att[id].a>> \in Range(exps)
\* a WAITING signing has a live current attempt; a finished one keeps its record only until the expiry
\* of that attempt, a FALLEN one keeps nothing
Lifecycle ==
    \A id \in Ids :
        /\ sig[id].status = "WAITING" => att[id].present /\ att[id].a = sig[id].attempt
        /\ sig[id].status = "FALLEN" => ~att[id].present
        /\ sig[id].status = "SUCCESS" => (att[id].present => att[id].signed = att[id].mem)
        /\ sig[id].status # "NONE" => sig[id].attempt >= 1 /\ (pchg.a \/ sig[id].attempt <= params.maxAtt) /\ sig[id].created <= h
        /\ sig[id].status = "NONE" => ~att[id].present /\ sig[id].attempt = 0
PendSound ==
    /\ \A i, j \in 1..Len(pend) : i # j => pend[i] # pend[j]
    /\ \A id \in Ids : (id \in Range(pend)) <=>
                          (sig[id].status = "WAITING" /\ att[id].present /\ att[id].signed = att[id].mem)
\* the owner module is notified exactly once, at termination
CallbackOnce ==
    \A id \in Ids : /\ nSucc[id] = (IF sig[id].status = "SUCCESS" THEN 1 ELSE 0)
                    /\ nFail[id] = (IF sig[id].status = "FALLEN" THEN 1 ELSE 0)
                    /\ mapped[id] <=> (sig[id].status = "WAITING")
FlagsAgree == \A g \in Grp, m \in Member : tssAct[g][m] = ownAct[g][m] /\ (cool[g][m] > 0 => ~ownAct[g][m])
\* the group transition follows its hand-over signing
TransSound ==
    /\ tr \in {"none", "pending"} => trSig = 0 /\ \A id \in Ids : sig[id].grp # 2
    /\ tr = "sign" => trSig \in 1..count /\ sig[trSig].status = "WAITING" /\ sig[trSig].grp = 1
    /\ tr = "exec" => trSig \in 1..count /\ sig[trSig].status = "SUCCESS"
    /\ (tr = "dropped" /\ trSig # 0) => sig[trSig].status = "FALLEN"
    /\ tr # "exec" => \A m \in Member : ~tssAct[2][m] /\ ~ownAct[2][m]
    /\ \A id \in Ids : sig[id].grp = 2 => tr = "exec"

InvC10 == ExpsSound /\ Lifecycle /\ PendSound /\ CallbackOnce /\ FlagsAgree /\ TransSound

\* while signing_period is unchanged: no stored attempt is overdue at the start of a block (it was
\* consumed at the end of block expH exactly), and the FIFO is sorted by expiry
OnTime == pchg.p \/
    /\ \A id \in Ids : att[id].present => att[id].expH >= h /\ att[id].expH <= h + params.period
    /\ \A i, j \in 1..Len(exps) : i < j => att[exps[i][1]].expH <= att[exps[j][1]].expH
    /\ \A id \in Ids : sig[id].status = "WAITING" =>
            att[id].expH = sig[id].created + sig[id].attempt * params.period
\* bounded termination (safety form of the liveness property)
BoundedTermination == pchg.p \/ pchg.a \/
    \A id \in Ids : sig[id].status = "WAITING" => h <= sig[id].created + params.maxAtt * params.period

Inv == TypeOK /\ InvC05 /\ InvC10

-----------------------------------------------------------------------------
(* Action properties: XxxA is the action-level formula, Xxx the temporal property *)

EndStep == h' = h + 1
Changed(id) == tok'[id] # tok[id]
NewToks(m) == {tok'[id].asg[m] : id \in {i \in Ids : Changed(i) /\ m \in DOMAIN tok'[i].asg}}
NewCnt(m) == Cardinality({i \in Ids : Changed(i) /\ m \in DOMAIN tok'[i].asg})
\* the entry of ret' that announced the new assignment of id
RetOf(id) == CHOOSE i \in 1..Len(ret') : ret'[i].id = id

(* ---- C05 ---- *)
\* an assignment takes the head pair(s) of the member's queue and removes them in the same step
AssignFromHeadA ==
    \A m \in Addr : NewCnt(m) > 0 =>
        /\ NewCnt(m) <= Len(q[m])
        /\ Cardinality(NewToks(m)) = NewCnt(m)
        /\ NewToks(m) = {q[m][i] : i \in 1..NewCnt(m)}
        /\ q'[m] = SubSeq(q[m], NewCnt(m) + 1, Len(q[m]))
\* registration order: a newly assigned pair is younger than every pair of that member assigned before
FifoA == \A m \in Addr : \A s \in NewToks(m) : \A s2 \in 1..MaxSerial : usedBy[<<m, s2>>] # {} => s2 < s
\* queues change only by: append of fresh serials, reset, or removal of assigned heads
QueueStepA ==
    \A a \in Addr : q'[a] # q[a] =>
        \/ /\ nser'[a] > nser[a]
           /\ q'[a] = q[a] \o [i \in 1..(nser'[a] - nser[a]) |-> nser[a] + i]
           /\ Len(q'[a]) <= params.maxDE
        \/ q'[a] = <<>> /\ NewCnt(a) = 0 /\ out' = "ok" /\ ~EndStep
        \/ NewCnt(a) > 0
\* committee members are tss-active in the signing's group when drawn (first attempts of the oracle /
\* hand-over phase: before the end-block's expiry phase; retries and tunnel packets: after it) and had a pair
EligibleA == \A id \in Ids : Changed(id) =>
                /\ \E i \in 1..Len(ret') : ret'[i].id = id
                /\ LET r == ret'[RetOf(id)] IN
                   \A m \in DOMAIN tok'[id].asg : /\ m \in Member /\ q[m] # <<>>
                                                   /\ (IF r.a = 1 /\ ~r.post THEN tssAct[r.g][m] ELSE tssAct'[r.g][m])
\* a rejected step (incl. a rolled-back creation) changes nothing
RejectedA == out' = "rej" => UNCHANGED <<core, usedBy, pchg>>
\* the ghost grows exactly by the announced assignments
GhostA == \A t \in Token : usedBy'[t] = usedBy[t] \cup
              {<<id, tok'[id].a>> : id \in {i \in Ids : Changed(i) /\ t[1] \in DOMAIN tok'[i].asg /\ tok'[i].asg[t[1]] = t[2]}}
\* signings come into existence only together with an announced first assignment
CreationA == count' = count + Cardinality({id \in Ids : tok[id].a = 0 /\ tok'[id].a = 1})

StepC05 == AssignFromHeadA /\ FifoA /\ QueueStepA /\ EligibleA /\ RejectedA /\ GhostA /\ CreationA

(* ---- C10 ---- *)
StatusA ==
    \A id \in Ids :
        /\ sig[id].status \in {"SUCCESS", "FALLEN"} => sig'[id] = sig[id]
        /\ sig[id].status = "NONE" => sig'[id].status \in {"NONE", "WAITING"}
        /\ (sig[id].status = "WAITING" /\ sig'[id].status # "WAITING") => EndStep /\ sig'[id].status \in {"SUCCESS", "FALLEN"}
AttemptA ==
    \A id \in Ids :
        /\ sig'[id].attempt >= sig[id].attempt /\ sig'[id].attempt <= sig[id].attempt + 1
        /\ (sig[id].status = "WAITING" /\ sig'[id].attempt # sig[id].attempt) => EndStep
        /\ sig[id].status # "NONE" => sig'[id].created = sig[id].created /\ sig'[id].grp = sig[id].grp
\* an attempt record disappears or is replaced only at the end of a block >= its expiry height
\* (never before the period has passed) ...
NoEarlyTimeoutA ==
    \A id \in Ids : (att[id].present /\ (~att'[id].present \/ att'[id].a # att[id].a)) =>
                        EndStep /\ att[id].expH <= h /\ (att'[id].present => att'[id].a = att[id].a + 1)
\* ... and (period unchanged) exactly then: at the end of block expH the record is consumed
ExactTimeoutA == pchg.p \/ pchg'.p \/
    \A id \in Ids : (EndStep /\ att[id].present /\ att[id].expH <= h) =>
                        (~att'[id].present \/ att'[id].a = att[id].a + 1)
\* a new attempt record: fresh, empty, expires one period later
NewAttemptA ==
    \A id \in Ids : (att'[id].present /\ (~att[id].present \/ att'[id].a # att[id].a)) =>
                        /\ att'[id].signed = {} /\ att'[id].expH = h + params.period
                        /\ att'[id].a = sig[id].attempt + 1 /\ sig'[id].attempt = att'[id].a
                        /\ sig'[id].status = "WAITING"
                        /\ Cardinality(att'[id].mem) = T
\* SUCCESS exactly when all assigned members of the current attempt have signed by the end of the block
SuccessA ==
    \A id \in Ids :
        /\ (sig[id].status = "WAITING" /\ sig'[id].status = "SUCCESS") => att[id].signed = att[id].mem
        /\ (EndStep /\ sig[id].status = "WAITING" /\ att[id].signed = att[id].mem) => sig'[id].status = "SUCCESS"
\* the stored attempt record of id is consumed by this step (its FIFO entry was processed)
Consumed(id) == att[id].present /\ (~att'[id].present \/ att'[id].a # att[id].a)
\* a time-out (entry consumed, not all signed) leads to a retry with the next attempt number or to FALLEN;
\* FALLEN only from a time-out; the attempt bound is respected
TimeoutA ==
    \A id \in Ids :
        /\ (sig[id].status = "WAITING" /\ Consumed(id) /\ att[id].signed # att[id].mem) =>
               \/ sig'[id].status = "FALLEN" /\ ~att'[id].present /\ sig'[id].attempt = sig[id].attempt
               \/ sig'[id].status = "WAITING" /\ att'[id].present /\ att'[id].a = sig[id].attempt + 1
                     /\ sig[id].attempt < params.maxAtt
        /\ (sig[id].status = "WAITING" /\ sig'[id].status = "FALLEN") =>
               Consumed(id) /\ att[id].expH <= h /\ att[id].signed # att[id].mem
        \* used-up attempts always end in FALLEN
        /\ (sig[id].status = "WAITING" /\ Consumed(id) /\ att[id].signed # att[id].mem
               /\ sig[id].attempt >= params.maxAtt) => sig'[id].status = "FALLEN"
        \* a consumed record whose members all signed belongs to a signing that is (now) SUCCESS
        /\ (Consumed(id) /\ att[id].signed = att[id].mem) => sig'[id].status = "SUCCESS" /\ ~att'[id].present
\* exactly the assigned members that did not sign an attempt timing out now are penalised (once), in the
\* group of the signing; the incoming group's flags come up when its hand-over message is signed
PenaltyA ==
    LET idleNow == {x \in Grp \X Member : \E id \in Ids : /\ Consumed(id) /\ att[id].signed # att[id].mem
                                                        /\ sig[id].grp = x[1]
                                                        /\ x[2] \in att[id].mem \ att[id].signed}
        joins == tr # "exec" /\ tr' = "exec"
    IN /\ pen' = {x \in idleNow : ownAct[x[1]][x[2]] \/ (joins /\ x[1] = 2)}
       /\ \A g \in Grp, m \in Member :
            /\ (ownAct[g][m] /\ ~ownAct'[g][m]) <=> (<<g, m>> \in pen' /\ ownAct[g][m])
            /\ (tssAct[g][m] /\ ~tssAct'[g][m]) <=> (<<g, m>> \in pen' /\ tssAct[g][m])
            /\ (~ownAct[g][m] /\ ownAct'[g][m]) =>
                   \/ (cool[g][m] = 0 /\ ~EndStep /\ tssAct'[g][m])
                   \/ (joins /\ g = 2 /\ EndStep)
\* signatures are recorded one at a time, only for assigned members, only while WAITING
SignedA ==
    \A id \in Ids : (att[id].present /\ att'[id].present /\ att'[id].a = att[id].a) =>
        /\ att[id].signed \subseteq att'[id].signed
        /\ Cardinality(att'[id].signed) <= Cardinality(att[id].signed) + 1
        /\ att'[id].signed # att[id].signed => sig[id].status = "WAITING" /\ ~EndStep
        /\ att'[id].mem = att[id].mem /\ att'[id].expH = att[id].expH
CallbackA ==
    \A id \in Ids : /\ nSucc'[id] = nSucc[id] + (IF sig[id].status = "WAITING" /\ sig'[id].status = "SUCCESS" THEN 1 ELSE 0)
                    /\ nFail'[id] = nFail[id] + (IF sig[id].status = "WAITING" /\ sig'[id].status = "FALLEN" THEN 1 ELSE 0)
\* the group transition moves only with its hand-over signing
TransitionA ==
    /\ (tr = "sign" /\ tr' = "exec") <=> (tr = "sign" /\ sig[trSig].status = "WAITING" /\ sig'[trSig].status = "SUCCESS")
    /\ (tr = "sign" /\ tr' = "dropped") <=> (tr = "sign" /\ sig[trSig].status = "WAITING" /\ sig'[trSig].status = "FALLEN")
    /\ (tr = "pending" /\ tr' # "pending") =>
            /\ EndStep
            /\ \/ tr' = "dropped" /\ trSig' = 0
               \/ tr' = "sign" /\ sig[trSig'].status = "NONE" /\ sig'[trSig'].status = "WAITING" /\ sig'[trSig'].grp = 1
    /\ tr \in {"exec", "dropped"} => tr' = tr
    /\ tr = "none" => tr' \in {"none", "pending"}
    /\ tr = "sign" => tr' \in {"sign", "exec", "dropped"}

StepC10 == StatusA /\ AttemptA /\ NoEarlyTimeoutA /\ NewAttemptA /\ SuccessA /\ TimeoutA /\ PenaltyA /\ SignedA /\ CallbackA /\ TransitionA

AssignFromHead == [][AssignFromHeadA]_vars
Fifo == [][FifoA]_vars
QueueStep == [][QueueStepA]_vars
Eligible == [][EligibleA]_vars
RejectedNoChange == [][RejectedA]_vars
GhostExact == [][GhostA]_vars
CreationExact == [][CreationA]_vars
Status == [][StatusA]_vars
Attempt == [][AttemptA]_vars
NoEarlyTimeout == [][NoEarlyTimeoutA]_vars
ExactTimeout == [][ExactTimeoutA]_vars
NewAttempt == [][NewAttemptA]_vars
Success == [][SuccessA]_vars
Timeout == [][TimeoutA]_vars
Penalty == [][PenaltyA]_vars
Signed == [][SignedA]_vars
Callback == [][CallbackA]_vars
TransitionStep == [][TransitionA]_vars

(***************************************************************************)
(* The DE part of a step, taken alone: given the assignments `rets` the    *)
(* step made (in order; each with its group and whether it was made before *)
(* the expiry phase - first attempts of requests, oracle results, the      *)
(* hand-over message - or after it - retries, tunnel packets) and the tss  *)
(* flags in force before / after that phase, the effect on queues,         *)
(* announced pairs, the ghost and the signing counter.  Every step of the  *)
(* specification satisfies it (DEPartOK) - this is what the C05 trace      *)
(* check uses when the life-cycle decisions (which signings are created,   *)
(* retried, and when) are assumed as observed.                             *)
(***************************************************************************)
RECURSIVE DEFold(_, _, _, _)
DEFold(rets, st, actPre, actPost) ==
    IF rets = <<>> THEN st
    ELSE LET r == Head(rets)
             S == r.S
             act == IF r.a = 1 /\ ~r.post THEN actPre[r.g] ELSE actPost[r.g]
         IN DEFold(Tail(rets),
                   [q    |-> [m \in Addr |-> IF m \in S THEN Tl(st.q[m]) ELSE st.q[m]],
                    tok  |-> [st.tok EXCEPT ![r.id] = [a |-> r.a, asg |-> [m \in S |-> Hd(st.q[m])]]],
                    used |-> [t \in Token |-> IF t[1] \in S /\ t[2] = Hd(st.q[t[1]]) THEN st.used[t] \cup {<<r.id, r.a>>} ELSE st.used[t]],
                    cnt  |-> IF r.a = 1 THEN st.cnt + 1 ELSE st.cnt,
                    ok   |-> /\ st.ok /\ r.g \in Grp /\ S \subseteq Avail(st.q, act) /\ Cardinality(S) = T
                             /\ (r.a = 1 => r.id = st.cnt + 1) /\ (r.a > 1 => r.id <= st.cnt)],
                   actPre, actPost)
DEPart(rets, actPre, actPost) ==
    LET f == DEFold(rets, [q |-> q, tok |-> tok, used |-> usedBy, cnt |-> count, ok |-> TRUE], actPre, actPost)
    IN f.ok /\ q' = f.q /\ tok' = f.tok /\ usedBy' = f.used /\ count' = f.cnt
DEPartA == (ret' # <<>> \/ EndStep) => DEPart(ret', tssAct, tssAct')
DEPartOK == [][DEPartA]_vars

(* Liveness: every signing terminates *)
Terminal(id) == sig[id].status \in {"SUCCESS", "FALLEN"}
EverySigningTerminates == \A id \in Ids : (sig[id].status = "WAITING") ~> Terminal(id)
=============================================================================
