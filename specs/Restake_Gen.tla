----------------------------- MODULE Restake_Gen -----------------------------
(***************************************************************************)
(* GEN role: TLC -simulate walks Restake's actions and records each step   *)
(* as an abstract script step (accounts and validators by index, vaults    *)
(* and denoms by name, amounts in model units).  Where C16 leaves an       *)
(* outcome open the walk follows what the code is expected to do, so that  *)
(* the real run stays close to the model's walk; rejected steps are kept   *)
(* only when they are near misses (the interesting side of a boundary).    *)
(* At depth Depth the script is appended to $GEN_OUT.                      *)
(***************************************************************************)
EXTENDS Restake, IOUtils, Json, SequencesExt

CONSTANTS Depth, GCoinAmts, GHugeAmts, FeedsVault
VARIABLES script, a0
gvars == <<vars, script, a0>>

Idx(x) == CHOOSE i \in 1..9 : \E p \in {"a", "v"} : ToString(x) = p \o ToString(i)
D(name) == CHOOSE d \in Denom : ToString(d) = name
CRec(c) == [d1 |-> c[D("d1")], d2 |-> c[D("d2")]]
\* small amounts of either denom; amounts around 2^63 only of the high-supply denom d2
GCoins == {[d \in Denom |-> IF d = dd THEN n ELSE 0] : dd \in Denom, n \in GCoinAmts}
            \cup {[d \in Denom |-> IF d = D("d2") THEN n ELSE 0] : n \in GHugeAmts}

GInit == Init /\ script = <<>> /\ a0 = allowed

AtEnd == Len(script) >= Depth - 2

DenomsOK(c) == \A d \in Denom : c[d] > 0 => d \in allowed

GNext ==
    \/ \E a \in Acct, c \in GCoins :
          /\ ~AtEnd
          /\ IF DenomsOK(c) THEN StakeOK(a, c) ELSE StakeRej(a, c)
          /\ script' = Append(script, [e |-> "Stake", a |-> Idx(a), c |-> CRec(c)])
    \/ \E a \in Acct, c \in GCoins :
          /\ ~AtEnd
          \* accepted, or refused although the coins are there (locked), or one coin too many
          /\ \/ UnstakeAllowed(a, c)
             \/ \A d \in Denom : c[d] <= stake[a][d] + 1
          /\ SumF(stake[a], Denom) > 0
          /\ Unstake(a, c)
          /\ script' = Append(script, [e |-> "Unstake", a |-> Idx(a), c |-> CRec(c)])
    \/ \E a \in Acct, v \in Val, n \in AmtSet :
          /\ ~AtEnd
          /\ IF Power(a) + n >= MaxActiveLock(a) THEN DelegateOK(a, v, n) ELSE DelegateRej(a, v, n)
          /\ script' = Append(script, [e |-> "Delegate", a |-> Idx(a), v |-> Idx(v), n |-> n])
    \/ \E a \in Acct, v \in Val, n \in AmtSet :
          /\ ~AtEnd
          /\ deleg[a][v] > 0 /\ n <= deleg[a][v] + 1
          /\ Undelegate(a, v, n)
          /\ script' = Append(script, [e |-> "Undelegate", a |-> Idx(a), v |-> Idx(v), n |-> n])
    \/ \E a \in Acct, v \in Val, w \in Val, n \in AmtSet :
          /\ ~AtEnd
          /\ deleg[a][v] > 0 /\ n <= deleg[a][v] /\ v # w
          \* the hook sees the intermediate state
          /\ IF Power(a) - n >= MaxActiveLock(a) THEN RedelegateOK(a, v, w, n) ELSE RedelegateRej(a, v, w, n)
          /\ script' = Append(script, [e |-> "Redelegate", a |-> Idx(a), v |-> Idx(v), w |-> Idx(w), n |-> n])
    \/ \E a \in Acct, k \in Vault \ {FeedsVault}, n \in LockSet :
          /\ ~AtEnd
          /\ n <= Power(a) + 1
          /\ SetLock(a, k, n)
          /\ script' = Append(script, [e |-> "SetLock", a |-> Idx(a), k |-> ToString(k), n |-> n])
    \/ \E a \in Acct, m \in LockSet :
          /\ ~AtEnd
          /\ m >= 0 /\ m <= Power(a) + 1 /\ m < 1000
          /\ IF LockAllowed(a, FeedsVault, m) THEN LockViaOK(a, FeedsVault, m) ELSE LockViaRej(a, FeedsVault)
          /\ script' = Append(script, [e |-> "Vote", a |-> Idx(a), shape |-> "ok",
                                       sv |-> IF m = 0 THEN <<>> ELSE <<[s |-> 1, p |-> m]>>])
    \/ \E k \in Vault :
          /\ ~AtEnd
          /\ vault[k] # "absent"
          /\ Deactivate(k)
          /\ script' = Append(script, [e |-> "Deactivate", k |-> ToString(k)])
    \/ \E DD \in SUBSET Denom :
          /\ ~AtEnd
          /\ DD # allowed
          /\ SetAllowed(DD)
          /\ script' = Append(script, [e |-> "SetAllowed", D |-> SetToSeq({ToString(d) : d \in DD})])
    \/ /\ UNCHANGED vars
       /\ script' = Append(script, [e |-> "EndBlock"])

GSpec == GInit /\ [][GNext /\ a0' = a0]_gvars

Emit ==
    TLCGet("level") = Depth =>
        Serialize(<<[c |-> [allowed |-> SetToSeq({ToString(d) : d \in a0}), maxFeeds |-> 3, step |-> 2, minI |-> 2, maxI |-> 7, upd |-> 2],
                     steps |-> script]>>,
                  IOEnv.GEN_OUT,
                  [format |-> "NDJSON", charset |-> "UTF-8", openOptions |-> <<"WRITE", "CREATE", "APPEND">>])
=============================================================================
