\* C06 system facet (quick): 3 validators with powers from {1,2} (at most one starts inactive), statuses AVAILABLE and UNSUPPORTED, two prices,
\* quorum 50 %, stale prices (dt = 2 > interval 1), jailed validators; two iteration orders of the power index
CONSTANTS
  Val = {v1, v2, v3}
  Stranger = {}
  Sig = {s1}
  GraceSet = {10}
  CoolSet = {1}
  DiscSet = {1}
  UpdSet = {100}
  QuorumSet = {50}
  PenaltySet = {1}
  DtSet = {1, 2}
  IntervalSet = {1}
  PowerSet = {1, 2}
  PriceSet = {1, 2}
  StatusSet = {"avail", "unsupp"}
  ToffSet = {0}
  MaxH = 4
  MaxN = 0
  AllOrders = FALSE
  PPowerSet = {1}
  PTsSet = {0}
  PPriceSet = {1}
INIT PriceInit
NEXT PriceNext
SYMMETRY Sym
VIEW View
CONSTRAINT Bound
INVARIANTS Inv NoEndBlockError
PROPERTIES MCPriceRule MCPriceOnlyAtEndBlock MCVPriceRule MCStatusStable MCDeactivationRule
CHECK_DEADLOCK FALSE
