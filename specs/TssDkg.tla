------------------------------- MODULE TssDkg -------------------------------
(***************************************************************************)
(* Distributed key generation of BandChain's x/tss (property C04).         *)
(*                                                                         *)
(* Algebra "in the exponent": the scalar field is Z_Q for a small prime Q  *)
(* and a group element is represented by its discrete logarithm, so a      *)
(* commitment a*G is the number a, point addition is addition mod Q and    *)
(* "the public image of s" is s itself.  Every identity the code relies on *)
(* (accumulated commitments, member keys as evaluations of the accumulated *)
(* polynomial, Lagrange interpolation of the group secret, the share check *)
(* behind a complaint) is an identity of Z_Q[x] and is checked as such.    *)
(*                                                                         *)
(* One action per entry point of the real code:                            *)
(*   SubmitR1  x/tss/keeper/msg_server.go SubmitDKGRound1                  *)
(*   SubmitR2  x/tss/keeper/msg_server.go SubmitDKGRound2                  *)
(*   Confirm   x/tss/keeper/msg_server.go Confirm                          *)
(*   Complain  x/tss/keeper/msg_server.go Complain -> ProcessComplaint     *)
(*   EndBlock  x/tss/abci.go EndBlocker: HandleProcessGroup for the pending*)
(*             group, then HandleExpiredGroups; then the next block begins *)
(* Inputs the code must refuse are actions too (out.ok = FALSE, state      *)
(* unchanged).  The group is created (keeper.CreateGroup) before the first *)
(* state.                                                                  *)
(***************************************************************************)
EXTENDS Integers, Sequences, FiniteSets, TLC

CONSTANTS
    MaxN,       \* member ids range over 1..MaxN; a behaviour has n <= MaxN members
    NSet, TSet, \* group sizes and thresholds tried (every pair with t <= n)
    Q,          \* prime modulus, Q > MaxN + 1
    Periods,    \* values of params.creation_period tried
    PolyMode    \* which polynomials a dealer may pick: "all" | "mixed" (dealer 1 all, others two) | "few" | "one"

Mem  == 1..MaxN
Zq   == 0..(Q - 1)
Nil  == -1                        \* "no key yet"
Final == {"ACTIVE", "FALLEN", "EXPIRED"}

VARIABLES
    n, t, period,   \* constants of the behaviour (chosen in Init / read from the Reset line)
    h, createdH,    \* height of the block in progress; height at which the group was created
    status,         \* "R1" | "R2" | "R3" | "ACTIVE" | "FALLEN" | "EXPIRED"
    poly,           \* i -> coefficients <<a_i0 .. a_i,t-1>> committed to in round 1 (<<>> = none); a commitment IS its coefficient
    acc,            \* accumulated commitments <<acc_0 .. acc_t-1>>
    groupPub,       \* group public key (Nil until round 1 completes)
    r1, r2,         \* i -> round-1 / round-2 info stored
    sh,             \* i -> j -> share that dealer i put on chain (encrypted) for j; Nil = none
    pub,            \* j -> member public key registered on chain (Nil until j's round-2 submission)
    conf, comp,     \* i -> confirm stored / complaints stored
    clog,           \* c -> sequence of [r, st] : the stored ComplaintsWithStatus of complainant c
    mal,            \* i -> marked malicious
    pend,           \* the group is in the pending-process list of this block
    interim,        \* DKG interim data (context, commits, round infos, confirms, complaints) still stored
    expDone,        \* the expiry cursor has passed the group
    out,            \* outcome of the last step: [ok, res]; res = per-complaint outcomes of an accepted Complain
    \* ---- ghosts ----
    deviant,        \* i -> i has left the protocol in a blameable or colluding way
    ndev,           \* number of deviating steps so far (bounded only by the MC/GEN roles)
    cb              \* [completed, failed, expired] : callbacks made to the owning module

obs    == <<n, t, period, h, createdH, status, acc, groupPub, r1, r2, pub, conf, comp, clog, mal, pend, interim, expDone>>
ghosts == <<poly, sh, deviant, ndev, cb>>
vars   == <<n, t, period, h, createdH, status, poly, acc, groupPub, r1, r2, sh, pub, conf, comp, clog, mal, pend,
            interim, expDone, out, deviant, ndev, cb>>

Members == 1..n

-----------------------------------------------------------------------------
(* arithmetic of Z_Q *)

RECURSIVE SumFn(_, _)
SumFn(f, S) == IF S = {} THEN 0 ELSE LET x == CHOOSE y \in S : TRUE IN f[x] + SumFn(f, S \ {x})
RECURSIVE ProdFn(_, _)
ProdFn(f, S) == IF S = {} THEN 1 ELSE LET x == CHOOSE y \in S : TRUE IN (f[x] * ProdFn(f, S \ {x})) % Q
InvQ(a) == CHOOSE x \in 1..(Q - 1) : (a * x) % Q = 1

\* sum of f[1..k] (member-indexed sums; much cheaper for TLC than folding over a set)
RECURSIVE SumTo(_, _)
SumTo(f, k) == IF k = 0 THEN 0 ELSE f[k] + SumTo(f, k - 1)

\* value at x of the polynomial with coefficient sequence p (p[1] is the constant term), Horner's rule as in
\* pkg/tss solveScalarPolynomial; <<>> is the zero polynomial
RECURSIVE Horner(_, _, _)
Horner(p, x, k) == IF k > Len(p) THEN 0 ELSE (p[k] + x * Horner(p, x, k + 1)) % Q
Eval(p, x) == Horner(p, x, 1)

\* Lagrange coefficient at 0 of point j within the set S (pkg/tss ComputeLagrangeCoefficient)
Lambda(j, S) == ProdFn([k \in S \ {j} |-> (k * InvQ((k - j) % Q)) % Q], S \ {j})

-----------------------------------------------------------------------------
(* derived quantities *)

Dealt(i)    == poly[i] # <<>>
SumA0       == SumTo([i \in Members |-> IF Dealt(i) THEN poly[i][1] ELSE 0], n) % Q     \* the group secret
TruePub(j)  == SumTo([i \in Members |-> Eval(poly[i], j)], n) % Q                        \* Sum_i f_i(j)
Share(i, j) == IF i = j THEN Eval(poly[i], i) ELSE sh[i][j]                                      \* what j holds from i
SumShares(j) == SumTo([i \in Members |-> Share(i, j)], n) % Q                            \* j's private key
ShareBad(r, c) == r \in Members /\ c \in Members /\ r # c /\ sh[r][c] # Nil /\ sh[r][c] # Eval(poly[r], c)
BadDealers(c) == {r \in Members : ShareBad(r, c)}
Count(f)    == Cardinality({i \in Members : f[i]})

PolyChoice(m) ==
    IF PolyMode = "all" THEN [1..t -> Zq]
    ELSE IF PolyMode = "mixed" THEN (IF m = 1 THEN [1..t -> Zq] ELSE {[k \in 1..t |-> (m + k) % Q], [k \in 1..t |-> (2 * m + 3 * k) % Q]})
    ELSE IF PolyMode = "few" THEN {[k \in 1..t |-> (m + k) % Q], [k \in 1..t |-> (2 * m + 3 * k) % Q], [k \in 1..t |-> 0]}
    ELSE {[k \in 1..t |-> (m + k) % Q]}

Deltas == {0, 1, Q - 1}                              \* 0 = the correct share, +1 / -1 = a corrupted one
ZeroD  == [j \in Mem |-> 0]

OkOut  == [ok |-> TRUE, res |-> <<>>]
RejOut == [ok |-> FALSE, res |-> <<>>]

Init ==
    /\ n \in NSet /\ t \in TSet /\ t <= n
    /\ period \in Periods
    /\ h = 2 /\ createdH = 2
    /\ status = "R1"
    /\ poly = [i \in Mem |-> <<>>]
    /\ acc = [k \in 1..t |-> 0]
    /\ groupPub = Nil
    /\ r1 = [i \in Mem |-> FALSE] /\ r2 = [i \in Mem |-> FALSE]
    /\ sh = [i \in Mem |-> [j \in Mem |-> Nil]]
    /\ pub = [i \in Mem |-> Nil]
    /\ conf = [i \in Mem |-> FALSE] /\ comp = [i \in Mem |-> FALSE]
    /\ clog = [i \in Mem |-> <<>>]
    /\ mal = [i \in Mem |-> FALSE]
    /\ pend = FALSE /\ interim = TRUE /\ expDone = FALSE
    /\ out = OkOut
    /\ deviant = [i \in Mem |-> FALSE] /\ ndev = 0
    /\ cb = [completed |-> 0, failed |-> 0, expired |-> 0]

Rejected ==
    /\ out' = RejOut
    /\ UNCHANGED <<n, t, period, h, createdH, status, poly, acc, groupPub, r1, r2, sh, pub, conf, comp, clog, mal,
                   pend, interim, expDone, deviant, ndev, cb>>

(***************************************************************************)
(* MsgSubmitDKGRound1.  Shapes: "ok" (what GenerateRound1Info makes),      *)
(* "wrongLen" (number of commitments # t), "badA0Sig", "badOneTimeSig",    *)
(* "a0OtherId"/"otOtherId"/"a0OtherCtx"/"otOtherCtx" (the A0 / one-time    *)
(* proof of possession made for another member id / another DKG context),  *)
(* "wrongMemberId" (sender is a member but claims another member's id),    *)
(* "nonMember".  A duplicate or out-of-round submission is shape "ok" in a *)
(* state that refuses it.                                                  *)
(***************************************************************************)
R1Shapes == {"ok", "wrongLen", "badA0Sig", "badOneTimeSig", "a0OtherId", "otOtherId", "a0OtherCtx", "otOtherCtx",
             "wrongMemberId", "nonMember"}

R1Acceptable(m, shape) == status = "R1" /\ m \in Members /\ shape = "ok" /\ ~r1[m]

SubmitR1(m, shape, p) ==
    IF R1Acceptable(m, shape)
    THEN /\ p \in PolyChoice(m)
         /\ poly' = [poly EXCEPT ![m] = p]
         /\ acc' = [k \in 1..t |-> (acc[k] + p[k]) % Q]                    \* AddCoefficientCommits
         /\ r1' = [r1 EXCEPT ![m] = TRUE]
         /\ pend' = (pend \/ Count(r1') = n)                               \* count == size -> AddPendingProcessGroup
         /\ out' = OkOut
         /\ UNCHANGED <<n, t, period, h, createdH, status, groupPub, r2, sh, pub, conf, comp, clog, mal, interim,
                        expDone, deviant, ndev, cb>>
    ELSE Rejected

(***************************************************************************)
(* MsgSubmitDKGRound2.  d[j] is added to the share f_m(j) before it is     *)
(* encrypted for j (0 = honest).  The chain cannot look inside; it derives *)
(* the sender's public key from the accumulated commitments.               *)
(***************************************************************************)
R2Shapes == {"ok", "wrongLen", "wrongMemberId", "nonMember"}

R2Acceptable(m, shape) == status = "R2" /\ m \in Members /\ shape = "ok" /\ ~r2[m]
DevD(m, d) == \E j \in Members \ {m} : d[j] # 0

SubmitR2(m, shape, d) ==
    IF R2Acceptable(m, shape)
    THEN /\ sh' = [sh EXCEPT ![m] = [j \in Mem |-> IF j \in Members \ {m} THEN (Eval(poly[m], j) + d[j]) % Q ELSE Nil]]
         /\ pub' = [pub EXCEPT ![m] = Eval(acc, m)]                        \* UpdateMemberPubKey
         /\ r2' = [r2 EXCEPT ![m] = TRUE]
         /\ pend' = (pend \/ Count(r2') = n)
         /\ deviant' = [deviant EXCEPT ![m] = @ \/ DevD(m, d)]
         /\ ndev' = ndev + (IF DevD(m, d) THEN 1 ELSE 0)
         /\ out' = OkOut
         /\ UNCHANGED <<n, t, period, h, createdH, status, poly, acc, groupPub, r1, conf, comp, clog, mal, interim,
                        expDone, cb>>
    ELSE Rejected

(***************************************************************************)
(* MsgConfirm.  Shape "ok": the own-public-key signature is made with the  *)
(* sum of the shares the member decrypted (the daemon's getOwnPrivKey; a   *)
(* member that skips the share check still has only that sum).  It         *)
(* verifies against the registered key iff the sum is its discrete log.    *)
(***************************************************************************)
ConfShapes == {"ok", "badSig", "wrongMemberId", "nonMember"}

ConfAcceptable(m, shape) ==
    /\ status = "R3" /\ m \in Members /\ shape = "ok" /\ ~conf[m] /\ ~comp[m]
    /\ SumShares(m) = pub[m]

Confirm(m, shape) ==
    IF ConfAcceptable(m, shape)
    THEN /\ conf' = [conf EXCEPT ![m] = TRUE]
         /\ pend' = (pend \/ Count(conf') + Count(comp) = n)
         /\ deviant' = [deviant EXCEPT ![m] = @ \/ BadDealers(m) # {}]     \* should have complained
         /\ ndev' = ndev + (IF BadDealers(m) # {} THEN 1 ELSE 0)
         /\ out' = OkOut
         /\ UNCHANGED <<n, t, period, h, createdH, status, poly, acc, groupPub, r1, r2, sh, pub, comp, clog, mal,
                        interim, expDone, cb>>
    ELSE Rejected

(***************************************************************************)
(* MsgComplain with complaints cs = << [r, kind], ... >> of complainant c. *)
(* kind "gen": the genuine output of SignComplaint for (c, r);             *)
(* "badKeySym": another valid point as symmetric key; "badSig": proof      *)
(* scalar altered.  A complaint succeeds iff the proof is genuine and the  *)
(* share r put on chain for c fails the commitment check.  Message shapes  *)
(* "malformed" (undecodable point), "selfComplaint", "wrongMemberId",      *)
(* "nonMember" are refused outright.                                       *)
(***************************************************************************)
\* ("foreign": a message whose first complaint names the sender and a later one names another member as complainant)
CompShapes == {"ok", "malformed", "selfComplaint", "wrongMemberId", "nonMember", "foreign"}
Kinds == {"gen", "badKeySym", "badSig"}

CompAcceptable(c, shape, cs) ==
    /\ status = "R3" /\ c \in Members /\ shape = "ok" /\ ~conf[c] /\ ~comp[c]
    /\ Len(cs) >= 1 /\ \A k \in 1..Len(cs) : cs[k].r # c

Genuine(c, x) == x.kind = "gen" /\ ShareBad(x.r, c)
ResOf(c, x) == IF Genuine(c, x) THEN "success" ELSE "failed"

Complain(c, shape, cs) ==
    IF CompAcceptable(c, shape, cs)
    THEN LET res == [k \in 1..Len(cs) |-> ResOf(c, cs[k])]
             dev == \E k \in 1..Len(cs) : ~Genuine(c, cs[k])
         IN /\ mal' = [x \in Mem |-> \/ mal[x]
                                     \/ \E k \in 1..Len(cs) : res[k] = "success" /\ cs[k].r = x   \* respondent
                                     \/ (x = c /\ \E k \in 1..Len(cs) : res[k] = "failed")]      \* complainant
            /\ clog' = [clog EXCEPT ![c] = [k \in 1..Len(cs) |-> [r |-> cs[k].r, st |-> res[k]]]]
            /\ comp' = [comp EXCEPT ![c] = TRUE]
            /\ pend' = (pend \/ Count(conf) + Count(comp') = n)
            /\ deviant' = [deviant EXCEPT ![c] = @ \/ dev]
            /\ ndev' = ndev + (IF dev THEN 1 ELSE 0)
            /\ out' = [ok |-> TRUE, res |-> res]
            /\ UNCHANGED <<n, t, period, h, createdH, status, poly, acc, groupPub, r1, r2, sh, pub, conf, interim,
                           expDone, cb>>
    ELSE Rejected

\* what the daemon does in round 3: complain about every bad share, else confirm
HonestList(c) == LET B == BadDealers(c)
                     RECURSIVE Sq(_)
                     Sq(S) == IF S = {} THEN <<>> ELSE LET x == CHOOSE y \in S : \A z \in S : y <= z
                                                       IN <<[r |-> x, kind |-> "gen"]>> \o Sq(S \ {x})
                 IN Sq(B)

(***************************************************************************)
(* End of block h (x/tss EndBlocker), then block h+1 begins.               *)
(***************************************************************************)
EndBlock ==
    LET anyMal == \E m \in Members : mal[m]
        st1 == IF ~pend THEN status
               ELSE IF status = "R1" THEN "R2"
               ELSE IF status = "R2" THEN "R3"
               ELSE IF status = "R3" THEN (IF anyMal THEN "FALLEN" ELSE "ACTIVE")
               ELSE status
        cb1 == IF pend /\ status = "R3"
               THEN (IF anyMal THEN [cb EXCEPT !.failed = @ + 1] ELSE [cb EXCEPT !.completed = @ + 1])
               ELSE cb
        due == ~expDone /\ createdH + period <= h
        expires == due /\ st1 \notin {"ACTIVE", "FALLEN"}
    IN
    /\ status' = IF expires THEN "EXPIRED" ELSE st1
    /\ groupPub' = IF pend /\ status = "R1" THEN acc[1] ELSE groupPub
    /\ cb' = IF expires THEN [cb1 EXCEPT !.expired = @ + 1] ELSE cb1
    /\ pend' = FALSE
    /\ expDone' = (expDone \/ due)
    /\ IF due
       THEN /\ r1' = [i \in Mem |-> FALSE] /\ r2' = [i \in Mem |-> FALSE]
            /\ conf' = [i \in Mem |-> FALSE] /\ comp' = [i \in Mem |-> FALSE]
            /\ clog' = [i \in Mem |-> <<>>]
            /\ acc' = [k \in 1..t |-> 0]
            /\ interim' = FALSE
       ELSE UNCHANGED <<r1, r2, conf, comp, clog, acc, interim>>
    /\ h' = h + 1
    /\ out' = OkOut
    /\ UNCHANGED <<n, t, period, createdH, poly, sh, pub, mal, deviant, ndev>>

-----------------------------------------------------------------------------
(* Next: every input shape at every moment.  Bounds on deviations are put  *)
(* on by the MC / GEN roles, not here.                                     *)

CompArgs(c) ==
    (IF BadDealers(c) # {} THEN {HonestList(c)} ELSE {})
    \cup {<<[r |-> r, kind |-> k]>> : r \in (1..(n + 1)) \ {c}, k \in Kinds}

\* Accepted inputs are enumerated one by one.  Every refused input - whatever its sender, shape and
\* remaining arguments - has the same single successor (Rejected), and in every state some input is
\* refused (a stranger's, say), so the refused inputs contribute exactly one disjunct.
Next ==
    \/ \E m \in Mem, shape \in R1Shapes : R1Acceptable(m, shape) /\ \E p \in PolyChoice(m) : SubmitR1(m, shape, p)
    \/ \E m \in Mem, shape \in R2Shapes :
          /\ R2Acceptable(m, shape)
          /\ \E d \in [Mem -> Deltas] : (\A j \in Mem : (j = m \/ j > n) => d[j] = 0) /\ SubmitR2(m, shape, d)
    \/ \E m \in Mem, shape \in ConfShapes : ConfAcceptable(m, shape) /\ Confirm(m, shape)
    \/ \E c \in Mem, shape \in CompShapes : \E cs \in CompArgs(c) : CompAcceptable(c, shape, cs) /\ Complain(c, shape, cs)
    \/ Rejected
    \/ EndBlock

Spec == Init /\ [][Next]_vars

-----------------------------------------------------------------------------
(* Invariants *)

TypeOK ==
    /\ n \in 1..MaxN /\ t \in 1..n /\ h \in Nat
    /\ status \in {"R1", "R2", "R3", "ACTIVE", "FALLEN", "EXPIRED"}
    /\ groupPub \in Zq \cup {Nil}
    /\ \A i \in Mem : pub[i] \in Zq \cup {Nil}
    /\ \A i \in Mem : i > n => ~r1[i] /\ ~r2[i] /\ ~conf[i] /\ ~comp[i] /\ ~mal[i] /\ pub[i] = Nil /\ ~Dealt(i)
    /\ out.ok \in BOOLEAN

\* the bookkeeping of round 1: accumulated commitment k = sum of the k-th commitments stored so far
AccSound == ~expDone => \A k \in 1..t : acc[k] = SumTo([i \in Members |-> IF Dealt(i) THEN poly[i][k] ELSE 0], n) % Q

\* rounds advance exactly when everybody has submitted
RoundShape ==
    /\ ~expDone => /\ \A i \in Members : r1[i] <=> Dealt(i)
                   /\ status = "R1" => (pend <=> Count(r1) = n)
                   /\ status = "R2" => Count(r1) = n /\ (pend <=> Count(r2) = n)
                   /\ status \in {"R3", "ACTIVE", "FALLEN"} => Count(r1) = n /\ Count(r2) = n
                   /\ status = "R3" => (pend <=> Count(conf) + Count(comp) = n)
                   /\ status \in {"ACTIVE", "FALLEN"} => Count(conf) + Count(comp) = n
                   /\ status \in {"R1", "R2"} => Count(conf) + Count(comp) = 0
                   /\ status = "R1" => Count(r2) = 0
    /\ status \in Final => ~pend
    /\ \A i \in Members : ~(conf[i] /\ comp[i])
    /\ \A i \in Members : (r2[i] => pub[i] # Nil) /\ (comp[i] <=> clog[i] # <<>>)
    /\ expDone <=> ~interim

\* the published keys are what the statement says they are
GroupPubSound ==
    /\ groupPub # Nil => groupPub = SumA0 /\ \A i \in Members : Dealt(i)
    /\ status \in {"R2", "R3", "ACTIVE", "FALLEN"} => groupPub # Nil
    /\ status = "R1" => groupPub = Nil
PubSound == \A j \in Members : pub[j] # Nil => pub[j] = TruePub(j) /\ \A i \in Members : Dealt(i)

\* any t members interpolate the group secret from their private keys
Lagrange ==
    \A S \in SUBSET Members : Cardinality(S) = t =>
        SumFn([j \in S |-> Lambda(j, S) * SumShares(j)], S) % Q = SumA0

ActiveConsistent ==
    status = "ACTIVE" =>
        /\ groupPub = SumA0
        /\ \A j \in Members : pub[j] # Nil /\ pub[j] = TruePub(j) /\ pub[j] = SumShares(j)
        /\ Lagrange
        /\ \A m \in Members : ~mal[m]
        /\ \A r, c \in Members : ShareBad(r, c) => deviant[c]      \* a bad share survives only if its victim plays along

\* complaints: the stored outcome is the right one, and it is what marked the members
ComplaintSound ==
    \A c \in Members : \A k \in 1..Len(clog[c]) :
        LET e == clog[c][k] IN
        /\ e.st = "success" => /\ ShareBad(e.r, c) /\ mal[e.r] /\ deviant[e.r]
        /\ e.st = "failed"  => /\ mal[c] /\ deviant[c]
MalExplained ==
    ~expDone => \A m \in Members : mal[m] =>
        \/ \E k \in 1..Len(clog[m]) : clog[m][k].st = "failed"
        \/ \E c \in Members : \E k \in 1..Len(clog[c]) : clog[c][k] = [r |-> m, st |-> "success"]

HonestNeverBlamed == \A m \in Members : ~deviant[m] => ~mal[m]

\* a cheated honest member never confirms, so the cheater cannot reach ACTIVE behind its back
HonestConfirmsOnlyGood == \A c \in Members : (conf[c] /\ ~deviant[c]) => BadDealers(c) = {}

Callbacks ==
    /\ cb.completed = (IF status = "ACTIVE" THEN 1 ELSE 0)
    /\ cb.failed = (IF status = "FALLEN" THEN 1 ELSE 0)
    /\ cb.expired = (IF status = "EXPIRED" THEN 1 ELSE 0)

ExpiryDone == h > createdH + period => expDone /\ status \in Final
ExpiryNotEarly == expDone => h > createdH + period

Inv == /\ TypeOK /\ AccSound /\ RoundShape /\ GroupPubSound /\ PubSound /\ ActiveConsistent /\ ComplaintSound
       /\ MalExplained /\ HonestNeverBlamed /\ HonestConfirmsOnlyGood /\ Callbacks /\ ExpiryDone /\ ExpiryNotEarly

(* Action properties: XxxA is the action-level formula, Xxx the temporal property *)
Rank(s) == IF s = "R1" THEN 1 ELSE IF s = "R2" THEN 2 ELSE IF s = "R3" THEN 3 ELSE 4
StatusMonotoneA ==
    /\ Rank(status') >= Rank(status)
    /\ status \in Final => status' = status
    /\ status' # status => h' = h + 1                                     \* only the end-blocker moves the group
    /\ (status' # status /\ status' \notin {"EXPIRED", "FALLEN"}) => Rank(status') = Rank(status) + 1
MalStickyA == \A m \in Mem : mal[m] => mal'[m]
NeverActiveAfterMalA == (\E m \in Mem : mal[m]) => status' # "ACTIVE"
KeysImmutableA ==
    /\ groupPub # Nil => groupPub' = groupPub
    /\ \A j \in Mem : pub[j] # Nil => pub'[j] = pub[j]
\* a member is marked only by a Complain step, and only as that step's stored outcomes say
MalOnlyByComplainA ==
    (\E m \in Mem : mal'[m] /\ ~mal[m]) =>
        \E c \in Mem : /\ ~comp[c] /\ comp'[c] /\ h' = h
                       /\ \A x \in Mem : (mal'[x] /\ ~mal[x]) =>
                            \/ (x = c /\ \E k \in 1..Len(clog'[c]) : clog'[c][k].st = "failed")
                            \/ \E k \in 1..Len(clog'[c]) : clog'[c][k] = [r |-> x, st |-> "success"]
\* a refused input changes nothing
RejectedNoEffectA == ~out'.ok => UNCHANGED <<obs, ghosts>>

StepProps == /\ StatusMonotoneA /\ MalStickyA /\ NeverActiveAfterMalA /\ KeysImmutableA /\ MalOnlyByComplainA
             /\ RejectedNoEffectA

StatusMonotone == [][StatusMonotoneA]_vars
MalSticky == [][MalStickyA]_vars
NeverActiveAfterMal == [][NeverActiveAfterMalA]_vars
KeysImmutable == [][KeysImmutableA]_vars
MalOnlyByComplain == [][MalOnlyByComplainA]_vars
RejectedNoEffect == [][RejectedNoEffectA]_vars

=============================================================================
