\* NOT part of bin/check: documents a lead.  Expected result: invariant LeadFreeSpends is VIOLATED
\* (price "empty", de "empty", report "big" are free and spend nothing).
CONSTANTS
  Val = {"v1"}
  Acct = {"m1", "g1", "x1"}
  ReqIds = {1}
  SigIds = {1}
  MaxRoom = 1
  PD = 10000
  Kinds = {"report", "price", "de"}
  Grantees = {"g1"}
  Members = {"m1"}
  MinpSet = {25}
  LocalpSet = {0}
  GasSet = {200000}
  FeeSet = {0}
  Stranger = "x1"
  DeliverSet = {}
  Poor = {}
  PoorBal = 0
  RichBal = 2000
  Depth2 = FALSE
  Pairs = FALSE
  GrantUsed <- GrantU_fee
SPECIFICATION Spec
VIEW View
INVARIANTS TypeOK LeadFreeSpends
CHECK_DEADLOCK FALSE
