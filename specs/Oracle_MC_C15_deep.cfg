\* C15 thorough facet
CONSTANTS
  Val = {v1, v2}
  Stranger = {x1}
  MaxReq = 2
  ExpSet = {1, 2}
  PenaltySet = {0, 2}
  DtSet = {0, 2}
  AskSet = {1, 2}
  MinSet = {1, 2}
  ShapeSet = {"exact"}
  MaxH = 6
INIT Init
NEXT Next
SYMMETRY Sym
VIEW View
CONSTRAINT Bound
INVARIANTS Inv
PROPERTIES ActivationRule DeactivationRule StatusStable ReporterSafe ResultImmutable
CHECK_DEADLOCK FALSE
