\* quick facet: two voters (symmetric), three signals, votes of up to two signals with powers 1..2 (+ specials),
\* total powers {1,3}, MaxCurrentFeeds 1..2, threshold 2, update every 2nd block
CONSTANTS
  Voter = {u1, u2}
  Signal = {1, 2, 3}
  PowSet = {1, 2}
  MaxLen = 2
  VoteSet <- MCVotes
  PowerSet = {1, 3}
  ParSet <- MCPars
  MaxFeedsSet = {1, 2}
  StepSet = {2}
  UpdSet = {2}
  MinI = 2
  MaxI = 7
  MaxH = 4
INIT Init
NEXT Next
SYMMETRY Sym
VIEW View
CONSTRAINT Bound
INVARIANTS Inv
PROPERTIES VoteBound VoteSize RejUnchanged FeedsOnlyAtUpdate FeedsFresh
CHECK_DEADLOCK FALSE
