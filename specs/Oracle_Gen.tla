----------------------------- MODULE Oracle_Gen -----------------------------
(***************************************************************************)
(* GEN role: TLC -simulate walks Oracle's Next and records each step as an *)
(* abstract, role-relative script step (participants are "k-th member of   *)
(* the committee of request id" etc., never concrete identities: the real  *)
(* sampler picks its own committee).  At depth Depth the script is         *)
(* appended to the file named by the environment variable GEN_OUT.         *)
(***************************************************************************)
EXTENDS Oracle, IOUtils, Json

CONSTANTS Depth, NVal
VARIABLES script, ia
gvars == <<vars, script, ia>>

Ord(v) == CHOOSE i \in 1..Cardinality(Addr) : ToString(v) = "v" \o ToString(i) \/ (v \in Stranger /\ i = Cardinality(Addr))
Rank(v, S) == Cardinality({u \in S : Ord(u) <= Ord(v)})

Who(v, id) ==
    IF v \in Stranger THEN [role |-> "stranger", k |-> 1, id |-> id]
    ELSE IF id \in Ids /\ v \in gvals[id] THEN [role |-> "chosen", k |-> Rank(v, gvals[id]), id |-> id]
    ELSE IF id \in Ids THEN [role |-> "other", k |-> Rank(v, Val \ gvals[id]), id |-> id]
    ELSE [role |-> "val", k |-> Ord(v), id |-> id]

GInit ==
    /\ script = <<>>
    /\ ia \in BOOLEAN
    /\ h = 2 /\ now = 100
    /\ params \in [exp : ExpSet, penalty : PenaltySet]
    /\ count = 0 /\ lastExpired = 0
    /\ req = [id \in Ids |-> NoReq]
    /\ rep = [id \in Ids |-> {}]
    /\ res = [id \in Ids |-> NoRes]
    /\ pending = <<>>
    /\ vstat = [a \in Addr |-> IF ia /\ a \in Val THEN [active |-> TRUE, since |-> 50] ELSE [active |-> FALSE, since |-> Never]]
    /\ resolveEv = [id \in Ids |-> 0]
    /\ out = "init"
    /\ gvals = [id \in Ids |-> {}]
    /\ minAt = [id \in Ids |-> 0]
    /\ resAt = [id \in Ids |-> 0]

\* keep the random walk on the interesting part of the input space (filter inside Next)
UsefulReport(v, id, shape) ==
    /\ id <= count + 1
    /\ \/ ReportAcceptable(v, id, shape)
       \/ (id <= count /\ v \in gvals[id] /\ shape \notin OKShapes /\ v \notin rep[id])   \* wrong shape from a legitimate reporter
       \/ (shape = "exact" /\ ~ReportAcceptable(v, id, shape))                        \* duplicate / outsider / late / unknown id

\* the last step is a plain EndBlock so that the final level has a single successor (TLC evaluates
\* the Emit invariant on every candidate successor, each would be written as a script)
Last == Len(script) >= Depth - 2

GNext ==
    \/ \E ask \in AskSet, min \in MinSet, ok \in BOOLEAN :
          /\ ~Last
          /\ \/ \E S \in SUBSET Eligible : RequestOK(ask, min, ok, S)
             \/ RequestRej(ask, min)
          /\ script' = Append(script, [e |-> "Request", ask |-> ask, min |-> min, ok |-> ok])
    \/ \E v \in Addr, id \in 1..(MaxReq + 1), shape \in Shapes :
          /\ ~Last
          /\ UsefulReport(v, id, shape)
          /\ Report(v, id, shape)
          /\ script' = Append(script, [e |-> "Report", id |-> id, shape |-> shape, who |-> Who(v, id)])
    \/ \E a \in Addr :
          /\ ~Last
          /\ Activate(a)
          /\ script' = Append(script, [e |-> "Activate",
                 who |-> IF a \in Stranger THEN [role |-> "stranger", k |-> 1] ELSE [role |-> "val", k |-> Ord(a)]])
    \/ \E dt \in DtSet :
          /\ Last => dt = 1
          /\ EndBlock(dt)
          /\ script' = Append(script, [e |-> "EndBlock", dt |-> dt])

GSpec == GInit /\ [][GNext /\ ia' = ia]_gvars

Emit ==
    TLCGet("level") = Depth =>
        Serialize(<<[c |-> [nval |-> NVal, exp |-> params.exp, penalty |-> params.penalty, initActive |-> ia],
                     steps |-> script]>>,
                  IOEnv.GEN_OUT,
                  [format |-> "NDJSON", charset |-> "UTF-8", openOptions |-> <<"WRITE", "CREATE", "APPEND">>])
=============================================================================
