\* GetRandomValidators: <= 3 eligible over 1..2, ask 1..4 (too few included), tries 1..2, every stream over 0..5
CONSTANTS
  SeedLen = 3
  Byte = {0, 1}
  Facet = "req"
  MaxN = 3
  WSet = {1, 2}
  MaxCnt = 4
  MaxTries = 2
  DSet = {0, 1, 2, 3, 4, 5}
  IdSet = {1}
INIT MCInit
NEXT MCNext
VIEW View
INVARIANTS Valid Deterministic Consumed OneSpec SomeSpec MaxSpec ShufSpec
PROPERTIES SeedRule
CHECK_DEADLOCK FALSE
