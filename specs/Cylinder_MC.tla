---------------------------- MODULE Cylinder_MC ----------------------------
(***************************************************************************)
(* MC role for Cylinder.tla: configuration chosen in the initial state;    *)
(* TLC explores every interleaving of the daemon's steps (signing worker,  *)
(* DE worker, crashes), the sender (land / give up, any batch size) and    *)
(* the chain as environment (requests, expiries with and without retry,    *)
(* reset), with failing queries and duplicated / late notifications.       *)
(***************************************************************************)
EXTENDS Cylinder

CONSTANTS MinSet, MaxDESet, GasSet,   \* configurations
          MaxQ,                       \* bound on the message queue
          QSet,                       \* query outcomes explored: subset of {"ok", "fail"}
          WithCrash, WithDup          \* facets

MCInit == Init0 /\ par \in [minDE : MinSet, maxDE : MaxDESet, gas : GasSet]

MCNext ==
    \/ \E sid \in Sigs, q \in QSet : HandleSigning(sid, q)
    \/ \E qde \in QSet, qmem \in QSet : Tick(qde, qmem)
    \/ \E dup \in (IF WithDup THEN BOOLEAN ELSE {FALSE}), qmem \in QSet : AssignEv(dup, qmem)
    \/ \E D \in (SUBSET evDE) \ {{}} : DeleteDE(D)
    \/ WithCrash /\ Crash
    \/ WithCrash /\ \E k \in 1..(2 * par.minDE) : CrashInUpdate(k)
    \/ \E n \in 1..Len(mq) : Land(n)
    \/ \E n \in 1..Len(mq) : GiveUp(n)
    \/ \E me \in BOOLEAN : CRequest(me)
    \/ \E sid \in Sigs, retry \in BOOLEAN, me \in BOOLEAN : CExpire(sid, retry, me)
    \/ CReset

MCSpec == MCInit /\ [][MCNext]_vars

Bound == Len(mq) <= MaxQ /\ nextTok <= MaxTok /\ pendN <= 3 /\ cnt <= 3

\* every accepted landing of a MsgSubmitDEs under a calm schedule: no refusal (DesAccepted restated on the step)
CalmLandOK == [][\A n \in 1..Len(mq) :
                   (Land(n) /\ calm /\ M2 <= par.maxDE /\ \A i \in 1..n : mq[i].k = "des") => out' = "ok"]_vars

\* liveness facet (d): where the code retries nothing is lost for good.  If interval steps with succeeding queries
\* keep happening (the ticker) a low queue is topped up again and again (failing steps in between change nothing);
\* if notifications / start-up replays with a succeeding query keep happening for an attempt that still waits for the
\* member's share and the sender keeps landing transactions, the share reaches the chain or the attempt ends.
Fair == /\ WF_vars(Tick("ok", "ok"))
        /\ SF_vars(\E n \in 1..Len(mq) : Land(n))
        /\ \A sid \in Sigs : SF_vars(HandleSigning(sid, "ok") /\ mq' # mq)
LiveSpec == MCInit /\ [][MCNext]_vars /\ Fair
ToppedUp == []<>(Len(cq) + InflightDE >= M2 \/ nextTok + M2 > MaxTok)
Waiting(sid) == sg[sid].a > 0 /\ sg[sid].open /\ sg[sid].me /\ ~sg[sid].signed
ShareArrives == \A sid \in Sigs : Waiting(sid) ~> (~Waiting(sid) \/ sg[sid].de \notin priv)
=============================================================================
