\* bandtss facet: 3 possible members (every subset eligible / not, no current group), every pool 0..12 (thorough),
\* pct 0/50/100, tax 0, 1/2, 1; the members' new balances are enumerated blindly over 0..MaxAmt
CONSTANTS
  Val = {"v1"}
  Mem = {"m1", "m2", "m3"}
  Denom = {"u"}
  MaxAmt = 16
  Kinds = {"TssAlloc"}
  Pools = {0, 1, 2, 3, 4, 5, 6, 7, 8, 9, 10, 11, 12}
  NBooks = 2
  Pows = {0}
  PwVecs <- AllPw
  Props = {"v1"}
  Pcts = {0, 50, 100}
  Taxes = {0, 1, 2}
  ActSets <- AllAct
  MemFlagSets <- AllMemFlags
INIT Init
NEXT Next
INVARIANTS TypeOK NonNegative BankConsistent NoDust
PROPERTIES Conserved OnlyActivePaid RightBase EnvIsEnv
CHECK_DEADLOCK TRUE
