\* thorough facet "top-up": min-de 2 (target 4), MaxDESize 4 (tight) or 5, gas configured or not, 7 pairs
CONSTANTS
  NSig = 1
  MaxAtt = 2
  MaxTok = 7
  MinSet = {2}
  MaxDESet = {4, 5}
  GasSet = {FALSE, TRUE}
  MaxQ = 2
  QSet = {"ok", "fail"}
  WithCrash = TRUE
  WithDup = TRUE
SPECIFICATION MCSpec
CONSTRAINT Bound
INVARIANTS Inv
PROPERTIES PrivRule QueueRule CalmLandOK
CHECK_DEADLOCK FALSE
