\* quick facet "failures": one request (selecting this validator / another / absent), 1..2 raw requests, every
\* combination of transient (MaxTry-1 failing calls) and persistent RPC failures of GetRequest, GetDataSourceHash
\* and the Data query, cached or not, executor ok / non-zero / error; reports delivered at any time
CONSTANTS
  Req = {1}
  DS = {1, 2}
  MaxTry = 3
  SliceBug = FALSE
  TxSkip = "return"
  AssumeSnapshot = TRUE
  NSet = {1, 2}
  NSet2 = {1, 2}
  WantSet = {"me", "other", "absent"}
  FReqSet = {0, 2, 99}
  FHashSet = {0, 2, 99}
  FDataSet = {0, 2, 99}
  LenSet = {5}
  CachedSet = {TRUE, FALSE}
  DmgSet = {TRUE, FALSE}
  KindSet = {"ok", "nonZero", "error"}
  Modes = {"direct"}
  DeliverAnyTime = TRUE
SPECIFICATION MCSpec
VIEW View
INVARIANTS Inv ExactlyOnceAtEnd
PROPERTIES QueueAppendOnly DeliverOK
CHECK_DEADLOCK FALSE
