------------------------------ MODULE FeedsVote ------------------------------
(***************************************************************************)
(* Signal voting of x/feeds, property C07: a vote never exceeds the        *)
(* voter's total power and is locked under the restake vault "feeds"; the  *)
(* per-signal totals (and their by-power index) equal the sum of the       *)
(* standing votes; every update interval the current feeds are exactly the *)
(* highest-powered signals reaching the threshold, with the interval their *)
(* power determines.                                                       *)
(*                                                                         *)
(*   Vote      x/feeds/keeper/msg_server.go Vote (ValidateBasic of MsgVote,*)
(*             LockVoterPower -> restake.SetLockedPower, vote replaced,    *)
(*             per-signal diffs applied to totals and index)               *)
(*   EndBlock  x/feeds/abci.go EndBlocker: if height % interval = 0 the    *)
(*             current feeds are recomputed (keeper_feed.go, feed.go)      *)
(*   SetPower  environment: the voter's total power (delegations + allowed *)
(*             restaked coins) is an INPUT of this module (it changes only *)
(*             through the actions of Restake.tla, property C16)           *)
(*                                                                         *)
(* Powers are true integers.  Values near the int64 limit are represented  *)
(* by order-preserving stand-ins chosen by the driver (1000000 for 2^63-1, *)
(* 999999 for 2^63-2, 500000 for 2^62); the voters' real powers are far    *)
(* below, so "sum <= power" is the mathematical truth for the real values, *)
(* while the code adds int64 values.                                       *)
(***************************************************************************)
EXTENDS Integers, Sequences, FiniteSets, TLC

CONSTANTS
    Voter,     \* voting accounts
    Signal,    \* signal ids (integers: the index of equal-length ids "S1", "S2", ...)
    VoteSet,   \* votes tried in MC: sequences of [s, p]
    PowerSet,  \* total powers the environment may give a voter
    ParSet     \* parameter records [maxFeeds, step, minI, maxI, upd]

NoLock == -1

VARIABLES
    h,        \* height of the block in progress
    par,      \* [maxFeeds, step, minI, maxI, upd] (feeds params)
    power,    \* [Voter -> Nat] total power (input)
    vote,     \* [Voter -> [Signal -> Nat]] standing vote (0 = signal not voted)
    total,    \* [Signal -> Int] SignalTotalPower (0 = no record)
    idx,      \* set of [s, p]: the by-power index
    lock,     \* [Voter -> Int] restake lock under the vault "feeds" (NoLock = never voted)
    feeds,    \* set of [s, p, iv]: the current feeds
    lastUpd,  \* height of the last recomputation of the current feeds
    fpar,     \* (ghost) the parameters in force at that recomputation
    out       \* outcome of the last step

vars == <<h, par, power, vote, total, idx, lock, feeds, lastUpd, fpar, out>>

RECURSIVE SumF(_, _)
SumF(f, S) == IF S = {} THEN 0 ELSE LET x == CHOOSE y \in S : TRUE IN f[x] + SumF(f, S \ {x})
RECURSIVE SumSeq(_)
SumSeq(sv) == IF sv = <<>> THEN 0 ELSE Head(sv).p + SumSeq(Tail(sv))
Max2(a, b) == IF a >= b THEN a ELSE b
Min2(a, b) == IF a <= b THEN a ELSE b

NoVote == [s \in Signal |-> 0]

Init ==
    /\ h = 2
    /\ par \in ParSet
    /\ power \in [Voter -> PowerSet]
    /\ vote = [v \in Voter |-> NoVote]
    /\ total = NoVote
    /\ idx = {}
    /\ lock = [v \in Voter |-> NoLock]
    /\ feeds = {}
    /\ lastUpd = 0 /\ fpar = par
    /\ out = "init"

Rejected == out' = "rej" /\ UNCHANGED <<h, par, power, vote, total, idx, lock, feeds, lastUpd, fpar>>

(***************************************************************************)
(* MsgVote(v, sv): sv is the list of (signal, power) as sent; shape "ok"   *)
(* or the name of a malformed signal id (empty / too long).                *)
(* Accepted iff well-formed (ids distinct, every power positive), at most  *)
(* MaxCurrentFeeds signals, and the TRUE sum of the powers is within the   *)
(* voter's total power.                                                    *)
(***************************************************************************)
WellFormed(sv, shape) ==
    /\ shape = "ok"
    /\ \A i \in 1..Len(sv) : sv[i].s \in Signal /\ sv[i].p >= 1
    /\ \A i, j \in 1..Len(sv) : i # j => sv[i].s # sv[j].s

Acceptable(v, sv, shape) ==
    /\ WellFormed(sv, shape)
    /\ Len(sv) <= par.maxFeeds
    /\ SumSeq(sv) <= power[v]

AsVote(sv) == [s \in Signal |-> IF \E i \in 1..Len(sv) : sv[i].s = s
                                THEN (LET i == CHOOSE j \in 1..Len(sv) : sv[j].s = s IN sv[i].p) ELSE 0]

Vote(v, sv, shape) ==
    IF Acceptable(v, sv, shape)
    THEN LET new == AsVote(sv)
             touched == {s \in Signal : vote[v][s] > 0 \/ new[s] > 0}
             tot2 == [s \in Signal |-> total[s] - vote[v][s] + new[s]]
         IN /\ lock' = [lock EXCEPT ![v] = SumSeq(sv)]
            /\ vote' = [vote EXCEPT ![v] = new]
            /\ total' = tot2
            \* SetSignalTotalPower: drop the old index entry, write the new one unless the total is 0
            /\ idx' = (idx \ {[s |-> s, p |-> total[s]] : s \in touched})
                         \cup {[s |-> s, p |-> tot2[s]] : s \in {x \in touched : tot2[x] # 0}}
            /\ out' = "ok"
            /\ UNCHANGED <<h, par, power, feeds, lastUpd, fpar>>
    ELSE Rejected

(***************************************************************************)
(* End of block h and header of block h+1.  On an update block the current *)
(* feeds are the (at most maxFeeds) highest totals that reach the step     *)
(* threshold; which of several equal totals is taken at the cut is not     *)
(* part of C07 (F is any admissible choice; the trace binds it).           *)
(***************************************************************************)
Eligible == {s \in Signal : total[s] >= par.step}
TopSel(F) ==
    /\ F \subseteq Eligible
    /\ Cardinality(F) = Min2(par.maxFeeds, Cardinality(Eligible))
    /\ \A s \in F, t \in Eligible \ F : total[s] >= total[t]
IntervalP(pp, p) == Max2(pp.maxI \div (p \div pp.step), pp.minI)
Interval(p) == IntervalP(par, p)
FeedOf(s) == [s |-> s, p |-> total[s], iv |-> Interval(total[s])]

IsUpdate == h % par.upd = 0

EndBlock(F) ==
    /\ IF IsUpdate
       THEN /\ TopSel(F)
            /\ feeds' = {FeedOf(s) : s \in F}
            /\ lastUpd' = h /\ fpar' = par
       ELSE /\ F = {}
            /\ UNCHANGED <<feeds, lastUpd, fpar>>
    /\ h' = h + 1
    /\ out' = "ok"
    /\ UNCHANGED <<par, power, vote, total, idx, lock>>

SetPower(v, p) ==
    /\ power' = [power EXCEPT ![v] = p]
    /\ out' = "ok"
    /\ UNCHANGED <<h, par, vote, total, idx, lock, feeds, lastUpd, fpar>>

\* environment: governance changes the feeds parameters (MsgUpdateParams).  Nothing stored changes: the current feeds
\* keep the intervals they were given until the next recomputation, which uses the parameters in force THEN for every
\* feed (also for a feed whose power did not change).
SetPar(p) ==
    /\ p # par
    /\ par' = p
    /\ out' = "ok"
    /\ UNCHANGED <<h, power, vote, total, idx, lock, feeds, lastUpd, fpar>>

Next ==
    \/ \E v \in Voter, sv \in VoteSet : Vote(v, sv, "ok")
    \/ \E v \in Voter : Vote(v, <<>>, "emptyId")
    \/ \E F \in SUBSET Signal : EndBlock(F)
    \/ \E v \in Voter, p \in PowerSet : SetPower(v, p)
    \/ \E p \in ParSet : SetPar(p)

Spec == Init /\ [][Next]_vars

-----------------------------------------------------------------------------
(* Invariants *)

SumVote(f) == SumF(f, Signal)

TypeOK ==
    /\ \A v \in Voter : \A s \in Signal : vote[v][s] >= 0
    /\ out \in {"init", "ok", "rej"}

\* each signal's total equals the sum of all standing votes for it
TotalsSound == \A s \in Signal : total[s] = SumF([v \in Voter |-> vote[v][s]], Voter)

\* the by-power index is the totals
IdxSound == idx = {[s |-> s, p |-> total[s]] : s \in {x \in Signal : total[x] # 0}}

\* the standing vote is locked under the feeds vault
LockSound == \A v \in Voter : IF lock[v] = NoLock THEN vote[v] = NoVote ELSE lock[v] = SumVote(vote[v])

\* the current feeds are well formed w.r.t. the parameters in force when they were computed
FeedsSound ==
    /\ Cardinality(feeds) <= fpar.maxFeeds
    /\ \A f \in feeds : f.s \in Signal /\ f.p >= fpar.step /\ f.iv = IntervalP(fpar, f.p) /\ f.iv >= fpar.minI
    /\ \A f, g \in feeds : f.s = g.s => f = g
    /\ lastUpd < h

Inv == TypeOK /\ TotalsSound /\ IdxSound /\ LockSound /\ FeedsSound

(* Action properties *)

\* when a vote is cast (the standing vote changes) its sum is within the voter's power
VoteBoundA == \A v \in Voter : vote'[v] # vote[v] => SumVote(vote'[v]) <= power[v] /\ power'[v] = power[v]

\* at most MaxCurrentFeeds signals per vote
VoteSizeA == \A v \in Voter : vote'[v] # vote[v] => Cardinality({s \in Signal : vote'[v][s] > 0}) <= par.maxFeeds

RejUnchangedA == out' = "rej" => UNCHANGED <<vote, total, idx, lock, feeds, lastUpd>>

\* the current feeds change only at the end of an update block, and then they are fresh
FeedsOnlyAtUpdateA == (feeds' # feeds \/ lastUpd' # lastUpd) => (h' = h + 1 /\ IsUpdate /\ lastUpd' = h)
FeedsFreshA == (h' = h + 1 /\ IsUpdate) =>
    /\ lastUpd' = h
    /\ {f.s : f \in feeds'} \subseteq Eligible
    /\ Cardinality(feeds') = Min2(par.maxFeeds, Cardinality(Eligible))
    /\ \A f \in feeds' : f = FeedOf(f.s)
    /\ \A f \in feeds', t \in Eligible \ {g.s : g \in feeds'} : f.p >= total[t]

VoteBound        == [][VoteBoundA]_vars
VoteSize         == [][VoteSizeA]_vars
RejUnchanged     == [][RejUnchangedA]_vars
FeedsOnlyAtUpdate == [][FeedsOnlyAtUpdateA]_vars
FeedsFresh       == [][FeedsFreshA]_vars
=============================================================================
