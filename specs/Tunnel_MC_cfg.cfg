\* reconfiguration (C08, thorough): one active TSS tunnel; UpdateSignalsAndInterval with valid / out-of-range /
\* empty arguments by creator and stranger (resets the latest prices and the interval), UpdateRoute, Activate /
\* Deactivate between blocks, prices, route states, triggers - free interleaving inside a block
CONSTANTS
  MaxTun = 1
  Sig = {"s1"}
  Acct = {a1, a2}
  Denom = {"ua", "ub"}
  FeeDenom = "ub"
  MinIv = 1
  MaxIv = 10
  MinDev = 50
  MaxDev = 3000
  ParamSet <- P_1_2_3_4
  KindSet = {"tss"}
  IvSet = {2, 3, 0}
  SigSets <- Sig_some
  DevSet <- Dev_two
  AmtSet <- Amt_zero
  FundSet = {}
  PriceSet <- Price_few
  ModeSet = {"ok", "noNonces"}
  DtSet = {1}
  InitBal = 3
  MaxNow = 104
  MaxSteps = 0
  NTun = 1
  InitFee = 21
INIT InitPacket
NEXT NextPktCfg
VIEW View
CONSTRAINT Bound
INVARIANTS Inv
PROPERTIES SeqStep PacketRule FeesOnlyWithPackets EndBlockFrame ActivationGate Deactivation
CHECK_DEADLOCK FALSE
