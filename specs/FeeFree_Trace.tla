--------------------------- MODULE FeeFree_Trace ---------------------------
(***************************************************************************)
(* Trace validation for FeeFree.tla (extension X02).  Every line of the    *)
(* ndjson file was recorded from the real ante chain of BandApp            *)
(* (harness/fam_feefree):                                                  *)
(*   Check  one signed tx through app.CheckTx on the node's check state;   *)
(*          a = the abstract tx (kinds, who, ids, nesting), fee, gas, the  *)
(*          signer's balance in the check state; o.cls = class of the      *)
(*          CheckTx code (acc / refFee / refOther); s = the message-level  *)
(*          state read from the CHECK state after the call;                *)
(*   Block  the admitted txs delivered in a real block; s = the committed  *)
(*          state after it.                                                *)
(* Two TLC steps per line, as in Oracle_Trace:                             *)
(*   Act  - an OWNED event (Check) must be enabled with the logged         *)
(*          arguments and produce the logged class;                        *)
(*   Sync - after a Check every CHECKED variable must still equal the      *)
(*          observation (the exemption decision, which runs real handlers  *)
(*          on a scratch context, must leave the node's state alone);      *)
(*          after a Block / Reset the observation is adopted (the effects  *)
(*          of delivered messages are the subject of the listed            *)
(*          properties' families).                                         *)
(***************************************************************************)
EXTENDS FeeFree, Json

CONSTANTS TraceFile, Checked, Owned
TraceLog == ndJsonDeserialize(TraceFile)

VARIABLES l, ph
tvars == <<vars, l, ph>>

ToSet(s) == {s[i] : i \in 1..Len(s)}
Line == TraceLog[l]

\* ---- the observed state, in the shape of the spec's variables ----
OGrants(st)  == {[granter |-> st.grants[i].granter, grantee |-> st.grants[i].grantee, k |-> st.grants[i].k] : i \in 1..Len(st.grants)}
OReq(st)     == [id \in ReqIds |-> IF id <= st.nreq /\ st.req[id].present
                                   THEN [present |-> TRUE, vals |-> ToSet(st.req[id].vals)] ELSE NoReq]
ORep(st)     == [id \in ReqIds |-> IF id <= st.nreq /\ st.req[id].present THEN ToSet(st.req[id].rep) ELSE {}]
OSgn(st)     == [s \in SigIds |-> IF s <= st.nsig
                                  THEN [waiting |-> st.sgn[s].waiting, assigned |-> ToSet(st.sgn[s].assigned), signed |-> ToSet(st.sgn[s].signed)]
                                  ELSE NoSgn]
ODkg(st)     == [round1 |-> st.dkg.round1, mem |-> ToSet(st.dkg.mem), done |-> ToSet(st.dkg.done)]
ORoom(st)    == [a \in Addr |-> st.room[a]]
OBal(st)     == [a \in Addr |-> st.bal[a]]

TraceInit ==
    /\ l = 1 /\ ph = "act"
    /\ minp = 0 /\ localp = 0
    /\ bonded = {} /\ active = {} /\ feedOn = FALSE /\ cool = {}
    /\ grants = {}
    /\ req = [id \in ReqIds |-> NoReq] /\ rep = [id \in ReqIds |-> {}]
    /\ members = {}
    /\ room = [a \in Addr |-> 0]
    /\ sgn = [s \in SigIds |-> NoSgn]
    /\ dkg = [round1 |-> FALSE, mem |-> {}, done |-> {}]
    /\ bal = [a \in Addr |-> 0]
    /\ out = "init" /\ last = NoTx

\* class of the CheckTx code as the spec names it
Coarse(o) == IF o \in {"free", "paid"} THEN "acc" ELSE o

TCheck ==
    LET a == Line.a IN
    /\ a.signer \in Addr
    /\ Check(a.signer, a.msgs, a.fee, a.gas, a.cb)
    /\ Coarse(out') = Line.o.cls

Act ==
    /\ ph = "act" /\ l <= Len(TraceLog)
    /\ ph' = "sync" /\ l' = l
    /\ IF Line.e \in Owned /\ Line.e = "Check" THEN TCheck
       ELSE UNCHANGED vars

\* after a Check: a checked variable must equal the observation (and the spec left it unchanged);
\* otherwise: adopt the observation
Bind(name, cur, nxt, obs) ==
    IF Line.e = "Check" /\ name \in Checked THEN cur = obs /\ nxt = cur ELSE nxt = obs

Sync ==
    /\ ph = "sync"
    /\ ph' = "act" /\ l' = l + 1
    /\ LET st == Line.s IN
        /\ st.nreq <= Cardinality(ReqIds) /\ st.nsig <= Cardinality(SigIds)
        /\ Bind("minp", minp, minp', st.minp)
        /\ Bind("localp", localp, localp', st.localp)
        /\ Bind("bonded", bonded, bonded', ToSet(st.bonded))
        /\ Bind("active", active, active', ToSet(st.active))
        /\ Bind("feedOn", feedOn, feedOn', st.feedOn)
        /\ Bind("cool", cool, cool', ToSet(st.cool))
        /\ Bind("grants", grants, grants', OGrants(st))
        /\ Bind("req", req, req', OReq(st))
        /\ Bind("rep", rep, rep', ORep(st))
        /\ Bind("members", members, members', ToSet(st.members))
        /\ Bind("room", room, room', ORoom(st))
        /\ Bind("sgn", sgn, sgn', OSgn(st))
        /\ Bind("dkg", dkg, dkg', ODkg(st))
        /\ Bind("bal", bal, bal', OBal(st))
    /\ UNCHANGED <<out, last>>

TraceNext == Act \/ Sync
TraceSpec == TraceInit /\ [][TraceNext]_tvars

TraceAccepted ==
    LET d == TLCGet("stats").diameter IN
    IF d - 1 = 2 * Len(TraceLog) THEN TRUE
    ELSE Print(<<"TRACE_REJECTED_AT_LINE", (d + 1) \div 2, "PHASE", IF d % 2 = 1 THEN "act" ELSE "sync", "OF", Len(TraceLog)>>, FALSE)

\* invariants are evaluated on the states between lines
AtLine == ph = "act" /\ l > 1
TInv == AtLine => TypeOK

\* the action properties of FeeFree, on the Act step of every Check line
TExempt == ph = "sync" \/ l > Len(TraceLog) \/ TraceLog[l].e # "Check"
TNoFreeRide           == [][TExempt \/ NoFreeRideA]_tvars
TEntitledNeverCharged == [][TExempt \/ EntitledNeverChargedA]_tvars
TEntitledAdmitted     == [][TExempt \/ EntitledAdmittedA]_tvars
TPaidRule             == [][TExempt \/ PaidRuleA]_tvars
TClassSplit           == [][TExempt \/ ClassSplitA]_tvars
TSignerRule           == [][TExempt \/ SignerRuleA]_tvars

\* short view of a violating state for the orchestrator's 40-line tail
TAlias == [l |-> l, ph |-> ph, out |-> out, last |-> last, line |-> IF l <= Len(TraceLog) THEN [e |-> TraceLog[l].e, a |-> TraceLog[l].a, o |-> TraceLog[l].o] ELSE [e |-> "end"]]
=============================================================================
