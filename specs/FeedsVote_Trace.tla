--------------------------- MODULE FeedsVote_Trace ---------------------------
(***************************************************************************)
(* Trace validation for FeedsVote.tla.  Every line of the ndjson file was  *)
(* recorded from the real x/feeds, x/restake and x/staking code            *)
(* (harness/fam_restake, -mode c07).  Same two-phase structure as          *)
(* Oracle_Trace.tla:                                                       *)
(*   Act  - an OWNED event (Vote, EndBlock) must be explained by the spec  *)
(*          action with the logged arguments and outcome; every other      *)
(*          event (staking / restake messages, allowed-denom changes) is a *)
(*          stutter;                                                       *)
(*   Sync - every CHECKED variable must equal the projection of the real   *)
(*          state; the voters' total power and the parameters are inputs   *)
(*          and adopt the observation.                                     *)
(***************************************************************************)
EXTENDS FeedsVote, Json

CONSTANTS TraceFile, Checked, Owned
TraceLog == ndJsonDeserialize(TraceFile)

VARIABLES l, ph
tvars == <<vars, l, ph>>

TNone == {}      \* VoteSet / PowerSet / ParSet are not used by the trace role

ToSet(s) == {s[i] : i \in 1..Len(s)}

Line == TraceLog[l]
Outcome == IF Line.o.ok THEN "ok" ELSE "rej"

OPar(st)   == [maxFeeds |-> st.par.maxFeeds, step |-> st.par.step, minI |-> st.par.minI, maxI |-> st.par.maxI, upd |-> st.par.upd]
OPower(st) == [v \in Voter |-> st.power[v]]
OVote(st)  == [v \in Voter |-> [s \in Signal |-> st.vote[v][s]]]
OTotal(st) == [s \in Signal |-> st.total[s]]
OIdx(st)   == {[s |-> st.idx[i].s, p |-> st.idx[i].p] : i \in 1..Len(st.idx)}
OLock(st)  == [v \in Voter |-> st.lock[v]["feeds"]]
OFeeds(st) == {[s |-> st.feeds[i].s, p |-> st.feeds[i].p, iv |-> st.feeds[i].iv] : i \in 1..Len(st.feeds)}

\* the index as GetSignalTotalPowersByPower iterates it: powers never increase, no signal twice
IdxOrdered(st) ==
    /\ \A i \in 1..(Len(st.idx) - 1) : st.idx[i].p >= st.idx[i + 1].p
    /\ Cardinality({st.idx[i].s : i \in 1..Len(st.idx)}) = Len(st.idx)

TraceInit ==
    /\ h = 2 /\ par = [maxFeeds |-> 0, step |-> 1, minI |-> 1, maxI |-> 1, upd |-> 1]
    /\ power = [v \in Voter |-> 0]
    /\ vote = [v \in Voter |-> NoVote] /\ total = NoVote /\ idx = {}
    /\ lock = [v \in Voter |-> NoLock] /\ feeds = {} /\ lastUpd = 0 /\ fpar = par /\ out = "init"
    /\ l = 1 /\ ph = "act"

ResetVars(st) ==
    /\ h' = st.h /\ par' = OPar(st) /\ power' = OPower(st)
    /\ vote' = OVote(st) /\ total' = OTotal(st) /\ idx' = OIdx(st)
    /\ lock' = OLock(st) /\ feeds' = OFeeds(st) /\ lastUpd' = st.lastUpd /\ fpar' = OPar(st)
    /\ out' = "init"

SV(a) == [i \in 1..Len(a.sv) |-> [s |-> a.sv[i].s, p |-> a.sv[i].p]]
TVote == Vote(Line.a.a, SV(Line.a), Line.a.shape) /\ out' = Outcome
\* the choice among equal totals at the cut is the code's: F is read from the observation
TEndBlock == Line.o.ok /\ EndBlock(IF IsUpdate THEN {Line.s.feeds[i].s : i \in 1..Len(Line.s.feeds)} ELSE {})

Act ==
    /\ ph = "act" /\ l <= Len(TraceLog)
    /\ ph' = "sync" /\ l' = l
    /\ IF Line.e = "Reset" THEN ResetVars(Line.s)
       ELSE IF Line.e \notin Owned THEN UNCHANGED vars
       ELSE CASE Line.e = "Vote"     -> TVote
              [] Line.e = "EndBlock" -> TEndBlock

Bind(name, cur, nxt, obs) == IF name \in Checked THEN cur = obs /\ nxt = cur ELSE nxt = obs

Sync ==
    /\ ph = "sync"
    /\ ph' = "act" /\ l' = l + 1
    /\ LET st == Line.s IN
        /\ h = st.h /\ UNCHANGED h                           \* the block clock is an input
        /\ par' = OPar(st) /\ power' = OPower(st)            \* inputs
        /\ Bind("vote", vote, vote', OVote(st))
        /\ ("vote" \in Checked) => st.voteExtra = 0          \* nothing stored beyond the signals of the model
        /\ Bind("total", total, total', OTotal(st))
        /\ Bind("idx", idx, idx', OIdx(st))
        /\ ("idx" \in Checked) => IdxOrdered(st)
        /\ Bind("lock", lock, lock', OLock(st))
        /\ Bind("feeds", feeds, feeds', OFeeds(st))
        /\ Bind("lastUpd", lastUpd, lastUpd', st.lastUpd)
        /\ UNCHANGED fpar
        \* "locked against withdrawal": the power itself is an input (it also moves for reasons that are no withdrawal:
        \* allowed denoms), but a withdrawal that was ACCEPTED never leaves the voter below the vote it has locked
        /\ ("locked" \in Checked /\ Line.e \in {"Undelegate", "Unstake"} /\ Line.o.ok /\ Line.a.a \in Voter) =>
               (lock[Line.a.a] = NoLock \/ OPower(st)[Line.a.a] >= lock[Line.a.a])
    /\ UNCHANGED out

TraceNext == Act \/ Sync
TraceSpec == TraceInit /\ [][TraceNext]_tvars

TraceAccepted ==
    LET d == TLCGet("stats").diameter IN
    IF d - 1 = 2 * Len(TraceLog) THEN TRUE
    ELSE Print(<<"TRACE_REJECTED_AT_LINE", (d + 1) \div 2, "PHASE", IF d % 2 = 1 THEN "act" ELSE "sync", "OF", Len(TraceLog)>>, FALSE)

AtLine == ph = "act"
TInv == AtLine => Inv

Exempt == ph = "sync" \/ (l <= Len(TraceLog) /\ TraceLog[l].e = "Reset")
TVoteBound         == [][Exempt \/ VoteBoundA]_tvars
TVoteSize          == [][Exempt \/ VoteSizeA]_tvars
TRejUnchanged      == [][Exempt \/ RejUnchangedA]_tvars
TFeedsOnlyAtUpdate == [][Exempt \/ FeedsOnlyAtUpdateA]_tvars
TFeedsFresh        == [][Exempt \/ FeedsFreshA]_tvars
=============================================================================
