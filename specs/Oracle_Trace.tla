---------------------------- MODULE Oracle_Trace ----------------------------
(***************************************************************************)
(* Trace validation for Oracle.tla.  Every line of the ndjson file was     *)
(* recorded from the real x/oracle code (harness/fam_oracle).              *)
(*                                                                         *)
(* Each line is consumed in two TLC steps:                                 *)
(*   Act  - if the event is OWNED by the property being checked, the spec  *)
(*          action it names must be enabled with the logged arguments and  *)
(*          produce the logged outcome; otherwise the spec stutters;       *)
(*   Sync - every CHECKED variable must now equal the projection of the    *)
(*          real state; every other variable adopts the observed value     *)
(*          (assume-guarantee: a property's check assumes what it does not *)
(*          own, so a defect outside the property does not alarm it).      *)
(* `Reset` lines start a new trace.                                        *)
(***************************************************************************)
EXTENDS Oracle, Json

CONSTANTS TraceFile, Checked, Owned
TraceLog == ndJsonDeserialize(TraceFile)

VARIABLES l, ph
tvars == <<vars, l, ph>>

ToSet(s) == {s[i] : i \in 1..Len(s)}

LStat(st, a) == IF a \in DOMAIN st.vstat THEN [active |-> st.vstat[a].active, since |-> st.vstat[a].since]
                ELSE [active |-> FALSE, since |-> Never]
LReq(st, id) == IF id <= st.count /\ st.req[id].present
                THEN [present |-> TRUE, vals |-> ToSet(st.req[id].vals), min |-> st.req[id].min,
                      rh |-> st.req[id].rh, rt |-> st.req[id].rt, ok |-> st.req[id].ok]
                ELSE NoReq
LRes(st, id) == IF id <= st.count /\ st.res[id].status # "NONE"
                THEN [status |-> st.res[id].status, ans |-> st.res[id].ans, ask |-> st.res[id].ask,
                      min |-> st.res[id].min, rt |-> st.res[id].rt, resT |-> st.res[id].resT]
                ELSE NoRes

Line == TraceLog[l]
Outcome == IF Line.o.ok THEN "ok" ELSE "rej"

TraceInit == Init /\ l = 1 /\ ph = "act"

ResetVars(st) ==
    /\ h' = st.h /\ now' = st.now
    /\ params' = [exp |-> st.exp, penalty |-> st.penalty]
    /\ st.count = 0
    /\ count' = 0 /\ lastExpired' = 0
    /\ req' = [id \in Ids |-> NoReq]
    /\ rep' = [id \in Ids |-> {}]
    /\ res' = [id \in Ids |-> NoRes]
    /\ pending' = <<>>
    /\ vstat' = [a \in Addr |-> LStat(st, a)]
    /\ resolveEv' = [id \in Ids |-> 0]
    /\ out' = "init"
    /\ gvals' = [id \in Ids |-> {}]
    /\ minAt' = [id \in Ids |-> 0]
    /\ resAt' = [id \in Ids |-> 0]

TRequest ==
    LET a == Line.a IN
        \/ /\ Line.o.ok
           /\ \E S \in SUBSET Eligible : RequestOK(a.ask, a.min, a.ok, S)
        \/ /\ ~Line.o.ok
           /\ RequestRej(a.ask, a.min)

TReport   == Line.a.v \in Addr /\ Report(Line.a.v, Line.a.id, Line.a.shape) /\ out' = Outcome
TActivate == Activate(Line.a.a) /\ out' = Outcome
TEndBlock == Line.o.ok /\ EndBlock(Line.a.dt)

Act ==
    /\ ph = "act" /\ l <= Len(TraceLog)
    /\ ph' = "sync" /\ l' = l
    /\ IF Line.e = "Reset" THEN ResetVars(Line.s)
       ELSE IF Line.e \notin Owned THEN UNCHANGED vars
       ELSE CASE Line.e = "Request"  -> TRequest
              [] Line.e = "Report"   -> TReport
              [] Line.e = "Activate" -> TActivate
              [] Line.e = "EndBlock" -> TEndBlock

\* checked variable: must equal the observation; unchecked: adopt the observation
Bind(name, cur, nxt, obs) == IF name \in Checked THEN cur = obs /\ nxt = cur ELSE nxt = obs

Sync ==
    /\ ph = "sync"
    /\ ph' = "act" /\ l' = l + 1
    /\ LET st == Line.s IN
        /\ st.count <= MaxReq
        /\ h = st.h /\ now = st.now /\ UNCHANGED <<h, now>>      \* the block clock is always an input
        /\ params' = [exp |-> st.exp, penalty |-> st.penalty]
        /\ Bind("count", count, count', st.count)
        /\ Bind("lastExpired", lastExpired, lastExpired', st.lastExpired)
        /\ Bind("req", req, req', [id \in Ids |-> LReq(st, id)])
        /\ Bind("rep", rep, rep', [id \in Ids |-> IF id <= st.count THEN ToSet(st.rep[id]) ELSE {}])
        /\ Bind("res", res, res', [id \in Ids |-> LRes(st, id)])
        /\ ("res" \in Checked) => \A id \in 1..st.count : st.res[id].status # "NONE" => st.res[id].mirror
        /\ Bind("resolveEv", resolveEv, resolveEv', [id \in Ids |-> IF id <= st.count THEN st.resolveEv[id] ELSE 0])
        /\ Bind("pending", pending, pending', st.pending)
        /\ Bind("vstat", vstat, vstat', [a \in Addr |-> LStat(st, a)])
    /\ UNCHANGED <<out, ghosts>>

TraceNext == Act \/ Sync
TraceSpec == TraceInit /\ [][TraceNext]_tvars

TraceAccepted ==
    LET d == TLCGet("stats").diameter IN
    IF d - 1 = 2 * Len(TraceLog) THEN TRUE
    ELSE Print(<<"TRACE_REJECTED_AT_LINE", (d + 1) \div 2, "PHASE", IF d % 2 = 1 THEN "act" ELSE "sync", "OF", Len(TraceLog)>>, FALSE)

\* the request bound of the trace spec must not be what stops a request
TraceBoundOK == count < MaxReq

\* invariants are evaluated on the states between lines (after Sync)
AtLine == ph = "act"
TInv == AtLine => Inv

\* the action properties of Oracle, on every Act step that is not a Reset
Exempt == ph = "sync" \/ (l <= Len(TraceLog) /\ TraceLog[l].e = "Reset")
TResultImmutable == [][Exempt \/ ResultImmutableA]_tvars
TResultOnlyAtEndBlock == [][Exempt \/ ResultOnlyAtEndBlockA]_tvars
TCursorMonotone == [][Exempt \/ CursorMonotoneA]_tvars
TReportOnce == [][Exempt \/ ReportOnceA]_tvars
TActivationRule == [][Exempt \/ ActivationRuleA]_tvars
TDeactivationRule == [][Exempt \/ DeactivationRuleA]_tvars
TStatusStable == [][Exempt \/ StatusStableA]_tvars
TReporterSafe == [][Exempt \/ ReporterSafeA]_tvars
=============================================================================
