------------------------------ MODULE Sampling ------------------------------
(***************************************************************************)
(* Committee sampling (property C09).                                      *)
(*                                                                         *)
(* The operators below are transcribed from the code, loop by loop:        *)
(*   pkg/bandrng/sampling.go    ChooseOne, ChooseSome, ChooseSomeMaxWeight *)
(*   x/oracle/keeper/owasm.go   GetRandomValidators                        *)
(*   x/tss/keeper/keeper_member.go  GetRandomMembers (partial Fisher-Yates)*)
(*   x/rollingseed/abci.go      BeginBlocker (seed shifted by one byte)    *)
(*                                                                         *)
(* The output stream of the HMAC_DRBG is an uninterpreted INPUT: `ds` is a *)
(* sequence of draws, consumed from the head, one per NextUint64() call.   *)
(* The binding "these are the draws the generator produces for (rolling    *)
(* seed, nonce, chain id)" is made by the driver's twin generator          *)
(* (harness/fam_sampling/drbg.go), not by this specification.              *)
(*                                                                         *)
(* NUMBERS.  A draw is a uint64 and weights go up to ~2^64; TLC integers   *)
(* are 32-bit.  A draw is therefore a sequence of 16-bit limbs, most       *)
(* significant first (MC uses one small limb), and `draw mod s` is         *)
(* computed by Horner's rule on half-limbs (bytes):                        *)
(*      r := (r * 256 + byte) mod s        stays below 2^31 for s <= 2^23. *)
(* Huge concrete weights are reached by SCALING: the driver hands the real *)
(* code the weights K * w[i] (K = 2^kexp) and logs the limbs of the        *)
(* shifted draw  q = d \div K  together with the unscaled w.  This decides *)
(* the same pick, for ANY integer K >= 1 (K a power of two only makes      *)
(* d \div K a shift):                                                      *)
(*   let S = Sum(w), d = K*q + r0 with 0 <= r0 < K and q = S*a + q' with   *)
(*   q' = q mod S.  Then d = (K*S)*a + (K*q' + r0) and                     *)
(*   0 <= K*q' + r0 < K*(S-1) + K = K*S, hence                             *)
(*          d mod (K*S) = K*(q mod S) + r0.                                *)
(*   The code returns the least i with  K*C[i] > d mod (K*S), C[i] the     *)
(*   i-th cumulative sum of w.  Since C[i] and q' are integers and         *)
(*   0 <= r0/K < 1:   K*C[i] > K*q' + r0  <=>  C[i] > q' + r0/K            *)
(*                                        <=>  C[i] >= q' + 1              *)
(*                                        <=>  C[i] > q' = (d \div K) mod S*)
(*   which is ChooseOne(w, limbs of d \div K) below.  Comparing candidate  *)
(*   weight sums (ChooseSomeMaxWeight) is homogeneous in K as well.        *)
(* Totals near 2^64 are reached with K = 2^48 and Sum(w) up to 65535.      *)
(***************************************************************************)
EXTENDS Integers, Sequences, FiniteSets, TLC

CONSTANTS
    SeedLen,    \* length of the rolling seed (32 in the code)
    Byte        \* values of a seed byte (0..255 in the code)

VARIABLES
    seed,   \* the rolling seed: a sequence of SeedLen bytes
    call,   \* the last call: [kind, w, cnt, tries, ds]  (w = weights, or member ids for "sign")
    res     \* its result:    [ok, sel]   sel = chosen positions (1-based) / member ids

vars == <<seed, call, res>>

-----------------------------------------------------------------------------
(* arithmetic on limbs *)

RECURSIVE ModFrom(_, _, _, _)
ModFrom(L, i, r, s) ==
    IF i > Len(L) THEN r
    ELSE LET r1 == (r * 256 + (L[i] \div 256)) % s
         IN ModFrom(L, i + 1, (r1 * 256 + (L[i] % 256)) % s, s)

\* value(L) mod s for 1 <= s <= 2^23; L = limbs, most significant first
ModLimbs(L, s) == ModFrom(L, 1, 0, s)

RECURSIVE SumSeq(_)
SumSeq(w) == IF w = <<>> THEN 0 ELSE Head(w) + SumSeq(Tail(w))

Range(s) == {s[i] : i \in 1..Len(s)}
RemoveAt(s, i) == SubSeq(s, 1, i - 1) \o SubSeq(s, i + 1, Len(s))
Positive(w) == {i \in 1..Len(w) : w[i] > 0}

-----------------------------------------------------------------------------
(* pkg/bandrng/sampling.go *)

\* the scanning loop of ChooseOne: first idx whose running sum exceeds the lucky number
\* (0 = "reaching the unreachable", a panic in the code)
RECURSIVE Scan(_, _, _, _)
Scan(w, i, cur, lucky) ==
    IF i > Len(w) THEN 0
    ELSE LET c == cur + w[i] IN IF c > lucky THEN i ELSE Scan(w, i + 1, c, lucky)

\* ChooseOne(rng, weights): one draw; requires SumSeq(w) > 0 (the code divides by the sum)
ChooseOne(w, d) == Scan(w, 1, 0, ModLimbs(d, SumSeq(w)))

\* ChooseSome: cnt rounds; the chosen entry is cut out of BOTH lists, the order of the rest is kept
RECURSIVE SomeLoop(_, _, _, _, _)
SomeLoop(aw, ai, k, ds, chosen) ==
    IF k = 0 THEN [sel |-> chosen, rest |-> ds]
    ELSE LET c == ChooseOne(aw, Head(ds))
         IN SomeLoop(RemoveAt(aw, c), RemoveAt(ai, c), k - 1, Tail(ds), Append(chosen, ai[c]))

ChooseSome(w, cnt, ds) == SomeLoop(w, [i \in 1..Len(w) |-> i], cnt, ds, <<>>)

RECURSIVE WeightOf(_, _)
WeightOf(w, sel) == IF sel = <<>> THEN 0 ELSE w[Head(sel)] + WeightOf(w, Tail(sel))

\* ChooseSomeMaxWeight: `tries` candidates; a later candidate replaces the best one only if STRICTLY heavier
RECURSIVE MaxLoop(_, _, _, _, _, _)
MaxLoop(w, cnt, k, ds, maxSum, maxRes) ==
    IF k = 0 THEN [sel |-> maxRes, rest |-> ds]
    ELSE LET c  == ChooseSome(w, cnt, ds)
             cs == WeightOf(w, c.sel)
         IN IF cs > maxSum THEN MaxLoop(w, cnt, k - 1, c.rest, cs, c.sel)
                           ELSE MaxLoop(w, cnt, k - 1, c.rest, maxSum, maxRes)

ChooseSomeMaxWeight(w, cnt, tries, ds) == MaxLoop(w, cnt, tries, ds, 0, <<>>)

-----------------------------------------------------------------------------
(* x/tss/keeper/keeper_member.go: GetRandomMembers *)

RECURSIVE Insert(_, _)
Insert(x, s) == IF s = <<>> THEN <<x>>
                ELSE IF x < Head(s) THEN <<x>> \o s ELSE <<Head(s)>> \o Insert(x, Tail(s))
RECURSIVE SortAsc(_)
SortAsc(s) == IF s = <<>> THEN <<>> ELSE Insert(Head(s), SortAsc(Tail(s)))

\* round i (0-based, as in the code): r = draw mod (n - i); take memberIdx[r]; overwrite slot r with the
\* entry at 0-based index n-i-1, i.e. 1-based position n-i
RECURSIVE ShufLoop(_, _, _, _, _, _)
ShufLoop(idx, n, i, t, ds, picked) ==
    IF i = t THEN [sel |-> picked, rest |-> ds]
    ELSE LET r == ModLimbs(Head(ds), n - i) + 1
         IN ShufLoop([idx EXCEPT ![r] = idx[n - i]], n, i + 1, t, Tail(ds), Append(picked, idx[r]))

\* avail = ids of the available members in store order; the selected members are sorted by id
Shuffle(avail, t, ds) ==
    LET n == Len(avail)
        p == ShufLoop([i \in 1..n |-> i], n, 0, t, ds, <<>>)
    IN [sel |-> SortAsc([k \in 1..t |-> avail[p.sel[k]]]), rest |-> p.rest]

-----------------------------------------------------------------------------
(* actions: one per entry point driven *)

NoCall == [kind |-> "none", w |-> <<>>, cnt |-> 0, tries |-> 0, ds |-> <<>>]
NoRes  == [ok |-> TRUE, sel |-> <<>>]
Rej    == [ok |-> FALSE, sel |-> <<>>]
Ok(s)  == [ok |-> TRUE, sel |-> s]

\* the bandrng functions have a precondition (they divide by the remaining total): enough positive weights
PurePre(w, cnt) == cnt >= 0 /\ Cardinality(Positive(w)) >= cnt /\ SumSeq(w) > 0

PureOne(w, ds) ==
    /\ PurePre(w, 1) /\ Len(ds) >= 1
    /\ call' = [kind |-> "one", w |-> w, cnt |-> 1, tries |-> 1, ds |-> ds]
    /\ res' = Ok(<<ChooseOne(w, ds[1])>>)
    /\ UNCHANGED seed

PureSome(w, cnt, ds) ==
    /\ PurePre(w, cnt) /\ Len(ds) >= cnt
    /\ call' = [kind |-> "some", w |-> w, cnt |-> cnt, tries |-> 1, ds |-> ds]
    /\ res' = Ok(ChooseSome(w, cnt, ds).sel)
    /\ UNCHANGED seed

PureMax(w, cnt, tries, ds) ==
    /\ PurePre(w, cnt) /\ tries >= 1 /\ Len(ds) >= cnt * tries
    /\ call' = [kind |-> "max", w |-> w, cnt |-> cnt, tries |-> tries, ds |-> ds]
    /\ res' = Ok(ChooseSomeMaxWeight(w, cnt, tries, ds).sel)
    /\ UNCHANGED seed

\* GetRandomValidators(size, id): w = tokens of the bonded, oracle-active validators in power-index order;
\* too few => error; otherwise ChooseSomeMaxWeight with SamplingTryCount tries
ReqCommittee(w, cnt, tries, ds) ==
    /\ cnt >= 1 /\ tries >= 1 /\ \A i \in 1..Len(w) : w[i] > 0
    /\ call' = [kind |-> "req", w |-> w, cnt |-> cnt, tries |-> tries, ds |-> ds]
    /\ IF Len(w) < cnt THEN res' = Rej
       ELSE Len(ds) >= cnt * tries /\ res' = Ok(ChooseSomeMaxWeight(w, cnt, tries, ds).sel)
    /\ UNCHANGED seed

\* GetRandomMembers: avail = ids of the members that are active and have a queued nonce, t = threshold
SignCommittee(avail, t, ds) ==
    /\ t >= 1
    /\ call' = [kind |-> "sign", w |-> avail, cnt |-> t, tries |-> 1, ds |-> ds]
    /\ IF t > Len(avail) THEN res' = Rej
       ELSE Len(ds) >= t /\ res' = Ok(Shuffle(avail, t, ds).sel)
    /\ UNCHANGED seed

\* x/rollingseed BeginBlocker: hb = first byte of the header hash, -1 = empty hash (nothing happens)
Block(hb) ==
    /\ IF hb = -1 THEN UNCHANGED seed ELSE hb \in Byte /\ seed' = Tail(seed) \o <<hb>>
    /\ call' = NoCall /\ res' = NoRes

-----------------------------------------------------------------------------
(* C09 on the last call *)

Distinct(s) == \A i, j \in 1..Len(s) : i # j => s[i] # s[j]
Sorted(s) == \A i \in 1..(Len(s) - 1) : s[i] < s[i + 1]
Weighted == call.kind \in {"one", "some", "max", "req"}

ExactSize == (res.ok /\ call.kind # "none") => Len(res.sel) = call.cnt
AllDistinct == Distinct(res.sel)
\* weighted kinds: a position of the eligible list with positive weight; signers: an available member
Eligible == /\ Weighted => \A k \in 1..Len(res.sel) : res.sel[k] \in Positive(call.w)
            /\ call.kind = "sign" => Range(res.sel) \subseteq Range(call.w) /\ Sorted(res.sel)
\* the keeper entry points fail exactly when there are too few eligible participants
ErrorIffTooFew == call.kind \in {"req", "sign"} => (res.ok <=> Len(call.w) >= call.cnt)
SeedShape == Len(seed) = SeedLen /\ \A i \in 1..SeedLen : seed[i] \in Byte

Valid == ExactSize /\ AllDistinct /\ Eligible /\ ErrorIffTooFew /\ SeedShape

\* the rolling-seed rule, stated on the step
SeedRuleA == \/ seed' = seed
             \/ /\ \A i \in 1..(SeedLen - 1) : seed'[i] = seed[i + 1]
                /\ call' = NoCall
SeedRule == [][SeedRuleA]_vars
=============================================================================
