\* GetRandomMembers: every available set of <= 5 of 7 members, threshold 1..5, every stream over 0..5
CONSTANTS
  SeedLen = 3
  Byte = {0, 1}
  Facet = "sign"
  MaxN = 5
  WSet = {1}
  MaxCnt = 5
  MaxTries = 1
  DSet = {0, 1, 2, 3, 4, 5}
  IdSet = {1, 2, 3, 4, 5, 6, 7}
INIT MCInit
NEXT MCNext
VIEW View
INVARIANTS Valid Deterministic Consumed OneSpec SomeSpec MaxSpec ShufSpec
PROPERTIES SeedRule
CHECK_DEADLOCK FALSE
