\* liveness facet (no symmetry, no state constraint): every accepted IBC request is answered, or its send failure recorded
CONSTANTS
  Val = {v1, v2}
  Stranger = {}
  MaxReq = 2
  Units = 1
  ExpSet = {2}
  PenaltySet = {2}
  DtSet = {1}
  AskSet = {1, 2}
  MinSet = {1}
  ShapeSet = {"exact"}
  Chan = {"c0"}
  Payer = {"p1"}
  Acct = {}
  Treas = {"t1", "t2", "t3"}
  MaxDs = 3
  MaxOs = 5
  BalSet = {7}
  LimitSet = {6}
  EncSet = {"none"}
  FormSet = {"good"}
  OsReqSet = {1, 2}
  ClientSet = {"k1"}
  TokSet = {}
  DsContSet = {}
  OsCodeSet = {}
  FeeSet = {}
  DsEditSet = {}
  OsEditSet = {}
  TreasTry = {}
  HowSet = {"closed"}
  FlipSet = {}
  StepSet = {}
  MaxH = 6
  MaxBreak = 1
SPECIFICATION ISpecBounded
PROPERTIES EveryIbcAnswered
CHECK_DEADLOCK FALSE
