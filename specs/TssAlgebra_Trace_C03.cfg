\* C03: acceptance of every submitted share, signing status, committee, stored shares, pending flag and the published
\* signature's validity (independent verifier) are all checked; nothing is assumed as observed except the block height
CONSTANTS
  Q = 41
  NSet = {1}
  TMin = 1
  TMax = 1
  PolyMode = "few"
  NonceD = {1}
  NonceE = {1}
  RhoSet = {1}
  CSet = {1}
  MaxAttempt = 2
  Period = 1
  MinHigh = 0
  SecrecyOn = FALSE
  TraceFile = "trace.ndjson"
  Checked = {"st", "att", "S", "pend", "signed", "sig", "asg"}
  Owned = {"Request", "Submit", "EndBlock", "Nonces", "Native"}
SPECIFICATION TraceSpec
INVARIANTS TInv
PROPERTIES TBadNeverStored TSuccessRule TCompleteSucceeds TSigImmutable TFinal TGroupFixed
POSTCONDITION TraceAccepted
CHECK_DEADLOCK FALSE
