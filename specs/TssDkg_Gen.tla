----------------------------- MODULE TssDkg_Gen -----------------------------
(***************************************************************************)
(* GEN role: TLC -simulate walks TssDkg's Next and records each step as an *)
(* abstract script step.  Participants are roles: "member i" (the i-th     *)
(* address given to CreateGroup), and ids above n / shape nonMember for a  *)
(* stranger.  At depth Depth the script is appended to $GEN_OUT.           *)
(***************************************************************************)
EXTENDS TssDkg, IOUtils, Json

CONSTANTS Depth, DevSet, MaxRej, MaxIdle
VARIABLES script, nrej, nidle, maxdev
gvars == <<vars, script, nrej, nidle, maxdev>>

GInit == Init /\ script = <<>> /\ nrej = 0 /\ nidle = 0 /\ maxdev \in DevSet

\* the last steps are plain EndBlocks so that the final level has a single successor
Last == Len(script) >= Depth - 2

DSeq(d) == [j \in 1..n |-> IF d[j] = Q - 1 THEN -1 ELSE d[j]]
Step(rec) == script' = Append(script, rec)

\* -simulate picks uniformly among the successors, so the menu is kept balanced: per message type
\* the well-formed message of every member (accepted, or refused as duplicate / out of round) plus ONE
\* malformed variant, whose sender and shape rotate with the position in the script; refused inputs
\* and idle block ends come out of small budgets; the number of deviations is drawn at the start.
Pos == Len(script)
Rot(seq) == seq[(Pos % Len(seq)) + 1]
Who == (Pos % (n + 1)) + 1                      \* 1..n+1 (n+1 = a stranger)
R1Bad == <<"wrongLen", "badA0Sig", "badOneTimeSig", "a0OtherId", "otOtherId", "a0OtherCtx", "otOtherCtx", "wrongMemberId", "nonMember">>
R2Bad == <<"wrongLen", "wrongMemberId", "nonMember">>
ConfBad == <<"badSig", "wrongMemberId", "nonMember">>
CompBad == <<"malformed", "selfComplaint", "wrongMemberId", "nonMember">>
Menu(m, shape, bad) == (shape = "ok" /\ m \in Members) \/ (shape = Rot(bad) /\ m = Who)

Budget == /\ out'.ok => nrej' = nrej
          /\ ~out'.ok => nrej < MaxRej /\ nrej' = nrej + 1 /\ Pos % 3 = 0      \* spread over the script
          /\ ndev' <= maxdev
          /\ UNCHANGED <<nidle, maxdev>>

OneNonZero(d) == Cardinality({j \in Mem : d[j] # 0}) <= 1

GNext ==
    \/ \E m \in 1..(n + 1), shape \in R1Shapes :
          /\ ~Last /\ Menu(m, shape, R1Bad)
          /\ IF R1Acceptable(m, shape) THEN \E p \in PolyChoice(m) : SubmitR1(m, shape, p) ELSE SubmitR1(m, shape, <<>>)
          /\ Budget
          /\ Step([e |-> "SubmitR1", m |-> m, shape |-> shape])
    \/ \E m \in 1..(n + 1), shape \in R2Shapes :
          /\ ~Last /\ Menu(m, shape, R2Bad)
          /\ \E d \in [Mem -> Deltas] :
                /\ \A j \in Mem : (j = m \/ j > n) => d[j] = 0
                /\ OneNonZero(d) \/ (maxdev >= 3 /\ n >= 3)
                /\ ~R2Acceptable(m, shape) => d = ZeroD
                /\ SubmitR2(m, shape, d)
                /\ Step([e |-> "SubmitR2", m |-> m, shape |-> shape, d |-> DSeq(d)])
          /\ Budget
    \/ \E m \in 1..(n + 1), shape \in ConfShapes :
          /\ ~Last /\ Menu(m, shape, ConfBad)
          /\ Confirm(m, shape)
          /\ Budget
          /\ Step([e |-> "Confirm", m |-> m, shape |-> shape])
    \/ \E c \in 1..(n + 1), shape \in CompShapes :
          /\ ~Last /\ Menu(c, shape, CompBad)
          /\ \E cs \in CompArgs(c) :
                /\ CompAcceptable(c, shape, cs) \/ cs = <<[r |-> (c % n) + 1, kind |-> "gen"]>>
                /\ Complain(c, shape, cs)
                /\ Step([e |-> "Complain", c |-> c, shape |-> shape, cs |-> cs])
          /\ Budget
    \/ \E m \in Members :                     \* the daemon's own round-3 step (driver runs the real daemon code)
          /\ ~Last /\ status = "R3" /\ ~conf[m] /\ ~comp[m]
          /\ IF BadDealers(m) = {} THEN Confirm(m, "ok") ELSE Complain(m, "ok", HonestList(m))
          /\ Budget
          /\ Step([e |-> "HonestR3", m |-> m])
    \/ /\ EndBlock
       /\ (pend \/ status \in Final \/ Last) => nidle' = nidle
       /\ ~(pend \/ status \in Final \/ Last) => nidle < MaxIdle /\ nidle' = nidle + 1
       /\ UNCHANGED <<nrej, maxdev>>
       /\ Step([e |-> "EndBlock"])

GSpec == GInit /\ [][GNext]_gvars

Emit ==
    TLCGet("level") = Depth =>
        Serialize(<<[c |-> [n |-> n, t |-> t, period |-> period], steps |-> script]>>,
                  IOEnv.GEN_OUT,
                  [format |-> "NDJSON", charset |-> "UTF-8", openOptions |-> <<"WRITE", "CREATE", "APPEND">>])
=============================================================================
