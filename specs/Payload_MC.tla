----------------------------- MODULE Payload_MC -----------------------------
(***************************************************************************)
(* MC role for Payload.tla.  Facets (one cfg each):                        *)
(*                                                                         *)
(*  Payload_MC.cfg        the request state machine: user requests of      *)
(*                        every kind (internal ones, over-long memo/text,  *)
(*                        unknown oracle result, empty / over-long signal  *)
(*                        lists are refused), module requests, time;       *)
(*                        Inv, DistinctBytes, MsgIffBytes, AppendOnly,     *)
(*                        RejectRule, tick uniqueness                      *)
(*  Payload_MC_orig.cfg   all pairs of originators over strings that       *)
(*                        include "", "a|b", "a|", "|b", "a"+NUL:          *)
(*                        the encoded originators differ                   *)
(*  Payload_MC_cont.cfg   all pairs of (content, time): bytes are equal    *)
(*                        exactly when tag, shape and field values are     *)
(*  Payload_MC_tick.cfg   limb comparison = integer comparison; the tick   *)
(*                        bracket on limbs determines the tick             *)
(*  Payload_MC_concat.cfg CONTROL, expected to FAIL (not in the pipeline): *)
(*                        a layout that hashes the concatenated strings    *)
(*  Payload_MC_nulsig.cfg documents a FINDING, expected to FAIL (not in    *)
(*                        the pipeline): signal ids with leading zero      *)
(*                        bytes collide under StringToBytes32              *)
(***************************************************************************)
EXTENDS Payload

CONSTANTS MaxNow, StrDom, SigDom

VARIABLES p1, p2
mvars == <<vars, p1, p2>>

E  == <<>>
A  == <<1>>
B  == <<2>>
AB == <<1, 3, 2>>      \* "a|b"
AP == <<1, 3>>         \* "a|"
PB == <<3, 2>>         \* "|b"
AZ == <<1, 0>>         \* "a" + NUL
ZA == <<0, 1>>         \* NUL + "a"
Strs6 == {E, A, AB, AP, PB, AZ}
Strs8 == Strs6 \cup {B, ZA}
SigsPlain == {A, B}
SigsNul == {A, B, ZA}

-----------------------------------------------------------------------------
(* a small tick model: PM(v) strictly increasing, two 16-bit limbs *)
NT == 4
PM(v) == 30000 * v + 7 * v * v            \* 30007, 60028, 90063, 120112
L2(n) == <<n \div 65536, n % 65536>>
W(p, v) == [pl |-> L2(p), loOk |-> v \in 1..NT, lo |-> L2(PM(IF v \in 1..NT THEN v ELSE 1)),
            hiInf |-> v >= NT, hi |-> L2(PM(IF v < NT THEN v + 1 ELSE NT))]
PDom == {0, 30007, 60027, 60028, 90062, 130000}
VDom == 0..NT
\* the definition with plain integers: the largest tick whose price does not exceed p
TickOf(p) == CHOOSE v \in 1..NT : PM(v) <= p /\ \A u \in 1..NT : PM(u) <= p => u <= v

EntryW(e) == [e EXCEPT !.w = W(e.p, e.v)]
GoodEntries(enc, sigs, ps) ==
    {EntryW(e) : e \in {x \in [sig : sigs, p : ps, v : (IF enc = "tick" THEN VDom ELSE ps), w : {0}] : ValOK(enc, EntryW(x))}}
Lists(S) == {<<>>} \cup {<<x>> : x \in S} \cup {<<x, y>> : x \in S, y \in S}

-----------------------------------------------------------------------------
(* domains *)
TextC(ms) == {[kind |-> "text", enc |-> "-", f |-> [msg |-> m]] : m \in ms}
TransC(ks, ts) == {[kind |-> "transition", enc |-> "-", f |-> [pk |-> k, execT |-> t]] : k \in ks, t \in ts}
OracleC(encs, rids, cls, cds, asks, mins, rts, rss, founds) ==
    {[kind |-> "oracle", enc |-> e,
      f |-> [rid |-> r, found |-> fd, mirror |-> TRUE, client |-> cl, osid |-> 1, calldata |-> cd, ask |-> a, min |-> m,
             ans |-> 1, reqT |-> 0, resT |-> rt, status |-> 1, result |-> rs]] :
        e \in encs, r \in rids, cl \in cls, cd \in cds, a \in asks, m \in mins, rt \in rts, rs \in rss, fd \in founds}
FeedsC(encs, lists) == UNION {{[kind |-> "feeds", enc |-> e, f |-> [ps |-> l]] : l \in lists[e]} : e \in encs}
TunnelC(encs, seqs, ats, lists) ==
    UNION {{[kind |-> "tunnel", enc |-> e, f |-> [seq |-> s, ps |-> l, at |-> a]] : l \in lists[e], s \in seqs, a \in ats} : e \in encs}

PEncs == {"fixed", "tick"}
PairLists == [e \in PEncs |-> Lists(GoodEntries(e, SigDom, {0, 60027}))]
ContDom ==
    TextC(StrDom) \cup TransC({A, AP, B, AB}, 0..2)
      \cup OracleC({"proto", "full", "partial"}, {1}, {E, AP}, {A, PB}, {1, 2}, {1, 2}, {0, 1}, {E, B}, {TRUE})
      \cup FeedsC(PEncs, PairLists) \cup TunnelC(PEncs, {1, 2}, {0, 1}, PairLists)

OrigDom == {Direct(c, r, m) : c \in StrDom, r \in StrDom, m \in StrDom}
             \cup {Tunnel(c, t, dc, da) : c \in StrDom, t \in 0..2, dc \in StrDom, da \in StrDom}

-----------------------------------------------------------------------------
(* pair facets *)
Dummy ==
    /\ chain = A /\ now = 0 /\ sigc = 0 /\ reqs = <<>> /\ out = "init"

InitOrig == Dummy /\ p1 \in OrigDom /\ p2 \in OrigDom
InitCont == Dummy /\ p1 \in ContDom \X {0, 1} /\ p2 \in ContDom \X {0, 1}
InitOne  == Dummy /\ p1 = 0 /\ p2 = 0
Stay == UNCHANGED mvars

\* two originators are encoded alike only if they are the same
OrigInj == (p1 \in OrigDom /\ p2 \in OrigDom) => (EncOrig(p1) = EncOrig(p2) <=> p1 = p2)
\* two contents (built at times p[2]) have the same bytes exactly if tag, shape and decoded field values agree
CKey(c, t) == <<TagOf(c), c.kind, Fields(c, t)>>
ContInj == (p1 \in ContDom \X {0, 1} /\ p2 \in ContDom \X {0, 1}) =>
              (EncContent(p1[1], p1[2]) = EncContent(p2[1], p2[2]) <=> CKey(p1[1], p1[2]) = CKey(p2[1], p2[2]))

\* limb arithmetic against plain integers, and the bracket determines the tick
LimbVals == {0, 1, 30007, 65535, 65536, 65537, 120112, 2147418112 + 65535}
LimbSanity ==
    /\ \A a, b \in LimbVals : (LimbLE(L2(a), L2(b)) <=> a <= b) /\ (LimbLT(L2(a), L2(b)) <=> a < b)
    /\ LimbLE(<<0, 0, 65535, 65535>>, <<0, 1, 0, 0>>) /\ ~LimbLT(<<1, 0, 0, 0>>, <<0, 65535, 65535, 65535>>)
    /\ LimbLT(<<65535, 65535, 65535, 65534>>, <<65535, 65535, 65535, 65535>>)
    /\ Coarse(<<0, 0, 0, FineFrom - 1>>) /\ ~Coarse(<<0, 0, 0, FineFrom>>) /\ ~Coarse(<<0, 1, 0, 0>>)
TickDet ==
    \A p \in 30007..30012 \cup 60020..60030 \cup 120100..120120, v \in VDom :
        LET e == [sig |-> A, p |-> p, v |-> v, w |-> W(p, v)] IN TickOK(e) <=> v = TickOf(p)
TickZero == \A v \in VDom : TickOK([sig |-> A, p |-> 0, v |-> v, w |-> W(0, v)]) <=> v = 0

-----------------------------------------------------------------------------
(* the request state machine *)
Senders == {A, B}
Memos == {E, AP, AB}                       \* MaxMemo = 2: AB is refused
SmLists == [e \in PEncs |-> {<<>>} \cup {<<x>> : x \in GoodEntries(e, {A}, {0, 60027})}
                                \cup {<<x, x>> : x \in GoodEntries(e, {A}, {60027})}]   \* MaxSigs = 1: two are refused
UserConts ==
    TextC({A, AB}) \cup TransC({A}, {1})          \* MaxText = 2: AB is refused; the transition kind is internal
      \cup OracleC({"full", "partial"}, {1}, {A}, {A}, {1}, {1}, {0}, {B}, {TRUE, FALSE})
      \cup FeedsC(PEncs, SmLists)
      \cup TunnelC({"tick"}, {1}, {0}, [e \in PEncs |-> {<<>>}])
ModConts(t) ==
    [oracle |-> OracleC({"proto"}, {1, 2}, {A}, {A}, {1}, {1}, {0}, {B}, {TRUE}),
     tunnel |-> TunnelC(PEncs, {1, 2}, {t}, [e \in PEncs |-> {<<x>> : x \in GoodEntries(e, {A}, {0, 60027})}]),
     transition |-> TransC({A}, {1, 2})]

InitSM ==
    /\ chain \in {A, E} /\ now = 0 /\ sigc = 0 /\ reqs = <<>> /\ out = "init"
    /\ p1 = 0 /\ p2 = 0

NextSM ==
    /\ UNCHANGED <<p1, p2>>
    /\ \/ \E s \in Senders \cup {E}, m \in Memos, c \in UserConts, k \in 1..2 : UserRequest(s, m, c, k)
       \/ \E s \in Senders, c \in ModConts(now).oracle, k \in 1..2 : ModuleRequest("oracle", Direct(chain, s, E), c, k)
       \/ \E c \in ModConts(now).tunnel, d \in {A, AP} : ModuleRequest("tunnel", Tunnel(chain, 1, d, B), c, 1)
       \/ \E c \in ModConts(now).transition : ModuleRequest("transition", Direct(chain, B, E), c, 1)
       \/ \E s \in Senders, c \in ModConts(now).oracle, tc \in ModConts(now).tunnel, dt \in {0, 1} :
             /\ now + dt <= MaxNow
             /\ EndBlock(NewReqs("oracle", Direct(chain, s, E), c, 1) \o NewReqs("tunnel", Tunnel(chain, 1, A, B), tc, 1), dt)
       \/ \E dt \in {0, 1} : now + dt <= MaxNow /\ (Tick(dt) \/ EndBlock(<<>>, dt))

\* abstract tuples are equal exactly when the signed bytes are
MsgIffBytes == \A i, j \in Ids : (Msg(reqs[i]) = Msg(reqs[j])) <=> (Bytes(reqs[i]) = Bytes(reqs[j]))
\* every tick-encoded price carries the tick of the integer definition
TickExact == \A i \in Ids : (reqs[i].c.kind \in {"feeds", "tunnel"} /\ reqs[i].c.enc = "tick") =>
                \A n \in 1..Len(reqs[i].c.f.ps) : LET e == reqs[i].c.f.ps[n] IN
                    IF e.p = 0 THEN e.v = 0 ELSE e.v = TickOf(e.p)
\* what users get refused, stated positively: a user request was accepted only with a valid originator and content
UserRule == \A i \in Ids : reqs[i].src = "user" =>
                /\ reqs[i].c \in UserConts /\ ~Internal(reqs[i].c.kind)
                /\ Len(reqs[i].o.memo) <= MaxMemo /\ reqs[i].o.req # E /\ ValidContent(reqs[i].c)

View == <<chain, now, sigc, reqs>>
=============================================================================
