\* facet "send" (quick): ONE IBC tunnel, active and funded for three packets, fresh port, no channel.  Handshake
\* (UNORDERED / ORDERED), counterparty answer, channel closed / capability lost, MsgUpdateRoute by
\* creator and stranger with "", the first and the second channel, price moves across the hard
\* threshold, triggers, blocks of 1 s and 2 s with interval 2 - free interleaving
CONSTANTS
  MaxTun = 1
  Sig = {"s1"}
  Acct = {a1, a2}
  Denom = {"ua", "ub"}
  FeeDenom = "ub"
  MinIv = 1
  MaxIv = 10
  MinDev = 50
  MaxDev = 3000
  SigSets <- Sig_all
  AmtSet <- Amt_zero
  ModeSet = {"ok"}
  InitBal = 3
  ParamSet <- P_1_2_3_4
  KindSet = {"ibc"}
  IvSet = {2}
  DevSet <- Dev_one
  FundSet = {}
  PriceSet <- Price_two
  DtSet = {1, 2}
  MaxCh = 2
  ChanArgs <- Ch_send
  RkSet = {"ibc"}
  OrdSet = {"UNORDERED", "ORDERED"}
  VerSet = {"tunnel-1"}
  HowSet = {"closed", "nocap"}
  MaxNow = 103
  NTun = 1
  InitFee = 9
  PreCh = 0
  MaxLog = 3
  MaxSteps = 0
INIT InitIbc
NEXT NextSend
VIEW IView
CONSTRAINT Bound
INVARIANTS IInv
PROPERTIES IbcSend IbcFee IbcRoute RouteRule CallbackInert ChanRule ISeqStep IPacketRule IFeesOnlyWithPackets IEndBlockFrame
CHECK_DEADLOCK FALSE
