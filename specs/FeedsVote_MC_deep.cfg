\* thorough facet: as the quick one with MaxCurrentFeeds 1..3, two update periods and one more block
\* (ties at the cut, threshold and interval formula over more totals)
CONSTANTS
  Voter = {u1, u2}
  Signal = {1, 2, 3}
  PowSet = {1, 2}
  MaxLen = 2
  VoteSet <- MCVotes
  PowerSet = {0, 1, 3}
  ParSet <- MCPars
  MaxFeedsSet = {1, 2, 3}
  StepSet = {2}
  UpdSet = {1, 2}
  MinI = 2
  MaxI = 7
  MaxH = 4
INIT Init
NEXT Next
SYMMETRY Sym
VIEW View
CONSTRAINT Bound
INVARIANTS Inv
PROPERTIES VoteBound VoteSize RejUnchanged FeedsOnlyAtUpdate FeedsFresh
CHECK_DEADLOCK FALSE
