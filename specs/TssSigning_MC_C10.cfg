\* C10 quick facet: same bounds as the C05 facet; life-cycle invariants, exact time-out, penalties, callbacks, clean-up, bounded termination
CONSTANTS
  Member = {m1, m2, m3}
  Stranger = {}
  TSet = {2}
  MaxSig = 2
  MaxSerial = 3
  MaxDESet = {2}
  MaxAttSet = {2}
  PeriodSet = {1}
  PenaltySet = {1}
  KSet = {1, 2}
  PreSet = {0}
  PostSet = {0}
  TransOn = FALSE
  MaxH = 4
INIT Init
NEXT NextMC
SYMMETRY Sym
VIEW View
CONSTRAINT Bound
INVARIANTS TypeOK InvC10 OnTime BoundedTermination
PROPERTIES Status Attempt NoEarlyTimeout ExactTimeout NewAttempt Success Timeout Penalty Signed Callback TransitionStep
CHECK_DEADLOCK FALSE
