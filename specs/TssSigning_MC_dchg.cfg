\* C05 facet: max_de_size changed by governance (1 <-> 2 <-> 3) while queues are filled: a queue longer than a lowered maximum
\* stays; every later submission is judged against the current value (queued + batch <= maximum)
CONSTANTS
  Member = {m1, m2, m3}
  Stranger = {}
  TSet = {2}
  MaxSig = 1
  MaxSerial = 3
  MaxDESet = {1, 2, 3}
  MaxAttSet = {2}
  PeriodSet = {1}
  PenaltySet = {1}
  KSet = {1, 2}
  PreSet = {0}
  PostSet = {0}
  TransOn = FALSE
  MaxH = 4
INIT Init
NEXT NextMC
SYMMETRY Sym
VIEW View
CONSTRAINT Bound
INVARIANTS TypeOK InvC05
PROPERTIES AssignFromHead Fifo QueueStep Eligible RejectedNoChange GhostExact CreationExact DEPartOK
CHECK_DEADLOCK FALSE
