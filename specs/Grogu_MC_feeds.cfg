\* live facet with feed-list changes: s1's interval moves between 20 and 30, s2 joins and leaves (only while nothing is in flight)
CONSTANTS
  Sig = {"s1", "s2"}
  Start = 50
  Offset = 30
  SlotChoices = {50, 79}
  Buffer = 1
  UOff = 3
  MaxT = 191
  MaxH = 0
  MaxSub = 0
  MaxMem = 0
  RelCap = 34
  GraceCap = 13
  ParSet <- ParSet20
  FeedInit <- FeedInitC
  FeedChanges <- FeedChangesC
  Quotes <- QuotesC
SPECIFICATION LiveSpec
VIEW View
INVARIANTS Inv Calm StatedImpliesExact
PROPERTIES Release
CHECK_DEADLOCK FALSE
