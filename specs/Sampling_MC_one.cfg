\* ChooseOne: every weight vector of <= 5 entries over 0..4 (zeros allowed, not all zero) x every draw 0..19 (all residues of every total)
CONSTANTS
  SeedLen = 3
  Byte = {0, 1}
  Facet = "one"
  MaxN = 5
  WSet = {0, 1, 2, 3, 4}
  MaxCnt = 1
  MaxTries = 1
  DSet = {0, 1, 2, 3, 4, 5, 6, 7, 8, 9, 10, 11, 12, 13, 14, 15, 16, 17, 18, 19}
  IdSet = {1}
INIT MCInit
NEXT MCNext
VIEW View
INVARIANTS Valid Deterministic Consumed OneSpec SomeSpec MaxSpec ShufSpec
PROPERTIES SeedRule
CHECK_DEADLOCK FALSE
