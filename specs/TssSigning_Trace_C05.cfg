\* C05: queues, announced nonce pairs, DE store and the ghost usedBy are checked; which signings exist, time out and
\* are retried (and the member flags) are assumed as observed
CONSTANTS
  Member = {"m1", "m2", "m3"}
  Stranger = {"x1"}
  TSet = {2}
  MaxSig = 16
  MaxSerial = 48
  MaxDESet = {2}
  MaxAttSet = {2}
  PeriodSet = {1}
  PenaltySet = {1}
  KSet = {1}
  PreSet = {0}
  PostSet = {0}
  TransOn = TRUE
  TraceFile = "trace.ndjson"
  Checked = {"q", "nser", "deN", "tok", "count"}
  Owned = {"SubmitDEs", "ResetDE", "Request", "RequestRollback", "EndBlock.assign"}
SPECIFICATION TraceSpec
INVARIANTS TInvC05 TraceBoundOK
PROPERTIES TAssignFromHead TFifo TQueueStep TEligible TRejectedNoChange TGhostExact TCreationExact
POSTCONDITION TraceAccepted
CHECK_DEADLOCK FALSE
