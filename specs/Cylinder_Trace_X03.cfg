\* X03: the daemon's local store, message queue and counters are checked after every step, every daemon step and every
\* landing is owned; the chain side (queue of public pairs, signings, assignments) is adopted as observed
CONSTANTS
  NSig = 10
  MaxAtt = 4
  MaxTok = 120
  TraceFile = "trace.ndjson"
  Checked = {"priv", "mq", "cnt", "nextTok"}
  Owned = {"HandleSigning", "Tick", "AssignEv", "DeleteDE", "Crash", "CrashInUpdate", "Land", "GiveUp"}
SPECIFICATION TraceSpec
INVARIANTS TInv
PROPERTIES TPrivRule TQueueRule TCalmLandOK
POSTCONDITION TraceAccepted
CHECK_DEADLOCK FALSE
