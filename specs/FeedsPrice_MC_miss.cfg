\* C15 (feeds half) timing facet: 2 validators, 1 feed, block-time steps 0..4 so that every < / <= of the miss rule
\* (grace after activation, grace after the feed-list update, price age, and the three block bounds) is hit from both sides
CONSTANTS
  Val = {v1, v2}
  Stranger = {}
  Sig = {s1}
  GraceSet = {2, 3}
  CoolSet = {1}
  DiscSet = {1}
  UpdSet = {100}
  QuorumSet = {50}
  PenaltySet = {1}
  DtSet = {0, 1, 2, 3, 4}
  IntervalSet = {2, 3}
  PowerSet = {1}
  PriceSet = {1}
  StatusSet = {"avail"}
  ToffSet = {0}
  MaxH = 6
  MaxN = 0
  AllOrders = FALSE
  PPowerSet = {1}
  PTsSet = {0}
  PPriceSet = {1}
INIT MCInit
NEXT MissNext
SYMMETRY Sym
VIEW View
CONSTRAINT Bound
INVARIANTS Inv NoEndBlockError
PROPERTIES MCActivationRule MCDeactivationRule MCReporterSafe MCGraceSafe MCStatusStable MCVPriceRule MCPriceOnlyAtEndBlock MCPriceRule
CHECK_DEADLOCK FALSE
