\* quick facet "top-up": min-de 2 (target 4), MaxDESize 4 (tight), one signing of up to 2 attempts, duplicated
\* assignment notifications, failing queries; calm-schedule bound
CONSTANTS
  NSig = 1
  MaxAtt = 2
  MaxTok = 6
  MinSet = {2}
  MaxDESet = {4}
  GasSet = {FALSE}
  MaxQ = 2
  QSet = {"ok", "fail"}
  WithCrash = FALSE
  WithDup = TRUE
SPECIFICATION MCSpec
CONSTRAINT Bound
INVARIANTS Inv
PROPERTIES PrivRule QueueRule CalmLandOK
CHECK_DEADLOCK FALSE
