---------------------------- MODULE OracleIBC_MC ----------------------------
EXTENDS OracleIBC
CONSTANTS MaxH, MaxBreak
Sym == Permutations(Val)
\* output-only variables (out, ackOut, inp) are not part of the state identity
IView == <<h, now, params, count, lastExpired, req, rep, res, pending, vstat, resolveEv, gvals, minAt, resAt,
           ibcObs, ibcGhosts>>
IBound == h <= MaxH
\* facet initial state: every validator oracle-active since before the first request
OracleActive ==
    /\ h = 2 /\ now = 100
    /\ params \in [exp : ExpSet, penalty : PenaltySet]
    /\ count = 0 /\ lastExpired = 0
    /\ req = [id \in Ids |-> NoReq]
    /\ rep = [id \in Ids |-> {}]
    /\ res = [id \in Ids |-> NoRes]
    /\ pending = <<>>
    /\ vstat = [a \in Addr |-> IF a \in Val THEN [active |-> TRUE, since |-> 50] ELSE [active |-> FALSE, since |-> Never]]
    /\ resolveEv = [id \in Ids |-> 0]
    /\ out = "init"
    /\ gvals = [id \in Ids |-> {}]
    /\ minAt = [id \in Ids |-> 0]
    /\ resAt = [id \in Ids |-> 0]
IInitActive == IInitWith(OracleActive)
\* liveness facet: the clock stops at MaxH, requests are made early enough to run their course
INextBounded ==
    /\ h < MaxH
    /\ INext
    /\ (count' > count => h + params.exp < MaxH)
ISpecBounded == IInitActive /\ [][INextBounded]_ivars /\ WF_ivars(\E dt \in DtSet : IEndBlock(dt))
=============================================================================
