\* live facet, one signal, every kind of quote (below / at the deviation threshold, unavailable), three slots
CONSTANTS
  Sig = {"s1"}
  Start = 50
  Offset = 30
  SlotChoices = {50, 65, 79}
  Buffer = 1
  UOff = 3
  MaxT = 161
  MaxH = 0
  MaxSub = 0
  MaxMem = 0
  RelCap = 24
  GraceCap = 13
  ParSet <- ParSet20
  FeedInit <- FeedInit20
  FeedChanges <- NoFeeds
  Quotes <- Quotes1
SPECIFICATION LiveSpec
VIEW View
INVARIANTS Inv Calm StatedImpliesExact
PROPERTIES Release
CHECK_DEADLOCK FALSE
