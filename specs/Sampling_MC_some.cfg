\* ChooseSome: <= 4 entries over 0..2, cnt 0..3 (<= number of positive weights), every stream of cnt draws over 0..7 (cnt = 4: Sampling_MC_some4.cfg)
CONSTANTS
  SeedLen = 3
  Byte = {0, 1}
  Facet = "some"
  MaxN = 4
  WSet = {0, 1, 2}
  MaxCnt = 3
  MaxTries = 1
  DSet = {0, 1, 2, 3, 4, 5, 6, 7}
  IdSet = {1}
INIT MCInit
NEXT MCNext
VIEW View
INVARIANTS Valid Deterministic Consumed OneSpec SomeSpec MaxSpec ShufSpec
PROPERTIES SeedRule
CHECK_DEADLOCK FALSE
