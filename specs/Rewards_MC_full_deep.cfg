\* (thorough) composed begin-block facet (oracle -> bandtss on the remainder -> distribution sweep): 2 validators, 1 member,
\* pools 0,2,3,5,8, power vectors (1,1) (1,3) (0,1) (0,0), proposer v1, pct 0/50/100 for both modules, tax 0, 1/2, 1
CONSTANTS
  Val = {"v1", "v2"}
  Mem = {"m1"}
  Denom = {"u"}
  MaxAmt = 12
  Kinds = {"FullBegin"}
  Pools = {0, 2, 3, 5, 8}
  NBooks = 1
  Pows = {0, 1, 3}
  PwVecs <- FewPw
  Props = {"v1"}
  Pcts = {0, 50, 100}
  Taxes = {0, 1, 2}
  ActSets <- FewAct
  MemFlagSets <- AllMemFlags
INIT Init
NEXT Next
INVARIANTS TypeOK NonNegative BankConsistent NoDust
PROPERTIES Conserved OnlyActivePaid RightBase EnvIsEnv
CHECK_DEADLOCK TRUE
