\* thorough live facet at the real scale: one signal, I = 60, cool 30, buffer 3, unavailable offset 10, grace 30, P = 2, L = 3, block lag <= 3
CONSTANTS
  Sig = {"s1"}
  Start = 50
  Offset = 30
  SlotChoices = {50, 65, 79}
  Buffer = 3
  UOff = 10
  MaxT = 401
  MaxH = 0
  MaxSub = 0
  MaxMem = 0
  RelCap = 66
  GraceCap = 36
  ParSet <- ParSet60
  FeedInit <- FeedInit60
  FeedChanges <- NoFeeds
  Quotes <- Quotes60
SPECIFICATION LiveSpec
VIEW View
INVARIANTS Inv Calm StatedImpliesExact
PROPERTIES Release
CHECK_DEADLOCK FALSE
