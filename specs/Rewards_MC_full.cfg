\* composed begin-block facet (oracle -> bandtss on the remainder -> distribution sweep): 2 validators, 1 member,
\* pools 2,5, power vectors (1,1) (1,3) (0,1) (0,0), proposer v1, pct 0/50/100 for both modules, tax 0, 1/2; activity: both / only v2 / none
CONSTANTS
  Val = {"v1", "v2"}
  Mem = {"m1"}
  Denom = {"u"}
  MaxAmt = 12
  Kinds = {"FullBegin"}
  Pools = {2, 5}
  NBooks = 1
  Pows = {0, 1, 3}
  PwVecs <- FewPw
  Props = {"v1"}
  Pcts = {0, 50, 100}
  Taxes = {0, 1}
  ActSets <- FewAct3
  MemFlagSets <- AllMemFlags
INIT Init
NEXT Next
INVARIANTS TypeOK NonNegative BankConsistent NoDust
PROPERTIES Conserved OnlyActivePaid RightBase EnvIsEnv
CHECK_DEADLOCK TRUE
