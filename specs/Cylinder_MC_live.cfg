\* liveness facet (no constraint, no symmetry): min-de 1, one signing with up to two attempts, failing queries, sender
\* landing or giving up; fairness of succeeding interval steps, of landings and of succeeding notifications
CONSTANTS
  NSig = 1
  MaxAtt = 2
  MaxTok = 4
  MinSet = {1}
  MaxDESet = {2}
  GasSet = {FALSE}
  MaxQ = 9
  QSet = {"ok", "fail"}
  WithCrash = FALSE
  WithDup = FALSE
SPECIFICATION LiveSpec
INVARIANTS Inv
PROPERTIES ToppedUp ShareArrives
CHECK_DEADLOCK FALSE
