------------------------------ MODULE Grogu_MC ------------------------------
(***************************************************************************)
(* MC role for Grogu.tla.  Two kinds of facets:                            *)
(*  live   (LiveSpec): only behaviours that keep the timing assumptions    *)
(*         (`calm`) are explored, in a canonical order inside each second  *)
(*         (tick+quotes, feed change, poll, broadcast, block, release);    *)
(*         checks the timing properties of C20;                            *)
(*  faults (FaultSpec): free interleaving of every action including        *)
(*         broadcast errors, CheckTx rejections, time-outs, retries, feed  *)
(*         changes in flight and failures before the broadcast (feeder key *)
(*         gone, account query / gas simulation down); checks the          *)
(*         in-flight bookkeeping.                                          *)
(***************************************************************************)
EXTENDS Grogu

CONSTANTS
    MaxT,        \* horizon (clock value at which time stops)
    ParSet,      \* set of [cool, disc, grace, tries, P, L, D]
    FeedInit,    \* set of initial feed lists  (functions Sig -> [iv, dev])
    FeedChanges, \* feed lists SetFeeds may install ({} = the list never changes)
    MaxH,        \* fault facets: bound on the height (blocks are not tied to the clock there),
    MaxSub, MaxMem, \*   on the number of submissions and on the mempool length
    Quotes       \* signal -> set of [st, price] the price service may quote for it

VARIABLE stg
mvars == <<vars, stg>>

SvcChoices == {q \in [Sig -> UNION {Quotes[s] : s \in Sig}] : \A s \in Sig : q[s] \in Quotes[s]}

MCInit ==
    /\ clk = 101 /\ bt = 101 /\ h = 3
    /\ par \in ParSet
    /\ feeds \in FeedInit
    /\ updT = 101 /\ updH = 3
    /\ vp = [s \in Sig |-> NoVP]
    /\ slot = [s \in Sig |-> 0]
    /\ active = TRUE /\ since = 100
    /\ svc \in SvcChoices
    /\ pending = {} /\ subs = {} /\ nsub = 0 /\ mempool = <<>>
    /\ lastPoll = 101 /\ down = FALSE
    /\ out = "init"
    /\ calm = \A s \in Sig : feeds[s].iv > 0 => TimingOK(feeds[s].iv)
    /\ waited = [s \in Sig |-> 0]
    /\ rejSeen = FALSE
    /\ stg = "poll"

Skip == UNCHANGED vars

LiveNext ==
    /\ \/ /\ stg = "tick" /\ clk < MaxT
          /\ \E q \in SvcChoices : TickWith(1, q)
          /\ stg' = "feeds"
       \/ /\ stg = "feeds"
          /\ \/ \E nf \in FeedChanges : nf # feeds /\ SetFeeds(nf)
             \/ Skip
          /\ stg' = "poll"
       \/ /\ stg = "poll"
          /\ \/ Poll
             \/ clk - lastPoll < par.P /\ Skip
          /\ stg' = "bcast"
       \/ /\ stg = "bcast"
          /\ IF \E r \in subs : r.st = "bcast"
             THEN \E r \in subs : r.st = "bcast" /\ Bcast(r.id, "ok")
             ELSE Skip
          /\ stg' = "block"
       \/ /\ stg = "block"
          /\ \/ \E d \in 0..par.D, k \in SlotChoices \cup {0} : Block(d, k)
             \/ Skip
          /\ stg' = "rel"
       \/ /\ stg = "rel"
          /\ \/ \E r \in subs : TxResult(r.id, "found") /\ stg' = "rel"
             \/ Skip /\ stg' = "tick"
    /\ calm'

LiveSpec == MCInit /\ [][LiveNext]_mvars

FaultNext ==
    /\ stg' = stg
    /\ \/ clk < MaxT /\ \E q \in SvcChoices : TickWith(1, q)
       \/ nsub < MaxSub /\ Poll
       \/ \E qs \in {{"valid"}, {"vprices"}} : PollFail(qs)
       \/ \E r \in subs, res \in {"ok", "err", "chk", "oog"} : (res = "ok" => Len(mempool) < MaxMem) /\ Bcast(r.id, res)
       \/ \E r \in subs, res \in {"found", "timeout"} : TxResult(r.id, res)
       \/ h < MaxH /\ \E d \in 0..par.D, k \in SlotChoices \cup {0} : Block(d, k)
       \/ \E nf \in FeedChanges : nf # feeds /\ SetFeeds(nf)
       \/ Env(~down)

FaultSpec == MCInit /\ [][FaultNext]_mvars

\* State identity.  `out` is output-only.  The rules of Grogu.tla depend on times and heights only through
\* differences, and on a difference only while it is below a bound (an interval, the grace period, the
\* cool-down): the view therefore takes every time relative to the clock and every height relative to the
\* current height, capped at RelCap, and forgets submission numbers.  This turns the bounded-horizon search
\* into a search of the recurrent behaviour (MaxT only has to be large enough for the fixpoint).
CONSTANTS RelCap, GraceCap   \* RelCap > largest interval + D + 1; GraceCap > grace + D + 1
Rel(x) == IF clk - x > RelCap THEN RelCap ELSE clk - x
RelG(x) == IF clk - x > GraceCap THEN GraceCap ELSE clk - x
RelH(x) == IF h - x > RelCap THEN RelCap ELSE h - x
ViewOf(withH) ==
        <<Rel(bt), par, feeds, RelG(updT), IF withH THEN RelH(updH) ELSE 0,
          [s \in Sig |-> IF vp[s].st = "none" THEN <<"none">>
                         ELSE <<vp[s].st, vp[s].price, Rel(vp[s].ts), IF withH THEN RelH(vp[s].bh) ELSE 0, slot[s]>>],
          active, RelG(since), svc, pending,
          {<<r.m, Rel(r.ts), r.st, r.try, r.res>> : r \in subs},
          [i \in 1..Len(mempool) |-> <<mempool[i].m, Rel(mempool[i].ts), mempool[i].try>>],
          Rel(lastPoll), down, calm, waited, rejSeen, stg>>
\* fault facets: heights are part of the state (the block half of the miss rule decides `active`), and so are
\* the quantities their bounds speak about (clock, height, number of submissions): a bounded search must not
\* merge states with different remaining budgets
ViewH == <<ViewOf(TRUE), clk, h, nsub>>
\* live facets: heights only enter Miss, and Miss is false wherever NeverLate holds in the successor state
\* (same expression, the block half can only weaken it); so no transition or invariant depends on them
\* on the part of the state space where the invariants hold
View == ViewOf(FALSE)

\* live facets: the initial state must satisfy the assumptions (otherwise LiveNext has no step and the check is vacuous)
Calm == calm

\* the facets must not be vacuous: these are expected to be VIOLATED when checked (used by hand)
SomeSubmission == nsub = 0
SomeSecondRound == \A s \in Sig : vp[s].st = "none" \/ vp[s].ts < 110

\* the stated form of the assumptions implies the exact form used by `calm`
StatedImpliesExact == \A s \in Sig : (feeds[s].iv > 0 /\ StatedAssumption(feeds[s].iv)) => TimingOK(feeds[s].iv)

\* ---- constant definitions used by the cfgs ----
NoFeeds == {}
ParSet20 == {[cool |-> 10, disc |-> 20, grace |-> 10, tries |-> 1, P |-> 1, L |-> 1, D |-> 1]}
FeedInit20 == {[s \in Sig |-> [iv |-> 20, dev |-> 50]]}
Quotes2 == [s \in Sig |-> IF s = "s1" THEN {[st |-> "avail", price |-> 10000], [st |-> "avail", price |-> 10049], [st |-> "avail", price |-> 10050]}
                                        ELSE {[st |-> "avail", price |-> 10000], [st |-> "unavail", price |-> 0]}]
Par20P2 == {[cool |-> 10, disc |-> 20, grace |-> 10, tries |-> 1, P |-> 2, L |-> 1, D |-> 1]}
Quotes1 == [s \in Sig |-> {[st |-> "avail", price |-> 10000], [st |-> "avail", price |-> 10049],
                           [st |-> "avail", price |-> 10050], [st |-> "unavail", price |-> 0]}]
QuotesLean == [s \in Sig |-> IF s = "s1" THEN {[st |-> "avail", price |-> 10000], [st |-> "avail", price |-> 10050]}
                                        ELSE {[st |-> "avail", price |-> 10000], [st |-> "unavail", price |-> 0]}]
ParFault == {[cool |-> 2, disc |-> 3, grace |-> 3, tries |-> 2, P |-> 1, L |-> 1, D |-> 1]}
FeedInitF == {[s \in Sig |-> [iv |-> 6, dev |-> 50]]}
FeedChangesF == {[s \in Sig |-> [iv |-> 6, dev |-> 50]], [s \in Sig |-> IF s = "s1" THEN [iv |-> 6, dev |-> 50] ELSE [iv |-> 0, dev |-> 0]]}
QuotesF == [s \in Sig |-> IF s = "s1" THEN {[st |-> "avail", price |-> 10000]}
                                     ELSE {[st |-> "avail", price |-> 10000], [st |-> "missing", price |-> 0]}]
\* feed-list change facet: the interval of s1 moves between 20 and 30, s2 joins and leaves
FeedInitC == {[s \in Sig |-> IF s = "s1" THEN [iv |-> 20, dev |-> 50] ELSE [iv |-> 0, dev |-> 0]]}
FeedChangesC == {[s \in Sig |-> IF s = "s1" THEN [iv |-> 20, dev |-> 50] ELSE [iv |-> 0, dev |-> 0]],
                 [s \in Sig |-> IF s = "s1" THEN [iv |-> 30, dev |-> 50] ELSE [iv |-> 0, dev |-> 0]],
                 [s \in Sig |-> [iv |-> 20, dev |-> 50]]}
QuotesC == [s \in Sig |-> IF s = "s1" THEN {[st |-> "avail", price |-> 10000], [st |-> "avail", price |-> 10050]}
                                     ELSE {[st |-> "avail", price |-> 10000]}]
\* half scale: I = 30, cool 15, buffer 2, unavailable offset 5, grace 15, P in {1, 2}, L = 1, D = 1
ParSet30 == {[cool |-> 15, disc |-> 30, grace |-> 15, tries |-> 1, P |-> p, L |-> 1, D |-> 1] : p \in {1, 2}}
FeedInit30 == {[s \in Sig |-> [iv |-> 30, dev |-> 50]]}
\* real scale: I = 60, cool 30, buffer 3, unavailable offset 10, grace 30, P = 2, L = 3, D = 3
ParSet60 == {[cool |-> 30, disc |-> 60, grace |-> 30, tries |-> 1, P |-> 2, L |-> 3, D |-> 3]}
FeedInit60 == {[s \in Sig |-> [iv |-> 60, dev |-> 50]]}
Quotes60 == [s \in Sig |-> {[st |-> "avail", price |-> 10000], [st |-> "avail", price |-> 10050], [st |-> "unavail", price |-> 0]}]
ParFault2 == {[cool |-> 2, disc |-> 3, grace |-> 3, tries |-> 3, P |-> 1, L |-> 1, D |-> 1]}
QuotesQ == [s \in Sig |-> IF s = "s1" THEN {[st |-> "avail", price |-> 10000], [st |-> "avail", price |-> 10050]}
                                     ELSE {[st |-> "avail", price |-> 10000]}]
=============================================================================
