\* facet "de": MsgSubmitDEs -- bandtss membership and queue room (two slots, so that two DE messages of one
\* member in one tx compete), and "dkg1": MsgSubmitDKGRound1 of a group in round 1
CONSTANTS
  Val = {"v1"}
  Acct = {"m1", "m2", "g1", "x1"}
  ReqIds = {1}
  SigIds = {1}
  MaxRoom = 2
  PD = 10000
  Kinds = {"de", "dkg1"}
  Grantees = {"g1"}
  Members = {"m1", "m2"}
  MinpSet = {25}
  LocalpSet = {0}
  GasSet = {200000}
  FeeSet = {0, 499, 500}
  Stranger = "x1"
  DeliverSet = {}
  Poor = {}
  PoorBal = 0
  RichBal = 2000
  Depth2 = FALSE
  Pairs = TRUE
  GrantUsed <- GrantU_tss_de
SPECIFICATION Spec
VIEW View
INVARIANTS TypeOK ExemptSound ExemptComplete
PROPERTIES NoFreeRide EntitledNeverCharged EntitledAdmitted PaidRule ClassSplit CheckPure SignerRule
CHECK_DEADLOCK FALSE
