----------------------------- MODULE FeedsPrice -----------------------------
(***************************************************************************)
(* Price aggregation of BandChain's x/feeds module: property C06 (feed     *)
(* price = quorum-gated, power- and recency-weighted median of the fresh   *)
(* validator prices) and the feeds half of C15 (a validator is deactivated *)
(* for feeds only for a genuine miss after the grace periods).             *)
(*                                                                         *)
(* PURE PART   transcription, operator by operator, of                     *)
(*   x/feeds/types/median.go      CalculatePricesPowers,                   *)
(*                                MedianValidatorPriceInfos,               *)
(*                                MedianWeightedPrice                      *)
(*   x/feeds/keeper/keeper_price.go  CalculatePrice (status rule),         *)
(*                                CheckMissReport, checkHavePrice          *)
(* SYSTEM PART one action per entry point of the real code                 *)
(*   Submit    x/feeds/keeper/msg_server.go SubmitSignalPrices             *)
(*             (+ types/msgs.go ValidateBasic)                             *)
(*   Activate  x/oracle/keeper/msg_server.go Activate                      *)
(*   EndBlock  x/feeds/abci.go EndBlocker (feed-list update, then          *)
(*             CalculatePrices) followed by the next block's header        *)
(*   Jail      environment: staking jails a validator (it leaves the power *)
(*             index at once, the bonded status at the end of the block)   *)
(* Inputs the code must refuse are actions too (outcome "rej", state       *)
(* unchanged).  `out` records the outcome of the last step.                *)
(*                                                                         *)
(* Units: powers are whole tokens (the driver bonds multiples of 10^6      *)
(* uband and logs tokens / 10^6); the quorum is a percentage qn (the       *)
(* driver uses PriceQuorum = qn/100), so  power quorum in 1/100 token =    *)
(* bonded * qn  exactly, and the code's TruncateInt at uband granularity   *)
(* truncates nothing.  Times are seconds since genesis.                    *)
(***************************************************************************)
EXTENDS Integers, Sequences, FiniteSets, TLC

CONSTANTS
    Val,         \* staking validators
    Stranger,    \* addresses that are not validators (may still send Activate / Submit)
    Sig,         \* signal ids
    GraceSet,    \* params.grace_period (seconds, > 0)
    CoolSet,     \* params.cooldown_time
    DiscSet,     \* params.allowable_block_time_discrepancy
    UpdSet,      \* params.current_feeds_update_interval (blocks)
    QuorumSet,   \* params.price_quorum in percent (0..100)
    PenaltySet,  \* oracle params.inactive_penalty_duration (seconds)
    DtSet,       \* block-time increments (0 = equal timestamps)
    IntervalSet, \* intervals a current feed may have (0 is added for "not current")
    PowerSet,    \* validator tokens (whole tokens)
    PriceSet,    \* prices a validator may submit with status "avail"
    StatusSet,   \* subset of {"avail", "unavail", "unsupp"}
    ToffSet      \* msg.Timestamp - block time

Addr  == Val \cup Stranger
Never == -1                     \* "zero time" of a validator status that was never set

Max2(a, b) == IF a >= b THEN a ELSE b
Abs(x)     == IF x < 0 THEN -x ELSE x
Range(s)   == {s[i] : i \in 1..Len(s)}
RECURSIVE Perms(_)
Perms(S) == IF S = {} THEN {<<>>} ELSE UNION {{<<x>> \o p : p \in Perms(S \ {x})} : x \in S}

-----------------------------------------------------------------------------
(***************************************************************************)
(*                              PURE PART                                  *)
(* An entry (types.ValidatorPriceInfo) is [pw, ts, price, st] with         *)
(* st \in {"avail","unavail","unsupp"}.                                    *)
(***************************************************************************)

Scale    == 32                          \* getPowerScalingFactor
Mult     == <<60, 40, 20, 11, 10>>      \* getMultipliers
Sections == <<1, 3, 7, 15, 32>>         \* getSections

RECURSIVE SumPw(_)
SumPw(s) == IF s = <<>> THEN 0 ELSE Head(s).pw + SumPw(Tail(s))

OnlySt(infos, st) == SelectSeq(infos, LAMBDA e : e.st = st)

\* CalculatePricesPowers
Powers(infos) ==
    [total   |-> SumPw(infos),
     avail   |-> SumPw(OnlySt(infos, "avail")),
     unavail |-> SumPw(OnlySt(infos, "unavail")),
     unsupp  |-> SumPw(OnlySt(infos, "unsupp"))]

\* slices.SortStableFunc: elements that compare equal keep their input order
StableSort(s, Less(_, _)) ==
    LET n == Len(s)
        rank(i) == Cardinality({j \in 1..n : Less(s[j], s[i]) \/ (~Less(s[i], s[j]) /\ j < i)})
    IN [k \in 1..n |-> s[CHOOSE i \in 1..n : rank(i) + 1 = k]]

\* Step 2 of MedianValidatorPriceInfos: timestamp descending, then power descending
NewerBigger(a, b) == a.ts > b.ts \/ (a.ts = b.ts /\ a.pw > b.pw)

\* Step 4, the inner `for ; sectionIndex < len(sections); sectionIndex++` loop for one entry.
\* `break` leaves sectionIndex where it is; running off the end leaves it at 6.
RECURSIVE TakeSections(_, _, _, _, _)
TakeSections(left, w, cur, sec, total) ==
    IF sec > 5 THEN [w |-> w, cur |-> cur, sec |-> sec]
    ELSE LET limit == total * Sections[sec]
             take  == IF cur + left <= limit THEN left ELSE limit - cur
             w2    == w + take * Mult[sec]
             cur2  == cur + take
             left2 == left - take
         IN IF left2 = 0 THEN [w |-> w2, cur |-> cur2, sec |-> sec]
            ELSE TakeSections(left2, w2, cur2, sec + 1, total)

\* Step 4/5, the outer loop: currentPower and sectionIndex are carried from entry to entry
RECURSIVE Distribute(_, _, _, _)
Distribute(sorted, cur, sec, total) ==
    IF sorted = <<>> THEN <<>>
    ELSE LET r == TakeSections(Scale * Head(sorted).pw, 0, cur, sec, total)
         IN <<[w |-> r.w, price |-> Head(sorted).price]>> \o Distribute(Tail(sorted), r.cur, r.sec, total)

\* MedianWeightedPrice: sort by price ascending then weight ascending; first entry whose
\* cumulative weight * 2 >= total weight; error if there is none (empty list)
CheaperLighter(a, b) == a.price < b.price \/ (a.price = b.price /\ a.w < b.w)

RECURSIVE SumW(_)
SumW(s) == IF s = <<>> THEN 0 ELSE Head(s).w + SumW(Tail(s))

RECURSIVE Crossing(_, _, _)
Crossing(wps, cum, totalW) ==
    IF wps = <<>> THEN [ok |-> FALSE, price |-> 0]
    ELSE LET c == cum + Head(wps).w
         IN IF c * 2 >= totalW THEN [ok |-> TRUE, price |-> Head(wps).price]
            ELSE Crossing(Tail(wps), c, totalW)

MedianWeighted(wps) ==
    LET sorted == StableSort(wps, CheaperLighter)
    IN Crossing(sorted, 0, SumW(sorted))

WeightedPrices(infos) ==
    LET valid  == OnlySt(infos, "avail")
        total  == SumPw(valid)
        sorted == StableSort(valid, NewerBigger)
    IN Distribute(sorted, 0, 1, total)

\* MedianValidatorPriceInfos -> [ok, price]; ok = FALSE is ErrInvalidWeightedPrices
Median(infos) == MedianWeighted(WeightedPrices(infos))

\* the status rule of Keeper.CalculatePrice, on the three power sums and the power quorum.  (The `total = 0` disjunct
\* is the fix "feeds price of a feed without any reporting power is NOT_READY, not an end-block error": before it a
\* power quorum of 0 - price_quorum "0", or nothing bonded - let an empty input through to the median, whose error
\* return made the end-blocker fail.  With it the error return below is unreachable: NoPriceError, checked by MC.)
PriceStatus(total, avail, unsupp, quorum) ==
    IF unsupp * 2 > total THEN "UNKNOWN_SIGNAL_ID"
    ELSE IF total = 0 \/ total < quorum \/ avail * 2 < total THEN "NOT_READY"
    ELSE "AVAILABLE"

\* Keeper.CalculatePrice -> [status, price]; "ERROR" = the error return ("should not happen")
CalcPrice(infos, quorum) ==
    LET P  == Powers(infos)
        st == PriceStatus(P.total, P.avail, P.unsupp, quorum)
    IN IF st # "AVAILABLE" THEN [status |-> st, price |-> 0]
       ELSE LET m == Median(infos)
            IN IF m.ok THEN [status |-> "AVAILABLE", price |-> m.price]
               ELSE [status |-> "ERROR", price |-> 0]

\* a stored validator price (types.ValidatorPrice); st = "none" is SIGNAL_PRICE_STATUS_UNSPECIFIED / absent
NoVP == [st |-> "none", price |-> 0, ts |-> 0, bh |-> 0]

\* checkHavePrice
HavePrice(interval, vp, tnow) == vp.st # "none" /\ vp.ts >= tnow - interval

\* CheckMissReport (MaxGuaranteeBlockTime = 3)
MaxGuaranteeBlockTime == 3
CheckMiss(interval, uT, uH, vp, since, tnow, hh, grace) ==
    LET lt0 == Max2(uT + grace, since + grace)
        lb0 == uH + grace \div MaxGuaranteeBlockTime
        lt  == IF vp.st # "none" THEN Max2(lt0, vp.ts + interval) ELSE lt0
        lb  == IF vp.st # "none" THEN Max2(lb0, vp.bh + interval \div MaxGuaranteeBlockTime) ELSE lb0
    IN lt < tnow /\ lb < hh

-----------------------------------------------------------------------------
(***************************************************************************)
(* Properties of the pure part (C06).  TLC checks them on every enumerated *)
(* input (FeedsPrice_MC, pure facets) and asserts them on every input that *)
(* is driven through the real code (FeedsPrice_Trace, Calc events).        *)
(***************************************************************************)
AvailIdx(s)    == {i \in 1..Len(s) : s[i].st = "avail"}
AvailPrices(s) == {s[i].price : i \in AvailIdx(s)}
ScalePw(s, k)  == [i \in 1..Len(s) |-> [s[i] EXCEPT !.pw = @ * k]]
Permute(s, p)  == [i \in 1..Len(s) |-> s[p[i]]]

\* the result is one of the available input prices (hence within [min, max]); error iff there is none
PureRangeOf(infos) ==
    LET m == Median(infos)  ps == AvailPrices(infos) IN
    /\ m.ok <=> ps # {}
    /\ m.ok => /\ m.price \in ps
               /\ \A q \in ps : (\A r \in ps : q <= r) => q <= m.price
               /\ \A q \in ps : (\A r \in ps : q >= r) => q >= m.price

\* the whole rule is homogeneous in the powers (no division anywhere): scaling changes nothing
PureScaleOf(infos) ==
    LET P == Powers(infos)  m == Median(infos) IN
    \A k \in {3, 1000} :
        /\ Median(ScalePw(infos, k)) = m
        /\ \A q \in 0..(P.total + 1) :
              PriceStatus(k * P.total, k * P.avail, k * P.unsupp, k * q) = PriceStatus(P.total, P.avail, P.unsupp, q)

\* the order of the entries matters only between available entries with the same (timestamp, power)
TieFree(s) == \A i, j \in AvailIdx(s) : (i # j /\ s[i].ts = s[j].ts /\ s[i].pw = s[j].pw) => s[i].price = s[j].price
\* all permutations up to 3 entries; reversal, rotation and one swap beyond (cost)
OrderProbes(n) == IF n <= 3 THEN Perms(1..n)
                  ELSE {[i \in 1..n |-> n + 1 - i], [i \in 1..n |-> (i % n) + 1], [i \in 1..n |-> IF i = 1 THEN 2 ELSE IF i = 2 THEN 1 ELSE i]}
PureOrderOf(infos) ==
    LET P == Powers(infos)  m == Median(infos)  tf == TieFree(infos) IN
    \A p \in OrderProbes(Len(infos)) :
        /\ Powers(Permute(infos, p)) = P
        /\ tf => Median(Permute(infos, p)) = m

\* AVAILABLE / UNKNOWN_SIGNAL_ID / NOT_READY exactly by the rule (for a quorum >= 1 the `total > 0` conjunct is implied
\* by `total >= q`); the error return of CalculatePrice is unreachable
PureStatusOf(infos) ==
    LET P == Powers(infos)  m == Median(infos) IN
    /\ P.total = P.avail + P.unavail + P.unsupp
    /\ \A q \in 0..(P.total + 1) :
        LET st == PriceStatus(P.total, P.avail, P.unsupp, q) IN
        /\ (st = "UNKNOWN_SIGNAL_ID") <=> (2 * P.unsupp > P.total)
        /\ (st = "AVAILABLE") <=> (P.total > 0 /\ P.total >= q /\ 2 * P.avail >= P.total /\ ~(2 * P.unsupp > P.total))
        /\ (st \notin {"UNKNOWN_SIGNAL_ID", "AVAILABLE"}) <=> (st = "NOT_READY")
        /\ (st = "AVAILABLE") => m.ok
    /\ \A q \in {0, P.total, P.total + 1} :
        LET st == PriceStatus(P.total, P.avail, P.unsupp, q)  r == CalcPrice(infos, q) IN
        /\ r.status = st
        /\ r.price = (IF r.status = "AVAILABLE" THEN m.price ELSE 0)

\* independent (declarative) reading of the two loops, must agree with the transcription:
\*  - the k-th sorted entry occupies [32*prefix(k-1), 32*prefix(k)) of the scaled power line; its weight is the
\*    multiplier-weighted overlap with the sections [0,1T) [1T,3T) [3T,7T) [7T,15T) [15T,32T);
\*  - the median is the least price P with 2 * (weight of prices <= P) >= total weight.
Min2(a, b) == IF a <= b THEN a ELSE b
Overlap(a, b, lo, hi) == Max2(0, Min2(b, hi) - Max2(a, lo))
Lim(total) == <<0, total * 1, total * 3, total * 7, total * 15, total * 32>>
AltWeight(a, b, total) ==
    LET L == Lim(total) IN
    Mult[1] * Overlap(a, b, L[1], L[2]) + Mult[2] * Overlap(a, b, L[2], L[3]) + Mult[3] * Overlap(a, b, L[3], L[4])
  + Mult[4] * Overlap(a, b, L[4], L[5]) + Mult[5] * Overlap(a, b, L[5], L[6])
RECURSIVE Prefix(_, _)
Prefix(s, k) == IF k = 0 THEN 0 ELSE s[k].pw + Prefix(s, k - 1)
AltWeights(s) ==
    LET valid  == OnlySt(s, "avail")
        total  == SumPw(valid)
        sorted == StableSort(valid, NewerBigger)
    IN [k \in 1..Len(sorted) |-> [w |-> AltWeight(Scale * Prefix(sorted, k - 1), Scale * Prefix(sorted, k), total),
                                  price |-> sorted[k].price]]
RECURSIVE SumWUpTo(_, _, _)
SumWUpTo(wps, k, P) == IF k = 0 THEN 0 ELSE (IF wps[k].price <= P THEN wps[k].w ELSE 0) + SumWUpTo(wps, k - 1, P)
AltMedian(wps) ==
    LET W  == SumW(wps)
        ok == {wps[i].price : i \in {j \in 1..Len(wps) : 2 * SumWUpTo(wps, Len(wps), wps[j].price) >= W}}
    IN IF ok = {} THEN [ok |-> FALSE, price |-> 0]
       ELSE [ok |-> TRUE, price |-> CHOOSE p \in ok : \A q \in ok : p <= q]
PureAltOf(infos) ==
    LET wps == WeightedPrices(infos) IN
    /\ wps = AltWeights(infos)
    /\ Median(infos) = AltMedian(wps)
    /\ SumW(wps) = 478 * Powers(infos).avail       \* 1*60 + 2*40 + 4*20 + 8*11 + 17*10: no power lost or counted twice
    /\ \A i \in 1..Len(wps) : wps[i].w >= 0

PureAll(infos) == PureRangeOf(infos) /\ PureScaleOf(infos) /\ PureOrderOf(infos) /\ PureStatusOf(infos) /\ PureAltOf(infos)

-----------------------------------------------------------------------------
(***************************************************************************)
(*                             SYSTEM PART                                 *)
(***************************************************************************)
VARIABLES
    h,        \* height of the block in progress
    now,      \* its block time
    params,   \* [grace, cool, disc, upd, qn, penalty]
    feeds,    \* signal -> interval of the current feed (0 = not a current feed)
    updT,     \* CurrentFeeds.LastUpdateTimestamp
    updH,     \* CurrentFeeds.LastUpdateBlock
    vprice,   \* validator -> signal -> stored ValidatorPrice (NoVP when none)
    price,    \* signal -> stored Price [status, price, ts] (status "NONE" = no entry in the store)
    vstat,    \* address -> oracle ValidatorStatus [active, since]
    deactEv,  \* address -> number of `deactivate` events emitted so far
    bonded,   \* validator -> staking status is Bonded          (environment)
    jailed,   \* set of jailed validators                        (environment)
    power,    \* validator -> tokens                             (environment)
    out       \* outcome of the last step: "init" | "ok" | "rej" | "err" (end-blocker returned an error)

vars == <<h, now, params, feeds, updT, updH, vprice, price, vstat, deactEv, bonded, jailed, power, out>>

NoPrice == [status |-> "NONE", price |-> 0, ts |-> 0]

Cur == {s \in Sig : feeds[s] > 0}

\* validators in the staking power index with status Bonded: what IterateBondedValidatorsByPower visits
InPowerIndex == {v \in Val : bonded[v] /\ v \notin jailed}

RECURSIVE SumPower(_)
SumPower(S) == IF S = {} THEN 0 ELSE LET v == CHOOSE x \in S : TRUE IN power[v] + SumPower(S \ {v})

\* staking TotalBondedTokens as CalculatePrices reads it (after the staking end-blocker of the same block)
BondedTotal == SumPower(InPowerIndex)

IsOrder(ord) == /\ Range(ord) = InPowerIndex
                /\ \A i, j \in 1..Len(ord) : i # j => ord[i] # ord[j]

InitSys ==
    /\ h = 3 /\ now = 101
    /\ params \in [grace : GraceSet, cool : CoolSet, disc : DiscSet, upd : UpdSet, qn : QuorumSet, penalty : PenaltySet]
    /\ feeds \in [Sig -> IntervalSet \cup {0}]
    /\ updT = 101 /\ updH = 3
    /\ vprice = [v \in Val |-> [s \in Sig |-> NoVP]]
    /\ price = [s \in Sig |-> NoPrice]
    /\ vstat \in [Addr -> {[active |-> FALSE, since |-> Never], [active |-> TRUE, since |-> 100]}]
    /\ \A a \in Stranger : ~vstat[a].active
    /\ deactEv = [a \in Addr |-> 0]
    /\ bonded = [v \in Val |-> TRUE]
    /\ jailed = {}
    /\ power \in [Val -> PowerSet]
    /\ out = "init"

Rejected == /\ out' = "rej"
            /\ UNCHANGED <<h, now, params, feeds, updT, updH, vprice, price, vstat, deactEv, bonded, jailed, power>>

(***************************************************************************)
(* MsgSubmitSignalPrices.  m is the message's price list as a function     *)
(* signal -> [st, price]; shape # "wf" names a malformed message           *)
(* ("dup" duplicate signal id, "nzprice" non-available status with a       *)
(* non-zero price, "unspec" status UNSPECIFIED), refused by ValidateBasic. *)
(* The stored timestamp is the BLOCK time, msg.Timestamp = now + toff is   *)
(* only compared with the allowed discrepancy.  On success the validator's *)
(* list is rebuilt over the current feeds: prices of signals that are not  *)
(* current feeds are dropped.                                              *)
(***************************************************************************)
SubmitAcceptable(a, toff, m, shape) ==
    /\ shape = "wf"
    /\ \A s \in DOMAIN m : m[s].st \in {"avail", "unavail", "unsupp"} /\ (m[s].st # "avail" => m[s].price = 0)
    /\ Cardinality(DOMAIN m) <= Cardinality(Cur)
    /\ a \in Val /\ bonded[a] /\ vstat[a].active
    /\ Abs(toff) <= params.disc
    /\ DOMAIN m \subseteq Cur
    /\ \A s \in DOMAIN m : vprice[a][s].st = "none" \/ now >= vprice[a][s].ts + params.cool

Submit(a, toff, m, shape) ==
    IF SubmitAcceptable(a, toff, m, shape)
    THEN /\ vprice' = [vprice EXCEPT ![a] = [s \in Sig |->
                          IF s \in DOMAIN m THEN [st |-> m[s].st, price |-> m[s].price, ts |-> now, bh |-> h]
                          ELSE IF s \in Cur THEN vprice[a][s] ELSE NoVP]]
         /\ out' = "ok"
         /\ UNCHANGED <<h, now, params, feeds, updT, updH, price, vstat, deactEv, bonded, jailed, power>>
    ELSE Rejected

(***************************************************************************)
(* MsgActivate (oracle keeper.Activate), as in Oracle.tla.                 *)
(***************************************************************************)
Activate(a) ==
    IF /\ ~vstat[a].active
       /\ (vstat[a].since = Never \/ vstat[a].since + params.penalty <= now)
    THEN /\ vstat' = [vstat EXCEPT ![a] = [active |-> TRUE, since |-> now]]
         /\ out' = "ok"
         /\ UNCHANGED <<h, now, params, feeds, updT, updH, vprice, price, deactEv, bonded, jailed, power>>
    ELSE Rejected

(***************************************************************************)
(* Environment: staking jails a validator.  It leaves the power index at   *)
(* once (the feeds end-blocker of this block no longer sees it) but keeps  *)
(* status Bonded until the staking end-blocker of this block.              *)
(***************************************************************************)
Jail(v) ==
    /\ v \in Val /\ bonded[v] /\ v \notin jailed
    /\ jailed' = jailed \cup {v}
    /\ out' = "ok"
    /\ UNCHANGED <<h, now, params, feeds, updT, updH, vprice, price, vstat, deactEv, bonded, power>>

(***************************************************************************)
(* End of block h (x/feeds/abci.go), then the header of block h+1.         *)
(*   nf  : the feed list CalculateNewCurrentFeeds yields (property C07's   *)
(*         business; used only when h is a multiple of params.upd)         *)
(*   ord : the bonded validators in the order the staking power index      *)
(*         yields them (matters only for exact (timestamp, power) ties)    *)
(* Order of effects in CalculatePrices: the validator list with each       *)
(* status is captured FIRST; then per feed, per listed validator: miss     *)
(* check (oracle MissReport re-reads the status: active and since < now),  *)
(* then the fresh price joins the feed's inputs.  A validator deactivated  *)
(* in this block still contributes its fresh prices in this block.         *)
(***************************************************************************)
ListedSeq(ord) == SelectSeq(ord, LAMBDA v : vstat[v].active)

EntryOf(v, s) == [pw |-> power[v] * 100, ts |-> vprice[v][s].ts, price |-> vprice[v][s].price, st |-> vprice[v][s].st]

RECURSIVE InfosOf(_, _, _)
InfosOf(lst, s, interval) ==
    IF lst = <<>> THEN <<>>
    ELSE (IF HavePrice(interval, vprice[Head(lst)][s], now) THEN <<EntryOf(Head(lst), s)>> ELSE <<>>)
         \o InfosOf(Tail(lst), s, interval)

\* failsOf maps "some current feed's price computation returns the error" to "CalculatePrices fails": the identity in
\* EndBlock (below); a trace check that does not own the price computation substitutes the observed outcome.
EndBlockCore(dt, nf, ord, failsOf(_)) ==
    LET isUpd  == h % params.upd = 0
        feeds1 == IF isUpd THEN nf ELSE feeds
        uT     == IF isUpd THEN now ELSE updT
        uH     == IF isUpd THEN h ELSE updH
        price0 == IF isUpd THEN [s \in Sig |-> NoPrice] ELSE price
        cur1   == {s \in Sig : feeds1[s] > 0}
        lst    == ListedSeq(ord)
        quorum == BondedTotal * params.qn            \* in 1/100 token, like the entries' powers
        res(s) == CalcPrice(InfosOf(lst, s, feeds1[s]), quorum)
        miss(v) == \E s \in cur1 : CheckMiss(feeds1[s], uT, uH, vprice[v][s], vstat[v].since, now, h, params.grace)
        hit(v) == v \in Range(lst) /\ miss(v) /\ vstat[v].since < now
    IN
    /\ IsOrder(ord)
    /\ nf \in [Sig -> Nat]
    /\ IF failsOf(\E s \in cur1 : res(s).status = "ERROR")
       THEN \* CalculatePrices returns an error: the block cannot be produced, nothing is committed (unreachable since
            \* the fix described at PriceStatus; kept because the code keeps the error return)
            /\ out' = "err"
            /\ UNCHANGED <<h, now, params, feeds, updT, updH, vprice, price, vstat, deactEv, bonded, jailed, power>>
       ELSE /\ feeds' = feeds1 /\ updT' = uT /\ updH' = uH
            /\ price' = [s \in Sig |-> IF s \in cur1 THEN [status |-> res(s).status, price |-> res(s).price, ts |-> now]
                                       ELSE price0[s]]
            /\ vstat' = [a \in Addr |-> IF a \in Val /\ hit(a) THEN [active |-> FALSE, since |-> now] ELSE vstat[a]]
            /\ deactEv' = [a \in Addr |-> IF a \in Val /\ hit(a) THEN deactEv[a] + 1 ELSE deactEv[a]]
            /\ bonded' = [v \in Val |-> bonded[v] /\ v \notin jailed]
            /\ h' = h + 1 /\ now' = now + dt
            /\ out' = "ok"
            /\ UNCHANGED <<params, vprice, jailed, power>>

Same(b) == b
EndBlock(dt, nf, ord) == EndBlockCore(dt, nf, ord, Same)

(***************************************************************************)
(* Next-state relation used by MC and GEN                                  *)
(***************************************************************************)
StPrice == {[st |-> "avail", price |-> p] : p \in PriceSet} \cup {[st |-> st, price |-> 0] : st \in StatusSet \ {"avail"}}
Msgs    == UNION {[S -> StPrice] : S \in SUBSET Sig}

Next ==
    \/ \E a \in Addr, toff \in ToffSet, m \in Msgs : Submit(a, toff, m, "wf")
    \/ \E a \in Addr, m \in Msgs, shape \in {"dup", "nzprice", "unspec"} : DOMAIN m # {} /\ Submit(a, 0, m, shape)
    \/ \E a \in Addr : Activate(a)
    \/ \E v \in Val : Jail(v)
    \/ \E dt \in DtSet, nf \in [Sig -> IntervalSet \cup {0}], ord \in Perms(InPowerIndex) : EndBlock(dt, nf, ord)

Spec == InitSys /\ [][Next]_vars

-----------------------------------------------------------------------------
(* Invariants *)

\* price store (C06): only current feeds have a stored price, written at an end-block since the last list update
InvPrice ==
    /\ \A s \in Sig : /\ price[s].status \in {"NONE", "AVAILABLE", "NOT_READY", "UNKNOWN_SIGNAL_ID"}
                      /\ (price[s].status # "AVAILABLE" => price[s].price = 0)
                      /\ (price[s].status # "NONE" => feeds[s] > 0)
                      /\ (price[s].status # "NONE" => price[s].ts <= now /\ price[s].ts >= updT)
    /\ out \in {"init", "ok", "rej", "err"}

\* validator prices and statuses (C15): well-formed, never from the future; an active validator has activated
InvStatus ==
    /\ h \in Nat /\ now \in Nat /\ updT <= now /\ updH <= h
    /\ \A v \in Val : \A s \in Sig :
          /\ vprice[v][s].st \in {"none", "avail", "unavail", "unsupp"}
          /\ (vprice[v][s].st # "avail" => vprice[v][s].price = 0)
          /\ (vprice[v][s].st # "none" => vprice[v][s].ts <= now /\ vprice[v][s].bh <= h)
    /\ \A a \in Addr : (vstat[a].active => vstat[a].since # Never) /\ vstat[a].since <= now /\ deactEv[a] >= 0

\* the end-blocker never fails: CalculatePrice's error return is unreachable (see PriceStatus)
NoEndBlockError == out # "err"

Inv == InvPrice /\ InvStatus

(* Action properties: XxxA is the action-level formula, Xxx the temporal property *)

Eligible == {v \in InPowerIndex : vstat[v].active}
FreshAt(v, s, interval) == vprice[v][s].st # "none" /\ vprice[v][s].ts >= now - interval

\* C06: what an end-block writes into the price store
PriceRuleA ==
    (h' = h + 1) =>
        \A s \in Sig :
            IF feeds'[s] = 0 THEN price'[s].status = "NONE" \/ price'[s] = price[s]
            ELSE LET I     == feeds'[s]
                     rep   == {v \in Eligible : FreshAt(v, s, I)}
                     av    == {v \in rep : vprice[v][s].st = "avail"}
                     un    == {v \in rep : vprice[v][s].st = "unsupp"}
                     total == SumPower(rep)
                     avail == SumPower(av)
                     unsup == SumPower(un)
                     ps    == {vprice[v][s].price : v \in av}
                     p     == price'[s]
                 IN /\ p.ts = now
                    /\ p.status \in {"AVAILABLE", "NOT_READY", "UNKNOWN_SIGNAL_ID"}
                    /\ (p.status = "UNKNOWN_SIGNAL_ID") <=> (2 * unsup > total)
                    /\ (p.status = "AVAILABLE") <=>
                          (total > 0 /\ 100 * total >= BondedTotal * params.qn /\ 2 * avail >= total /\ ~(2 * unsup > total))
                    /\ (p.status = "AVAILABLE") =>
                          /\ p.price \in ps
                          /\ (\E lo \in ps : lo <= p.price) /\ (\E hi \in ps : hi >= p.price)
                    /\ (p.status # "AVAILABLE") => p.price = 0

PriceOnlyAtEndBlockA == (price' # price) => h' = h + 1

\* C15, feeds half
ActivationRuleA ==
    \A a \in Addr : (~vstat[a].active /\ vstat'[a].active) =>
            /\ h' = h
            /\ (vstat[a].since = Never \/ vstat[a].since + params.penalty <= now)
            /\ vstat'[a].since = now

\* deactivation only at an end-block, only of a listed validator, only for a genuine miss:
\* some current feed without a sufficiently recent price, after the grace period following its
\* activation and following the last feed-list update, in time AND in blocks
DeactivationRuleA ==
    \A a \in Addr : (vstat[a].active /\ ~vstat'[a].active) =>
            /\ h' = h + 1
            /\ vstat'[a].since = now
            /\ a \in Val /\ bonded[a]
            /\ deactEv'[a] = deactEv[a] + 1
            /\ \E s \in Sig :
                  /\ feeds'[s] > 0
                  /\ (vprice[a][s].st = "none" \/ vprice[a][s].ts + feeds'[s] < now)
                  /\ vstat[a].since + params.grace < now
                  /\ updT' + params.grace < now
                  /\ updH' + params.grace \div 3 < h
                  /\ (vprice[a][s].st # "none" => vprice[a][s].bh + feeds'[s] \div 3 < h)

\* a validator holding a sufficiently recent price for every current feed is never deactivated
ReporterSafeA ==
    \A a \in Addr : (vstat[a].active /\ h' = h + 1 /\
            \A s \in Sig : feeds'[s] > 0 => (a \in Val /\ vprice[a][s].st # "none" /\ vprice[a][s].ts + feeds'[s] >= now))
          => vstat'[a].active

\* nobody is deactivated during the grace period after its activation or after a feed-list update
GraceSafeA ==
    \A a \in Addr : (vstat[a].active /\ h' = h + 1 /\
            (vstat[a].since + params.grace >= now \/ updT' + params.grace >= now \/ updH' + params.grace \div 3 >= h))
          => vstat'[a].active

StatusStableA == \A a \in Addr : (vstat[a].active = vstat'[a].active) => (vstat'[a] = vstat[a] /\ deactEv'[a] = deactEv[a])

\* stored validator prices change only by an accepted submission of that validator
VPriceRuleA ==
    \A v \in Val : vprice'[v] # vprice[v] =>
        /\ h' = h /\ out' = "ok" /\ bonded[v] /\ vstat[v].active
        /\ \A s \in Sig : vprice'[v][s] # vprice[v][s] =>
              \/ (vprice'[v][s].ts = now /\ vprice'[v][s].bh = h /\ feeds[s] > 0
                  /\ (vprice[v][s].st = "none" \/ vprice[v][s].ts + params.cool <= now))
              \/ (vprice'[v][s] = NoVP /\ feeds[s] = 0)

PriceRule == [][PriceRuleA]_vars
PriceOnlyAtEndBlock == [][PriceOnlyAtEndBlockA]_vars
ActivationRule == [][ActivationRuleA]_vars
DeactivationRule == [][DeactivationRuleA]_vars
ReporterSafe == [][ReporterSafeA]_vars
GraceSafe == [][GraceSafeA]_vars
StatusStable == [][StatusStableA]_vars
VPriceRule == [][VPriceRuleA]_vars

=============================================================================
