CONSTANTS
  MaxTx = 3
  Deps <- MCDeps
SPECIFICATION MSpec
INVARIANTS TypeOK Sound DetectsCollection DetectsAtCompare DetectsHidden DetectsInvalid DetectsRefusal NoFalseAlarm ExemptHasCause
CHECK_DEADLOCK FALSE
