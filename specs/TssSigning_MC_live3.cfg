\* liveness facet, 3 members / threshold 2 (no symmetry, no state constraint): every signing eventually terminates under weak fairness of
\* the block step; new work stops at MaxH, the clock stops at MaxH + 8 with nothing WAITING (Drained)
CONSTANTS
  Member = {m1, m2, m3}
  Stranger = {}
  TSet = {2}
  MaxSig = 2
  MaxSerial = 2
  MaxDESet = {2}
  MaxAttSet = {2}
  PeriodSet = {1}
  PenaltySet = {1}
  KSet = {1}
  PreSet = {0}
  PostSet = {0}
  TransOn = FALSE
  MaxH = 4
SPECIFICATION SpecBounded
INVARIANTS Drained
PROPERTIES EverySigningTerminates
CHECK_DEADLOCK FALSE
