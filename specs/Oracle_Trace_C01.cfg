\* C01: requests, reports, results, cursor are checked; validator statuses are assumed as observed
CONSTANTS
  Val = {"v1", "v2", "v3", "v4", "v5"}
  Stranger = {"x1"}
  MaxReq = 10
  Units = 2
  ExpSet = {2}
  PenaltySet = {2}
  DtSet = {1}
  AskSet = {1}
  MinSet = {1}
  ShapeSet = {"exact", "missing", "extra", "wrongId", "perm", "dup", "dupAdj"}
  TraceFile = "trace.ndjson"
  Checked = {"count", "lastExpired", "req", "rep", "res", "resolveEv", "pending"}
  Owned = {"Request", "Report", "EndBlock"}
SPECIFICATION TraceSpec
INVARIANTS TInv TraceBoundOK
PROPERTIES TResultImmutable TResultOnlyAtEndBlock TCursorMonotone TReportOnce
POSTCONDITION TraceAccepted
CHECK_DEADLOCK FALSE
