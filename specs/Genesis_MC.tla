---------------------------- MODULE Genesis_MC ----------------------------
(* MC role of Genesis.tla: a small EXECUTABLE model of a chain (modules are sets of keys, a cursor,  *)
(* a derived index, and a hidden account sequence that no digest covers) whose export/import is      *)
(* either faithful or deviates in one of the ways a real ExportGenesis / InitGenesis can:            *)
(*   dropP, dropQ   a collection is not exported                                                     *)
(*   alterP         a collection is exported with a changed entry                                    *)
(*   noIndex        InitGenesis does not rebuild the index of q                                      *)
(*   cursor         a counter is exported off by one                                                 *)
(*   seq            state outside the digests (here: the account sequence) does not carry over       *)
(*   invalid        the exported genesis is refused by the module's own Validate                     *)
(*   refuse         InitChain refuses (panics on) a genesis that validates                           *)
(* The model feeds what the two chains show into the actions of Genesis.tla exactly as the driver    *)
(* does, and TLC checks that the invariants of Genesis.tla                                           *)
(*   - hold on every behaviour of the faithful implementation (Sound),                               *)
(*   - are violated by every deviation that is a deviation (the Detects invariants), in the facet of the deviating  *)
(*     collection, and                                                                               *)
(*   - are not violated in any facet that cannot depend on it (NoFalseAlarm), while every exempt     *)
(*     facet has a reported cause (ExemptHasCause).                                                  *)
EXTENDS Genesis, TLC

CONSTANTS MaxTx       \* number of blocks (one transaction each) before the export / after the import

Colls == {"P.p", "Q.q", "Q.qi", "Q.cnt"}
AllFacets == Colls \cup {"P.tx", "Q.tx", "S.tx", "chain.live"}
GroupOf == [f \in AllFacets |->
    CASE f \in {"P.p", "P.tx"} -> "P"
      [] f \in {"Q.q", "Q.qi", "Q.cnt", "Q.tx"} -> "Q"
      [] f = "S.tx" -> "S"
      [] OTHER -> "chain"]
(* what each group's transactions and end-blockers read (cfg: Deps <- MCDeps) *)
MCDeps == [gr \in {"P", "Q", "S", "chain"} |->
    CASE gr = "P" -> {"P.p"}
      [] gr = "Q" -> {"P.p", "Q.q", "Q.qi", "Q.cnt"}
      [] OTHER -> {}]

Faults == {"none", "dropP", "dropQ", "alterP", "noIndex", "cursor", "seq", "invalid", "refuse"}
Target == [f \in Faults |->
    CASE f \in {"dropP", "alterP"} -> "P.p"
      [] f = "dropQ" -> "Q.q"
      [] f = "noIndex" -> "Q.qi"
      [] f = "cursor" -> "Q.cnt"
      [] OTHER -> "-"]

VARIABLES
    sA, sB,       \* model state of the two chains: [p, q, qi, cnt, seq]
    fault,        \* the deviation of this implementation
    n,            \* transactions executed in the current phase
    last,         \* kind of the last transaction
    b0            \* B's observation at Compare (RoundTrip speaks about that moment)

mvars == <<vars, sA, sB, fault, n, last, b0>>

S0 == [p |-> {}, q |-> {}, qi |-> {}, cnt |-> 0, seq |-> 0]

(* One block with one transaction of kind t: a deterministic function of the state.                  *)
Step(s, t) ==
    CASE t = "tp" ->          \* module P: toggles key 1; reads p only
            [st |-> [s EXCEPT !.p = IF 1 \in s.p THEN s.p \ {1} ELSE s.p \cup {1}],
             code |-> IF 1 \in s.p THEN 1 ELSE 0, grp |-> "P"]
      [] t = "tq" ->          \* module Q: needs p, finds through the index, allocates from the cursor
            IF s.p # {} /\ s.cnt < 2 /\ s.qi = s.q
            THEN [st |-> [s EXCEPT !.q = s.q \cup {s.cnt + 1}, !.qi = s.qi \cup {s.cnt + 1}, !.cnt = s.cnt + 1],
                  code |-> 0, grp |-> "Q"]
            ELSE [st |-> s, code |-> IF s.qi # s.q THEN 3 ELSE IF s.p = {} THEN 2 ELSE 1, grp |-> "Q"]
      [] OTHER ->             \* an SDK transaction: accepted iff it carries the account's sequence
            [st |-> [s EXCEPT !.seq = s.seq + 1], code |-> s.seq, grp |-> "S"]

Tx == {"tp", "tq", "ts"}

Obs(s, r) == [f \in AllFacets |->
    CASE f = "P.p" -> s.p [] f = "Q.q" -> s.q [] f = "Q.qi" -> s.qi [] f = "Q.cnt" -> s.cnt
      [] f = "P.tx" -> IF r.grp = "P" THEN r.code ELSE "-"
      [] f = "Q.tx" -> IF r.grp = "Q" THEN r.code ELSE "-"
      [] f = "S.tx" -> IF r.grp = "S" THEN r.code ELSE "-"
      [] OTHER -> "none"]
NoTx == [grp |-> "-", code |-> "-"]

(* What InitGenesis(ExportGenesis(s)) yields under each deviation.                                   *)
Imported(s, f) ==
    CASE f = "dropP" -> [s EXCEPT !.p = {}]
      [] f = "dropQ" -> [s EXCEPT !.q = {}, !.qi = {}]
      [] f = "alterP" -> [s EXCEPT !.p = IF 2 \in s.p THEN s.p \ {2} ELSE s.p \cup {2}]
      [] f = "noIndex" -> [s EXCEPT !.qi = {}]
      [] f = "cursor" -> [s EXCEPT !.cnt = IF s.cnt > 0 THEN s.cnt - 1 ELSE 0]
      [] f = "seq" -> [s EXCEPT !.seq = 0]
      [] OTHER -> s

MInit ==
    /\ fault \in Faults
    /\ sA = S0 /\ sB = S0 /\ n = 0 /\ last = "-"
    /\ b0 = Obs(S0, NoTx)
    /\ Init(AllFacets, GroupOf, Obs(S0, NoTx))

MRun(t) ==
    /\ n < MaxTx
    /\ LET r == Step(sA, t) IN sA' = r.st /\ Run(Obs(r.st, NoTx))
    /\ n' = n + 1 /\ last' = t
    /\ UNCHANGED <<sB, fault, b0>>

MExport ==
    /\ Export(TRUE, fault # "invalid")
    /\ n' = 0
    /\ UNCHANGED <<sA, sB, fault, last, b0>>

MImport ==
    /\ Import(fault # "refuse")
    /\ sB' = Imported(sA, fault)
    /\ UNCHANGED <<sA, fault, n, last, b0>>

MCompare ==
    /\ LET o == Obs(sB, NoTx) IN
        /\ Compare(o, {c \in Colls : o[c] # g[c]})
        /\ b0' = o
    /\ UNCHANGED <<sA, sB, fault, n, last>>

MStep(t) ==
    /\ n < MaxTx
    /\ LET ra == Step(sA, t)  rb == Step(sB, t) IN
        /\ sA' = ra.st /\ sB' = rb.st
        /\ StepBoth(Obs(ra.st, ra), Obs(rb.st, rb), "none", "none")
    /\ n' = n + 1 /\ last' = t
    /\ UNCHANGED <<fault, b0>>

MNext == (\E t \in Tx : MRun(t) \/ MStep(t)) \/ MExport \/ MImport \/ MCompare
MSpec == MInit /\ [][MNext]_mvars

(* ------------------------------------------------------------------------------------------------ *)
Verdict == ExportedAlwaysValid /\ ImportAccepts /\ RoundTrip /\ SameBehaviour /\ Live

(* the faithful implementation is accepted, always *)
Sound == fault = "none" => Verdict

After == phase \in {"compared", "stepping"}
RT0(f) == b0[f] = g[f]

(* a deviation in a collection is reported by RoundTrip in that collection's facet, exactly when it  *)
(* is one (dropping an empty collection is none)                                                     *)
DetectsCollection == phase = "compared" => \A c \in Colls : RT(c) <=> (Obs(sB, NoTx)[c] = Obs(sA, NoTx)[c])
DetectsAtCompare == (phase = "compared" /\ Target[fault] # "-" /\ ~RT0(Target[fault])) => ~RoundTrip

(* a deviation outside the digests is reported by SameBehaviour as soon as a transaction reads it    *)
DetectsHidden == (phase = "stepping" /\ last = "ts" /\ sA.seq # sB.seq) => ~SameBehaviour

DetectsInvalid == (fault = "invalid" /\ phase # "run") => ~ExportedAlwaysValid
DetectsRefusal == (fault = "refuse" /\ phase = "refused") => ~ImportAccepts

(* no facet is rejected unless the deviating collection is the facet itself or something its group   *)
(* reads (hidden state: only the group that reads it)                                                *)
NoFalseAlarm == After => \A f \in AllFacets :
    LET t == Target[fault] IN
    (f # t /\ t \notin Deps[grp[f]] /\ ~(fault = "seq" /\ f = "S.tx")) => (RT0(f) /\ SB(f))

(* every exemption has a cause that RoundTrip reports in its own facet *)
ExemptHasCause == After => \A f \in AllFacets : ~Intact(grp[f]) => \E c \in Deps[grp[f]] : ~RT0(c)

TypeOK == phase \in {"run", "exported", "imported", "refused", "compared", "stepping"} /\ diff \subseteq Colls
=============================================================================
