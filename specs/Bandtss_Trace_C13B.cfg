CONSTANTS
  Addr = {"a1", "a2", "a3", "a4"}
  Payer = {"p1", "p2"}
  MaxG = 9
  MaxSig = 26
  MemberMenu = {}
  MinDur = 1
  MaxDur = 3
  PeriodSet = {1}
  CreateSet = {2}
  FeeSet = {1}
  DtSet = {1}
  LimitSet = {1}
  ExecOffsets = {1}
  TraceFile = "trace.ndjson"
  Checked = {"clock", "sigc", "sig", "bsigc", "bsig", "bal", "escrow", "earned"}
  Owned = {"Request", "SignAll", "EndBlock"}
SPECIFICATION TraceSpec
INVARIANTS TInvC13 TraceBoundOK
PROPERTIES TConserved TPayIn TPayOut TRejectedUnchanged TNoPayOnFail
POSTCONDITION TraceAccepted
CHECK_DEADLOCK FALSE
