\* packet rule (C08, thorough): one active TSS tunnel, two signals with independent (soft, hard) pairs incl. the
\* swapped pair, prices {missing, 100, 103, 130}, intervals 2 and 3, two route states
CONSTANTS
  MaxTun = 1
  Sig = {"s1", "s2"}
  Acct = {a1, a2}
  Denom = {"ua", "ub"}
  FeeDenom = "ub"
  MinIv = 1
  MaxIv = 10
  MinDev = 50
  MaxDev = 3000
  ParamSet <- P_1_2_3_4
  KindSet = {"tss"}
  IvSet = {2, 3}
  SigSets <- Sig_all
  DevSet <- Dev_pkt
  AmtSet <- Amt_zero
  FundSet = {}
  PriceSet <- Price_four
  ModeSet = {"ok", "noNonces"}
  DtSet = {1}
  InitBal = 3
  MaxNow = 103
  MaxSteps = 0
  NTun = 1
  InitFee = 21
INIT InitPacket
NEXT NextPktCore
VIEW View
CONSTRAINT Bound
INVARIANTS Inv
PROPERTIES SeqStep PacketRule FeesOnlyWithPackets EndBlockFrame ActivationGate Deactivation
CHECK_DEADLOCK FALSE
