------------------------------ MODULE Payload ------------------------------
(***************************************************************************)
(* Property C11: the bytes a group signs are                               *)
(*        H(originator) | block time | signing id | content                *)
(* where the content starts with the 4-byte selector of its kind (route),  *)
(* then the 4-byte tag of its encoder, and encodes exactly the on-chain    *)
(* data at request time.                                                   *)
(*                                                                         *)
(* The module has two levels.                                              *)
(*                                                                         *)
(* (A) The abstract message  Msg(r) = [oh, time, id, tag, shape, fields]   *)
(*     of a request r = [src, o, t, id, c]: a tuple of abstract values.    *)
(*     This is what trace validation compares with the tuple the harness   *)
(*     decodes structurally from the real Signing.Message.                 *)
(*                                                                         *)
(* (B) The byte layout  Bytes(r): a sequence of symbols transcribed from   *)
(*     the Go encoders (x/tss/types/helpers.go EncodeSigning,              *)
(*     originator.go, the five tss_handler.go, oracle/types/result.go,     *)
(*     feeds/types/encoding_tss.go, tunnel/types/encoding_tss.go).  What   *)
(*     matters for injectivity is which fields are fixed-width, which are  *)
(*     length-prefixed and which are raw (undelimited):                    *)
(*                                                                         *)
(*       EncodeSigning   keccak(originator):32 | time:8 | id:8 | content   *)
(*                       (content raw, last)                               *)
(*       Direct orig.    tag:4 | keccak(chain):32 | keccak(requester):32   *)
(*                       | keccak(memo):32          (each string hashed    *)
(*                       SEPARATELY, so every field is fixed-width)        *)
(*       Tunnel orig.    tag:4 | keccak(chain):32 | tunnelID:8             *)
(*                       | keccak(dstChain):32 | keccak(dstAddr):32        *)
(*       content         selector:4 | tag:4 | payload   (x/tss/types/      *)
(*                       content.go wrapHandler: selector = keccak(route   *)
(*                       = module name)[:4]; the five layouts below are    *)
(*                       what follows the selector)                        *)
(*       Text            tag:4 | message (raw, last)                       *)
(*       Transition      tag:4 | pubKey (raw, not length checked) | time:8 *)
(*       Oracle proto    tag:4 | protobuf(Result): tagged fields, strings  *)
(*                       and bytes length-delimited, defaults omitted      *)
(*       Oracle ABI      tag:4 | abi(tuple): uint/int one 32-byte word,    *)
(*                       string/bytes length-prefixed                      *)
(*       Feeds           tag:4 | abi(tuple[] prices, int64 ts): words      *)
(*                       0x40, ts, n, n x (bytes32 signal, price)          *)
(*       Tunnel          tag:4 | abi(tuple(seq, tuple[] prices, createdAt))*)
(*                       words 0x20, seq, 0x60, createdAt, n, n x (..)     *)
(*       bytes32 signal  the string right-aligned, LEFT-PADDED WITH ZERO   *)
(*                       BYTES (StringToBytes32): leading zero bytes of    *)
(*                       the string vanish                                 *)
(*                                                                         *)
(*     A fixed-width field is one symbol (its width does not depend on     *)
(*     its value), a raw field is its characters, a length-prefixed field  *)
(*     is a length symbol followed by its characters.  keccak is an        *)
(*     injective symbol constructor (collision resistance is assumed);     *)
(*     the 4-byte tags are distinct symbols (the projection checks them    *)
(*     against keccak of the documented pre-images).  ABI / protobuf are   *)
(*     modelled at field granularity except for the two price layouts      *)
(*     which share their tags and are modelled word by word.               *)
(*                                                                         *)
(* TLC (Payload_MC) checks that Bytes is injective on originators,         *)
(* contents and whole requests and that Bytes(r1) = Bytes(r2) exactly when *)
(* Msg(r1) = Msg(r2), so that comparing abstract tuples on traces is       *)
(* comparing signed bytes.                                                 *)
(*                                                                         *)
(* Strings are sequences of small integers (bytes); numbers that may       *)
(* exceed 31 bits are opaque tokens (decimal strings on traces), prices    *)
(* that must be compared are sequences of 16-bit limbs.                    *)
(***************************************************************************)
EXTENDS Integers, Sequences, FiniteSets, TLC

CONSTANTS
    MaxSig,      \* bound on the number of signings in one behaviour
    MaxMemo,     \* tss param  max_memo_length
    MaxText,     \* tss param  max_message_length
    MaxSigs,     \* feeds param max_signal_ids_per_signing
    Zero,        \* the token of the number 0 ("0" on traces, 0 in MC)
    FineFrom,    \* prices >= FineFrom: adjacent ticks decode to different integers (10000 for 1.0001^t)
    OrigMode     \* "each" = the code (every originator string hashed separately);
                 \* "concat" = a what-if layout (strings concatenated, then hashed) used as a control of the model

VARIABLES
    chain,       \* the chain id of this behaviour (environment)
    now,         \* block time
    sigc,        \* tss signing count
    reqs,        \* reqs[id] = the request signing id was created for
    out          \* outcome of the last handler call: "ok" / "rej"
vars == <<chain, now, sigc, reqs, out>>

-----------------------------------------------------------------------------
(* helpers *)

\* drop leading zero bytes
StripZ(s) ==
    LET nz == {i \in 1..Len(s) : s[i] # 0} IN
    IF nz = {} THEN <<>>
    ELSE LET m == CHOOSE i \in nz : \A j \in nz : i <= j IN SubSeq(s, m, Len(s))

RECURSIVE Flat(_)
Flat(ss) == IF ss = <<>> THEN <<>> ELSE Head(ss) \o Flat(Tail(ss))

\* limbs: most significant first, equal lengths
RECURSIVE LimbCmp(_, _, _)
LimbCmp(a, b, i) == IF i > Len(a) THEN 0
                    ELSE IF a[i] < b[i] THEN -1
                    ELSE IF a[i] > b[i] THEN 1
                    ELSE LimbCmp(a, b, i + 1)
LimbLE(a, b) == Len(a) = Len(b) /\ LimbCmp(a, b, 1) <= 0
LimbLT(a, b) == Len(a) = Len(b) /\ LimbCmp(a, b, 1) < 0
\* value(pl) < FineFrom  (FineFrom < 2^16)
Coarse(pl) == (\A i \in 1..(Len(pl) - 1) : pl[i] = 0) /\ pl[Len(pl)] < FineFrom

-----------------------------------------------------------------------------
(* originators and contents *)

Direct(ch, requester, memo) == [t |-> "direct", chain |-> ch, req |-> requester, memo |-> memo]
Tunnel(ch, tid, dch, daddr) == [t |-> "tunnel", chain |-> ch, tid |-> tid, dchain |-> dch, daddr |-> daddr]

\* Originator.Validate
ValidOrig(o) ==
    IF o.t = "direct" THEN o.chain # <<>> /\ o.req # <<>> /\ Len(o.memo) <= MaxMemo
    ELSE o.chain # <<>> /\ o.tid # Zero /\ o.dchain # <<>> /\ o.daddr # <<>>

\* content c = [kind, enc, f]
\*   text        f = [msg]
\*   oracle      f = [rid, found, mirror, client, osid, calldata, ask, min, ans, reqT, resT, status, result]
\*   feeds       f = [ps]          ps[i] = [sig, p, v, w]: signal id, on-chain price, encoded value, tick witness
\*   tunnel      f = [seq, ps, at]
\*   transition  f = [pk, execT]
Internal(kind) == kind \in {"tunnel", "transition"}     \* IsInternal() of the five Content types

TagOf(c) ==
    CASE c.kind = "text"       -> "Text"
      [] c.kind = "transition" -> "Transition"
      [] c.kind = "oracle"     -> (CASE c.enc = "proto" -> "Proto" [] c.enc = "full" -> "FullABI" [] c.enc = "partial" -> "PartialABI")
      [] c.kind \in {"feeds", "tunnel"} -> (CASE c.enc = "fixed" -> "FixedPointABI" [] c.enc = "tick" -> "TickABI")

\* the tick encoder: value 0 for price 0; otherwise tick + 2^18 of the largest tick whose price does not exceed the
\* price.  w carries limbs of the price (pl), of the decoded price of the tick (lo) and of the next tick (hi).  Below
\* FineFrom several ticks decode to the same integer, there only the weak bracket is decidable from the decoder.
TickOK(e) ==
    IF e.p = Zero THEN e.v = Zero
    ELSE /\ e.v # Zero
         /\ e.w.loOk
         /\ LimbLE(e.w.lo, e.w.pl)
         /\ \/ e.w.hiInf
            \/ IF Coarse(e.w.pl) THEN LimbLE(e.w.pl, e.w.hi) ELSE LimbLT(e.w.pl, e.w.hi)
ValOK(enc, e) == IF enc = "tick" THEN TickOK(e) ELSE e.v = e.p

\* what the handlers refuse (ValidateBasic of the order + the module's signature-order handler)
ValidContent(c) ==
    CASE c.kind = "text"   -> Len(c.f.msg) <= MaxText
      [] c.kind = "oracle" -> c.f.rid > 0 /\ c.f.found
      [] c.kind = "feeds"  -> /\ Len(c.f.ps) \in 1..MaxSigs
                              /\ \A i \in 1..Len(c.f.ps) : /\ Len(c.f.ps[i].sig) <= 32
                                                            \* ids are left-padded with zero bytes to 32 bytes: an empty id or a
                                                            \* leading zero byte would be signed under another id's name
                                                            /\ Len(c.f.ps[i].sig) >= 1 /\ c.f.ps[i].sig[1] # 0
      [] c.kind = "tunnel" -> \A i \in 1..Len(c.f.ps) : Len(c.f.ps[i].sig) <= 32
      [] OTHER -> TRUE

\* the content is built from the on-chain data at time t
ContentAt(c, t) ==
    CASE c.kind \in {"feeds", "tunnel"} ->
            /\ \A i \in 1..Len(c.f.ps) : ValOK(c.enc, c.f.ps[i])
            /\ c.kind = "tunnel" => c.f.at = t
      [] c.kind = "oracle" -> c.f.mirror
      [] OTHER -> TRUE

PriceFields(ps) == [i \in 1..Len(ps) |-> <<ps[i].sig, ps[i].v>>]

\* the field values a decoder must get back, in the order of the layout
Fields(c, t) ==
    CASE c.kind = "text"       -> <<c.f.msg>>
      [] c.kind = "transition" -> <<c.f.pk, c.f.execT>>
      [] c.kind = "oracle" /\ c.enc \in {"proto", "full"} ->
            <<c.f.client, c.f.osid, c.f.calldata, c.f.ask, c.f.min, c.f.rid, c.f.ans, c.f.reqT, c.f.resT, c.f.status, c.f.result>>
      [] c.kind = "oracle" /\ c.enc = "partial" ->
            <<c.f.calldata, c.f.osid, c.f.rid, c.f.min, c.f.resT, c.f.status, c.f.result>>
      [] c.kind = "feeds"      -> <<PriceFields(c.f.ps), t>>
      [] c.kind = "tunnel"     -> <<c.f.seq, PriceFields(c.f.ps), c.f.at>>

\* (A) the abstract message of request r = [src, o, t, id, c]; oh stands for keccak(encoded originator)
Msg(r) == [oh |-> r.o, time |-> r.t, id |-> r.id, tag |-> TagOf(r.c), shape |-> r.c.kind, fields |-> Fields(r.c, r.t)]

-----------------------------------------------------------------------------
(* (B) byte layout *)

Fx(tag, v) == << <<tag, v>> >>                           \* one fixed-width field
Word(n)    == Fx("w", n)                                 \* 8-byte big endian / 32-byte ABI word / varint
Keccak(bs) == Fx("keccak", bs)                           \* 32 bytes
Tag4(name) == Fx("tag", name)                            \* keccak(name)[:4]
Raw(s)     == [i \in 1..Len(s) |-> <<"b", s[i]>>]        \* the bytes themselves, no delimiter
LP(s)      == Fx("len", Len(s)) \o Raw(s)                \* length-prefixed
B32(s)     == Fx("b32", StripZ(s))                       \* right-aligned, zero-padded to 32 bytes

EncOrig(o) ==
    IF o.t = "direct" THEN
        IF OrigMode = "each"
        THEN Tag4("DirectOriginator") \o Keccak(Raw(o.chain)) \o Keccak(Raw(o.req)) \o Keccak(Raw(o.memo))
        ELSE Tag4("DirectOriginator") \o Keccak(Raw(o.chain) \o Raw(o.req) \o Raw(o.memo))
    ELSE
        IF OrigMode = "each"
        THEN Tag4("TunnelOriginator") \o Keccak(Raw(o.chain)) \o Word(o.tid) \o Keccak(Raw(o.dchain)) \o Keccak(Raw(o.daddr))
        ELSE Tag4("TunnelOriginator") \o Keccak(Raw(o.chain) \o Word(o.tid) \o Raw(o.dchain) \o Raw(o.daddr))

\* protobuf: a field with its default value is omitted, the others carry their field number
PStr(n, s) == IF s = <<>> THEN <<>> ELSE Fx("pf", n) \o LP(s)
PNum(n, x) == IF x = Zero THEN <<>> ELSE Fx("pf", n) \o Word(x)

PriceWords(ps) == Word(Len(ps)) \o Flat([i \in 1..Len(ps) |-> B32(ps[i].sig) \o Word(ps[i].v)])

Payload(c, t) ==
    CASE c.kind = "text"       -> Tag4("Text") \o Raw(c.f.msg)
      [] c.kind = "transition" -> Tag4("Transition") \o Raw(c.f.pk) \o Word(c.f.execT)
      [] c.kind = "oracle" /\ c.enc = "proto" ->
            Tag4("Proto") \o PStr(1, c.f.client) \o PNum(2, c.f.osid) \o PStr(3, c.f.calldata) \o PNum(4, c.f.ask)
              \o PNum(5, c.f.min) \o PNum(6, c.f.rid) \o PNum(7, c.f.ans) \o PNum(8, c.f.reqT) \o PNum(9, c.f.resT)
              \o PNum(10, c.f.status) \o PStr(11, c.f.result)
      [] c.kind = "oracle" /\ c.enc = "full" ->
            Tag4("FullABI") \o LP(c.f.client) \o Word(c.f.osid) \o LP(c.f.calldata) \o Word(c.f.ask) \o Word(c.f.min)
              \o Word(c.f.rid) \o Word(c.f.ans) \o Word(c.f.reqT) \o Word(c.f.resT) \o Word(c.f.status) \o LP(c.f.result)
      [] c.kind = "oracle" /\ c.enc = "partial" ->
            Tag4("PartialABI") \o LP(c.f.calldata) \o Word(c.f.osid) \o Word(c.f.rid) \o Word(c.f.min)
              \o Word(c.f.resT) \o Word(c.f.status) \o LP(c.f.result)
      [] c.kind = "feeds"  -> Tag4(TagOf(c)) \o Word(64) \o Word(t) \o PriceWords(c.f.ps)
      [] c.kind = "tunnel" -> Tag4(TagOf(c)) \o Word(32) \o Word(c.f.seq) \o Word(96) \o Word(c.f.at) \o PriceWords(c.f.ps)

\* the content router prefixes the selector of the route (= module = kind)
EncContent(c, t) == Fx("sel", c.kind) \o Payload(c, t)

Bytes(r) == Keccak(EncOrig(r.o)) \o Word(r.t) \o Word(r.id) \o EncContent(r.c, r.t)

-----------------------------------------------------------------------------
(* actions: one per entry point that can create a signing *)

\* which originator and which kinds a source may use
SrcOK(src, o, c) ==
    CASE src = "user"       -> o.t = "direct" /\ ~Internal(c.kind)                  \* bandtss MsgRequestSignature
      [] src = "oracle"     -> o.t = "direct" /\ o.memo = <<>> /\ c.kind = "oracle"  \* oracle end-block: ResolveSuccess
      [] src = "tunnel"     -> o.t = "tunnel" /\ c.kind = "tunnel"                   \* tunnel SendTSSPacket
      [] src = "transition" -> o.t = "direct" /\ o.memo = <<>> /\ c.kind = "transition"   \* bandtss OnGroupCreationCompleted
      [] OTHER -> FALSE

\* k signings for one request: one per signing group (current, and incoming while a transition waits for execution)
NewReqs(src, o, c, k) == [i \in 1..k |-> [src |-> src, o |-> o, t |-> now, id |-> sigc + i, c |-> c]]

Create(rs) ==
    /\ sigc + Len(rs) <= MaxSig
    /\ \A i \in 1..Len(rs) :
          /\ rs[i].t = now /\ rs[i].id = sigc + i
          /\ rs[i].o.chain = chain
          /\ SrcOK(rs[i].src, rs[i].o, rs[i].c)
          /\ ValidOrig(rs[i].o) /\ ValidContent(rs[i].c) /\ ContentAt(rs[i].c, now)
    /\ reqs' = reqs \o rs
    /\ sigc' = sigc + Len(rs)

\* bandtss MsgRequestSignature by `sender` with `memo` for content c; k = number of signing groups
UserRequest(sender, memo, c, k) ==
    LET o == Direct(chain, sender, memo) IN
    IF Internal(c.kind) \/ ~ValidOrig(o) \/ ~ValidContent(c)
    THEN out' = "rej" /\ UNCHANGED <<chain, now, sigc, reqs>>
    ELSE /\ k \in 1..2
         /\ Create(NewReqs("user", o, c, k))
         /\ out' = "ok"
         /\ UNCHANGED <<chain, now>>

\* a module asks for a signature (oracle result at end-block, tunnel packet, group transition).  Whether and when
\* a module does so is the subject of other properties (C01, C08, C18); here: if it does, this is the message.
ModuleRequest(src, o, c, k) ==
    /\ src \in {"oracle", "tunnel", "transition"}
    /\ k \in 1..2
    /\ Create(NewReqs(src, o, c, k))
    /\ out' = "ok"
    /\ UNCHANGED <<chain, now>>

\* the end of a block: the modules put their pending requests (resolved oracle requests with an encoder, due tunnel
\* packets, a completed key generation of a transition) to the signing group, then the block time advances
EndBlock(rs, dt) ==
    /\ \A i \in 1..Len(rs) : rs[i].src \in {"oracle", "tunnel", "transition"}
    /\ Create(rs)
    /\ out' = "ok"
    /\ now' = now + dt
    /\ UNCHANGED chain

Tick(dt) == now' = now + dt /\ UNCHANGED <<chain, sigc, reqs, out>>

-----------------------------------------------------------------------------
(* invariants and action properties *)

Ids == 1..sigc

IdIsIndex == Len(reqs) = sigc /\ \A i \in Ids : reqs[i].id = i /\ reqs[i].t <= now
\* distinct signings => distinct messages, on both levels
DistinctMsgs  == \A i, j \in Ids : i # j => Msg(reqs[i]) # Msg(reqs[j])
DistinctBytes == \A i, j \in Ids : i # j => Bytes(reqs[i]) # Bytes(reqs[j])
\* users cannot obtain signatures over module-internal kinds; internal kinds come from their module only
InternalRule == \A i \in Ids :
    /\ reqs[i].src = "user" => ~Internal(reqs[i].c.kind)
    /\ reqs[i].c.kind = "tunnel" => reqs[i].src = "tunnel" /\ reqs[i].o.t = "tunnel"
    /\ reqs[i].c.kind = "transition" => reqs[i].src = "transition"
    /\ reqs[i].o.t = "tunnel" => reqs[i].c.kind = "tunnel"
\* every signed message is bound to a valid request with the content rule of its encoder
Bound == \A i \in Ids :
    /\ reqs[i].o.chain = chain /\ ValidOrig(reqs[i].o)
    /\ ValidContent(reqs[i].c) /\ ContentAt(reqs[i].c, reqs[i].t)
Inv == IdIsIndex /\ DistinctMsgs /\ InternalRule /\ Bound

\* signed messages never change and are created with the current block time and the next ids
AppendOnlyA ==
    /\ sigc' >= sigc
    /\ SubSeq(reqs', 1, sigc) = reqs
    /\ \A i \in (sigc + 1)..sigc' : reqs'[i].t = now /\ reqs'[i].id = i
AppendOnly == [][AppendOnlyA]_vars
\* a refused request leaves no signing
RejectA == out' = "rej" => sigc' = sigc
RejectRule == [][RejectA]_vars
=============================================================================
