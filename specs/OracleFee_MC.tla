---------------------------- MODULE OracleFee_MC ----------------------------
EXTENDS OracleFee
\* four data sources over two denoms: (1,0) (2,1) (0,0) (0,2); ds4 shares treasury t1 with ds1
MCFee == (1 :> ("u" :> 1 @@ "x" :> 0)) @@ (2 :> ("u" :> 2 @@ "x" :> 1)) @@
         (3 :> ("u" :> 0 @@ "x" :> 0)) @@ (4 :> ("u" :> 0 @@ "x" :> 2))
MCTreasuryOf == (1 :> "t1") @@ (2 :> "t2") @@ (3 :> "t3") @@ (4 :> "t1")
View == <<bal, nreq, remain, sigFee, open, esc, nsig>>
=============================================================================
