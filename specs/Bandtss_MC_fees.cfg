\* fee facet: two payers' worth of requests against one current group, fee 0/2, limits around the cost, completions
\* and time-outs, one transition possible in between (threshold of the paying group must be the one at request time)
CONSTANTS
  Addr = {"a1", "a2", "a3"}
  Payer = {"p1"}
  MaxG = 2
  MaxSig = 3
  MemberMenu = {{"a1", "a2"}, {"a3"}}
  MinDur = 1
  MaxDur = 3
  PeriodSet = {1}
  CreateSet = {2}
  FeeSet = {0, 2}
  DtSet = {1}
  LimitSet = {0, 3, 4, 5}
  ExecOffsets = {1}
  MaxH = 5
  StartWithGroup = TRUE
  Bal0 = 7
INIT Init
NEXT NextFees
VIEW View
CONSTRAINT Bound
INVARIANTS Inv
PROPERTIES Conserved PayIn PayOut RejectedUnchanged NoPayOnFail GroupChange
CHECK_DEADLOCK FALSE
