CONSTANTS
  Addr = {"a1", "a2", "a3", "a4"}
  Payer = {"p1", "p2"}
  MaxG = 9
  MaxSig = 26
  MemberMenu = {}
  MinDur = 1
  MaxDur = 3
  PeriodSet = {1}
  CreateSet = {2}
  FeeSet = {1}
  DtSet = {1}
  LimitSet = {1}
  ExecOffsets = {1}
  TraceFile = "trace.ndjson"
  Checked = {"clock", "current", "tr", "gcount", "grp", "pendG", "lastExpG", "bm", "sigc", "sig"}
  Owned = {"Propose", "Force", "DkgDone", "Install", "Request", "SignAll", "EndBlock"}
SPECIFICATION TraceSpec
INVARIANTS TInvC18 TraceBoundOK
PROPERTIES TGroupChange TWaitingExec TOneTransition TStart
POSTCONDITION TraceAccepted
CHECK_DEADLOCK FALSE
