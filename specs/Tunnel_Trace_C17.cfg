\* C17: the deposit ledger and the activation gate.  Creation, deposits, withdrawals, (de)activation are owned and
\* all ledgers are checked; the end-block is owned only for the flags (active, index) and the frame condition
\* (ledgers untouched, unflagged tunnels untouched); packets, prices and fees are assumed as observed.
CONSTANTS
  MaxTun = 4
  Sig = {"s1", "s2"}
  Acct = {"p1", "p2", "p3"}
  Denom = {"ua", "ub"}
  FeeDenom = "ub"
  MinIv = 1
  MaxIv = 10
  MinDev = 50
  MaxDev = 3000
  ParamSet = {}
  KindSet = {}
  IvSet = {}
  SigSets = {}
  DevSet = {}
  AmtSet = {}
  FundSet = {}
  PriceSet = {}
  ModeSet = {}
  DtSet = {}
  InitBal = 0
  TraceFile = "trace.ndjson"
  Owned = {"CreateTunnel", "Deposit", "Withdraw", "Activate", "Deactivate", "EndBlock"}
  Checked = {"count", "cfg", "active", "activeIdx", "dep", "totDep", "bal", "modBal"}
  EBChecked = {"count", "cfg", "active", "activeIdx", "dep", "totDep", "bal", "frame"}
SPECIFICATION TraceSpec
INVARIANTS TInvC17 TraceBoundOK
PROPERTIES TWithdrawOwn TDepositOwn TActivationGate TDeactivation
POSTCONDITION TraceAccepted
CHECK_DEADLOCK FALSE
