---------------------------- MODULE FeedsVote_Gen ----------------------------
(***************************************************************************)
(* GEN role: TLC -simulate walks FeedsVote's actions and records each step *)
(* as an abstract script step (voters by index, signals by index, powers   *)
(* in model units; SetPower is realised by the driver with real staking /  *)
(* restake messages).  Rejected votes are kept only when they are near     *)
(* misses or one of the special shapes.  At depth Depth the script is      *)
(* appended to $GEN_OUT.                                                   *)
(***************************************************************************)
EXTENDS FeedsVote, IOUtils, Json

CONSTANTS Depth, PowSet, MaxLen, MaxFeedsSet, StepSet, UpdSet, MinISet, SpanSet
VARIABLES script, par0
gvars == <<vars, script, par0>>

Idx(x) == CHOOSE i \in 1..9 : ToString(x) = "u" \o ToString(i)

Pairs == [s : Signal, p : PowSet]
Distinct(sv) == \A i, j \in 1..Len(sv) : i # j => sv[i].s # sv[j].s
GVotes == {sv \in UNION {[1..k -> Pairs] : k \in 0..MaxLen} : Distinct(sv)}
H1 == 1000000
Q  == 500000
\* refused by the model; the code refuses the first three as well (int64 sum negative or above the power)
Special == {<<[s |-> 1, p |-> H1]>>,
            <<[s |-> 1, p |-> H1], [s |-> 2, p |-> 1]>>,
            <<[s |-> 1, p |-> Q], [s |-> 2, p |-> Q]>>,
            <<[s |-> 1, p |-> 0]>>,
            <<[s |-> 1, p |-> 1], [s |-> 1, p |-> 2]>>}

GPars == {[maxFeeds |-> m, step |-> st, minI |-> mi, maxI |-> mi + sp, upd |-> u] :
             m \in MaxFeedsSet, st \in StepSet, mi \in MinISet, sp \in SpanSet, u \in UpdSet}

GInit ==
    /\ h = 2 /\ par \in GPars
    /\ power = [v \in Voter |-> 0]
    /\ vote = [v \in Voter |-> NoVote] /\ total = NoVote /\ idx = {}
    /\ lock = [v \in Voter |-> NoLock] /\ feeds = {} /\ lastUpd = 0 /\ fpar = par /\ out = "init"
    /\ script = <<>> /\ par0 = par

AtEnd == Len(script) >= Depth - 2

NearMiss(v, sv) ==
    \/ SumSeq(sv) = power[v] + 1
    \/ Len(sv) = par.maxFeeds + 1 /\ SumSeq(sv) <= power[v]

GNext ==
    \/ \E v \in Voter, sv \in GVotes :
          /\ ~AtEnd
          /\ Acceptable(v, sv, "ok") \/ NearMiss(v, sv)
          /\ Vote(v, sv, "ok")
          /\ script' = Append(script, [e |-> "Vote", a |-> Idx(v), sv |-> sv, shape |-> "ok"])
    \/ \E v \in Voter, sv \in Special :
          /\ ~AtEnd
          /\ Vote(v, sv, "ok")
          /\ script' = Append(script, [e |-> "Vote", a |-> Idx(v), sv |-> sv, shape |-> "ok"])
    \/ \E v \in Voter, p \in PowerSet :
          /\ ~AtEnd
          /\ p # power[v]
          /\ SetPower(v, p)
          /\ script' = Append(script, [e |-> "SetPower", a |-> Idx(v), p |-> p])
    \/ \E p \in GPars :
          /\ ~AtEnd /\ p.upd = par.upd
          /\ SetPar(p)
          /\ script' = Append(script, [e |-> "SetPar", maxFeeds |-> p.maxFeeds, step |-> p.step, minI |-> p.minI, maxI |-> p.maxI])
    \/ \E F \in SUBSET Signal :
          /\ EndBlock(F)
          \* one script per block end, whatever the admissible tie choice
          /\ F = CHOOSE G \in SUBSET Signal : (IF IsUpdate THEN TopSel(G) ELSE G = {})
          /\ script' = Append(script, [e |-> "EndBlock"])

GSpec == GInit /\ [][GNext /\ par0' = par0]_gvars

Emit ==
    TLCGet("level") = Depth =>
        Serialize(<<[c |-> [allowed |-> <<"d1">>, maxFeeds |-> par0.maxFeeds, step |-> par0.step, minI |-> par0.minI,
                            maxI |-> par0.maxI, upd |-> par0.upd],
                     steps |-> script]>>,
                  IOEnv.GEN_OUT,
                  [format |-> "NDJSON", charset |-> "UTF-8", openOptions |-> <<"WRITE", "CREATE", "APPEND">>])
=============================================================================
