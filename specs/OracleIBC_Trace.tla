-------------------------- MODULE OracleIBC_Trace --------------------------
(***************************************************************************)
(* Trace validation for OracleIBC.tla (extension X04).  Every line of the  *)
(* ndjson file was recorded from the real code (harness/fam_oracleibc):    *)
(* ibc core's RecvPacket -> x/oracle OnRecvPacket, the oracle message      *)
(* server, the end-blocker, on a localhost (09-localhost) oracle channel.  *)
(*                                                                         *)
(* Same two-phase scheme as Oracle_Trace.tla:                              *)
(*   Act  - an OWNED event must be explained by the spec action it names,  *)
(*          with the logged arguments and outcome; other events stutter;   *)
(*   Sync - every CHECKED variable must equal the projection of the real   *)
(*          state, every other variable adopts it.                         *)
(* The request life cycle itself (committee, reports, when a Result is     *)
(* created, expiry) is the subject of C01/C15: X04 adopts it as observed.  *)
(* Its EndBlock is therefore the IBC part only (IbcEnd), applied to the    *)
(* Results that the observation shows to be new in this block.             *)
(***************************************************************************)
EXTENDS OracleIBC, Json

CONSTANTS TraceFile, Checked, Owned
TraceLog == ndJsonDeserialize(TraceFile)

VARIABLES l, ph
tvars == <<ivars, l, ph>>

ToSet(s) == {s[i] : i \in 1..Len(s)}

LStat(st, a) == IF a \in DOMAIN st.vstat THEN [active |-> st.vstat[a].active, since |-> st.vstat[a].since]
                ELSE [active |-> FALSE, since |-> Never]
LReq(st, id) == IF id <= st.count /\ st.req[id].present
                THEN [present |-> TRUE, vals |-> ToSet(st.req[id].vals), min |-> st.req[id].min,
                      rh |-> st.req[id].rh, rt |-> st.req[id].rt, ok |-> st.req[id].ok]
                ELSE NoReq
LRes(st, id) == IF id <= st.count /\ st.res[id].status # "NONE"
                THEN [status |-> st.res[id].status, ans |-> st.res[id].ans, ask |-> st.res[id].ask,
                      min |-> st.res[id].min, rt |-> st.res[id].rt, resT |-> st.res[id].resT]
                ELSE NoRes
LChan(st, id) == IF id <= st.count THEN st.chan[id] ELSE NoChan
LMeta(st, id) == IF id <= st.count THEN [os |-> st.meta[id].os, client |-> st.meta[id].client] ELSE NoMeta
LRx(st, id)   == IF id <= st.count THEN [client |-> st.rx[id].client, result |-> st.rx[id].result] ELSE NoRx
LPkt(p) == [ch |-> p.ch, seq |-> p.seq, id |-> p.id, client |-> p.client, ans |-> p.ans, rt |-> p.rt,
            resT |-> p.resT, status |-> p.status, result |-> p.result]
LDs(st, d) == IF d <= Len(st.ds)
              THEN [present |-> TRUE, owner |-> st.ds[d].owner, name |-> st.ds[d].name, desc |-> st.ds[d].desc,
                    file |-> st.ds[d].file, fee |-> st.ds[d].fee, tre |-> st.ds[d].tre]
              ELSE NoDs
LOs(st, k) == IF k <= Len(st.os)
              THEN [present |-> TRUE, owner |-> st.os[k].owner, name |-> st.os[k].name, desc |-> st.os[k].desc,
                    file |-> st.os[k].file, schema |-> st.os[k].schema, url |-> st.os[k].url]
              ELSE NoOs

OSent(st)  == [i \in 1..Len(st.sent) |-> LPkt(st.sent[i])]
OAcks(st)  == [i \in 1..Len(st.acks) |-> [ch |-> st.acks[i].ch, id |-> st.acks[i].id]]
OCstate(st) == [c \in Chan |-> st.cstate[c]]
ONsend(st) == [c \in Chan |-> st.nsend[c]]
OBal(st)   == [p \in Payer |-> st.bal[p]]
OTre(st)   == [t \in Treas |-> st.tre[t]]

Line == TraceLog[l]
Outcome == IF Line.o.ok THEN "ok" ELSE "rej"

TraceInit == IInit /\ l = 1 /\ ph = "act"

ResetVars(st) ==
    /\ h' = st.h /\ now' = st.now
    /\ params' = [exp |-> st.exp, penalty |-> st.penalty]
    /\ st.count = 0
    /\ count' = 0 /\ lastExpired' = 0
    /\ req' = [id \in Ids |-> NoReq]
    /\ rep' = [id \in Ids |-> {}]
    /\ res' = [id \in Ids |-> NoRes]
    /\ pending' = <<>>
    /\ vstat' = [a \in Addr |-> LStat(st, a)]
    /\ resolveEv' = [id \in Ids |-> 0]
    /\ out' = "init"
    /\ gvals' = [id \in Ids |-> {}]
    /\ minAt' = [id \in Ids |-> 0]
    /\ resAt' = [id \in Ids |-> 0]
    /\ ibcOn' = st.ibcOn
    /\ cstate' = OCstate(st)
    /\ chan' = [id \in Ids |-> NoChan]
    /\ meta' = [id \in Ids |-> NoMeta]
    /\ st.acks = <<>> /\ st.sent = <<>> /\ st.nfail = 0
    /\ acks' = <<>> /\ sent' = <<>>
    /\ nsend' = ONsend(st)
    /\ nfail' = 0
    /\ bal' = OBal(st)
    /\ tre' = OTre(st)
    /\ rx' = [id \in Ids |-> NoRx]
    /\ ds' = [d \in DsIds |-> LDs(st, d)] /\ nds' = st.nds
    /\ os' = [k \in OsIds |-> LOs(st, k)] /\ nos' = st.nos
    /\ ackOut' = "none" /\ inp' = NoInp
    /\ gchan' = [id \in Ids |-> NoChan]
    /\ gfail' = {}
    /\ gpayer' = [id \in Ids |-> ""]

\* the committee of a new request is taken from the observation (the sampler is C09's subject); RequestOK still
\* requires it to be an ask-sized set of eligible validators
ObsCommittee == LET st == Line.s id == count + 1 IN
                IF id <= st.count /\ st.req[id].present THEN ToSet(st.req[id].vals) ELSE {}

TDirect ==
    LET a == Line.a IN
        \/ /\ Line.o.ok
           /\ DirectOK(a.p, a.os, a.ask, a.min, a.limit, a.enc, a.client, ObsCommittee)
        \/ /\ ~Line.o.ok
           /\ DirectRej(a.p, a.os, a.ask, a.min, a.limit, a.enc)

\* o.ack: "ok" (result acknowledgement) | "err" (error acknowledgement) | "none" (ibc core refused the message);
\* o.ackStored: the acknowledgement commitment in the ibc store is the hash of that acknowledgement
TRecv ==
    LET a == Line.a IN
        \/ /\ Line.o.ack = "ok" /\ Line.o.ackStored /\ Line.o.ackId = count + 1
           /\ RecvOK(a.c, a.p, a.os, a.ask, a.min, a.limit, a.enc, a.form, a.client, ObsCommittee)
        \/ /\ Line.o.ack = "err" /\ Line.o.ackStored
           /\ RecvErr(a.c, a.p, a.os, a.ask, a.min, a.limit, a.enc, a.form)
        \/ /\ Line.o.ack = "none"
           /\ RecvCore(a.c)

\* the IBC part of the end-block, for the Results the observation shows to be new
TEndBlock ==
    LET st == Line.s
        newIds == {id \in Ids : id <= st.count /\ res[id].status = "NONE" /\ st.res[id].status # "NONE"}
        order == SelectSeq(pending, LAMBDA id : id \in newIds) \o SortedSeq(newIds \ Range(pending))
        R == [id \in Ids |-> LRes(st, id)]
        gone == {id \in Ids : req[id].present /\ ~LReq(st, id).present}
    IN /\ Line.o.ok
       /\ h' = h + 1 /\ now' = now + Line.a.dt
       /\ res' = [id \in Ids |-> IF id \in newIds THEN R[id] ELSE res[id]]
       /\ IbcEnd(order, R, gone)
       /\ out' = "ok" /\ ackOut' = "none"
       /\ UNCHANGED <<params, count, lastExpired, req, rep, pending, vstat, resolveEv, ghosts>>
       /\ UNCHANGED <<ibcOn, cstate, acks, bal, tre, registry, inp, gchan, gpayer>>

TCreateDS == LET a == Line.a IN CreateDS(a.s, a.owner, a.name, a.desc, a.cont, a.fee, a.tre) /\ out' = Outcome
TEditDS   == LET a == Line.a IN EditDS(a.s, a.id, a.owner, a.name, a.desc, a.cont, a.fee, a.tre) /\ out' = Outcome
TCreateOS == LET a == Line.a IN CreateOS(a.s, a.owner, a.name, a.desc, a.schema, a.url, a.cont) /\ out' = Outcome
TEditOS   == LET a == Line.a IN EditOS(a.s, a.id, a.owner, a.name, a.desc, a.schema, a.url, a.cont) /\ out' = Outcome
TChanOpen == ChanOpen(Line.a.step, Line.a.order, Line.a.ver) /\ out' = Outcome

Act ==
    /\ ph = "act" /\ l <= Len(TraceLog)
    /\ ph' = "sync" /\ l' = l
    /\ IF Line.e = "Reset" THEN ResetVars(Line.s)
       ELSE IF Line.e \notin Owned THEN UNCHANGED <<vars, ibcObs, inp, ibcGhosts>> /\ ackOut' = "none"
       ELSE CASE Line.e = "Request"  -> TDirect
              [] Line.e = "Recv"     -> TRecv
              [] Line.e = "EndBlock" -> TEndBlock
              [] Line.e = "CreateDS" -> TCreateDS
              [] Line.e = "EditDS"   -> TEditDS
              [] Line.e = "CreateOS" -> TCreateOS
              [] Line.e = "EditOS"   -> TEditOS
              [] Line.e = "ChanOpen" -> TChanOpen

\* checked variable: must equal the observation; unchecked: adopt the observation
Bind(name, cur, nxt, obs) == IF name \in Checked THEN cur = obs /\ nxt = cur ELSE nxt = obs

Sync ==
    /\ ph = "sync"
    /\ ph' = "act" /\ l' = l + 1
    /\ LET st == Line.s IN
        /\ st.count <= MaxReq /\ st.nds <= MaxDs /\ st.nos <= MaxOs
        /\ h = st.h /\ now = st.now /\ UNCHANGED <<h, now>>      \* the block clock is always an input
        /\ params' = [exp |-> st.exp, penalty |-> st.penalty]
        /\ Bind("count", count, count', st.count)
        /\ Bind("lastExpired", lastExpired, lastExpired', st.lastExpired)
        /\ Bind("req", req, req', [id \in Ids |-> LReq(st, id)])
        /\ Bind("rep", rep, rep', [id \in Ids |-> IF id <= st.count THEN ToSet(st.rep[id]) ELSE {}])
        /\ Bind("res", res, res', [id \in Ids |-> LRes(st, id)])
        /\ Bind("resolveEv", resolveEv, resolveEv', [id \in Ids |-> IF id <= st.count THEN st.resolveEv[id] ELSE 0])
        /\ Bind("pending", pending, pending', st.pending)
        /\ Bind("vstat", vstat, vstat', [a \in Addr |-> LStat(st, a)])
        \* environment: always as observed
        /\ ibcOn' = st.ibcOn
        /\ cstate' = OCstate(st)
        \* X04's own variables
        /\ Bind("chan", chan, chan', [id \in Ids |-> LChan(st, id)])
        /\ Bind("meta", meta, meta', [id \in Ids |-> LMeta(st, id)])
        /\ Bind("acks", acks, acks', OAcks(st))
        /\ Bind("sent", sent, sent', OSent(st))
        /\ ("sent" \in Checked) => st.commitOK        \* every logged packet has its commitment in the ibc store, and no other
        /\ Bind("nsend", nsend, nsend', ONsend(st))
        /\ Bind("nfail", nfail, nfail', st.nfail)
        /\ Bind("bal", bal, bal', OBal(st))
        /\ Bind("tre", tre, tre', OTre(st))
        /\ Bind("rx", rx, rx', [id \in Ids |-> LRx(st, id)])
        /\ Bind("ds", ds, ds', [d \in DsIds |-> LDs(st, d)])
        /\ ("ds" \in Checked) => st.filesOK           \* every stored file name is the SHA-256 of a cached file with the uploaded content
        /\ Bind("nds", nds, nds', st.nds)
        /\ Bind("os", os, os', [k \in OsIds |-> LOs(st, k)])
        /\ Bind("nos", nos, nos', st.nos)
    /\ UNCHANGED <<out, ghosts, ibcOut, ibcGhosts>>

TraceNext == Act \/ Sync
TraceSpec == TraceInit /\ [][TraceNext]_tvars

TraceAccepted ==
    LET d == TLCGet("stats").diameter IN
    IF d - 1 = 2 * Len(TraceLog) THEN TRUE
    ELSE Print(<<"TRACE_REJECTED_AT_LINE", (d + 1) \div 2, "PHASE", IF d % 2 = 1 THEN "act" ELSE "sync", "OF", Len(TraceLog)>>, FALSE)

\* the bounds of the trace spec must not be what stops a request / a creation
TraceBoundOK == count < MaxReq /\ nds < MaxDs /\ nos < MaxOs

\* invariants are evaluated on the states between lines (after Sync)
AtLine == ph = "act"
TInv == AtLine => IbcInv

\* the action properties of OracleIBC, on every Act step that is not a Reset
Exempt == ph = "sync" \/ (l <= Len(TraceLog) /\ TraceLog[l].e = "Reset")
TFeeExact       == [][Exempt \/ FeeExactA]_tvars
TConserved      == [][Exempt \/ ConservedA]_tvars
TAckRule        == [][Exempt \/ AckRuleA]_tvars
TResponseTimely == [][Exempt \/ ResponseTimelyA]_tvars
TOwnerOnly      == [][Exempt \/ OwnerOnlyA]_tvars
=============================================================================
