\* facet "fee": the price rule -- global x node price, gas x fee ladder around gas*price, a poor payer whose
\* balance shrinks with delivered fees (exempt txs are not charged at CheckTx, paying ones need the balance)
CONSTANTS
  Val = {"v1"}
  Acct = {"g1", "x1"}
  ReqIds = {1}
  SigIds = {1}
  MaxRoom = 1
  PD = 10000
  Kinds = {"report"}
  Grantees = {"g1"}
  Members = {}
  MinpSet = {0, 25, 100}
  LocalpSet = {0, 50}
  GasSet = {100000, 200000, 200001}
  FeeSet = {0, 249, 250, 499, 500, 501, 999, 1000, 1001, 2000, 2001}
  Stranger = "x1"
  DeliverSet = {500}
  Poor = {"g1", "v1"}
  PoorBal = 1000
  RichBal = 5000
  Depth2 = FALSE
  Pairs = FALSE
  GrantUsed <- GrantU_fee
SPECIFICATION Spec
VIEW View
INVARIANTS TypeOK ExemptSound ExemptComplete
PROPERTIES NoFreeRide EntitledNeverCharged EntitledAdmitted PaidRule ClassSplit CheckPure SignerRule
CHECK_DEADLOCK FALSE
