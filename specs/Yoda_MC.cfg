\* quick facet "interleavings": two concurrent requests with up to 2 raw requests each over 2 data sources
\* (repeats included), every completion order, executables fetched by the first worker that needs them and found in
\* the cache by later ones, executor ok / error
CONSTANTS
  Req = {1, 2}
  DS = {1, 2}
  MaxTry = 3
  SliceBug = FALSE
  TxSkip = "return"
  AssumeSnapshot = TRUE
  NSet = {1, 2}
  NSet2 = {1, 2}
  WantSet = {"me"}
  FReqSet = {0}
  FHashSet = {0}
  FDataSet = {0}
  LenSet = {5}
  CachedSet = {FALSE}
  DmgSet = {FALSE}
  KindSet = {"ok", "error"}
  Modes = {"direct"}
  DeliverAnyTime = FALSE
SPECIFICATION MCSpec
VIEW View
INVARIANTS Inv ExactlyOnceAtEnd
PROPERTIES QueueAppendOnly DeliverOK
CHECK_DEADLOCK FALSE
