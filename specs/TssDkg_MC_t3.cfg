\* thorough: n=3, t=3 and n=3, t=1..3 with three polynomial choices per dealer, <= 2 deviations
CONSTANTS
  MaxN = 3
  NSet = {3}
  TSet = {1, 2, 3}
  Q = 5
  Periods = {4}
  PolyMode = "few"
  MaxH = 6
  MaxDev = 2
INIT Init
NEXT MCNext
VIEW View
CONSTRAINT Bound
INVARIANTS Inv
PROPERTIES StatusMonotone MalSticky NeverActiveAfterMal KeysImmutable MalOnlyByComplain RejectedNoEffect
CHECK_DEADLOCK FALSE
