\* thorough live facet: two signals, I = 20 (1/3 scale: cool 10, buffer 1, unavailable offset 3, grace 10), P = 1,
\* Lmax = 1, block lag <= 1; s1 moves around its deviation threshold, s2 flips between available and unavailable
CONSTANTS
  Sig = {"s1", "s2"}
  Start = 50
  Offset = 30
  SlotChoices = {50, 79}
  Buffer = 1
  UOff = 3
  MaxT = 161
  MaxH = 0
  MaxSub = 0
  MaxMem = 0
  RelCap = 24
  GraceCap = 13
  ParSet <- ParSet20
  FeedInit <- FeedInit20
  FeedChanges <- NoFeeds
  Quotes <- QuotesLean
SPECIFICATION LiveSpec
VIEW View
INVARIANTS Inv Calm StatedImpliesExact
PROPERTIES Release
CHECK_DEADLOCK FALSE
