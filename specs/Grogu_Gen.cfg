CONSTANTS
  Sig = {"s1", "s2"}
  Start = 50
  Offset = 30
  SlotChoices = {50, 57, 64, 71, 79}
  Buffer = 3
  UOff = 10
  Depth = 800
SPECIFICATION GSpec
INVARIANT Emit
CHECK_DEADLOCK FALSE
