\* C15 (oracle half): validator statuses and Activate outcomes are checked; the rest is assumed as observed
CONSTANTS
  Val = {"v1", "v2", "v3", "v4", "v5"}
  Stranger = {"x1"}
  MaxReq = 10
  Units = 2
  ExpSet = {2}
  PenaltySet = {2}
  DtSet = {1}
  AskSet = {1}
  MinSet = {1}
  ShapeSet = {"exact", "missing", "extra", "wrongId", "perm", "dup", "dupAdj"}
  TraceFile = "trace.ndjson"
  Checked = {"vstat"}
  Owned = {"Activate", "EndBlock"}
SPECIFICATION TraceSpec
INVARIANTS TraceBoundOK
PROPERTIES TActivationRule TDeactivationRule TStatusStable TReporterSafe
POSTCONDITION TraceAccepted
CHECK_DEADLOCK FALSE
