\* C20: the daemon's decisions, the submitter's bookkeeping and the chain's answers are owned; the whole projected
\* state is checked.  Code constants: TimeBuffer 3, FixedIntervalOffset 10, distribution 50 + [0, 30).
CONSTANTS
  Sig = {"s1", "s2", "s3"}
  Start = 50
  Offset = 30
  SlotChoices <- AllSlots
  Buffer = 3
  UOff = 10
  TraceFile = "trace.ndjson"
  Checked = {"upd", "vp", "slot", "active", "pending", "subs", "nsub", "mempool", "lastPoll"}
  Owned = {"Poll", "PollFail", "Bcast", "Block", "TxResult"}
SPECIFICATION TraceSpec
INVARIANTS TInv TCalmKept
PROPERTIES TRelease
POSTCONDITION TraceAccepted
CHECK_DEADLOCK FALSE
