---------------------------- MODULE FeedsPrice_MC ----------------------------
(***************************************************************************)
(* MC role for FeedsPrice.tla.                                             *)
(*  pure facet    (PureInit/PureNext): every sequence of <= MaxN entries   *)
(*                over PPowerSet x PTsSet x (PPriceSet | unavail | unsupp) *)
(*                is a state; the Pure* invariants are checked on each.    *)
(*  system facets (MCInit/MCNext): Submit / Activate / Jail / EndBlock     *)
(*                over small constants, bounded by h <= MaxH.              *)
(***************************************************************************)
EXTENDS FeedsPrice

CONSTANTS MaxH, MaxN, PPowerSet, PTsSet, PPriceSet
VARIABLE infos
mvars == <<vars, infos>>
ToffM == {-2, 0, 1}   \* cfg files cannot write negative numbers: ToffSet <- ToffM

-----------------------------------------------------------------------------
(* pure facet *)

Entries == {[pw |-> p, ts |-> t, price |-> c, st |-> "avail"] : p \in PPowerSet, t \in PTsSet, c \in PPriceSet}
      \cup {[pw |-> p, ts |-> t, price |-> 0, st |-> st] : p \in PPowerSet, t \in PTsSet, st \in {"unavail", "unsupp"}}

DummySys ==
    /\ h = 0 /\ now = 0
    /\ params = [grace |-> 1, cool |-> 1, disc |-> 1, upd |-> 1, qn |-> 1, penalty |-> 1]
    /\ feeds = [s \in Sig |-> 0] /\ updT = 0 /\ updH = 0
    /\ vprice = [v \in Val |-> [s \in Sig |-> NoVP]]
    /\ price = [s \in Sig |-> NoPrice]
    /\ vstat = [a \in Addr |-> [active |-> FALSE, since |-> Never]]
    /\ deactEv = [a \in Addr |-> 0]
    /\ bonded = [v \in Val |-> TRUE] /\ jailed = {} /\ power = [v \in Val |-> 1]
    /\ out = "init"

PureInit == infos = <<>> /\ DummySys
PureNext == /\ Len(infos) < MaxN
            /\ \E e \in Entries : infos' = Append(infos, e)
            /\ UNCHANGED vars

PureRange  == PureRangeOf(infos)
PureScale  == PureScaleOf(infos)
PureOrder  == PureOrderOf(infos)
PureStatus == PureStatusOf(infos)
PureAlt    == PureAltOf(infos)

-----------------------------------------------------------------------------
(* system facets *)

MCInit == InitSys /\ infos = <<>>
\* quick price facet: at most one validator starts oracle-inactive
PriceInit == MCInit /\ Cardinality({v \in Val : ~vstat[v].active}) <= 1
MCNext == Next /\ UNCHANGED infos

\* timing facets: one canonical iteration order (the validators are interchangeable there), well-formed
\* one-price submissions, no jailing; the feed list changes only when UpdSet makes h a multiple of params.upd
CanonOrder == CHOOSE o \in Perms(InPowerIndex) : TRUE
FullMsg    == [s \in Cur |-> [st |-> "avail", price |-> 1]]
MissNext ==
    /\ \/ \E a \in Addr : Cur # {} /\ Submit(a, 0, FullMsg, "wf")
       \/ \E a \in Addr : Activate(a)
       \/ \E dt \in DtSet, nf \in [Sig -> IntervalSet \cup {0}] :
              /\ (h % params.upd # 0 => nf = feeds)
              /\ EndBlock(dt, nf, CanonOrder)
    /\ UNCHANGED infos

\* iteration orders tried by the price facets: one order and its reverse (the order matters only between validators with
\* equal tokens and equal timestamps), or all of them
CONSTANT AllOrders
Reverse(q) == [i \in 1..Len(q) |-> q[Len(q) + 1 - i]]
OrderSet == IF AllOrders THEN Perms(InPowerIndex) ELSE {CanonOrder, Reverse(CanonOrder)}

\* price facets: every validator submits any full message (all statuses), any may be jailed
PriceNext ==
    /\ \/ \E a \in Val, m \in [Cur -> StPrice] : Cur # {} /\ Submit(a, 0, m, "wf")
       \/ \E v \in Val : Jail(v)
       \/ \E dt \in DtSet, ord \in OrderSet : EndBlock(dt, feeds, ord)
    /\ UNCHANGED infos

\* facet with every validator active since before the start and an arbitrary stored price each
Sym   == Permutations(Val)
Bound == h <= MaxH
\* event counters are output-only: not part of the state identity
View  == <<h, now, params, feeds, updT, updH, vprice, price, vstat, bonded, jailed, power, out>>

MCPriceRule == [][PriceRuleA]_mvars
MCPriceOnlyAtEndBlock == [][PriceOnlyAtEndBlockA]_mvars
MCActivationRule == [][ActivationRuleA]_mvars
MCDeactivationRule == [][DeactivationRuleA]_mvars
MCReporterSafe == [][ReporterSafeA]_mvars
MCGraceSafe == [][GraceSafeA]_mvars
MCStatusStable == [][StatusStableA]_mvars
MCVPriceRule == [][VPriceRuleA]_mvars
=============================================================================
