---------------------------- MODULE FeedsPrice_MC ----------------------------
(***************************************************************************)
(* MC role for FeedsPrice.tla.                                             *)
(*  pure facet    (PureInit/PureNext): every sequence of <= MaxN entries   *)
(*                over PPowerSet x PTsSet x (PPriceSet | unavail | unsupp) *)
(*                is a state; the Pure* invariants are checked on each.    *)
(*  system facets (MCInit/MCNext): Submit / Activate / Jail / EndBlock     *)
(*                over small constants, bounded by h <= MaxH.              *)
(***************************************************************************)
EXTENDS FeedsPrice

CONSTANTS MaxH, MaxN, PPowerSet, PTsSet, PPriceSet
VARIABLE infos
mvars == <<vars, infos>>

-----------------------------------------------------------------------------
(* pure facet *)

Entries == {[pw |-> p, ts |-> t, price |-> c, st |-> "avail"] : p \in PPowerSet, t \in PTsSet, c \in PPriceSet}
      \cup {[pw |-> p, ts |-> t, price |-> 0, st |-> st] : p \in PPowerSet, t \in PTsSet, st \in {"unavail", "unsupp"}}

DummySys ==
    /\ h = 0 /\ now = 0
    /\ params = [grace |-> 1, cool |-> 1, disc |-> 1, upd |-> 1, qn |-> 1, penalty |-> 1]
    /\ feeds = [s \in Sig |-> 0] /\ updT = 0 /\ updH = 0
    /\ vprice = [v \in Val |-> [s \in Sig |-> NoVP]]
    /\ price = [s \in Sig |-> NoPrice]
    /\ vstat = [a \in Addr |-> [active |-> FALSE, since |-> Never]]
    /\ deactEv = [a \in Addr |-> 0]
    /\ bonded = [v \in Val |-> TRUE] /\ jailed = {} /\ power = [v \in Val |-> 1]
    /\ out = "init"

PureInit == infos = <<>> /\ DummySys
PureNext == /\ Len(infos) < MaxN
            /\ \E e \in Entries : infos' = Append(infos, e)
            /\ UNCHANGED vars

AvailIdx(s)    == {i \in 1..Len(s) : s[i].st = "avail"}
AvailPrices(s) == {s[i].price : i \in AvailIdx(s)}
ScalePw(s, k)  == [i \in 1..Len(s) |-> [s[i] EXCEPT !.pw = @ * k]]
Permute(s, p)  == [i \in 1..Len(s) |-> s[p[i]]]

\* the result is one of the available input prices (hence within [min, max]); error iff there is none
PureRange ==
    LET m == Median(infos)  ps == AvailPrices(infos) IN
    /\ m.ok <=> ps # {}
    /\ m.ok => /\ m.price \in ps
               /\ \A q \in ps : (\A r \in ps : q <= r) => q <= m.price
               /\ \A q \in ps : (\A r \in ps : q >= r) => q >= m.price

\* the whole rule is homogeneous in the powers (no division anywhere): scaling changes nothing
PureScale ==
    \A k \in {2, 3, 7, 1000} :
        /\ Median(ScalePw(infos, k)) = Median(infos)
        /\ \A q \in 0..(SumPw(infos) + 1) : CalcPrice(ScalePw(infos, k), q * k) = CalcPrice(infos, q)

\* the order of the entries matters only between available entries with the same (timestamp, power)
TieFree(s) == \A i, j \in AvailIdx(s) : (i # j /\ s[i].ts = s[j].ts /\ s[i].pw = s[j].pw) => s[i].price = s[j].price
PureOrder ==
    \A p \in Perms(1..Len(infos)) :
        /\ Powers(Permute(infos, p)) = Powers(infos)
        /\ TieFree(infos) => Median(Permute(infos, p)) = Median(infos)

\* AVAILABLE / UNKNOWN_SIGNAL_ID / NOT_READY exactly by the rule; the error return needs quorum 0 and no input
PureStatus ==
    LET P == Powers(infos) IN
    \A q \in 0..(P.total + 1) :
        LET r == CalcPrice(infos, q) IN
        /\ (r.status = "UNKNOWN_SIGNAL_ID") <=> (2 * P.unsupp > P.total)
        /\ (r.status \in {"AVAILABLE", "ERROR"}) <=> (P.total >= q /\ 2 * P.avail >= P.total /\ ~(2 * P.unsupp > P.total))
        /\ (r.status = "ERROR") <=> (infos = <<>> /\ q = 0)
        /\ (r.status \notin {"UNKNOWN_SIGNAL_ID", "AVAILABLE", "ERROR"}) <=> (r.status = "NOT_READY")
        /\ (r.status = "AVAILABLE") => (Median(infos).ok /\ r.price = Median(infos).price)
        /\ (r.status # "AVAILABLE") => r.price = 0
        /\ P.total = P.avail + P.unavail + P.unsupp

\* independent (declarative) reading of the two loops, must agree with the transcription:
\*  - the k-th sorted entry occupies [32*prefix(k-1), 32*prefix(k)) of the scaled power line; its weight is the
\*    multiplier-weighted overlap with the sections [0,1T) [1T,3T) [3T,7T) [7T,15T) [15T,32T);
\*  - the median is the least price P with 2 * (weight of prices <= P) >= total weight.
Min2(a, b) == IF a <= b THEN a ELSE b
Overlap(a, b, lo, hi) == Max2(0, Min2(b, hi) - Max2(a, lo))
Lim(total) == <<0, total * 1, total * 3, total * 7, total * 15, total * 32>>
AltWeight(a, b, total) ==
    LET L == Lim(total) IN
    Mult[1] * Overlap(a, b, L[1], L[2]) + Mult[2] * Overlap(a, b, L[2], L[3]) + Mult[3] * Overlap(a, b, L[3], L[4])
  + Mult[4] * Overlap(a, b, L[4], L[5]) + Mult[5] * Overlap(a, b, L[5], L[6])
RECURSIVE Prefix(_, _)
Prefix(s, k) == IF k = 0 THEN 0 ELSE s[k].pw + Prefix(s, k - 1)
AltWeights(s) ==
    LET valid  == OnlySt(s, "avail")
        total  == SumPw(valid)
        sorted == StableSort(valid, NewerBigger)
    IN [k \in 1..Len(sorted) |-> [w |-> AltWeight(Scale * Prefix(sorted, k - 1), Scale * Prefix(sorted, k), total),
                                  price |-> sorted[k].price]]
RECURSIVE SumWUpTo(_, _, _)
SumWUpTo(wps, k, P) == IF k = 0 THEN 0 ELSE (IF wps[k].price <= P THEN wps[k].w ELSE 0) + SumWUpTo(wps, k - 1, P)
AltMedian(wps) ==
    LET W  == SumW(wps)
        ok == {wps[i].price : i \in {j \in 1..Len(wps) : 2 * SumWUpTo(wps, Len(wps), wps[j].price) >= W}}
    IN IF ok = {} THEN [ok |-> FALSE, price |-> 0]
       ELSE [ok |-> TRUE, price |-> CHOOSE p \in ok : \A q \in ok : p <= q]
PureAlt ==
    LET wps == WeightedPrices(infos) IN
    /\ wps = AltWeights(infos)
    /\ Median(infos) = AltMedian(wps)
    /\ SumW(wps) = 478 * Powers(infos).avail       \* 1*60 + 2*40 + 4*20 + 8*11 + 17*10: no power lost or counted twice
    /\ \A i \in 1..Len(wps) : wps[i].w >= 0

PureInv == PureRange /\ PureScale /\ PureOrder /\ PureStatus /\ PureAlt

-----------------------------------------------------------------------------
(* system facets *)

MCInit == InitSys /\ infos = <<>>
MCNext == Next /\ UNCHANGED infos

\* facet with every validator active since before the start and an arbitrary stored price each
Sym   == Permutations(Val)
Bound == h <= MaxH
\* event counters are output-only: not part of the state identity
View  == <<h, now, params, feeds, updT, updH, vprice, price, vstat, bonded, jailed, power, out>>

MCPriceRule == [][PriceRuleA]_mvars
MCPriceOnlyAtEndBlock == [][PriceOnlyAtEndBlockA]_mvars
MCActivationRule == [][ActivationRuleA]_mvars
MCDeactivationRule == [][DeactivationRuleA]_mvars
MCReporterSafe == [][ReporterSafeA]_mvars
MCGraceSafe == [][GraceSafeA]_mvars
MCStatusStable == [][StatusStableA]_mvars
MCVPriceRule == [][VPriceRuleA]_mvars
=============================================================================
