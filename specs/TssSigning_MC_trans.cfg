\* facet: group transition: hand-over signing created in the pending-group phase (or the transition dropped), incoming group asked best effort while the transition awaits execution; threshold 2, 3 signings, <=2 pairs per member, period 1, one attempt, h<=5
CONSTANTS
  Member = {m1, m2, m3}
  Stranger = {}
  TSet = {2}
  MaxSig = 3
  MaxSerial = 2
  MaxDESet = {2}
  MaxAttSet = {1}
  PeriodSet = {1}
  PenaltySet = {1}
  KSet = {1, 2}
  PreSet = {0}
  PostSet = {0}
  TransOn = TRUE
  MaxH = 5
INIT Init
NEXT NextMC
SYMMETRY Sym
VIEW View
CONSTRAINT Bound
INVARIANTS Inv OnTime BoundedTermination
PROPERTIES AssignFromHead Fifo QueueStep Eligible RejectedNoChange GhostExact CreationExact DEPartOK Status Attempt NoEarlyTimeout ExactTimeout NewAttempt Success Timeout Penalty Signed Callback TransitionStep
CHECK_DEADLOCK FALSE
