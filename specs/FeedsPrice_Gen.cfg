\* C06: Calc cases (pure binding) and system scripts with all statuses, several prices, quorum boundaries, stale prices
CONSTANTS
  Val = {"v1", "v2", "v3"}
  Stranger = {"x1"}
  Sig = {"s1", "s2"}
  GraceSet = {4, 10, 30}
  CoolSet = {1, 2}
  DiscSet = {1}
  UpdSet = {4, 100}
  QuorumSet = {30, 50, 67, 100}
  PenaltySet = {0, 2}
  DtSet = {0, 1, 2, 3}
  IntervalSet = {1, 2, 3, 6}
  PowerSet = {1, 2, 3, 4, 9}
  PriceSet = {1, 2, 3}
  StatusSet = {"avail", "unavail", "unsupp"}
  ToffSet <- ToffG
  Depth = 60
  ModeSet = {"sys", "calc"}
  MinActive = 2
  SubmitW = 10
SPECIFICATION GSpec
INVARIANT Emit
CHECK_DEADLOCK FALSE
