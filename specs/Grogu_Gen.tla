------------------------------ MODULE Grogu_Gen ------------------------------
(***************************************************************************)
(* GEN role: `tlc -simulate` walks Grogu.tla at the real scale (buffer 3,  *)
(* unavailable offset 10) and records the inputs of each step as a script  *)
(* for harness/fam_grogu.  Two kinds of walks, chosen in the initial state: *)
(*  live   - only steps that keep the timing assumptions (`calm`), in the   *)
(*           order tick(+quotes), feed change, poll, broadcast, block,      *)
(*           results inside each second.  Submissions are addressed by the  *)
(*           wildcard id 0 ("every submission waiting there") because the   *)
(*           real hash-derived slots differ from the ones this walk picked; *)
(*           a block is forced at least every L seconds for the same reason;*)
(*  faults - free interleaving with transport errors, CheckTx rejections,   *)
(*           time-outs, retries, missing quotes and feed changes in flight; *)
(*           submissions addressed by their number (the driver skips a step *)
(*           that does not apply to the real state).                        *)
(***************************************************************************)
EXTENDS Grogu, IOUtils, Json

CONSTANTS Depth
VARIABLES script, mode, stg, idle, c0
gvars == <<vars, script, mode, stg, idle, c0>>

QuoteSet(live) == {[st |-> "avail", price |-> 10000], [st |-> "avail", price |-> 10049], [st |-> "avail", price |-> 10050],
                   [st |-> "avail", price |-> 9950], [st |-> "avail", price |-> 10100], [st |-> "unavail", price |-> 0]}
                  \cup (IF live THEN {} ELSE {[st |-> "missing", price |-> 0], [st |-> "unsupp", price |-> 0]})
FeedSet == {[iv |-> 40, dev |-> 50], [iv |-> 60, dev |-> 100], [iv |-> 0, dev |-> 0]}
FeedLists == {f \in [Sig -> FeedSet] : f["s1"].iv > 0}
ParLive  == {[cool |-> cl, disc |-> 60, grace |-> 30, tries |-> 1, P |-> p, L |-> ll, D |-> d] :
                 cl \in {20, 30}, p \in {1, 2, 3}, ll \in {1, 2, 3}, d \in {0, 2, 3}}
ParFaults == {[cool |-> cl, disc |-> ds, grace |-> 10, tries |-> tr, P |-> 1, L |-> 2, D |-> 3] :
                 cl \in {5, 20}, ds \in {3, 60}, tr \in {1, 2, 3}}

GInit ==
    /\ mode \in {"live", "faults"}
    /\ clk = 101 /\ bt = 101 /\ h = 3
    /\ par \in (IF mode = "live" THEN ParLive ELSE ParFaults)
    /\ feeds \in FeedLists
    /\ updT = 101 /\ updH = 3
    /\ vp = [s \in Sig |-> NoVP]
    /\ slot = [s \in Sig |-> 0]
    /\ active = TRUE /\ since = 100
    /\ svc = [s \in Sig |-> [st |-> "avail", price |-> 10000]]
    /\ pending = {} /\ subs = {} /\ nsub = 0 /\ mempool = <<>>
    /\ lastPoll = 101 /\ down = FALSE /\ out = "init"
    /\ calm = (mode = "live" /\ \A s \in Sig : feeds[s].iv > 0 => TimingOK(feeds[s].iv))
    /\ mode = "live" => calm
    /\ waited = [s \in Sig |-> 0] /\ rejSeen = FALSE
    /\ script = <<>> /\ stg = "poll" /\ idle = 0
    /\ c0 = [cool |-> par.cool, disc |-> par.disc, grace |-> par.grace, tries |-> par.tries, P |-> par.P, L |-> par.L,
             D |-> par.D, feeds0 |-> feeds, svc0 |-> svc, live |-> (mode = "live")]

Add(steps) == script' = script \o steps
Skip == UNCHANGED vars
\* one signal's quote changes, only every third second (keeps slot-driven submissions in the walk)
Requotes(live) == {svc} \cup (IF clk % 3 # 0 THEN {} ELSE {[svc EXCEPT ![s] = q] : s \in Sig, q \in QuoteSet(live)})
SvcStep(q) == IF q = svc THEN <<>> ELSE <<[e |-> "Svc", q |-> q]>>

\* the last steps re-state the quotes (no effect): a single successor at the final level (Emit is evaluated on every candidate)
Last == TLCGet("level") >= Depth - 2

LiveNext ==
    /\ UNCHANGED <<mode, c0>>
    /\ \/ /\ stg = "tick"
          /\ \E q \in Requotes(TRUE) : TickWith(1, q) /\ Add(<<[e |-> "Tick", dt |-> 1]>> \o SvcStep(q))
          /\ stg' = "feeds" /\ UNCHANGED idle
       \/ /\ stg = "feeds"
          /\ \/ clk % 37 = 0 /\ idle = 0 /\ \E nf \in FeedLists : nf # feeds /\ SetFeeds(nf) /\ Add(<<[e |-> "SetFeeds", f |-> nf]>>)
             \/ Skip /\ UNCHANGED script
          /\ stg' = "poll" /\ UNCHANGED idle
       \/ /\ stg = "poll"
          /\ \/ Poll /\ Add(<<[e |-> "Poll"], [e |-> "Bcast", id |-> 0, r |-> "ok"]>>)
             \/ clk - lastPoll < par.P /\ Skip /\ UNCHANGED script
          /\ stg' = "bcast" /\ UNCHANGED idle
       \/ /\ stg = "bcast"
          /\ IF \E r \in subs : r.st = "bcast" THEN \E r \in subs : r.st = "bcast" /\ Bcast(r.id, "ok") ELSE Skip
          /\ stg' = "block" /\ UNCHANGED <<script, idle>>
       \/ /\ stg = "block"
          /\ \/ \E d \in 0..par.D, k \in SlotChoices \cup {0} : Block(d, k) /\ Add(<<[e |-> "Block", d |-> d], [e |-> "TxResult", id |-> 0, r |-> "found"]>>) /\ idle' = 0
             \/ idle + 1 < par.L /\ Skip /\ UNCHANGED script /\ idle' = idle + 1
          /\ stg' = "rel"
       \/ /\ stg = "rel"
          /\ IF \E r \in subs : r.st = "wait" /\ r.res = "ok"
             THEN \E r \in subs : r.st = "wait" /\ r.res = "ok" /\ TxResult(r.id, "found") /\ stg' = "rel"
             ELSE Skip /\ stg' = "tick"
          /\ UNCHANGED <<script, idle>>
    /\ calm'

FaultsNext ==
    /\ UNCHANGED <<mode, c0, stg, idle>>
    /\ \/ \E dt \in {1, 1, 2, 7}, q \in Requotes(FALSE) : TickWith(dt, q) /\ Add(<<[e |-> "Tick", dt |-> dt]>> \o SvcStep(q))
       \/ Poll /\ Add(<<[e |-> "Poll"]>>)
       \/ \E qs \in {{"valid"}, {"params"}, {"feeds"}, {"vprices"}, {"params", "vprices"}} : PollFail(qs) /\ Add(<<[e |-> "Poll", q |-> qs]>>)
       \/ \E r \in subs, res \in {"ok", "err", "chk", "oog"} : Bcast(r.id, res) /\ Add(<<[e |-> "Bcast", id |-> r.id, r |-> res]>>)
       \/ \E r \in subs, res \in {"found", "timeout"} : TxResult(r.id, res) /\ Add(<<[e |-> "TxResult", id |-> r.id, r |-> res]>>)
       \/ \E d \in 0..par.D, k \in SlotChoices \cup {0} : Block(d, k) /\ Add(<<[e |-> "Block", d |-> d]>>)
       \/ \E nf \in FeedLists : nf # feeds /\ SetFeeds(nf) /\ Add(<<[e |-> "SetFeeds", f |-> nf]>>)
       \* a local prerequisite of submitPrice breaks (which one is the driver's business) or recovers
       \/ \E kind \in {"key", "key", "auth", "sim"} :
             Env(~down) /\ Add(<<[e |-> "Env", down |-> IF down THEN <<>> ELSE <<kind>>]>>)

GNext ==
    IF Last THEN /\ Svc(svc) /\ Add(<<[e |-> "Svc", q |-> svc]>>) /\ UNCHANGED <<mode, c0, stg, idle>>
    ELSE IF mode = "live" THEN LiveNext ELSE FaultsNext

GSpec == GInit /\ [][GNext]_gvars

Emit ==
    TLCGet("level") = Depth =>
        Serialize(<<[c |-> c0, steps |-> script]>>, IOEnv.GEN_OUT,
                  [format |-> "NDJSON", charset |-> "UTF-8", openOptions |-> <<"WRITE", "CREATE", "APPEND">>])
=============================================================================
