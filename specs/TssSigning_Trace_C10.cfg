\* C10: signing status / attempts, attempt records, FIFO, pending list, member flags, penalties, callbacks and
\* interim data are checked; queue contents and nonce-pair identities are assumed as observed
CONSTANTS
  Member = {"m1", "m2", "m3"}
  Stranger = {"x1"}
  TSet = {2}
  MaxSig = 16
  MaxSerial = 48
  MaxDESet = {2}
  MaxAttSet = {2}
  PeriodSet = {1}
  PenaltySet = {1}
  KSet = {1}
  PreSet = {0}
  PostSet = {0}
  TransOn = TRUE
  TraceFile = "trace.ndjson"
  Checked = {"count", "sig", "att", "exps", "pend", "tssAct", "ownAct", "cool", "mapped", "nSucc", "nFail", "tr"}
  Owned = {"Request.create", "SubmitSig", "Activate", "Transition", "EndBlock"}
SPECIFICATION TraceSpec
INVARIANTS TInvC10 TraceBoundOK
PROPERTIES TStatus TAttempt TNoEarlyTimeout TExactTimeout TNewAttempt TSuccess TTimeout TPenalty TSigned TCallback TTransitionStep
POSTCONDITION TraceAccepted
CHECK_DEADLOCK FALSE
