\* two tunnels of every kind pair (TSS / IBC without channel), three route
\* states incl. "no group" (route fee 0), parameter sets with a zero base fee, fee payers at the funding boundary
CONSTANTS
  MaxTun = 2
  Sig = {"s1"}
  Acct = {a1}
  Denom = {"ua", "ub"}
  FeeDenom = "ub"
  MinIv = 1
  MaxIv = 10
  MinDev = 50
  MaxDev = 3000
  ParamSet <- P_fees
  KindSet = {"tss", "ibc"}
  IvSet = {2}
  SigSets <- Sig_all
  DevSet <- Dev_one
  AmtSet <- Amt_zero
  FundSet = {4}
  PriceSet <- Price_few
  ModeSet = {"ok", "noGroup", "maxAtt0"}
  DtSet = {1}
  InitBal = 3
  MaxNow = 103
  MaxSteps = 0
  NTun = 2
  InitFee = 7
INIT InitPacket
NEXT NextPktCore
VIEW View
CONSTRAINT Bound
INVARIANTS Inv
PROPERTIES SeqStep PacketRule FeesOnlyWithPackets EndBlockFrame ActivationGate Deactivation
CHECK_DEADLOCK FALSE
