\* quick facet "fee": requests whose cost depends on edited fees / treasuries / script code; limits and balances at the boundary
CONSTANTS
  Val = {v1, v2}
  Stranger = {}
  MaxReq = 1
  Units = 1
  ExpSet = {2}
  PenaltySet = {2}
  DtSet = {1}
  AskSet = {1, 2}
  MinSet = {1}
  ShapeSet = {"exact"}
  Chan = {"c0"}
  Payer = {"p1"}
  Acct = {"own"}
  Treas = {"t1", "t2", "t3"}
  MaxDs = 3
  MaxOs = 5
  BalSet = {2, 6}
  LimitSet = {1, 3, 6}
  EncSet = {"none"}
  FormSet = {"good"}
  OsReqSet = {1, 2}
  ClientSet = {"k1"}
  TokSet = {"dnm"}
  DsContSet = {"dnm"}
  OsCodeSet = {"wfail", "w3"}
  FeeSet = {0, 2}
  DsEditSet = {1}
  OsEditSet = {2}
  TreasTry = {"t1", "t2"}
  HowSet = {}
  FlipSet = {}
  StepSet = {}
  MaxH = 4
  MaxBreak = 1
INIT IInitActive
NEXT INext
VIEW IView
CONSTRAINT IBound
INVARIANTS Inv IbcInv
PROPERTIES FeeExact Conserved AckRule ResponseTimely OwnerOnly ResultImmutable ResultOnlyAtEndBlock
CHECK_DEADLOCK FALSE
