\* quick expiry facet: n in {2,3}, t in {1,2}, creation period 1..5 (expiry inside every round), <= 1 deviation
CONSTANTS
  MaxN = 3
  NSet = {2, 3}
  TSet = {1, 2}
  Q = 5
  Periods = {1, 2, 3, 5}
  PolyMode = "one"
  MaxH = 8
  MaxDev = 1
INIT Init
NEXT MCNext
VIEW View
CONSTRAINT Bound
INVARIANTS Inv
PROPERTIES StatusMonotone MalSticky NeverActiveAfterMal KeysImmutable MalOnlyByComplain RejectedNoEffect
CHECK_DEADLOCK FALSE
