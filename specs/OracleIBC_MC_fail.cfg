\* quick facet "fail": one channel that closes / loses its capability, the parameter flips, malformed and bad-encoder packets, handshake
CONSTANTS
  Val = {v1, v2}
  Stranger = {}
  MaxReq = 2
  Units = 1
  ExpSet = {2}
  PenaltySet = {2}
  DtSet = {1}
  AskSet = {1}
  MinSet = {1}
  ShapeSet = {"exact"}
  Chan = {"c0"}
  Payer = {"p1"}
  Acct = {}
  Treas = {"t1", "t2", "t3"}
  MaxDs = 3
  MaxOs = 5
  BalSet = {7}
  LimitSet = {6}
  EncSet = {"none", "bad"}
  FormSet = {"good", "notjson", "gas0"}
  OsReqSet = {1, 5}
  ClientSet = {"k1"}
  TokSet = {}
  DsContSet = {}
  OsCodeSet = {}
  FeeSet = {}
  DsEditSet = {}
  OsEditSet = {}
  TreasTry = {}
  HowSet = {"closed", "nocap"}
  FlipSet = {TRUE, FALSE}
  StepSet = {"init", "try"}
  MaxH = 5
  MaxBreak = 1
INIT IInitActive
NEXT INext
SYMMETRY Sym
VIEW IView
CONSTRAINT IBound
INVARIANTS Inv IbcInv
PROPERTIES FeeExact Conserved AckRule ResponseTimely OwnerOnly ResultImmutable ResultOnlyAtEndBlock
CHECK_DEADLOCK FALSE
