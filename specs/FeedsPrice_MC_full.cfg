\* thorough facet: the complete Next (malformed / late / foreign submissions, strangers, jailing, feed-list updates
\* every 2 blocks with 2 signals entering and leaving the list, cooldown and discrepancy boundaries, quorum 0 and 50 %)
CONSTANTS
  Val = {v1, v2}
  Stranger = {x1}
  Sig = {s1, s2}
  GraceSet = {2}
  CoolSet = {2}
  DiscSet = {1}
  UpdSet = {2}
  QuorumSet = {0, 50}
  PenaltySet = {2}
  DtSet = {0, 3}
  IntervalSet = {2}
  PowerSet = {1}
  PriceSet = {1}
  StatusSet = {"avail"}
  ToffSet <- ToffM
  MaxH = 4
  MaxN = 0
  AllOrders = FALSE
  PPowerSet = {1}
  PTsSet = {0}
  PPriceSet = {1}
INIT MCInit
NEXT MCNext
VIEW View
CONSTRAINT Bound
INVARIANTS Inv NoEndBlockError
PROPERTIES MCActivationRule MCDeactivationRule MCReporterSafe MCGraceSafe MCStatusStable MCVPriceRule MCPriceOnlyAtEndBlock MCPriceRule
CHECK_DEADLOCK FALSE
