\* C04: everything the DKG family projects is checked, every event is owned (the family has one property)
CONSTANTS
  MaxN = 5
  NSet = {1}
  TSet = {1}
  Q = 7
  Periods = {1}
  PolyMode = "one"
  TraceFile = "trace.ndjson"
  Checked = {"status", "r1", "r2", "conf", "comp", "clog", "mal", "pend", "interim", "expDone", "keys"}
  Owned = {"SubmitR1", "SubmitR2", "Confirm", "Complain", "EndBlock"}
SPECIFICATION TraceSpec
INVARIANTS TInv
PROPERTIES TStatusMonotone TMalSticky TNeverActiveAfterMal TKeysImmutable TMalOnlyByComplain TRejectedNoEffect
POSTCONDITION TraceAccepted
CHECK_DEADLOCK FALSE
