---------------------------- MODULE Bandtss_Trace ----------------------------
(***************************************************************************)
(* Trace validation for Bandtss.tla (properties C18 and C13-signing half). *)
(* Act/Sync two-phase scheme (see Oracle_Trace.tla): `Owned` events run    *)
(* the spec action with the logged arguments and outcome; in Sync every    *)
(* `Checked` variable must equal the projection of the real state, every   *)
(* other variable adopts it.  `canSign` (members available for signing) is *)
(* environment for both properties and always adopted.                     *)
(***************************************************************************)
EXTENDS Bandtss, Json

CONSTANTS TraceFile, Checked, Owned
TraceLog == ndJsonDeserialize(TraceFile)

VARIABLES l, ph
tvars == <<vars, l, ph>>

ToSet(s) == {s[i] : i \in 1..Len(s)}
Line == TraceLog[l]

LTr(st) == [status |-> st.tr.status, incoming |-> st.tr.incoming, cur |-> st.tr.cur, execTime |-> st.tr.execTime,
            sid |-> st.tr.sid, forced |-> st.tr.forced]
LGrp(st, g) == IF g <= st.gcount
               THEN [st |-> st.grp[g].st, mem |-> ToSet(st.grp[g].mem), thr |-> st.grp[g].thr, createdH |-> st.grp[g].createdH]
               ELSE NoGrp
LSig(st, id) == IF id <= st.sigc
                THEN [g |-> st.sig[id].g, kind |-> st.sig[id].kind, st |-> st.sig[id].st, expH |-> st.sig[id].expH,
                      com |-> ToSet(st.sig[id].com), bid |-> st.sig[id].bid]
                ELSE NoSig
LBsig(st, b) == IF b <= st.bsigc THEN [fee |-> st.bsig[b].fee, cur |-> st.bsig[b].cur, inc |-> st.bsig[b].inc] ELSE NoBsig
LCan(st, g) == IF g <= st.gcount THEN st.canSign[g] ELSE TRUE
LBal(st) == [p \in Payer |-> IF p \in DOMAIN st.bal THEN st.bal[p] ELSE 0]
LEarned(st) == [a \in Addr |-> IF a \in DOMAIN st.earned THEN st.earned[a] ELSE 0]

TraceInit ==
    /\ l = 1 /\ ph = "act"
    /\ par = [period |-> 1, create |-> 2, fx |-> 0]
    /\ h = 0 /\ now = 0 /\ fee = 0 /\ current = 0 /\ tr = NoTr /\ gcount = 0
    /\ grp = [g \in Groups |-> NoGrp] /\ pendG = <<>> /\ lastExpG = 0 /\ bm = {}
    /\ canSign = [g \in Groups |-> TRUE] /\ sigc = 0 /\ sig = [id \in Sigs |-> NoSig]
    /\ bsigc = 0 /\ bsig = [b \in 1..MaxSig |-> NoBsig]
    /\ bal = [p \in Payer |-> 0] /\ escrow = 0 /\ earned = [a \in Addr |-> 0] /\ owed = 0 /\ out = "init"

ResetVars(st) ==
    /\ par' = [period |-> st.par.period, create |-> st.par.create, fx |-> st.par.fx]
    /\ h' = st.h /\ now' = st.now /\ fee' = st.fee /\ current' = st.current /\ tr' = LTr(st)
    /\ gcount' = st.gcount /\ grp' = [g \in Groups |-> LGrp(st, g)]
    /\ pendG' = st.pendG /\ lastExpG' = st.lastExpG /\ bm' = ToSet(st.bm)
    /\ canSign' = [g \in Groups |-> LCan(st, g)]
    /\ st.sigc = 0 /\ st.bsigc = 0
    /\ sigc' = 0 /\ sig' = [id \in Sigs |-> NoSig] /\ bsigc' = 0 /\ bsig' = [b \in 1..MaxSig |-> NoBsig]
    /\ bal' = LBal(st) /\ escrow' = st.escrow /\ earned' = LEarned(st) /\ owed' = st.escrow
    /\ out' = "init"

Outcome == IF Line.o.ok THEN "ok" ELSE "rej"

TPropose == Propose(Line.a.auth, ToSet(Line.a.ms), Line.a.thr, Line.a.off) /\ out' = Outcome
TForce   == Force(Line.a.auth, Line.a.g, Line.a.off) /\ out' = Outcome
TDkgDone == DkgDone(Line.a.g, Line.a.good)
TInstall == InstallGroup(ToSet(Line.a.ms), Line.a.thr)
TRequest == /\ \E incOK \in BOOLEAN : \E S \in ComOrNone(current), SI \in ComOrNone(Incoming) :
                   Request(Line.a.p, Line.a.limit, Line.a.lx, S, incOK, SI)
            /\ out' = Outcome
TSignAll == SignAll(Line.a.id)
TEndBlock == Line.o.ok /\ \E HS \in ComOrNone(current) : EndBlock(Line.a.dt, HS)

Act ==
    /\ ph = "act" /\ l <= Len(TraceLog)
    /\ ph' = "sync" /\ l' = l
    /\ IF Line.e = "Reset" THEN ResetVars(Line.s)
       ELSE IF Line.e \notin Owned THEN UNCHANGED vars
       ELSE CASE Line.e = "Propose"  -> TPropose
              [] Line.e = "Force"    -> TForce
              [] Line.e = "DkgDone"  -> TDkgDone
              [] Line.e = "Install"  -> TInstall
              [] Line.e = "Request"  -> TRequest
              [] Line.e = "SignAll"  -> TSignAll
              [] Line.e = "EndBlock" -> TEndBlock
              [] Line.e \in {"SetCanSign", "Env", "SetFee", "SetFx"} -> UNCHANGED vars

Bind(name, cur, nxt, obs) == IF name \in Checked THEN cur = obs /\ nxt = cur ELSE nxt = obs

Sync ==
    /\ ph = "sync"
    /\ ph' = "act" /\ l' = l + 1
    /\ LET st == Line.s IN
        /\ st.gcount <= MaxG /\ st.sigc <= MaxSig /\ st.bsigc <= MaxSig
        /\ h' = st.h /\ now' = st.now /\ fee' = st.fee
        /\ par' = [par EXCEPT !.fx = st.par.fx]                  \* environment (SetFx)
        /\ ("clock" \in Checked) => (h = st.h /\ now = st.now)
        /\ canSign' = [g \in Groups |-> LCan(st, g)]
        /\ Bind("current", current, current', st.current)
        /\ Bind("tr", tr, tr', LTr(st))
        /\ Bind("gcount", gcount, gcount', st.gcount)
        /\ Bind("grp", grp, grp', [g \in Groups |-> LGrp(st, g)])
        /\ Bind("pendG", pendG, pendG', st.pendG)
        /\ Bind("lastExpG", lastExpG, lastExpG', st.lastExpG)
        /\ Bind("bm", bm, bm', ToSet(st.bm))
        /\ Bind("sigc", sigc, sigc', st.sigc)
        /\ Bind("sig", sig, sig', [id \in Sigs |-> LSig(st, id)])
        /\ Bind("bsigc", bsigc, bsigc', st.bsigc)
        /\ Bind("bsig", bsig, bsig', [b \in 1..MaxSig |-> LBsig(st, b)])
        /\ Bind("bal", bal, bal', LBal(st))
        /\ Bind("escrow", escrow, escrow', st.escrow)
        /\ Bind("earned", earned, earned', LEarned(st))
        /\ owed' = IF "escrow" \in Checked THEN owed ELSE st.escrow
    /\ UNCHANGED out

TraceNext == Act \/ Sync
TraceSpec == TraceInit /\ [][TraceNext]_tvars

TraceAccepted ==
    LET d == TLCGet("stats").diameter IN
    IF d - 1 = 2 * Len(TraceLog) THEN TRUE
    ELSE Print(<<"TRACE_REJECTED_AT_LINE", (d + 1) \div 2, "PHASE", IF d % 2 = 1 THEN "act" ELSE "sync", "OF", Len(TraceLog)>>, FALSE)

TraceBoundOK == gcount < MaxG /\ sigc < MaxSig - 1

AtLine == ph = "act" /\ l > 1
TInvC18 == AtLine => (MembersInv /\ TransitionInv)
TInvC13 == AtLine => EscrowInv

Exempt == ph = "sync" \/ (l <= Len(TraceLog) /\ (TraceLog[l].e = "Reset" \/ TraceLog[l].e \notin Owned))
TGroupChange == [][Exempt \/ GroupChangeA]_tvars
TWaitingExec == [][Exempt \/ WaitingExecA]_tvars
TOneTransition == [][Exempt \/ OneTransitionA]_tvars
TStart == [][Exempt \/ StartA]_tvars
TConserved == [][Exempt \/ ConservedA]_tvars
TPayIn == [][Exempt \/ PayInA]_tvars
TPayOut == [][Exempt \/ PayOutA]_tvars
TRejectedUnchanged == [][Exempt \/ RejectedA]_tvars
TNoPayOnFail == [][Exempt \/ NoPayOnFailA]_tvars
=============================================================================
