\* liveness facet (no symmetry, no state constraint): every accepted request eventually has a result
CONSTANTS
  Val = {v1, v2}
  Stranger = {}
  MaxReq = 2
  Units = 1
  ExpSet = {2}
  PenaltySet = {2}
  DtSet = {1}
  AskSet = {1, 2}
  MinSet = {1, 2}
  ShapeSet = {"exact"}
  MaxH = 6
SPECIFICATION SpecBounded
PROPERTIES EveryRequestResolvedBounded
CHECK_DEADLOCK FALSE
