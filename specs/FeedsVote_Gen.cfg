CONSTANTS
  Voter = {u1, u2, u3}
  Signal = {1, 2, 3, 4}
  VoteSet = {}
  ParSet = {}
  PowerSet = {0, 1, 2, 3, 4, 6}
  PowSet = {1, 2, 3}
  MaxLen = 2
  MaxFeedsSet = {1, 2, 3}
  StepSet = {1, 2, 3}
  UpdSet = {1, 2, 3}
  MinISet = {1, 2}
  SpanSet = {0, 4, 9}
  Depth = 20
SPECIFICATION GSpec
INVARIANT Emit
CHECK_DEADLOCK FALSE
