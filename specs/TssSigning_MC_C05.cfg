\* C05 quick facet: 3 symmetric members, t=2, MaxDE=2, MaxAttempt=2, Period=1, 2 signings, <=3 pairs per member, h<=4; queue / nonce invariants and action properties
CONSTANTS
  Member = {m1, m2, m3}
  Stranger = {}
  TSet = {2}
  MaxSig = 2
  MaxSerial = 3
  MaxDESet = {2}
  MaxAttSet = {2}
  PeriodSet = {1}
  PenaltySet = {1}
  KSet = {1, 2}
  PreSet = {0}
  PostSet = {0}
  TransOn = FALSE
  MaxH = 4
INIT Init
NEXT NextMC
SYMMETRY Sym
VIEW View
CONSTRAINT Bound
INVARIANTS TypeOK InvC05
PROPERTIES AssignFromHead Fifo QueueStep Eligible RejectedNoChange GhostExact CreationExact DEPartOK
CHECK_DEADLOCK FALSE
