\* thorough facet: inactive penalty of 3 blocks: re-activation only after the penalty, deactivated members stay off committees; 1..2 signings, h<=5
CONSTANTS
  Member = {m1, m2, m3}
  Stranger = {}
  TSet = {2}
  MaxSig = 2
  MaxSerial = 3
  MaxDESet = {2}
  MaxAttSet = {2}
  PeriodSet = {1}
  PenaltySet = {3}
  KSet = {1, 2}
  PreSet = {0}
  PostSet = {0}
  TransOn = FALSE
  MaxH = 5
INIT Init
NEXT NextMC
SYMMETRY Sym
VIEW View
CONSTRAINT Bound
INVARIANTS Inv OnTime BoundedTermination
PROPERTIES AssignFromHead Fifo QueueStep Eligible RejectedNoChange GhostExact CreationExact DEPartOK Status Attempt NoEarlyTimeout ExactTimeout NewAttempt Success Timeout Penalty Signed Callback TransitionStep
CHECK_DEADLOCK FALSE
