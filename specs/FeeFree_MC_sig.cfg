\* facet "sig": MsgSubmitSignature by assigned / unassigned members, duplicates inside one tx, grantees
CONSTANTS
  Val = {"v1"}
  Acct = {"m1", "m2", "g1", "x1"}
  ReqIds = {1}
  SigIds = {1}
  MaxRoom = 1
  PD = 10000
  Kinds = {"sig"}
  Grantees = {"g1", "x1"}
  Members = {"m1", "m2"}
  MinpSet = {25}
  LocalpSet = {0}
  GasSet = {200000}
  FeeSet = {0, 499, 500}
  Stranger = "x1"
  DeliverSet = {}
  Poor = {}
  PoorBal = 0
  RichBal = 2000
  Depth2 = TRUE
  Pairs = TRUE
  GrantUsed <- GrantU_tss_sig
SPECIFICATION Spec
VIEW View
INVARIANTS TypeOK ExemptSound ExemptComplete
PROPERTIES NoFreeRide EntitledNeverCharged EntitledAdmitted PaidRule ClassSplit CheckPure SignerRule
CHECK_DEADLOCK FALSE
