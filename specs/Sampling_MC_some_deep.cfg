\* ChooseSome: <= 5 entries over {1,2,4}, cnt 0..3, every stream over 0..15
CONSTANTS
  SeedLen = 3
  Byte = {0, 1}
  Facet = "some"
  MaxN = 5
  WSet = {1, 2, 4}
  MaxCnt = 3
  MaxTries = 1
  DSet = {0, 1, 2, 3, 4, 5, 6, 7, 8, 9, 10, 11, 12, 13, 14, 15}
  IdSet = {1}
INIT MCInit
NEXT MCNext
VIEW View
INVARIANTS Valid Deterministic Consumed OneSpec SomeSpec MaxSpec ShufSpec
PROPERTIES SeedRule
CHECK_DEADLOCK FALSE
