\* parameter facet: the step threshold (1 <-> 2) is changed by governance between recomputations: every feed of the next
\* recomputation gets the interval its power determines under the parameters in force then
CONSTANTS
  Voter = {u1, u2}
  Signal = {1, 2, 3}
  PowSet = {1, 2}
  MaxLen = 2
  VoteSet <- MCVotes
  PowerSet = {1, 3}
  ParSet <- MCPars
  MaxFeedsSet = {2}
  StepSet = {1, 2}
  UpdSet = {2}
  MinI = 2
  MaxI = 7
  MaxH = 4
INIT Init
NEXT Next
SYMMETRY Sym
VIEW View
CONSTRAINT Bound
INVARIANTS Inv
PROPERTIES VoteBound VoteSize RejUnchanged FeedsOnlyAtUpdate FeedsFresh
CHECK_DEADLOCK FALSE
