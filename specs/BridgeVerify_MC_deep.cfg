CONSTANTS
  MaxChanges = 2
SPECIFICATION MCSpec
INVARIANTS Sound Ruled BaseOK NamesImplySides
CHECK_DEADLOCK FALSE
