----------------------------- MODULE Rewards_MC -----------------------------
(* MC role for Rewards.tla: from a few initial books, the environment chooses an event kind and an argument  *)
(* tuple (pool, powers, proposer, activity flags, member flags, percentages, tax) from small sets, then the  *)
(* allocator does ANYTHING the contract allows (TLC enumerates every post-state over 0..MaxAmt blindly and    *)
(* the contract prunes).  TLC checks that every allowed outcome satisfies the statement of C14 (conservation, *)
(* books closed, no dust, non-negativity, only-active-paid, right base) and - by the deadlock check - that    *)
(* the contract is satisfiable for every argument tuple.  One denomination (the contract is per denom).       *)
EXTENDS Rewards

CONSTANTS Kinds, Pools, PwVecs, Props, Pcts, Taxes, ActSets, MemFlagSets, NBooks, Pows

ASSUME Cardinality(Denom) = 1
d0 == CHOOSE d \in Denom : TRUE
V1 == CHOOSE v \in Val : TRUE

AllAct == [Val -> BOOLEAN]
AllPw == [Val -> Pows]
V2 == CHOOSE v \in Val : v # V1
FewPw == {[v \in Val |-> 1], [v \in Val |-> IF v = V1 THEN 1 ELSE 3], [v \in Val |-> IF v = V1 THEN 0 ELSE 1]}
FewAct == {[v \in Val |-> TRUE], [v \in Val |-> v = V1], [v \in Val |-> v # V1], [v \in Val |-> FALSE]}
FewAct3 == {[v \in Val |-> TRUE], [v \in Val |-> v # V1], [v \in Val |-> FALSE]}
AllMemFlags == [Mem -> BOOLEAN]
Vec(n) == [d \in Denom |-> n]
DV(i, f) == [d \in Denom |-> [i |-> i, f |-> f]]

DefaultArgs == [pw |-> [v \in Val |-> 0], prop |-> V1, act |-> [v \in Val |-> FALSE], grp |-> FALSE,
                min |-> [m \in Mem |-> FALSE], mact |-> [m \in Mem |-> FALSE], mde |-> [m \in Mem |-> FALSE],
                pctO |-> 0, pctT |-> 0, taxN |-> 0, taxD |-> 2]

\* up to three initial books: empty; a fractional community pool; integral community pool + outstanding rewards
AllBooks == <<
    [dm |-> 0, cp |-> DV(0, FALSE), acc |-> DV(0, FALSE)],
    [dm |-> 3, cp |-> DV(2, TRUE), acc |-> DV(3, FALSE)],
    [dm |-> 3, cp |-> DV(1, FALSE), acc |-> DV(3, FALSE)] >>
Books == {AllBooks[j] : j \in 1..NBooks}

Init ==
    \E b \in Books :
      /\ fc = Vec(0) /\ dm = Vec(b.dm) /\ cp = b.cp /\ acc = b.acc
      /\ mb = [m \in Mem |-> Vec(1)]
      /\ rest = Vec(0) /\ sup = Vec(b.dm + Cardinality(Mem))
      /\ inc = ZeroInc /\ res = "init" /\ last = [k |-> "none", a |-> DefaultArgs]

\* the environment: mint the pool into the fee collector and fix the arguments of the coming event
Choose ==
    /\ res = "init"
    /\ \E k \in Kinds, pool \in Pools, tax \in Taxes :
         \E pw \in PwVecs \cup {[v \in Val |-> 0]}, prop \in Props, act \in ActSets, grp \in BOOLEAN, mf \in MemFlagSets, pO \in Pcts, pT \in Pcts :
           \* arguments an event does not read are fixed (facets stay small)
           /\ (k = "TssAlloc" => pw = [v \in Val |-> 0] /\ prop = V1 /\ act = [v \in Val |-> FALSE] /\ pO = 0)
           /\ (k = "OracleAlloc" => ~grp /\ mf = [m \in Mem |-> FALSE] /\ pT = 0)
           /\ (~grp => mf = [m \in Mem |-> FALSE])
           /\ last' = [k |-> k, a |-> [pw |-> pw, prop |-> prop, act |-> act, grp |-> grp,
                                         min |-> [m \in Mem |-> TRUE], mact |-> mf, mde |-> [m \in Mem |-> TRUE],
                                         pctO |-> pO, pctT |-> pT, taxN |-> tax, taxD |-> 2]]
           /\ fc' = Vec(pool) /\ sup' = [d \in Denom |-> sup[d] + pool] /\ rest' = rest
           /\ res' = "env" /\ inc' = ZeroInc
           /\ UNCHANGED <<dm, cp, mb, acc>>

Alloc ==
    /\ res = "env"
    /\ \/ last.k = "OracleAlloc" /\ OracleAlloc(last.a)
       \/ last.k = "TssAlloc" /\ TssAlloc(last.a)
       \/ last.k = "FullBegin" /\ FullBegin(last.a)

Done == res = "ok" /\ UNCHANGED vars

Next == Choose \/ Alloc \/ Done
Spec == Init /\ [][Next]_vars

Conserved == [][ConservedA]_vars
OnlyActivePaid == [][OnlyActivePaidA]_vars
RightBase == [][RightBaseA]_vars
\* the MC's Choose step is an instance of the environment action of the contract
EnvIsEnv == [][res' = "env" => Env]_vars

TypeOK == /\ fc \in AmtVec /\ dm \in AmtVec /\ cp \in DecVec /\ acc \in DecVec
          /\ mb \in [Mem -> AmtVec] /\ inc \in [Val -> DecVec]
=============================================================================
