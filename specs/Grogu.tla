-------------------------------- MODULE Grogu --------------------------------
(***************************************************************************)
(* The grogu price-feeding daemon in closed loop with the x/feeds chain    *)
(* rules (property C20).  Time is discrete seconds since genesis.          *)
(*                                                                         *)
(* Daemon actions (one per step of the real code):                         *)
(*   Poll      grogu/signaller/signaller.go: body of the Start loop        *)
(*             (QueryValidValidator, updateInternalVariables, execute:     *)
(*             getNonPendingSignalIDs, GetPrices, filterAndPrepare-        *)
(*             SignalPrices(now), submitPrices) followed by the hand-off   *)
(*             to submitter.Start (take a key, go submitPrice)             *)
(*   Bcast     grogu/submitter/submitter.go: submitPrice -> broadcastMsg   *)
(*             returns (accepted by CheckTx / transport error / non-zero   *)
(*             code)                                                       *)
(*   TxResult  submitPrice -> getTxResponse returns (found / time-out)     *)
(* Chain actions:                                                          *)
(*   Block     a block at time clk - d: every broadcast transaction goes    *)
(*             through x/feeds msg_server.go SubmitSignalPrices, then the  *)
(*             end-blocker (keeper_price.go CalculatePrices ->             *)
(*             CheckMissReport -> oracle MissReport)                       *)
(* Environment actions: Tick (the clock), Svc (the price service quotes),  *)
(*   SetFeeds (the current-feed list changes), Env (the submitter's local  *)
(*   prerequisites - feeder key in the keyring, account query, gas         *)
(*   simulation - become unavailable / available again).                   *)
(*                                                                         *)
(* Exits of submitter.go submitPrice, top to bottom (each must release the *)
(* pending marks and hand the key id back; the spec's Finish):             *)
(*   E1 Keyring.Key(keyID) fails            -> return before any try       *)
(*   E2 a try fails inside broadcastMsg before anything is broadcast (no    *)
(*      client, QueryAccount / UnpackAny / GetAddress, gas simulation on    *)
(*      every client, BuildUnsignedTx, Sign, encode), or every broadcast    *)
(*      returns a transport error           -> next try or give up          *)
(*   E3 CheckTx code # 0 (out of gas: larger gas adjustment) -> same        *)
(*   E4 getTxResponse times out             -> same                         *)
(*   E5 delivered with code # 0 (out of gas likewise)        -> same        *)
(*   E6 delivered with code 0               -> return (success)             *)
(*   E7 tries exhausted                     -> return                       *)
(* `down` covers E1 and the pre-broadcast part of E2: while it holds, a    *)
(* try ends before it reaches the network, so a submission started or      *)
(* retried under `down` runs to its end within the same step.              *)
(*                                                                         *)
(* `calm` is the formal statement of the timing assumptions of C20: it     *)
(* stays TRUE as long as the daemon polls at least every P seconds, every  *)
(* submission completes within par.L seconds, block time lags the daemon    *)
(* clock by at most D, nothing fails, the price service quotes      *)
(* every current feed, the feed list changes only while nothing is in      *)
(* flight and every interval satisfies TimingOK.  The timing properties    *)
(* are stated under `calm`; the bookkeeping properties hold always.        *)
(***************************************************************************)
EXTENDS Integers, Sequences, FiniteSets, TLC

CONSTANTS
    Sig,          \* signal ids
    Start,        \* distribution-start-pct   (shipped: 50)
    Offset,       \* distribution-offset-pct  (shipped: 30)
    SlotChoices,  \* percentages the hash may yield; a subset of Start..Start+Offset-1
    Buffer,       \* signaller.TimeBuffer           (code: 3)
    UOff          \* signaller.FixedIntervalOffset  (code: 10)

ASSUME SlotChoices \subseteq Start..(Start + Offset - 1)

VARIABLES
    clk,      \* daemon (wall) clock
    bt,       \* time of the latest block
    h,        \* height of the latest block
    par,      \* [cool, disc, grace, tries, P, L, D]: feeds params cooldown_time, allowable_block_time_discrepancy,
              \*   grace_period; submitter max-try; and the assumed bounds used by `calm` only: P = polling
              \*   period, L = seconds from the decision to the end of submitPrice, D = lag of the block time
              \*   behind the daemon clock
    feeds,    \* signal -> [iv, dev]: interval / deviation basis points; iv = 0: not a current feed
    updT, updH, \* CurrentFeeds.LastUpdateTimestamp / LastUpdateBlock
    vp,       \* signal -> the validator's stored price [st, price, ts, bh]; st = "none": absent/UNSPECIFIED
    slot,     \* signal -> percentage derived from hash(validator, vp[s].ts)
    active,   \* oracle validator status IsActive
    since,    \* oracle validator status Since
    svc,      \* signal -> quote of the price service [st, price]; st = "missing": not in the response
    pending,  \* the daemon's pendingSignalIDs
    subs,     \* submissions whose submitPrice has not returned: set of
              \*   [id, m, ts, st, try, res]; m : subset of Sig -> [st, price]; ts = clock at submitPrice entry;
              \*   st = "bcast" (inside broadcastMsg) | "wait" (inside getTxResponse); res = chain result of
              \*   the transaction of the current try: "none" | "ok" | "rej"
    nsub,     \* number of submissions ever created
    mempool,  \* broadcast, not yet included transactions: sequence of [id, try, m, ts]
    lastPoll, \* clock of the latest Poll
    down,     \* a local prerequisite of submitPrice is unavailable (feeder key deleted from the keyring,
              \*   account query or gas simulation failing): every try fails before it broadcasts
    out,      \* outcome of the last step (not part of the state identity)
    \* ---- ghosts ----
    calm,     \* the timing assumptions have held so far
    waited,   \* signal -> number of clock ticks it has been due and not pending
    rejSeen   \* a first-try transaction was rejected by the chain while calm

vars == <<clk, bt, h, par, feeds, updT, updH, vp, slot, active, since, svc, pending, subs, nsub, mempool,
          lastPoll, down, out, calm, waited, rejSeen>>

NoVP == [st |-> "none", price |-> 0, ts |-> 0, bh |-> 0]
Max2(a, b) == IF a >= b THEN a ELSE b
Abs(x) == IF x < 0 THEN -x ELSE x
MaxGuaranteeBlockTime == 3

Cur == {s \in Sig : feeds[s].iv > 0}
SubIds == {r.id : r \in subs}
SubOf(id) == CHOOSE r \in subs : r.id = id
InFlightSigs == UNION {DOMAIN r.m : r \in subs}

(***************************************************************************)
(* The timing assumptions on one feed interval (exact form).  The form     *)
(* stated with the property, P + L + D < 0.2*I - Buffer together *)
(* with cool + Buffer <= 0.8*I and the fixed P + L <= UOff, implies it.   *)
(***************************************************************************)
TimingOKp(p, iv) ==
    /\ Max2(p.cool + Buffer, (iv * (Start + Offset - 1)) \div 100) + (p.P - 1) + p.L <= iv
    /\ p.P + p.L <= UOff
    /\ p.D <= Buffer
    /\ p.L <= p.disc /\ p.D <= p.disc
    /\ p.P + p.L + p.D <= p.grace

TimingOK(iv) == TimingOKp(par, iv)

StatedAssumption(iv) ==
    /\ (par.P + par.L + par.D) * 10 < 2 * iv - 10 * Buffer
    /\ (par.cool + Buffer) * 10 <= 8 * iv
    /\ par.P + par.L <= UOff
    /\ par.D <= Buffer
    /\ par.L <= par.disc /\ par.D <= par.disc
    /\ par.P + par.L + par.D <= par.grace

(***************************************************************************)
(* The signaller's decision rule (signaller.go, utils.go).                 *)
(***************************************************************************)
\* convertPriceData: the price is kept only for AVAILABLE
New(s) == [st |-> svc[s].st, price |-> IF svc[s].st = "avail" THEN svc[s].price ELSE 0]

\* isDeviated
Deviated(devbp, old, new) ==
    IF old = 0 THEN new # 0 ELSE (Abs(new - old) * 10000) \div old >= devbp

\* calculateAssignedTime: timestamp + interval * (hash % offset + start) / 100
AsgOff(iv, k) == (iv * k) \div 100
AsgTime(s) == vp[s].ts + AsgOff(feeds[s].iv, slot[s])

\* shouldUpdatePrice
ShouldUpdate(s) ==
    /\ clk >= vp[s].ts + par.cool + Buffer
    /\ \/ clk >= AsgTime(s)
       \/ vp[s].st # New(s).st
       \/ Deviated(feeds[s].dev, vp[s].price, New(s).price)

\* isPriceValid (the signal is in the feed map by construction of the caller's list)
Valid(s) == vp[s].st = "none" \/ ShouldUpdate(s)

\* isNonUrgentUnavailablePrices; without a stored price the deadline is `interval` seconds after the
\* epoch, long past for any real clock
NonUrgent(s) ==
    /\ New(s).st = "unavail"
    /\ vp[s].st # "none"
    /\ ~(clk > vp[s].ts + feeds[s].iv - UOff)

Due(s) == s \in Cur /\ svc[s].st # "missing" /\ Valid(s) /\ ~NonUrgent(s)

Decision == {s \in Cur \ pending : Due(s)}

Poll ==
    /\ lastPoll' = clk
    /\ waited' = TLCEval([s \in Sig |-> 0])
    /\ IF ~active
       THEN \* QueryValidValidator: not required to feed prices
            /\ out' = [stage |-> "notValid", m |-> <<>>]
            /\ UNCHANGED <<pending, subs, nsub, calm>>
       ELSE IF Decision = {}
       THEN /\ out' = [stage |-> "nothing", m |-> <<>>]
            /\ calm' = (calm /\ \A s \in Cur \ pending : svc[s].st # "missing")
            /\ UNCHANGED <<pending, subs, nsub>>
       ELSE IF down
       THEN \* the hand-off happens (pending marked, a key taken), submitPrice fails before any broadcast
            \* (E1 / E2 on every try) and returns: marks released, key returned - all within this step
            /\ nsub' = nsub + 1
            /\ out' = [stage |-> "submitted", m |-> TLCEval([s \in Decision |-> New(s)])]
            /\ calm' = FALSE
            /\ UNCHANGED <<pending, subs>>
       ELSE LET D == Decision
                m == TLCEval([s \in D |-> New(s)])   \* TLCEval: store an explicit function, not a lazy one
            IN /\ pending' = pending \cup D
               /\ nsub' = nsub + 1
               /\ subs' = subs \cup {[id |-> nsub + 1, m |-> m, ts |-> clk, st |-> "bcast", try |-> 1, res |-> "none"]}
               /\ out' = [stage |-> "submitted", m |-> m]
               /\ calm' = (calm /\ \A s \in Cur \ pending : svc[s].st # "missing")
    /\ UNCHANGED <<clk, bt, h, par, feeds, updT, updH, vp, slot, active, since, svc, mempool, down, rejSeen>>

\* a poll in which a chain query of the daemon fails: the validity query (loop body skipped: "queryErr"), or - the
\* validator being required to feed - one of the three refresh queries of updateInternalVariables (params, current
\* feeds, own validator prices: "updateFailed").  The daemon's view is stale: it must decide NOTHING in this poll.
PollFail(qs) ==
    /\ qs # {} /\ qs \subseteq {"valid", "params", "feeds", "vprices"}
    /\ lastPoll' = clk
    /\ out' = [stage |-> IF "valid" \in qs THEN "queryErr" ELSE IF ~active THEN "notValid" ELSE "updateFailed", m |-> <<>>]
    /\ calm' = FALSE
    /\ UNCHANGED <<pending, subs, nsub, waited>>
    /\ UNCHANGED <<clk, bt, h, par, feeds, updT, updH, vp, slot, active, since, svc, mempool, down, rejSeen>>

(***************************************************************************)
(* The submitter (submitter.go submitPrice).  A failed try is followed by  *)
(* the next try with the SAME message, or by giving up; pending is         *)
(* released when submitPrice returns, whatever the outcome.                *)
(***************************************************************************)
Finish(r) ==
    /\ subs' = subs \ {r}
    /\ pending' = pending \ DOMAIN r.m

FailTry(r) ==
    /\ calm' = FALSE
    /\ IF r.try < par.tries /\ ~down      \* under `down` the remaining tries fail at once
       THEN /\ subs' = (subs \ {r}) \cup {[r EXCEPT !.try = r.try + 1, !.st = "bcast", !.res = "none"]}
            /\ UNCHANGED pending
       ELSE Finish(r)

Bcast(id, res) ==
    /\ id \in SubIds
    /\ LET r == SubOf(id) IN
        /\ r.st = "bcast"
        /\ \/ /\ res = "ok"
              /\ mempool' = Append(mempool, [id |-> id, try |-> r.try, m |-> r.m, ts |-> r.ts])
              /\ subs' = (subs \ {r}) \cup {[r EXCEPT !.st = "wait"]}
              /\ UNCHANGED <<pending, calm>>
           \/ /\ res \in {"err", "chk", "oog"}     \* transport error / CheckTx code # 0 / CheckTx out of gas
              /\ FailTry(r)
              /\ UNCHANGED mempool
    /\ out' = res
    /\ UNCHANGED <<clk, bt, h, par, feeds, updT, updH, vp, slot, active, since, svc, nsub, lastPoll, down, waited, rejSeen>>

TxResult(id, res) ==
    /\ id \in SubIds
    /\ LET r == SubOf(id) IN
        /\ r.st = "wait"
        /\ \/ /\ res = "found" /\ r.res = "ok"
              /\ Finish(r)
              /\ UNCHANGED calm
           \/ /\ res = "found" /\ r.res = "rej"
              /\ FailTry(r)
           \/ /\ res = "timeout"
              /\ FailTry(r)
    /\ out' = res
    /\ UNCHANGED <<clk, bt, h, par, feeds, updT, updH, vp, slot, active, since, svc, nsub, mempool, lastPoll, down, waited, rejSeen>>

(***************************************************************************)
(* The chain.  SubmitSignalPrices (msg_server.go): the stored timestamp is *)
(* the BLOCK time; msg.Timestamp (= clock at submitPrice entry) is only    *)
(* compared with the allowed discrepancy; one bad signal rejects the whole *)
(* message; on success the list is rebuilt over the current feeds.         *)
(***************************************************************************)
Acc(e, vpc, t) ==
    /\ Cardinality(DOMAIN e.m) <= Cardinality(Cur)
    /\ active
    /\ Abs(e.ts - t) <= par.disc
    /\ DOMAIN e.m \subseteq Cur
    /\ \A s \in DOMAIN e.m : vpc[s].st = "none" \/ t >= vpc[s].ts + par.cool

Stored(e, vpc, t, hh) ==
    TLCEval([s \in Sig |-> IF s \in DOMAIN e.m THEN [st |-> e.m[s].st, price |-> e.m[s].price, ts |-> t, bh |-> hh]
                           ELSE IF s \in Cur THEN vpc[s] ELSE NoVP])

RECURSIVE Deliver(_, _, _, _)
Deliver(q, vpc, t, hh) ==
    IF q = <<>> THEN [vp |-> vpc, res |-> <<>>, touched |-> {}]
    ELSE LET e    == Head(q)
             ok   == Acc(e, vpc, t)
             rest == Deliver(Tail(q), IF ok THEN Stored(e, vpc, t, hh) ELSE vpc, t, hh)
         IN [vp |-> rest.vp, res |-> <<IF ok THEN "ok" ELSE "rej">> \o rest.res,
             touched |-> rest.touched \cup (IF ok THEN DOMAIN e.m ELSE {})]

\* CheckMissReport for one current feed
Miss(s, vpc, t, hh) ==
    LET lt0 == Max2(updT + par.grace, since + par.grace)
        lb0 == updH + par.grace \div MaxGuaranteeBlockTime
        lt  == IF vpc[s].st # "none" THEN Max2(lt0, vpc[s].ts + feeds[s].iv) ELSE lt0
        lb  == IF vpc[s].st # "none" THEN Max2(lb0, vpc[s].bh + feeds[s].iv \div MaxGuaranteeBlockTime) ELSE lb0
    IN lt < t /\ lb < hh

\* the time half of the miss rule, on the current state
LateNow(s) ==
    LET lt0 == Max2(updT + par.grace, since + par.grace)
        lt  == IF vp[s].st # "none" THEN Max2(lt0, vp[s].ts + feeds[s].iv) ELSE lt0
    IN lt < bt

\* d = lag of the block time behind the daemon clock; k = percentage the hash yields for this block time
Block(d, k) ==
    LET t   == clk - d
        hh  == h + 1
        r   == Deliver(mempool, vp, t, hh)
        hit == active /\ since < t /\ \E s \in Cur : Miss(s, r.vp, t, hh)
        idx(x) == {i \in 1..Len(mempool) : mempool[i].id = x.id /\ mempool[i].try = x.try}
    IN
    /\ d >= 0 /\ t >= bt
    /\ k \in (IF r.touched = {} THEN {0} ELSE SlotChoices)
    /\ \A s \in Sig \ r.touched : (r.touched # {} /\ vp[s].st # "none" /\ vp[s].ts = t) => slot[s] = k
    /\ bt' = t /\ h' = hh
    /\ vp' = r.vp
    /\ slot' = TLCEval([s \in Sig |-> IF r.vp[s].st = "none" THEN 0 ELSE IF s \in r.touched THEN k ELSE slot[s]])
    /\ active' = (active /\ ~hit)
    /\ since' = IF hit THEN t ELSE since
    /\ mempool' = <<>>
    /\ subs' = {IF idx(x) # {} THEN [x EXCEPT !.res = r.res[CHOOSE i \in idx(x) : TRUE]] ELSE x : x \in subs}
    /\ rejSeen' = (rejSeen \/ (calm /\ \E i \in 1..Len(mempool) : mempool[i].try = 1 /\ r.res[i] = "rej"))
    /\ calm' = (calm /\ d <= par.D)
    /\ out' = r.res
    /\ UNCHANGED <<clk, par, feeds, updT, updH, svc, pending, nsub, lastPoll, down, waited>>

(***************************************************************************)
(* Environment.                                                            *)
(***************************************************************************)
DueNow(s) == active /\ s \notin pending /\ Due(s)

TickWith(dt, q) ==
    /\ dt >= 1
    /\ clk' = clk + dt
    /\ svc' = TLCEval([s \in Sig |-> q[s]])
    /\ waited' = TLCEval([s \in Sig |-> IF DueNow(s) THEN waited[s] + dt ELSE 0])
    /\ calm' = (calm /\ clk + dt - lastPoll <= par.P /\ \A r \in subs : clk + dt - r.ts <= par.L)
    /\ out' = "tick"
    /\ UNCHANGED <<bt, h, par, feeds, updT, updH, vp, slot, active, since, pending, subs, nsub, mempool, lastPoll, down, rejSeen>>

Tick(dt) == TickWith(dt, svc)

Svc(q) ==
    /\ svc' = TLCEval([s \in Sig |-> q[s]])
    /\ out' = "svc"
    /\ UNCHANGED <<clk, bt, h, par, feeds, updT, updH, vp, slot, active, since, pending, subs, nsub, mempool,
                   lastPoll, down, calm, waited, rejSeen>>

\* the feeder key disappears from / returns to the keyring, the account query or the gas simulation breaks / recovers
Env(b) ==
    /\ down' = b
    /\ calm' = (calm /\ ~b)
    /\ out' = "env"
    /\ UNCHANGED <<clk, bt, h, par, feeds, updT, updH, vp, slot, active, since, svc, pending, subs, nsub, mempool,
                   lastPoll, waited, rejSeen>>

\* SetCurrentFeeds (the end-blocker's periodic update, installed here by the environment)
SetFeeds(nf) ==
    /\ feeds' = TLCEval([s \in Sig |-> nf[s]])
    /\ updT' = bt /\ updH' = h
    /\ calm' = (calm /\ subs = {} /\ mempool = <<>> /\ \A s \in Sig : nf[s].iv > 0 => TimingOK(nf[s].iv))
    /\ waited' = TLCEval([s \in Sig |-> 0])
    /\ out' = "feeds"
    /\ UNCHANGED <<clk, bt, h, par, vp, slot, active, since, svc, pending, subs, nsub, mempool, lastPoll, down, rejSeen>>

-----------------------------------------------------------------------------
(***************************************************************************)
(* Properties (C20).                                                       *)
(***************************************************************************)
TypeOK ==
    /\ pending \subseteq Sig
    /\ \A r \in subs : r.st \in {"bcast", "wait"} /\ r.res \in {"none", "ok", "rej"} /\ r.try \in 1..par.tries
                       /\ DOMAIN r.m \subseteq Sig /\ DOMAIN r.m # {}
    /\ \A s \in Sig : vp[s].st \in {"none", "avail", "unavail", "unsupp"}

\* in-flight bookkeeping: a signal is in at most one concurrent submission ...
Disjoint == \A r1, r2 \in subs : r1 # r2 => DOMAIN r1.m \cap DOMAIN r2.m = {}
\* ... and pending is exactly what is in flight (so it is empty when nothing is, also after failures)
PendingExact == pending = InFlightSigs

\* every submission the daemon makes is accepted by the chain
AllAccepted == ~rejSeen
\* a live daemon is never deactivated ...
StaysActive == calm => active
\* ... because no current feed is ever late (time half of the miss rule)
NeverLate == calm => \A s \in Cur : ~LateNow(s)
\* a status change or a deviation (or the assigned time) is acted on within P after the cool-down:
\* a signal is never due-and-not-pending for more than P seconds (<= rather than <: quotes may change
\* after the poll of the same second)
Prompt == calm => \A s \in Sig : waited[s] <= par.P
\* the decision never contains a signal whose cool-down (seen through the block-time lag) has not passed
DecisionSound ==
    \A r \in subs : r.try = 1 /\ r.st = "bcast" /\ r.ts = clk /\ calm =>
        \A s \in DOMAIN r.m : s \in Cur /\ (vp[s].st = "none" \/ clk - par.D >= vp[s].ts + par.cool)

Inv == TypeOK /\ Disjoint /\ PendingExact /\ AllAccepted /\ StaysActive /\ NeverLate /\ Prompt /\ DecisionSound

\* action property: a submission leaves `subs` only together with its pending marks
ReleaseA == \A r \in subs : (r.id \notin {x.id : x \in subs'}) => (DOMAIN r.m \cap pending' = {})
Release == [][ReleaseA]_vars
=============================================================================
