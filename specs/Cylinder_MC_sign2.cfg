\* thorough facet "signing" (4 pairs): min-de 1, two signings with up to two attempts, failing queries, every order / duplication
\* of notifications (HandleSigning is enabled for every id at every moment), sender landing or giving up in any batch
CONSTANTS
  NSig = 2
  MaxAtt = 2
  MaxTok = 4
  MinSet = {1}
  MaxDESet = {2}
  GasSet = {FALSE}
  MaxQ = 3
  QSet = {"ok", "fail"}
  WithCrash = FALSE
  WithDup = FALSE
SPECIFICATION MCSpec
CONSTRAINT Bound
INVARIANTS Inv
PROPERTIES PrivRule QueueRule CalmLandOK
CHECK_DEADLOCK FALSE
