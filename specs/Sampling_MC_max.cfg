\* ChooseSomeMaxWeight: <= 3 entries over 1..2, cnt 1..2, tries 1..2, every stream of cnt*tries draws over 0..5 (wider: Sampling_MC_max_wide.cfg, deeper: Sampling_MC_max_deep.cfg)
CONSTANTS
  SeedLen = 3
  Byte = {0, 1}
  Facet = "max"
  MaxN = 3
  WSet = {1, 2}
  MaxCnt = 2
  MaxTries = 2
  DSet = {0, 1, 2, 3, 4, 5}
  IdSet = {1}
INIT MCInit
NEXT MCNext
VIEW View
INVARIANTS Valid Deterministic Consumed OneSpec SomeSpec MaxSpec ShufSpec
PROPERTIES SeedRule
CHECK_DEADLOCK FALSE
