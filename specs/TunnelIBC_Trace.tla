--------------------------- MODULE TunnelIBC_Trace ---------------------------
(***************************************************************************)
(* Trace validation for TunnelIBC.tla.  Every line of the ndjson file was  *)
(* recorded from the real x/tunnel code and the real ibc core (channels    *)
(* over the 09-localhost client) by harness/fam_tunnelibc.                 *)
(*                                                                         *)
(* Same two-phase scheme as Tunnel_Trace.tla:                              *)
(*   Act  - if the event is OWNED, the spec action it names must be        *)
(*          enabled with the logged arguments and produce the logged       *)
(*          outcome; otherwise the spec stutters;                          *)
(*   Sync - after an owned event every CHECKED variable must equal the     *)
(*          projection of the real state; every other variable - and every *)
(*          variable after an event that is not owned - adopts the         *)
(*          observed value.  The end-block has its own list (EBChecked).   *)
(* `Reset` lines start a new trace.                                        *)
(***************************************************************************)
EXTENDS TunnelIBC, Json

CONSTANTS TraceFile, Checked, EBChecked, Owned
TraceLog == ndJsonDeserialize(TraceFile)

VARIABLES l, ph
tvars == <<ivars, l, ph>>

ToSet(s) == {s[i] : i \in 1..Len(s)}

Line == TraceLog[l]
Outcome == IF Line.o.ok THEN "ok" ELSE "rej"

\* ---- observed values ----
LCoins(m)   == [d \in Denom |-> m[d]]
Has(st, t)  == t <= st.count /\ st.tun[t].present
LCfg(st, t) == IF Has(st, t)
               THEN LET x == st.tun[t] IN
                    [present |-> TRUE, kind |-> x.kind, creator |-> x.creator, interval |-> x.interval, sigs |-> ToSet(x.sigs),
                     soft |-> [s \in Sig |-> x.soft[s]], hard |-> [s \in Sig |-> x.hard[s]]]
               ELSE NoCfg
LPkts(st, t) == IF Has(st, t)
                THEN [j \in 1..Len(st.tun[t].pk) |-> [seq |-> st.tun[t].pk[j].seq, sigs |-> ToSet(st.tun[t].pk[j].sigs)]]
                ELSE <<>>
LRcpt(st, t) == IF Has(st, t) THEN [j \in 1..Len(st.tun[t].pk) |-> st.tun[t].pk[j].rseq] ELSE <<>>
LChan(st, t) == IF Has(st, t) THEN [k \in Chs |-> [st |-> st.tun[t].ch[k].st, cap |-> st.tun[t].ch[k].cap]]
                ELSE [k \in Chs |-> NoChan]
LParams(st) == [minDep |-> LCoins(st.minDep), base |-> st.base, route |-> st.route]

OCount(st)   == st.count
OCfg(st)     == [t \in Tuns |-> LCfg(st, t)]
OActive(st)  == [t \in Tuns |-> Has(st, t) /\ st.tun[t].active]
OIdx(st)     == ToSet(st.idx)
OSeq(st)     == [t \in Tuns |-> IF Has(st, t) THEN st.tun[t].seq ELSE 0]
OLatest(st)  == [t \in Tuns |-> IF Has(st, t) THEN [s \in Sig |-> st.tun[t].latest[s]] ELSE NoLatest]
OLastInt(st) == [t \in Tuns |-> IF Has(st, t) THEN st.tun[t].lastInt ELSE Never]
OPkts(st)    == [t \in Tuns |-> LPkts(st, t)]
OFeeBal(st)  == [t \in Tuns |-> IF Has(st, t) THEN st.tun[t].feeBal ELSE 0]
OBal(st)     == [a \in Acct |-> LCoins(st.bal[a])]
ODep(st)     == [t \in Tuns |-> [a \in Acct |-> IF Has(st, t) THEN LCoins(st.tun[t].dep[a]) ELSE Zero]]
OTotDep(st)  == [t \in Tuns |-> IF Has(st, t) THEN LCoins(st.tun[t].totDep) ELSE Zero]
ORoute(st)   == [t \in Tuns |-> IF Has(st, t) THEN [p |-> st.tun[t].rt.p, k |-> st.tun[t].rt.k] ELSE NoRoute]
OChan(st)    == [t \in Tuns |-> LChan(st, t)]
ORcpt(st)    == [t \in Tuns |-> LRcpt(st, t)]
OIbc(st)     == [i \in 1..Len(st.ibc) |->
                    LET x == st.ibc[i] IN
                    [p |-> x.p, k |-> x.k, iseq |-> x.iseq, tid |-> x.tid, tseq |-> x.tseq,
                     prices |-> [s \in Sig |-> x.prices[s]], at |-> x.at, to |-> x.to, live |-> x.live]]

\* the first line is a Reset, which installs the observed initial state
TraceInit ==
    /\ l = 1 /\ ph = "act"
    /\ now = 0 /\ params = [minDep |-> Zero, base |-> 0, route |-> 0] /\ count = 0
    /\ cfg = [t \in Tuns |-> NoCfg] /\ active = [t \in Tuns |-> FALSE] /\ activeIdx = {}
    /\ seq = [t \in Tuns |-> 0] /\ latest = [t \in Tuns |-> NoLatest] /\ lastInt = [t \in Tuns |-> Never]
    /\ pkts = [t \in Tuns |-> <<>>] /\ feed = [s \in Sig |-> NoPrice] /\ mode = "ok" /\ pchg = FALSE
    /\ feeBal = [t \in Tuns |-> 0] /\ bal = [a \in Acct |-> Zero] /\ dep = [t \in Tuns |-> [a \in Acct |-> Zero]]
    /\ totDep = [t \in Tuns |-> Zero] /\ modBal = Zero /\ tssBal = 0 /\ totalFees = 0
    /\ out = "init" /\ ev = NoEv /\ last = [e |-> "Init", who |-> "none", t |-> 0]
    /\ route = [t \in Tuns |-> NoRoute] /\ chan = [t \in Tuns |-> [k \in Chs |-> NoChan]]
    /\ ibc = <<>> /\ rcpt = [t \in Tuns |-> <<>>] /\ ack = "none"

ResetVars(st) ==
    /\ st.count = 0 /\ Len(st.ibc) = 0
    /\ now' = st.now
    /\ params' = LParams(st)
    /\ count' = 0
    /\ cfg' = [t \in Tuns |-> NoCfg]
    /\ active' = [t \in Tuns |-> FALSE]
    /\ activeIdx' = OIdx(st)
    /\ seq' = [t \in Tuns |-> 0]
    /\ latest' = [t \in Tuns |-> NoLatest]
    /\ lastInt' = [t \in Tuns |-> Never]
    /\ pkts' = [t \in Tuns |-> <<>>]
    /\ feed' = [s \in Sig |-> st.feed[s]]
    /\ mode' = st.mode /\ pchg' = FALSE
    /\ feeBal' = [t \in Tuns |-> 0]
    /\ bal' = OBal(st)
    /\ dep' = [t \in Tuns |-> [a \in Acct |-> Zero]]
    /\ totDep' = [t \in Tuns |-> Zero]
    /\ modBal' = LCoins(st.modBal)
    /\ tssBal' = st.tssBal
    /\ totalFees' = st.totalFees
    /\ out' = "init" /\ ev' = NoEv /\ last' = [e |-> "Init", who |-> "none", t |-> 0]
    /\ route' = [t \in Tuns |-> NoRoute] /\ chan' = [t \in Tuns |-> [k \in Chs |-> NoChan]]
    /\ ibc' = <<>> /\ rcpt' = [t \in Tuns |-> <<>>] /\ ack' = "none"

\* which variables are compared with the observation after this line
CheckedNow == IF Line.e \notin Owned THEN {} ELSE IF Line.e = "EndBlock" THEN EBChecked ELSE Checked

Fn(m) == [s \in Sig |-> m[s]]

TCreate  == LET a == Line.a IN
            ICreate(a.a, a.kind, a.iv, ToSet(a.sigs), Fn(a.soft), Fn(a.hard), LCoins(a.dep), a.preset) /\ out' = Outcome
TUpdate  == LET a == Line.a IN
            IUpdateSignals(a.a, a.t, a.iv, ToSet(a.sigs), Fn(a.soft), Fn(a.hard)) /\ out' = Outcome
TUpdateRoute == IUpdateRoute(Line.a.a, Line.a.t, Line.a.rk, Line.a.p, Line.a.k) /\ out' = Outcome
TActivate   == IActivate(Line.a.a, Line.a.t) /\ out' = Outcome
TDeactivate == IDeactivate(Line.a.a, Line.a.t) /\ out' = Outcome
TTrigger    == ITrigger(Line.a.a, Line.a.t) /\ out' = Outcome
TDeposit    == IDeposit(Line.a.a, Line.a.t, LCoins(Line.a.amt), Line.a.bad) /\ out' = Outcome
TWithdraw   == IWithdraw(Line.a.a, Line.a.t, LCoins(Line.a.amt), Line.a.bad) /\ out' = Outcome
TSetFeed    == ISetFeed(Line.a.s, Line.a.p)
TFund       == IFund(Line.a.t, Line.a.x)
TChanInit   == ChanInit(Line.a.t, Line.a.ord, Line.a.ver) /\ out' = Outcome
TChanOpen   == ChanOpenRest(Line.a.t, Line.a.k)
TBreak      == Break(Line.a.t, Line.a.k, Line.a.how)
TCloseInit  == CloseInit(Line.a.t, Line.a.k) /\ out' = Outcome
TRecvIn     == RecvIn(Line.a.t, Line.a.k) /\ out' = Outcome /\ ack' = Line.o.ack
TAckPkt     == AckPkt(Line.a.i) /\ out' = Outcome
TTimeoutPkt == TimeoutPkt(Line.a.i) /\ out' = Outcome
TEndBlock ==
    LET o == Line.o
        processed == ToSet(o.succ) \cup ToSet(o.fail) \cup ToSet(o.deact)
    IN
    /\ o.ok
    /\ IEndBlock(Line.a.dt)
    /\ processed \subseteq {t \in Tuns : active[t]}                   \* only flagged tunnels are processed
    /\ ("ev" \in EBChecked) =>
          /\ ev' = [succ |-> ToSet(o.succ), fail |-> ToSet(o.fail), deact |-> ToSet(o.deact)]
          /\ Len(o.succ) = Cardinality(ToSet(o.succ)) /\ Len(o.fail) = Cardinality(ToSet(o.fail))

Act ==
    /\ ph = "act" /\ l <= Len(TraceLog)
    /\ ph' = "sync" /\ l' = l
    /\ IF Line.e = "Reset" THEN ResetVars(Line.s)
       ELSE IF Line.e \notin Owned THEN UNCHANGED ivars
       ELSE CASE Line.e = "CreateTunnel"  -> TCreate
              [] Line.e = "UpdateSignals" -> TUpdate
              [] Line.e = "UpdateRoute"   -> TUpdateRoute
              [] Line.e = "Activate"      -> TActivate
              [] Line.e = "Deactivate"    -> TDeactivate
              [] Line.e = "Trigger"       -> TTrigger
              [] Line.e = "Deposit"       -> TDeposit
              [] Line.e = "Withdraw"      -> TWithdraw
              [] Line.e = "SetFeed"       -> TSetFeed
              [] Line.e = "Fund"          -> TFund
              [] Line.e = "ChanInit"      -> TChanInit
              [] Line.e = "ChanOpen"      -> TChanOpen
              [] Line.e = "Break"         -> TBreak
              [] Line.e = "CloseInit"     -> TCloseInit
              [] Line.e = "RecvIn"        -> TRecvIn
              [] Line.e = "AckPkt"        -> TAckPkt
              [] Line.e = "TimeoutPkt"    -> TTimeoutPkt
              [] Line.e = "EndBlock"      -> TEndBlock

\* checked variable: must equal the observation; unchecked: adopt the observation
Bind(name, cur, nxt, obs) == IF name \in CheckedNow THEN cur = obs /\ nxt = cur ELSE nxt = obs

Sync ==
    /\ ph = "sync"
    /\ ph' = "act" /\ l' = l + 1
    /\ LET st == Line.s IN
        /\ st.count <= MaxTun
        /\ IF Line.e \in Owned THEN now = st.now /\ now' = now ELSE now' = st.now   \* the block clock is an input
        /\ params' = LParams(st)
        /\ feed' = [s \in Sig |-> st.feed[s]]                                      \* environment
        /\ mode' = st.mode
        /\ pchg' = (pchg \/ LParams(st).minDep # params.minDep)
        /\ Bind("count", count, count', OCount(st))
        /\ Bind("cfg", cfg, cfg', OCfg(st))
        /\ Bind("active", active, active', OActive(st))
        /\ Bind("activeIdx", activeIdx, activeIdx', OIdx(st))
        /\ Bind("seq", seq, seq', OSeq(st))
        /\ Bind("latest", latest, latest', OLatest(st))
        /\ Bind("lastInt", lastInt, lastInt', OLastInt(st))
        /\ Bind("pkts", pkts, pkts', OPkts(st))
        /\ Bind("feeBal", feeBal, feeBal', OFeeBal(st))
        /\ Bind("bal", bal, bal', OBal(st))
        /\ Bind("dep", dep, dep', ODep(st))
        /\ Bind("totDep", totDep, totDep', OTotDep(st))
        /\ Bind("modBal", modBal, modBal', LCoins(st.modBal))
        /\ Bind("tssBal", tssBal, tssBal', st.tssBal)
        /\ Bind("totalFees", totalFees, totalFees', st.totalFees)
        /\ Bind("route", route, route', ORoute(st))
        /\ Bind("chan", chan, chan', OChan(st))
        /\ Bind("ibc", ibc, ibc', OIbc(st))
        /\ Bind("rcpt", rcpt, rcpt', ORcpt(st))
        \* every logged IBC packet whose commitment the spec expects has exactly that commitment in the ibc store, no
        \* channel holds another commitment, and ibc core's next-sequence-send of every channel is the spec's
        /\ ("ibc" \in CheckedNow) =>
              /\ st.commitOK
              /\ \A t \in Tuns, k \in Chs : (Has(st, t) /\ ChanExists(t, k)) => st.tun[t].ch[k].ns = NextSeqSend(t, k)
        \* end-block never touches a tunnel that is not flagged active
        /\ (Line.e = "EndBlock" /\ "frame" \in CheckedNow) =>
              \A t \in Tuns : ~active[t] =>
                  /\ OSeq(st)[t] = seq[t] /\ OFeeBal(st)[t] = feeBal[t] /\ OLatest(st)[t] = latest[t]
                  /\ OLastInt(st)[t] = lastInt[t] /\ OPkts(st)[t] = pkts[t]
    /\ UNCHANGED <<out, ev, last, ack>>

TraceNext == Act \/ Sync
TraceSpec == TraceInit /\ [][TraceNext]_tvars

TraceAccepted ==
    LET d == TLCGet("stats").diameter IN
    IF d - 1 = 2 * Len(TraceLog) THEN TRUE
    ELSE Print(<<"TRACE_REJECTED_AT_LINE", (d + 1) \div 2, "PHASE", IF d % 2 = 1 THEN "act" ELSE "sync", "OF", Len(TraceLog)>>, FALSE)

\* the bounds of the trace spec must not be what stops a creation
TraceBoundOK == count < MaxTun /\ \A t \in Tuns : NCh(t) < MaxCh

\* invariants are evaluated on the states between lines (after Sync), i.e. on the observed state
AtLine == ph = "act"
TIInv == AtLine => IInvX05

\* the action properties, on every Act step of an owned event
Exempt == ph = "sync" \/ (l <= Len(TraceLog) /\ (TraceLog[l].e = "Reset" \/ TraceLog[l].e \notin Owned))
TIbcSend == [][Exempt \/ IbcSendA]_tvars
TIbcFee == [][Exempt \/ IbcFeeA]_tvars
TIbcRoute == [][Exempt \/ IbcRouteA]_tvars
TRouteRule == [][Exempt \/ RouteRuleA]_tvars
TCallbackInert == [][Exempt \/ CallbackInertA]_tvars
TChanRule == [][Exempt \/ ChanRuleA]_tvars
TSeqStep == [][Exempt \/ SeqStepA]_tvars
TPacketRule == [][Exempt \/ PacketRuleA]_tvars
TFeesOnlyWithPackets == [][Exempt \/ FeesOnlyWithPacketsA]_tvars
=============================================================================
