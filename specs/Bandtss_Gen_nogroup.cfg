CONSTANTS
  Addr = {"a1", "a2", "a3", "a4"}
  Payer = {"p1", "p2"}
  MaxG = 4
  MaxSig = 6
  MemberMenu = {{"a1", "a2"}, {"a2", "a3"}, {"a3", "a4"}, {"a4"}}
  MinDur = 1
  MaxDur = 3
  PeriodSet = {1, 3}
  CreateSet = {2, 4}
  FeeSet = {0, 1, 2}
  DtSet = {0, 1, 2, 3}
  LimitSet = {0, 100}
  ExecOffsets = {0, 1, 2, 3, 4}
  MaxH = 100
  StartWithGroup = FALSE
  Bal0 = 1000
  Depth = 26
SPECIFICATION GSpec
INVARIANT Emit
CHECK_DEADLOCK FALSE
