\* C11: clock, signing count and the stored message hashes are checked; every event that can create a signing is owned
CONSTANTS
  MaxSig = 64
  MaxMemo = 100
  MaxText = 40
  MaxSigs = 3
  Zero = "0"
  FineFrom = 10000
  OrigMode = "each"
  TraceFile = "trace.ndjson"
  Checked = {"now", "sigc", "mhs"}
  Owned = {"Request", "Trigger", "Env", "EndBlock"}
SPECIFICATION TraceSpec
INVARIANTS TInv TraceBoundOK
PROPERTIES TAppendOnly TRejectRule
POSTCONDITION TraceAccepted
CHECK_DEADLOCK FALSE
