-------------------------- MODULE TssAlgebra_Trace --------------------------
(***************************************************************************)
(* Trace validation for TssAlgebra.tla (property C03).  Every line of the  *)
(* ndjson file was recorded from the real x/bandtss + x/tss code signing   *)
(* on secp256k1 (harness/fam_tssalgebra).                                  *)
(*                                                                         *)
(* The trace spec is abstract: it does not recompute curve values.  It     *)
(* replays the recorded scenario homomorphically in Z_Q with witness key   *)
(* material (a fixed polynomial, nonces and oracle answers chosen by       *)
(* formula): a submission whose bytes equal the claimed member's correct   *)
(* share (a.rBad = a.zBad = FALSE, classified by the driver from the       *)
(* inputs alone) is replayed as that member's correct share in Z_Q, one    *)
(* whose nonce point / scalar differs is replayed with R+1 / z+1.  The     *)
(* specification's SubmitSignature checks then decide accept / reject and  *)
(* the recorded outcome must agree:  accepted <=> uncorrupted.             *)
(*                                                                         *)
(* Each line is consumed in two TLC steps (Act, Sync) with the constants   *)
(* Checked / Owned, exactly as in Oracle_Trace.tla.  sig is compared as    *)
(* (present, valid) where `valid` on the real side is the verdict of the   *)
(* harness' independent verifier.                                          *)
(***************************************************************************)
EXTENDS TssAlgebra, Json

CONSTANTS TraceFile, Checked, Owned
TraceLog == ndJsonDeserialize(TraceFile)

VARIABLES l, ph
tvars == <<vars, l, ph>>

ToSet(s) == {s[i] : i \in 1..Len(s)}

Line == TraceLog[l]
Outcome == IF Line.o.ok THEN "ok" ELSE "rej"

\* witness key material and oracle answers (any values would do: TssAlgebra_MC checks the algebra for all of them)
WPoly(k) == [j \in 1..k |-> (2 * j + 1) % Q]
WD(C) == [i \in C |-> (3 * i + 1) % Q]
WE(C) == [i \in C |-> (i + 2) % Q]
WR(C, a) == [i \in C |-> (5 * i + a) % Q]
WC(a) == (4 + 3 * a) % Q

TraceInit ==
    /\ l = 1 /\ ph = "act"
    /\ n = 1 /\ t = 1 /\ coef = WPoly(1) /\ pk = [i \in 1..1 |-> Eval(WPoly(1), i)]
    /\ h = 1 /\ st = "none" /\ att = 0 /\ S = {} /\ expH = 0
    /\ dn = Empty /\ en = Empty /\ rho = Empty /\ pubN = Empty /\ gR = 0 /\ ch = 0 /\ chl = Empty /\ hon = Empty
    /\ orc = [r \in Zq |-> -1]
    /\ prev = NoPrev
    /\ ps = [i \in 1..1 |-> NoShare]
    /\ pend = FALSE /\ sig = NoSig /\ out = "init" /\ wasBad = FALSE

ResetVars(s) ==
    /\ n' = s.n /\ t' = s.t /\ coef' = WPoly(s.t)
    /\ pk' = [i \in 1..s.n |-> Eval(WPoly(s.t), i)]
    /\ h' = s.h /\ st' = "none" /\ s.st = "none" /\ att' = 0 /\ S' = {} /\ expH' = 0
    /\ dn' = Empty /\ en' = Empty /\ rho' = Empty /\ pubN' = Empty /\ gR' = 0 /\ ch' = 0 /\ chl' = Empty /\ hon' = Empty
    /\ orc' = [r \in Zq |-> -1]
    /\ prev' = NoPrev
    /\ ps' = [i \in 1..s.n |-> NoShare]
    /\ pend' = FALSE /\ sig' = NoSig /\ out' = "init" /\ wasBad' = FALSE

\* the committee is what the real sampler chose (it had no choice: only these members hold nonces)
TRequest ==
    LET C == ToSet(Line.s.S) IN
        /\ Line.o.ok
        /\ Request(C, WD(C), WE(C), WR(C, 1), WC(1))

\* the replayed share: the claimed member's correct share, with R+1 / z+1 where the real bytes differ
WShare(a) ==
    IF a.mid \in S
    THEN [R |-> (hon[a.mid].R + (IF a.rBad THEN 1 ELSE 0)) % Q, z |-> (hon[a.mid].z + (IF a.zBad THEN 1 ELSE 0)) % Q]
    ELSE [R |-> 1, z |-> 1]

TSubmit == Submit(Line.a.snd, Line.a.mid, WShare(Line.a)) /\ out' = Outcome

TEndBlock ==
    LET C == ToSet(Line.s.S) IN
        /\ Line.o.ok
        /\ IF RetryDue /\ Line.s.st = "waiting"
           THEN EndBlock(C, WD(C), WE(C), WR(C, att + 1), WC(att + 1))
           ELSE EndBlock({}, Empty, Empty, Empty, 0)

\* a native evaluation batch of the interpolation invariant (thorough-tier extra): TLC only sees the boolean
TNative == Line.o.ok /\ Nonces

Act ==
    /\ ph = "act" /\ l <= Len(TraceLog)
    /\ ph' = "sync" /\ l' = l
    /\ IF Line.e = "Reset" THEN ResetVars(Line.s)
       ELSE IF Line.e \notin Owned THEN UNCHANGED vars
       ELSE CASE Line.e = "Request"  -> TRequest
              [] Line.e = "Submit"   -> TSubmit
              [] Line.e = "EndBlock" -> TEndBlock
              [] Line.e = "Nonces"   -> Line.o.ok /\ Nonces
              [] Line.e = "Native"   -> TNative

\* checked variable: must equal the observation; unchecked: adopt the observation
Bind(name, cur, nxt, obs) == IF name \in Checked THEN cur = obs /\ nxt = cur ELSE nxt = obs

SigView(s) == [present |-> s # NoSig, valid |-> s # NoSig /\ GroupVerify(s)]

Sync ==
    /\ ph = "sync"
    /\ ph' = "act" /\ l' = l + 1
    /\ LET s == Line.s IN
        /\ s.n = n /\ s.t = t
        /\ h' = s.h                                              \* the block height is always an input
        /\ Bind("st", st, st', s.st)
        /\ Bind("att", att, att', s.att)
        /\ Bind("S", S, S', ToSet(s.S))
        /\ Bind("pend", pend, pend', s.pend)
        \* the stored shares and the signature are compared through their observable view; they are never adopted
        /\ ("signed" \in Checked) => Signed = ToSet(s.signed)
        /\ ("sig" \in Checked) => SigView(sig) = [present |-> s.sig.present, valid |-> s.sig.valid]
        \* the announced assignment of a live attempt is the one the public inputs determine (Fresh of TssAlgebra.tla):
        \* every member's binding factor is the oracle's answer for ITS member id, message and commitment list, its
        \* public nonce is D_i + rho_i * E_i and the group nonce is their sum - recomputed by the driver from the stored
        \* committee with the member ids, not from the positions in the list
        /\ ("asg" \in Checked /\ "asgOK" \in DOMAIN s) => s.asgOK
    /\ UNCHANGED <<gvars, expH, dn, en, rho, pubN, gR, ch, chl, hon, orc, prev, ps, sig, out, wasBad>>

TraceNext == Act \/ Sync
TraceSpec == TraceInit /\ [][TraceNext]_tvars

TraceAccepted ==
    LET d == TLCGet("stats").diameter IN
    IF d - 1 = 2 * Len(TraceLog) THEN TRUE
    ELSE Print(<<"TRACE_REJECTED_AT_LINE", (d + 1) \div 2, "PHASE", IF d % 2 = 1 THEN "act" ELSE "sync", "OF", Len(TraceLog)>>, FALSE)

\* invariants are evaluated on the states between lines (after Sync)
AtLine == ph = "act"
TraceSafety ==
    /\ TypeOK /\ HonestAccepted /\ SignedRejected /\ StoredCorrect /\ PendIffComplete
    /\ PublishedValid /\ PublishedVerifies /\ NeverFailsComplete
TInv == AtLine => TraceSafety

\* the action properties of TssAlgebra, on every Act step that is not a Reset
Exempt == ph = "sync" \/ (l <= Len(TraceLog) /\ TraceLog[l].e = "Reset")
TBadNeverStored == [][Exempt \/ BadNeverStoredA]_tvars
TSuccessRule == [][Exempt \/ SuccessRuleA]_tvars
TCompleteSucceeds == [][Exempt \/ CompleteSucceedsA]_tvars
TSigImmutable == [][Exempt \/ SigImmutableA]_tvars
TFinal == [][Exempt \/ FinalA]_tvars
TGroupFixed == [][Exempt \/ GroupFixedA]_tvars
=============================================================================
