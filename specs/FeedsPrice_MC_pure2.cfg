\* pure facet (quick): every sequence of <= 2 entries over power {1,2,3,4,9} x ts 0..2 x (price 1..4 | unavail | unsupp)
CONSTANTS
  Val = {v1}
  Stranger = {}
  Sig = {s1}
  GraceSet = {1}
  CoolSet = {1}
  DiscSet = {1}
  UpdSet = {1}
  QuorumSet = {1}
  PenaltySet = {1}
  DtSet = {1}
  IntervalSet = {1}
  PowerSet = {1}
  PriceSet = {1}
  StatusSet = {"avail"}
  ToffSet = {0}
  MaxH = 0
  MaxN = 2
  AllOrders = FALSE
  PPowerSet = {1, 2, 3, 4, 9}
  PTsSet = {0, 1, 2}
  PPriceSet = {1, 2, 3, 4}
INIT PureInit
NEXT PureNext
INVARIANTS PureRange PureScale PureOrder PureStatus PureAlt
CHECK_DEADLOCK FALSE
