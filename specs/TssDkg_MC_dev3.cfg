\* thorough: n=3, t=2, up to 4 deviating steps (two dealers whose corruptions cancel + a victim that confirms anyway)
CONSTANTS
  MaxN = 3
  NSet = {3}
  TSet = {2}
  Q = 5
  Periods = {6}
  PolyMode = "one"
  MaxH = 5
  MaxDev = 4
INIT Init
NEXT MCNext
VIEW View
CONSTRAINT Bound
INVARIANTS Inv
PROPERTIES StatusMonotone MalSticky NeverActiveAfterMal KeysImmutable MalOnlyByComplain RejectedNoEffect
CHECK_DEADLOCK FALSE
