\* FINDING (expected to fail, not part of the pipeline): signal ids with a leading zero byte
CONSTANTS
  MaxSig = 3
  MaxMemo = 2
  MaxText = 2
  MaxSigs = 1
  Zero = 0
  FineFrom = 10
  MaxNow = 1
  OrigMode = "each"
  StrDom <- Strs6
  SigDom <- SigsNul
INIT InitCont
NEXT Stay
INVARIANTS ContInj
CHECK_DEADLOCK FALSE
