\* quick facet: two accounts sharing two vaults, two denoms whose allowed set changes, one validator
\* (backing over several accounts, power drop by disallowing a denom, deactivation releasing a lock)
CONSTANTS
  Acct = {a1, a2}
  Val = {v1}
  Vault = {k1, k2}
  Denom = {d1, d2}
  AmtSet = {1}
  CoinAmts = {1}
  CoinSet <- MCCoins
  LockAmts = {0, 1, 2}
  LockSet <- MCLocks
  MaxHi = 0
  U64Lim = 200000000
  MaxEntry = 1
  InitAllowed = {d1}
INIT Init
NEXT Next
SYMMETRY SymAll
VIEW View
CONSTRAINT Bound
INVARIANTS Inv
PROPERTIES WithdrawGuard RejUnchanged LockRule VaultRule BackingStep
CHECK_DEADLOCK FALSE
