CONSTANTS
  MaxChanges = 1
SPECIFICATION MCSpec
INVARIANTS Sound Ruled BaseOK NamesImplySides
CHECK_DEADLOCK FALSE
