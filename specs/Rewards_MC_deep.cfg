\* (thorough) oracle facet: 2 validators, every pool 0..12, powers 0..3, three initial books, all activity patterns, both proposers,
\* pct 0/50/100, tax 0, 1/2, 1; the allocator's outcome is enumerated blindly over 0..MaxAmt
CONSTANTS
  Val = {"v1", "v2"}
  Mem = {"m1"}
  Denom = {"u"}
  MaxAmt = 16
  Kinds = {"OracleAlloc"}
  Pools = {0, 1, 2, 3, 4, 5, 6, 7, 8, 9, 10, 11, 12}
  NBooks = 3
  Pows = {0, 1, 2, 3}
  PwVecs <- AllPw
  Props = {"v1", "v2"}
  Pcts = {0, 50, 100}
  Taxes = {0, 1, 2}
  ActSets <- AllAct
  MemFlagSets <- AllMemFlags
INIT Init
NEXT Next
INVARIANTS TypeOK NonNegative BankConsistent NoDust
PROPERTIES Conserved OnlyActivePaid RightBase EnvIsEnv
CHECK_DEADLOCK TRUE
