------------------------------- MODULE Block -------------------------------
(* Property C02: executing a block is a total, deterministic function of the previously committed   *)
(* state and the block.                                                                              *)
(*                                                                                                   *)
(* The specification has ONE action, Exec: the next block (height h+1) is executed by two replicas   *)
(* A and B that started from the same genesis and have executed the same blocks so far.  What each   *)
(* replica observed is an argument of the action (TLA+ cannot compute a Merkle root, and need not):  *)
(*   err   "none" | "error" (FinalizeBlock/Commit returned an error) | "panic" (a panic escaped      *)
(*         begin/end-block processing) | "halted" (the replica had already stopped)                  *)
(*   hash  the application hash after Commit, as a string                                            *)
(*   res   the sequence of per-transaction results <<[code, space, gas, data]>>                      *)
(* The property is the pair of invariants Total and Deterministic over every reachable state, i.e.   *)
(* after every executed block of every block sequence.  There is deliberately no exhaustive model    *)
(* checking configuration: the state space of this module is "all strings"; its content comes from   *)
(* recorded twin executions of the real code (Block_Trace.tla).  Level: exploration.                 *)
EXTENDS Naturals, Sequences

VARIABLES
    h,       \* height of the last executed block
    errA, errB,
    hashA, hashB,
    resA, resB

vars == <<h, errA, errB, hashA, hashB, resA, resB>>

Init ==
    /\ h = 1                       \* block 1 (empty) is committed by the world set-up of both replicas
    /\ errA = "none" /\ errB = "none"
    /\ hashA = "" /\ hashB = ""
    /\ resA = <<>> /\ resB = <<>>

(* One block.  A chain on which a replica failed does not continue: Exec is enabled only while both *)
(* replicas are running; blocks are consecutive.                                                     *)
Exec(height, a, b) ==
    /\ errA = "none" /\ errB = "none"
    /\ height = h + 1
    /\ h' = height
    /\ errA' = a.err /\ hashA' = a.apphash /\ resA' = a.txs
    /\ errB' = b.err /\ hashB' = b.apphash /\ resB' = b.txs

(* ---- the property ---- *)
Total == errA = "none" /\ errB = "none"

Deterministic == hashA = hashB /\ resA = resB
=============================================================================
