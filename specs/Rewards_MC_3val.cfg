\* (thorough) oracle facet with 3 validators: pools 0..4, powers 0..2, all activity patterns, every proposer,
\* pct 0/50/100, tax 0, 1/2, 1; the allocator's outcome is enumerated blindly over 0..MaxAmt
CONSTANTS
  Val = {"v1", "v2", "v3"}
  Mem = {"m1"}
  Denom = {"u"}
  MaxAmt = 8
  Kinds = {"OracleAlloc"}
  Pools = {0, 1, 2, 3, 4}
  NBooks = 1
  Pows = {0, 1, 2}
  PwVecs <- AllPw
  Props = {"v1", "v2", "v3"}
  Pcts = {0, 50, 100}
  Taxes = {0, 1, 2}
  ActSets <- AllAct
  MemFlagSets <- AllMemFlags
INIT Init
NEXT Next
INVARIANTS TypeOK NonNegative BankConsistent NoDust
PROPERTIES Conserved OnlyActivePaid RightBase EnvIsEnv
CHECK_DEADLOCK TRUE
