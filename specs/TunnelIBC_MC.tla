---------------------------- MODULE TunnelIBC_MC ----------------------------
(***************************************************************************)
(* MC role for TunnelIBC.tla: small constants, facet initial states and    *)
(* facet next-state relations (non-scalar constants are defined here and   *)
(* substituted with <- in the cfg files).                                  *)
(***************************************************************************)
EXTENDS TunnelIBC

CONSTANTS MaxNow,    \* time bound of the facet
          NTun,      \* number of pre-created tunnels
          InitFee,   \* their fee payers' initial balance
          PreCh,     \* every pre-created IBC tunnel starts with PreCh OPEN channels, its route naming the first
          MaxLog,    \* bound on the number of IBC packets of a history
          MaxSteps   \* bound on the length of the history (facet "route")

VARIABLE steps       \* rank of the last step inside the block in progress (canonical order of commuting steps)

mcvars == <<ivars, steps>>

\* output-only variables are not part of the state identity
IView == <<now, params, count, cfg, active, activeIdx, seq, latest, lastInt, pkts, feed, mode, pchg,
           feeBal, bal, dep, totDep, modBal, tssBal, totalFees, route, chan, ibc, rcpt, steps>>

Coins(a, b) == [d \in Denom |-> IF d = FeeDenom THEN b ELSE a]

\* ---- constant substitutions ----
P_1_2_3_4  == {[minDep |-> Coins(1, 2), base |-> 3, route |-> 4]}
P_fees     == {[minDep |-> Coins(1, 2), base |-> 3, route |-> 4], [minDep |-> Coins(1, 2), base |-> 0, route |-> 2]}
Dev_one    == {[soft |-> 300, hard |-> 3000]}
Dev_pkt    == {[soft |-> 300, hard |-> 3000], [soft |-> 3000, hard |-> 300]}
Amt_zero   == {Coins(0, 0)}
Price_few  == {NoPrice, 100, 130}
Price_two  == {100, 130}
Price_pkt  == {NoPrice, 0, 100, 103, 130}
Sig_all    == {Sig}
Ch_send    == {[p |-> 0, k |-> 0], [p |-> 1, k |-> 1], [p |-> 1, k |-> 2]}
Ch_route   == {[p |-> 0, k |-> 0], [p |-> 1, k |-> 1], [p |-> 2, k |-> 1], [p |-> 0, k |-> 1]}
Ch_second  == {[p |-> 1, k |-> 2]}
Ch_none    == {}

Bound == now <= MaxNow /\ Len(ibc) <= MaxLog

Creator0 == CHOOSE a \in Acct : TRUE
Cfgs == {[present |-> TRUE, kind |-> k, creator |-> Creator0, interval |-> iv, sigs |-> Sig,
          soft |-> [s \in Sig |-> dv[s].soft], hard |-> [s \in Sig |-> dv[s].hard]] :
            k \in KindSet, iv \in (IvSet \cap MinIv..MaxIv), dv \in [Sig -> DevSet]}

(***************************************************************************)
(* NTun tunnels already created by the first account, with the minimum     *)
(* deposit, active, fee payers funded; every configuration of kind /       *)
(* interval / deviations from the constant sets; IBC tunnels with PreCh    *)
(* open channels and the route on the first one.                           *)
(***************************************************************************)
InitIbc ==
    /\ now = 100
    /\ params \in ParamSet
    /\ count = NTun
    /\ cfg \in [Tuns -> Cfgs \cup {NoCfg}]
    /\ \A t \in Tuns : cfg[t].present <=> t <= NTun
    /\ active = [t \in Tuns |-> t <= NTun]
    /\ activeIdx = 1..NTun
    /\ seq = [t \in Tuns |-> 0]
    /\ latest = [t \in Tuns |-> NoLatest]
    /\ lastInt = [t \in Tuns |-> Never]
    /\ pkts = [t \in Tuns |-> <<>>]
    /\ feed = [s \in Sig |-> 100]
    /\ mode = "ok" /\ pchg = FALSE
    /\ feeBal = [t \in Tuns |-> IF t <= NTun THEN InitFee ELSE 0]
    /\ bal = [a \in Acct |-> [d \in Denom |-> InitBal]]
    /\ dep = [t \in Tuns |-> [a \in Acct |-> IF t <= NTun /\ a = Creator0 THEN params.minDep ELSE Zero]]
    /\ totDep = [t \in Tuns |-> IF t <= NTun THEN params.minDep ELSE Zero]
    /\ modBal = [d \in Denom |-> NTun * params.minDep[d]]
    /\ tssBal = 0 /\ totalFees = 0
    /\ out = "init" /\ ev = NoEv /\ last = [e |-> "Init", who |-> "none", t |-> 0]
    /\ chan = [t \in Tuns |-> [k \in Chs |-> IF cfg[t].kind = "ibc" /\ k <= PreCh THEN [st |-> "open", cap |-> TRUE] ELSE NoChan]]
    /\ route = [t \in Tuns |-> IF cfg[t].kind = "ibc" /\ PreCh > 0 THEN [p |-> t, k |-> 1] ELSE NoRoute]
    /\ ibc = <<>>
    /\ rcpt = [t \in Tuns |-> <<>>]
    /\ ack = "none"
    /\ steps = 0

\* facet "send": one IBC tunnel from a fresh port - handshake, route updates, channel failures, prices, triggers, blocks
\* in free interleaving
NextSend ==
    /\ \/ INextRoute
       \/ \E a \in Acct, t \in Tuns : ITrigger(a, t)
       \/ \E s \in Sig, p \in PriceSet : ISetFeed(s, p)
       \/ \E dt \in DtSet : IEndBlock(dt)
    /\ steps' = 0

\* facet "two": several tunnels (every pair of kinds) on open channels; inside a block the environment steps commute,
\* so they are explored in one canonical order (feed, break, fund, trigger) only
NextTwo ==
    \/ steps <= 1 /\ (\E s \in Sig, p \in PriceSet : ISetFeed(s, p)) /\ steps' = 1
    \/ steps < 2 /\ (\E t \in Tuns, k \in Chs, how \in HowSet : Break(t, k, how)) /\ steps' = 2
    \/ steps < 3 /\ (\E t \in Tuns, x \in FundSet : IFund(t, x)) /\ steps' = 3
    \/ steps < 4 /\ (\E a \in Acct, t \in Tuns : ITrigger(a, t)) /\ steps' = 4
    \/ (\E dt \in DtSet : IEndBlock(dt)) /\ steps' = 0

\* facet "cb": packets in flight on two channels of one tunnel - incoming packets, acknowledgements, timeouts, a route
\* switch, a channel failure
NextCb ==
    /\ \/ INextCallbacks
       \/ \E a \in Acct, t \in Tuns, c \in ChanArgs : IUpdateRoute(a, t, "ibc", c.p, c.k)
       \/ \E t \in Tuns, k \in Chs, how \in HowSet : Break(t, k, how)
       \/ \E s \in Sig, p \in PriceSet : ISetFeed(s, p)
       \/ \E dt \in DtSet : IEndBlock(dt)
    /\ steps' = 0

\* facet "route": two tunnels, creation included (IBC / TSS, preset channel), who may point which tunnel at which channel
NextRoute ==
    /\ \/ INextRoute
       \/ \E a \in Acct, k \in KindSet, iv \in IvSet, S \in SigSets, dv \in [Sig -> DevSet], d0 \in AmtSet, pre \in BOOLEAN :
             ICreate(a, k, iv, S, [s \in Sig |-> dv[s].soft], [s \in Sig |-> dv[s].hard], d0, pre)
    /\ steps' = steps + 1

BoundRoute == steps <= MaxSteps
InitRoute == IInit /\ steps = 0
=============================================================================
