\* deposit ledger (C17): two tunnels, two symmetric accounts (either may create), two denoms, amounts around the
\* minimum deposit (1 ua, 2 ub) and the account balance (3), unaccepted denom, histories of up to 5 steps
CONSTANTS
  MaxTun = 2
  Sig = {"s1"}
  Acct = {a1, a2}
  Denom = {"ua", "ub"}
  FeeDenom = "ub"
  MinIv = 1
  MaxIv = 10
  MinDev = 50
  MaxDev = 3000
  ParamSet <- P_1_2_3_4
  KindSet = {"tss"}
  IvSet = {2}
  SigSets <- Sig_all
  DevSet <- Dev_one
  AmtSet <- Amt_small
  FundSet = {7}
  PriceSet <- Price_one
  ModeSet = {"ok"}
  DtSet = {1}
  InitBal = 3
  MaxNow = 103
  MaxSteps = 5
  NTun = 0
  InitFee = 0
INIT InitLedger
NEXT NextLedgerSmall
SYMMETRY SymAcct
VIEW View
CONSTRAINT BoundSteps
INVARIANTS Inv
PROPERTIES WithdrawOwn DepositOwn ActivationGate Deactivation EndBlockFrame SeqStep FeesOnlyWithPackets
CHECK_DEADLOCK FALSE
