\* quick algebra facet: q = 11, n <= 4, t <= 2, EVERY polynomial, every committee, challenge values {0, 1, 7};
\* one attempt, all corruption kinds, ascending submission order
\* measured: 50,314 distinct / 1,316,403 generated states, 24 s (16 workers)
CONSTANTS
  Q = 11
  NSet = {1, 2, 3, 4}
  TMin = 1
  TMax = 2
  PolyMode = "all"
  NonceD = {2}
  NonceE = {1}
  RhoSet = {3}
  CSet = {0, 1, 7}
  MaxAttempt = 1
  Period = 1
  MinHigh = 0
  SecrecyOn = TRUE
  MaxH = 2
  AscOnly = TRUE
  MCKinds = {"none", "scalar", "nonce", "nonceOther", "signer", "steal", "outsider", "committee", "staleRho"}
SPECIFICATION MCSpec
VIEW View
CONSTRAINT Bound
INVARIANTS Safety
PROPERTIES BadNeverStored SuccessRule CompleteSucceeds SigImmutable Final GroupFixed
CHECK_DEADLOCK FALSE
