------------------------------- MODULE Rewards -------------------------------
(***************************************************************************)
(* Block reward allocation (property C14) -- a CONTRACT specification.     *)
(*                                                                         *)
(* Real entry points (one action each):                                    *)
(*   OracleAlloc  x/oracle/abci.go BeginBlocker -> keeper.AllocateTokens   *)
(*   TssAlloc     x/bandtss/abci.go BeginBlocker -> keeper.AllocateTokens  *)
(*   FullBegin    app.BeginBlocker: ... oracle -> ... bandtss -> ...       *)
(*                distribution (app/modules.go orderBeginBlockers), with   *)
(*                the mint module neutralised (zero inflation)             *)
(*   Env          the environment (driver): refills the fee collector      *)
(*                                                                         *)
(* The code computes with 18-decimal fixed point numbers; TLC cannot.  The *)
(* state therefore holds, for every decimal quantity, its integer part i   *)
(* (floor) and a flag f ("has a non-zero fraction"), and the actions say   *)
(* what an allocator MAY do (pre/post-condition): exact integer formulas   *)
(* where the code's result is an integer (shares of the fee pool, the      *)
(* community fund), an integer bracket for the members' payment, and       *)
(* cross-multiplied integer inequalities for the validators' decimal       *)
(* rewards ("never above the exact share, less than two units below"; the  *)
(* proposer additionally receives what the truncations leave over).        *)
(*                                                                         *)
(* Every action is written as  x' \in <type>  /\  <constraints on x'>  per *)
(* variable, in this order.  In the MC role TLC enumerates the (small)     *)
(* types blindly and the constraints prune; in the TRACE role x' is the    *)
(* observed value and the same lines are membership tests and checks.      *)
(* Every product stays below 2^31 for amounts <= 10^6, powers <= 100 per   *)
(* validator, percentages <= 100 and tax = taxN/taxD with taxD = 100.      *)
(***************************************************************************)
EXTENDS Integers, FiniteSets, TLC

CONSTANTS
    Val,     \* validators (all validators that can hold outstanding rewards)
    Mem,     \* accounts that can be members of the current signing group
    Denom,   \* denominations of the fee pool
    MaxAmt   \* amounts range over 0..MaxAmt (MC: small; TRACE: 2*10^9)

VARIABLES
    fc,      \* [Denom -> Amt]   balance of the fee collector
    dm,      \* [Denom -> Amt]   balance of the distribution module account
    cp,      \* [Denom -> Dec]   community pool (decimal)
    mb,      \* [Mem -> [Denom -> Amt]] members' account balances
    sup,     \* [Denom -> Int]   total supply      (relative to a base fixed per trace)
    rest,    \* [Denom -> Int]   sum of all other balances (relative to the same base)
    acc,     \* [Denom -> Dec]   community pool + sum of ALL validators' outstanding rewards, added exactly
    inc,     \* [Val -> [Denom -> Dec]] increase of each validator's outstanding reward in the last event (exact
             \*                  difference of the two decimals; the absolute values live in Rewards_Trace.tla)
    res,     \* "init" | "env" | "ok"
    last     \* [k, a]: kind and arguments of the last event (history)

vars == <<fc, dm, cp, mb, sup, rest, acc, inc, res, last>>

-----------------------------------------------------------------------------
Amt    == 0..MaxAmt
Dec    == [i : Amt, f : BOOLEAN]          \* a non-negative decimal: floor and "has a fraction"
AmtVec == [Denom -> Amt]
DecVec == [Denom -> Dec]

RECURSIVE SumOver(_, _)
SumOver(f, S) == IF S = {} THEN 0 ELSE LET x == CHOOSE y \in S : TRUE IN f[x] + SumOver(f, S \ {x})

\* no validator's increase exceeds what the fee collector held
IncT == [Val -> [Denom -> [i : 0..SumOver(fc, Denom), f : BOOLEAN]]]

Z == [i |-> 0, f |-> FALSE]
ZeroInc == [v \in Val |-> [d \in Denom |-> Z]]
AddInt(x, k) == [i |-> x.i + k, f |-> x.f]

\* y = x + d is possible for decimals known only as (floor, has-fraction)
Adds(x, d, y) ==
    IF ~x.f THEN y.i = x.i + d.i /\ y.f = d.f
    ELSE IF ~d.f THEN y.i = x.i + d.i /\ y.f
    ELSE /\ y.i \in {x.i + d.i, x.i + d.i + 1}
         /\ (y.i = x.i + d.i => y.f)

\* the exact sum of the decimals ds[s] (s \in S) is the integer total
SumIsInt(ds, S, total) ==
    LET I == SumOver([s \in S |-> ds[s].i], S)
        K == Cardinality({s \in S : ds[s].f})
    IN IF K = 0 THEN total = I ELSE K >= 2 /\ total - I \in 1..(K - 1)

\* d <= num/den   and   d > num/den - 2   (den > 0), on (floor, flag)
NeverAbove(d, num, den) == d.i * den < num \/ (d.i * den = num /\ ~d.f)
AtMostOneBelow(d, num, den) == (d.i + 1) * den >= num - den

-----------------------------------------------------------------------------
(* Arguments of an event: pw (vote power per validator, 0 = did not vote), prop (proposer), act (oracle     *)
(* activity flag), grp (a current group exists), min/mact/mde (member of the current group / active /       *)
(* non-empty nonce queue), pctO, pctT (reward percentages), taxN/taxD (community tax).                       *)
Voters(a)   == {v \in Val : a.pw[v] > 0}
ActiveV(a)  == {v \in Voters(a) : a.act[v]}                      \* rewarded by the oracle share
PowA(a)     == SumOver(a.pw, ActiveV(a))
PowAll(a)   == SumOver(a.pw, Voters(a))
Eligible(a) == {m \in Mem : a.grp /\ a.min[m] /\ a.mact[m] /\ a.mde[m]}   \* rewarded by the tss share

OShare(F, a)  == IF PowA(a) = 0 THEN 0 ELSE (F * a.pctO) \div 100             \* trunc(pool * pct)
Fund(O, a)    == (O * a.taxN) \div a.taxD                                      \* trunc(share * tax)
TShare(F, a)  == IF Eligible(a) = {} THEN 0 ELSE (F * a.pctT) \div 100

\* every eligible member receives the same integer `pay`: never above T*(1-tax)/n, at most one unit below
PayOK(pay, T, a) ==
    LET n == Cardinality(Eligible(a)) IN
    /\ pay >= 0
    /\ pay * n * a.taxD <= T * (a.taxD - a.taxN)
    /\ (pay + 1) * n * a.taxD >= T * (a.taxD - a.taxN)

\* the exact sum of the decimals ds[s] plus a decimal whose floor moved by dci (flags before/after: f0, f1) is `total`
SumWithPool(ds, S, dci, f0, f1, total) ==
    LET I == dci + SumOver([s \in S |-> ds[s].i], S)
        K == Cardinality({s \in S : ds[s].f})
    IN IF ~f0 /\ ~f1 THEN (IF K = 0 THEN total = I ELSE K >= 2 /\ total - I \in 1..(K - 1))
       ELSE total - I \in 0..K

-----------------------------------------------------------------------------
\* x/oracle/keeper/validator_status.go AllocateTokens
OracleAlloc(a) ==
    LET A == ActiveV(a)
        P == PowA(a)
        O(d) == OShare(fc[d], a)
        C(d) == Fund(O(d), a)
        R(d) == O(d) - C(d)
    IN
    /\ res' = "ok" /\ last' = [k |-> "OracleAlloc", a |-> a]
    /\ mb' = mb /\ sup' = sup /\ rest' = rest
    /\ IF P = 0      \* nobody to reward: nothing happens
       THEN fc' = fc /\ dm' = dm /\ cp' = cp /\ acc' = acc /\ inc' = ZeroInc
       ELSE /\ fc' \in AmtVec /\ \A d \in Denom : fc'[d] = fc[d] - O(d)
            /\ dm' \in AmtVec /\ \A d \in Denom : dm'[d] = dm[d] + O(d)
            /\ cp' \in DecVec /\ \A d \in Denom : cp'[d] = AddInt(cp[d], C(d))
            /\ acc' \in DecVec /\ \A d \in Denom : acc'[d] = AddInt(acc[d], O(d))
            /\ inc' \in IncT
            /\ \A d \in Denom :
                 \* active voting validators: the power-weighted share of R
                 /\ \A v \in A : AtMostOneBelow(inc'[v][d], R(d) * a.pw[v], P)
                 /\ \A v \in A \ {a.prop} : NeverAbove(inc'[v][d], R(d) * a.pw[v], P)
                 \* everybody else gets nothing, except that the proposer gets what is left over
                 /\ \A v \in Val \ (A \cup {a.prop}) : inc'[v][d] = Z
                 /\ SumIsInt([v \in Val |-> inc'[v][d]], Val, R(d))

\* x/bandtss/keeper/keeper_reward.go AllocateTokens
TssAlloc(a) ==
    LET E == Eligible(a)
        n == Cardinality(E)
        T(d) == TShare(fc[d], a)
        m0 == CHOOSE m \in E : TRUE
        pay(d) == mb'[m0][d] - mb[m0][d]
    IN
    /\ res' = "ok" /\ last' = [k |-> "TssAlloc", a |-> a]
    /\ inc' = ZeroInc /\ sup' = sup /\ rest' = rest
    /\ IF n = 0      \* no current group, or no active member with a queued nonce: nothing happens
       THEN fc' = fc /\ dm' = dm /\ cp' = cp /\ mb' = mb /\ acc' = acc
       ELSE /\ fc' \in AmtVec /\ \A d \in Denom : fc'[d] = fc[d] - T(d)
            /\ mb' \in [Mem -> AmtVec]
            /\ \A d \in Denom : /\ PayOK(pay(d), T(d), a)
                                /\ \A m \in E : mb'[m][d] = mb[m][d] + pay(d)
                                /\ \A m \in Mem \ E : mb'[m][d] = mb[m][d]
            /\ dm' \in AmtVec /\ \A d \in Denom : dm'[d] = dm[d] + T(d) - n * pay(d)
            /\ cp' \in DecVec /\ \A d \in Denom : cp'[d] = AddInt(cp[d], T(d) - n * pay(d))
            /\ acc' \in DecVec /\ \A d \in Denom : acc'[d] = AddInt(acc[d], T(d) - n * pay(d))

\* app.BeginBlocker with mint neutralised: oracle, then bandtss on what REMAINS, then the SDK distribution
\* module sweeps the rest of the fee collector (its own split between validators and community pool is the
\* environment's business: it is bounded by the power-weighted share, not decided).
FullBegin(a) ==
    LET A  == ActiveV(a)
        P  == PowA(a)
        TP == PowAll(a)
        E  == Eligible(a)
        n  == Cardinality(E)
        O(d)  == OShare(fc[d], a)
        C(d)  == Fund(O(d), a)
        R(d)  == O(d) - C(d)
        F2(d) == fc[d] - O(d)
        T(d)  == TShare(F2(d), a)
        F3(d) == F2(d) - T(d)
        pay(d) == IF n = 0 THEN 0 ELSE LET m0 == CHOOSE m \in E : TRUE IN mb'[m0][d] - mb[m0][d]
        swept(d) == F3(d) - fc'[d]
        G(d)  == (swept(d) * (a.taxD - a.taxN)) \div a.taxD       \* what distribution may hand to validators
    IN
    /\ res' = "ok" /\ last' = [k |-> "FullBegin", a |-> a]
    /\ sup' = sup /\ rest' = rest
    /\ fc' \in AmtVec /\ \A d \in Denom : fc'[d] \in {0, F3(d)} /\ (TP > 0 => fc'[d] = 0)
    /\ mb' \in [Mem -> AmtVec]
    /\ \A d \in Denom : /\ n > 0 => PayOK(pay(d), T(d), a)
                        /\ \A m \in E : mb'[m][d] = mb[m][d] + pay(d)
                        /\ \A m \in Mem \ E : mb'[m][d] = mb[m][d]
    /\ dm' \in AmtVec /\ \A d \in Denom : dm'[d] = dm[d] + O(d) + T(d) - n * pay(d) + swept(d)
    /\ acc' \in DecVec /\ \A d \in Denom : acc'[d] = AddInt(acc[d], O(d) + T(d) - n * pay(d) + swept(d))
    /\ cp' \in DecVec
    /\ \A d \in Denom : /\ cp'[d].i >= cp[d].i + C(d) + T(d) - n * pay(d)
                        /\ cp'[d].i <= cp[d].i + C(d) + T(d) - n * pay(d) + swept(d)
    /\ inc' \in IncT
    /\ \A d \in Denom :
         \* a validator that did not vote and is not the proposer gets nothing at all
         /\ \A v \in Val \ (Voters(a) \cup {a.prop}) : inc'[v][d] = Z
         \* a voter gets its oracle share (if oracle-active; bracket as in OracleAlloc) plus its power-weighted
         \* share of the distribution sweep (SDK x/distribution AllocateTokens, truncating), floors added
         /\ \A v \in Voters(a) :
              LET eo == IF v \in A THEN (R(d) * a.pw[v]) \div P ELSE 0
              IN /\ inc'[v][d].i >= (IF v \in A THEN eo - 2 ELSE 0) + (G(d) * a.pw[v]) \div TP - 1
                 /\ v # a.prop => inc'[v][d].i <= eo + ((G(d) + 1) * a.pw[v]) \div TP + 2
    \* nothing is lost between the validators and the community pool: their increases add up to what arrived
    /\ \A d \in Denom : SumWithPool([v \in Val |-> inc'[v][d]], Val, cp'[d].i - cp[d].i, cp[d].f, cp'[d].f,
                                      O(d) + T(d) - n * pay(d) + swept(d))

\* the driver refills the fee collector (mint + transfer, drain to a sink account): only fc, sup, rest move
Env ==
    /\ res' = "env"
    /\ dm' = dm /\ cp' = cp /\ mb' = mb /\ acc' = acc /\ inc' = ZeroInc
    /\ fc' \in AmtVec
    /\ \A d \in Denom : sup'[d] - sup[d] = (fc'[d] - fc[d]) + (rest'[d] - rest[d])

-----------------------------------------------------------------------------
(* The property's statement (C14), as invariants and action properties over the same variables.  MC shows  *)
(* that the contract implies them; on traces they are evaluated on every real step as well.                 *)

Tot(d) == fc[d] + dm[d] + rest[d] + SumOver([m \in Mem |-> mb[m][d]], Mem)

NonNegative ==
    \A d \in Denom : /\ fc[d] >= 0 /\ dm[d] >= 0 /\ cp[d].i >= 0 /\ acc[d].i >= 0
                     /\ \A v \in Val : inc[v][d].i >= 0
                     /\ \A m \in Mem : mb[m][d] >= 0

\* the bank's books are closed, and the distribution module holds exactly what it owes (no dust)
BankConsistent == \A d \in Denom : sup[d] = Tot(d)
NoDust == \A d \in Denom : acc[d].i = dm[d] /\ ~acc[d].f

IsAlloc == res' = "ok"

\* allocation neither creates nor destroys coins
ConservedA == IsAlloc => \A d \in Denom : sup'[d] = sup[d] /\ Tot(d)' = Tot(d)

\* inactive participants receive nothing (the proposer: only the rounding remainder, < 2 units per rewarded validator)
OnlyActivePaidA ==
    IsAlloc =>
      LET k == last'.k
          a == last'.a
      IN /\ \A m \in Mem \ Eligible(a) : mb'[m] = mb[m]
         /\ k = "OracleAlloc" => /\ mb' = mb
                                 /\ \A v \in Val \ (ActiveV(a) \cup {a.prop}) : inc'[v] = [d \in Denom |-> Z]
                                 /\ a.prop \notin ActiveV(a) =>
                                      \A d \in Denom : inc'[a.prop][d].i < 2 * Cardinality(ActiveV(a)) + 1
         /\ k = "TssAlloc" => inc' = ZeroInc
         /\ k = "FullBegin" => \A v \in Val \ (Voters(a) \cup {a.prop}) : inc'[v] = [d \in Denom |-> Z]

\* percentages are taken of the right base: oracle of the pool, bandtss of what remains after the oracle share
RightBaseA ==
    IsAlloc =>
      LET k == last'.k
          a == last'.a
          n == Cardinality(Eligible(a))
          paid(d) == SumOver([m \in Mem |-> mb'[m][d] - mb[m][d]], Mem)
      IN \A d \in Denom :
           LET O == IF k = "TssAlloc" THEN 0 ELSE OShare(fc[d], a)
               T == IF k = "OracleAlloc" THEN 0 ELSE TShare(fc[d] - O, a)
           IN /\ O * 100 <= fc[d] * a.pctO /\ T * 100 <= (fc[d] - O) * a.pctT
              /\ k # "FullBegin" => fc[d] - fc'[d] = O + T
              /\ k = "FullBegin" => fc[d] - fc'[d] >= O + T
              /\ paid(d) * a.taxD <= T * (a.taxD - a.taxN)              \* members never get more than (1 - tax) of T
              /\ (paid(d) + n) * a.taxD >= T * (a.taxD - a.taxN)        \* and lose at most one unit each
              /\ dm'[d] - dm[d] = (fc[d] - fc'[d]) - paid(d)            \* what leaves the collector arrives
=============================================================================
