\* C15 (feeds half): system scripts only; equal timestamps and slow blocks, short grace periods and intervals,
\* frequent feed-list updates, (re)activation around the penalty
CONSTANTS
  Val = {"v1", "v2", "v3"}
  Stranger = {"x1"}
  Sig = {"s1", "s2"}
  GraceSet = {2, 3, 4, 6}
  CoolSet = {1, 2, 4}
  DiscSet = {1, 2}
  UpdSet = {2, 3, 5, 100}
  QuorumSet = {50}
  PenaltySet = {0, 2, 5}
  DtSet = {0, 1, 2, 3, 4}
  IntervalSet = {1, 2, 3, 4, 6}
  PowerSet = {1, 2}
  PriceSet = {1}
  StatusSet = {"avail", "unsupp"}
  ToffSet <- ToffG
  Depth = 60
  ModeSet = {"sys"}
  MinActive = 0
  SubmitW = 4
SPECIFICATION GSpec
INVARIANT Emit
CHECK_DEADLOCK FALSE
