\* C10 facet: max_signing_attempt changed by governance (1..3, raised and lowered) while signings are in flight:
\* a signing whose counter is at or beyond a lowered maximum falls at its next time-out; raised maximum gives more retries
CONSTANTS
  Member = {m1, m2, m3}
  Stranger = {}
  TSet = {2}
  MaxSig = 2
  MaxSerial = 2
  MaxDESet = {2}
  MaxAttSet = {1, 2, 3}
  PeriodSet = {1}
  PenaltySet = {1}
  KSet = {2}
  PreSet = {0}
  PostSet = {0}
  TransOn = FALSE
  MaxH = 6
INIT Init
NEXT NextMC
SYMMETRY Sym
VIEW View
CONSTRAINT Bound
INVARIANTS TypeOK InvC10 OnTime BoundedTermination
PROPERTIES Status Attempt NoEarlyTimeout ExactTimeout NewAttempt Success Timeout Penalty Signed Callback TransitionStep
CHECK_DEADLOCK FALSE
