\* X04: channels, acknowledgements, response packets, fees and the two registries are checked and their events owned;
\* the request life cycle (committee, reports, creation of Results, expiry, validator statuses) is adopted as observed
CONSTANTS
  Val = {"v1", "v2", "v3", "v4", "v5"}
  Stranger = {"x1"}
  MaxReq = 10
  Units = 1
  ExpSet = {2}
  PenaltySet = {2}
  DtSet = {1}
  AskSet = {1}
  MinSet = {1}
  ShapeSet = {"exact", "missing", "extra", "wrongId", "perm", "dup", "dupAdj"}
  Chan = {"c0", "c1"}
  Payer = {"p1", "p2", "p3"}
  Acct = {"own", "a1", "a2"}
  Treas = {"t1", "t2", "t3"}
  MaxDs = 12
  MaxOs = 14
  BalSet = {0}
  LimitSet = {0}
  EncSet = {"none"}
  FormSet = {"good"}
  OsReqSet = {1}
  ClientSet = {"k1"}
  TokSet = {}
  DsContSet = {}
  OsCodeSet = {}
  FeeSet = {}
  DsEditSet = {}
  OsEditSet = {}
  TreasTry = {}
  HowSet = {}
  FlipSet = {}
  StepSet = {}
  TraceFile = "trace.ndjson"
  Checked = {"chan", "meta", "acks", "sent", "nsend", "nfail", "bal", "tre", "rx", "ds", "nds", "os", "nos"}
  Owned = {"Request", "Recv", "EndBlock", "CreateDS", "EditDS", "CreateOS", "EditOS", "ChanOpen"}
SPECIFICATION TraceSpec
INVARIANTS TInv TraceBoundOK
PROPERTIES TFeeExact TConserved TAckRule TResponseTimely TOwnerOnly
POSTCONDITION TraceAccepted
CHECK_DEADLOCK FALSE
