\* quick core facet: one account, two validators, three vaults, one allowed denom, amounts 0..2 (entries <= 3), locks -1..4
\* (withdraw guard at the boundary, lock rule, index, vault life cycle); allowed denoms fixed => LocksCovered
CONSTANTS
  Acct = {a1}
  Val = {v1, v2}
  Vault = {k1, k2, k3}
  Denom = {d1}
  AmtSet = {0, 1, 2}
  CoinAmts = {1, 2}
  CoinSet <- MCCoins
  LockAmts = {0, 1, 2, 3, 4}
  LockSet <- MCLocks
  MaxHi = 0
  U64Lim = 200000000
  MaxEntry = 3
  InitAllowed = {d1}
INIT InitFixed
NEXT NextFixed
SYMMETRY SymAV
VIEW View
CONSTRAINT Bound
INVARIANTS Inv LocksCovered
PROPERTIES WithdrawGuard RejUnchanged LockRule VaultRule BackingStep
CHECK_DEADLOCK FALSE
