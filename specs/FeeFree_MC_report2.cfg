\* facet "report", two requests: MsgReportData direct / through one- and two-level MsgExec / mixed with a paying message
CONSTANTS
  Val = {"v1", "v2"}
  Acct = {"g1", "x1"}
  ReqIds = {1, 2}
  SigIds = {1}
  MaxRoom = 1
  PD = 10000
  Kinds = {"report"}
  Grantees = {"g1", "x1"}
  Members = {}
  MinpSet = {25}
  LocalpSet = {0}
  GasSet = {200000}
  FeeSet = {0, 499, 500}
  Stranger = "x1"
  DeliverSet = {}
  Poor = {}
  PoorBal = 0
  RichBal = 1000
  Depth2 = TRUE
  Pairs = TRUE
  GrantUsed <- GrantU_report2
SPECIFICATION Spec
VIEW View
INVARIANTS TypeOK ExemptSound ExemptComplete
PROPERTIES NoFreeRide EntitledNeverCharged EntitledAdmitted PaidRule ClassSplit CheckPure SignerRule
CHECK_DEADLOCK FALSE
