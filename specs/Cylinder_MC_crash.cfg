\* quick facet "crash": min-de 1, crashes between and inside updates (k of n pairs stored, nothing queued), restarts,
\* one signing with retries
CONSTANTS
  NSig = 1
  MaxAtt = 2
  MaxTok = 5
  MinSet = {1}
  MaxDESet = {2, 3}
  GasSet = {TRUE}
  MaxQ = 2
  QSet = {"ok", "fail"}
  WithCrash = TRUE
  WithDup = TRUE
SPECIFICATION MCSpec
CONSTRAINT Bound
INVARIANTS Inv
PROPERTIES PrivRule QueueRule CalmLandOK
CHECK_DEADLOCK FALSE
