------------------------------- MODULE FeeFree -------------------------------
(***************************************************************************)
(* Extension X02 (DESIGN §6, `GlobalFee`/ante): which transactions may     *)
(* enter a node's mempool -- and hence a block -- without paying the       *)
(* minimum gas price, and who may send them.                               *)
(*                                                                         *)
(* Subject code: x/globalfee/feechecker (CheckTxFee, IsBypassMinFeeTx,     *)
(* IsBypassMinFeeMsg, CombinedGasPricesRequirement), installed as the      *)
(* TxFeeChecker of the DeductFeeDecorator in app/ante.go.                  *)
(*                                                                         *)
(* Facts of the code this module transcribes:                              *)
(*  - the minimum-fee rule is evaluated ONLY when ctx.IsCheckTx(): the     *)
(*    admission decision is CheckTx; a delivered tx pays whatever it       *)
(*    offers (action DeliverFee);                                          *)
(*  - a tx is exempt iff EVERY message is "bypassable", tested in order    *)
(*    on ONE scratch copy of the state (ctx.CacheContext(), never          *)
(*    written): MsgReportData by CheckValidReport (read only), the feeds / *)
(*    tss messages by running their real handler on the scratch state      *)
(*    (so a second price / signature / round-1 message of the same sender  *)
(*    in the same tx is refused), MsgSubmitDEs additionally needs bandtss  *)
(*    membership, authz.MsgExec needs, for every inner message, a live     *)
(*    grant (granter = signer of the inner message, grantee = the exec's   *)
(*    grantee, type = the inner message's type) and recursively a          *)
(*    bypassable inner message; everything else pays;                      *)
(*  - required fee: fee >= ceil(gas * max(global price, node price));      *)
(*  - the fee decision comes before fee deduction and signature checks.    *)
(*                                                                         *)
(* The only action that is the SUBJECT of this module is Check.  All other *)
(* actions are environment (effects of delivered messages, end-blockers,   *)
(* authz grants/expiry), owned by the families of the listed properties.   *)
(***************************************************************************)
EXTENDS Integers, Sequences, FiniteSets, TLC

CONSTANTS
    Val,       \* validators; a validator name also stands for its operator account
    Acct,      \* other accounts (tss members, grantees, strangers)
    ReqIds,    \* oracle request ids
    SigIds,    \* tss signing ids
    MaxRoom,   \* bound on the free nonce-pair (DE) slots of a member
    PD         \* denominator of gas prices (prices are integers / PD)

Addr == Val \cup Acct

FreeKinds == {"report", "price", "sig", "de", "dkg1"}
\* every other kind except "exec" is an ordinary (paying) message

VARIABLES
    minp,     \* globalfee param: minimum gas price * PD
    localp,   \* this node's own min-gas-prices * PD (0 = not configured)
    bonded,   \* set of bonded validators
    active,   \* set of oracle-active validators
    feedOn,   \* the price signal is in the current feeds
    cool,     \* validators whose last price is younger than the cooldown
    grants,   \* live authz grants [granter, grantee, k]
    req,      \* id -> [present, vals]
    rep,      \* id -> validators with a stored report
    members,  \* accounts that are members of the current or the incoming bandtss group
    room,     \* address -> free DE slots (MaxDESize - queued)
    sgn,      \* id -> [waiting, assigned, signed] (current attempt)
    dkg,      \* [round1, mem, done]: a group in DKG round 1, its members, who submitted
    bal,      \* address -> spendable balance (fee denom)
    out,      \* class of the last Check: "init"|"free"|"paid"|"refFee"|"refOther"
    last      \* the tx of the last Check (ghost, for the action properties)

state == <<minp, localp, bonded, active, feedOn, cool, grants, req, rep, members, room, sgn, dkg, bal>>
vars  == <<minp, localp, bonded, active, feedOn, cool, grants, req, rep, members, room, sgn, dkg, bal, out, last>>

NoReq  == [present |-> FALSE, vals |-> {}]
NoSgn  == [waiting |-> FALSE, assigned |-> {}, signed |-> {}]
NoTx   == [signer |-> "none", msgs |-> <<>>, fee |-> 0, gas |-> 0, cb |-> 0]

(***************************************************************************)
(* Messages.  A message is a record [k, who, id, shape, inner]:            *)
(*   k      kind; "exec" = authz.MsgExec; FreeKinds; anything else pays    *)
(*   who    the address that must sign it (report/price: the validator;    *)
(*          sig/de/dkg1: the member; exec: the grantee)                    *)
(*   id     request id / signing id (0 where meaningless)                  *)
(*   shape  "ok"    well-formed content                                    *)
(*          "bad"   content the handler refuses whoever sends it (wrong    *)
(*                  number of raw reports, junk signature, unknown signal) *)
(*          "big"   report whose data exceeds MaxReportDataSize            *)
(*          "empty" price message with an empty price list / MsgSubmitDEs  *)
(*                  with no nonce pair (both pass ValidateBasic and their  *)
(*                  handlers, and consume nothing)                         *)
(*   inner  exec: the wrapped messages; otherwise <<>>                     *)
(***************************************************************************)
SignerOf(m) == m.who
Granted(granter, grantee, k) == [granter |-> granter, grantee |-> grantee, k |-> k] \in grants

\* the mutable part of the state the handlers run by the checker would change
Scratch0 == [cool |-> cool, room |-> room, signed |-> [s \in SigIds |-> sgn[s].signed], done |-> dkg.done]

(***************************************************************************)
(* IsBypassMinFeeMsg on a leaf, evaluated on the scratch state `sc`.       *)
(*   report: CheckValidReport -- request exists (expired requests are      *)
(*     deleted), validator requested, no report yet, right number of raw   *)
(*     reports with requested external ids.  NOT tested: data size,        *)
(*     bonded/active status of the validator.                              *)
(*   price: the real SubmitSignalPrices handler -- bonded, oracle-active,  *)
(*     timestamp near block time, signals in the current feeds, cooldown.  *)
(*   sig: the real SubmitSignature handler -- signing waiting, member      *)
(*     assigned in the current attempt with this address, not signed yet,  *)
(*     signature verifies.                                                 *)
(*   de: member of the current/incoming bandtss group, then the real       *)
(*     SubmitDEs handler (queue has room for the pairs of the message).    *)
(*   dkg1: the real SubmitDKGRound1 handler -- group in round 1, member    *)
(*     with this address, not submitted yet, proofs verify.                *)
(***************************************************************************)
LeafBypass(m, sc) ==
    CASE m.k = "report" -> /\ m.shape \in {"ok", "big"}
                           /\ m.id \in ReqIds
                           /\ req[m.id].present
                           /\ m.who \in req[m.id].vals
                           /\ m.who \notin rep[m.id]
      [] m.k = "price"  -> /\ m.shape \in {"ok", "empty"}
                           /\ m.who \in bonded
                           /\ m.who \in active
                           /\ (m.shape = "ok" => (feedOn /\ m.who \notin sc.cool))
      [] m.k = "sig"    -> /\ m.shape = "ok"
                           /\ m.id \in SigIds
                           /\ sgn[m.id].waiting
                           /\ m.who \in sgn[m.id].assigned
                           /\ m.who \notin sc.signed[m.id]
      [] m.k = "de"     -> /\ m.shape \in {"ok", "empty"}
                           /\ m.who \in members
                           /\ (m.shape = "ok" => sc.room[m.who] >= 1)
      [] m.k = "dkg1"   -> /\ m.shape = "ok"
                           /\ dkg.round1
                           /\ m.who \in dkg.mem
                           /\ m.who \notin sc.done
      [] OTHER          -> FALSE

\* effect of the handler the checker ran, on the scratch state (reports: none, CheckValidReport only reads)
LeafApply(m, sc) ==
    CASE m.k = "price" /\ m.shape = "ok" -> [sc EXCEPT !.cool = @ \cup {m.who}]
      [] m.k = "sig"   -> [sc EXCEPT !.signed[m.id] = @ \cup {m.who}]
      [] m.k = "de" /\ m.shape = "ok" -> [sc EXCEPT !.room[m.who] = @ - 1]
      [] m.k = "dkg1"  -> [sc EXCEPT !.done = @ \cup {m.who}]
      [] OTHER         -> sc

RECURSIVE BypassMsg(_, _), BypassInner(_, _, _), BypassList(_, _)

\* -> [ok, sc]
BypassMsg(m, sc) ==
    IF m.k = "exec" THEN BypassInner(m.who, m.inner, sc)
    ELSE IF LeafBypass(m, sc) THEN [ok |-> TRUE, sc |-> LeafApply(m, sc)]
    ELSE [ok |-> FALSE, sc |-> sc]

\* case *authz.MsgExec: for every inner message, first the grant, then the message itself
BypassInner(g, ms, sc) ==
    IF ms = <<>> THEN [ok |-> TRUE, sc |-> sc]
    ELSE LET m == Head(ms) IN
         IF ~Granted(SignerOf(m), g, m.k) THEN [ok |-> FALSE, sc |-> sc]
         ELSE LET r == BypassMsg(m, sc) IN
              IF ~r.ok THEN r ELSE BypassInner(g, Tail(ms), r.sc)

\* IsBypassMinFeeTx: all messages, in order, on one scratch state
BypassList(ms, sc) ==
    IF ms = <<>> THEN TRUE
    ELSE LET r == BypassMsg(Head(ms), sc) IN r.ok /\ BypassList(Tail(ms), r.sc)

Exempt(ms) == BypassList(ms, Scratch0)

(***************************************************************************)
(* The price rule (cross-multiplied, exact): the code requires             *)
(*   fee >= ceil(gas * p / PD)   <=>   fee * PD >= gas * p                 *)
(* with p = max(global, node) (CombinedGasPricesRequirement).              *)
(* `fee`, `minp`, `localp` are amounts / prices in THE denom of the global *)
(* fee.  The rule as CombinedGasPricesRequirement states it (doc comment,  *)
(* its own unit tests, and the Gaia module it was forked from): the denoms *)
(* that count are the GLOBAL fee's; a node price in a denom the global fee *)
(* does not list changes nothing ("no overlapping denom, combined price =  *)
(* global price"), and neither does a fee offered in such a denom.  The    *)
(* model therefore has no variable for them: traces recorded with such a   *)
(* node price (driver mode `multidenom`, check id X02D) carry the extra    *)
(* fee in a.fee2 and are judged by this same rule.                         *)
(***************************************************************************)
ReqPrice == IF localp > minp THEN localp ELSE minp
FeeEnough(fee, gas) == fee * PD >= gas * ReqPrice

(***************************************************************************)
(* Check = CheckTx of one signed tx on the current state.                  *)
(*   signer  the account whose key signed (one signature)                  *)
(*   cb      spendable balance of the signer in the node's check state     *)
(* Order of the ante chain: number of signatures (tx.ValidateBasic), fee     *)
(* decision (refFee), fee deduction (exempt txs are charged nothing at      *)
(* CheckTx), then public key / signature checks.                            *)
(***************************************************************************)
SignersOK(signer, ms) == \A i \in 1..Len(ms) : SignerOf(ms[i]) = signer
\* the tx carries ONE signature: tx.ValidateBasic (ValidateBasicDecorator, before the fee decorator) refuses a tx
\* whose messages need another number of signers
OneSigner(ms) == Cardinality({SignerOf(ms[i]) : i \in 1..Len(ms)}) = 1

CheckClass(signer, ms, fee, gas, cb) ==
    LET ex == Exempt(ms)
        en == FeeEnough(fee, gas) IN
    IF ~OneSigner(ms) THEN "refOther"
    ELSE IF ~ex /\ ~en THEN "refFee"
    ELSE IF ~ex /\ cb < fee THEN "refOther"
    ELSE IF ~SignersOK(signer, ms) THEN "refOther"
    ELSE IF ex /\ ~en THEN "free"
    ELSE "paid"

Check(signer, ms, fee, gas, cb) ==
    /\ out' = CheckClass(signer, ms, fee, gas, cb)
    /\ last' = [signer |-> signer, msgs |-> ms, fee |-> fee, gas |-> gas, cb |-> cb]
    /\ UNCHANGED state

(***************************************************************************)
(* Delivery side of the fee rule: `if !ctx.IsCheckTx() { return feeCoins }`*)
(* -- whatever is offered is deducted, there is no minimum.                *)
(***************************************************************************)
DeliverFee(a, fee) ==
    /\ fee <= bal[a]
    /\ bal' = [bal EXCEPT ![a] = @ - fee]
    /\ UNCHANGED <<minp, localp, bonded, active, feedOn, cool, grants, req, rep, members, room, sgn, dkg, out, last>>

(***************************************************************************)
(* Environment: everything that changes the state the checker reads.  One  *)
(* action per kind of effect of a delivered message / end-blocker / authz  *)
(* event; each is the subject of another family (Oracle, FeedsPrice,       *)
(* TssSigning, TssDkg, Bandtss) or of the SDK, and is adopted as observed  *)
(* in trace validation.  Model checking interleaves them freely with Check *)
(* so that every entitlement can appear, be consumed, and go stale.        *)
(***************************************************************************)
EnvRequest(id, S) ==
    /\ ~req[id].present /\ S # {} /\ S \subseteq Val
    /\ req' = [req EXCEPT ![id] = [present |-> TRUE, vals |-> S]]
    /\ UNCHANGED <<minp, localp, bonded, active, feedOn, cool, grants, rep, members, room, sgn, dkg, bal, out, last>>
EnvReport(v, id) ==                     \* a delivered MsgReportData
    /\ req[id].present /\ v \in req[id].vals \ rep[id]
    /\ rep' = [rep EXCEPT ![id] = @ \cup {v}]
    /\ UNCHANGED <<minp, localp, bonded, active, feedOn, cool, grants, req, members, room, sgn, dkg, bal, out, last>>
EnvExpire(id) ==                        \* ProcessExpiredRequests deletes request and reports
    /\ req[id].present
    /\ req' = [req EXCEPT ![id] = NoReq]
    /\ rep' = [rep EXCEPT ![id] = {}]
    /\ UNCHANGED <<minp, localp, bonded, active, feedOn, cool, grants, members, room, sgn, dkg, bal, out, last>>
EnvGrant(g) ==                          \* authz MsgGrant
    /\ g \notin grants
    /\ grants' = grants \cup {g}
    /\ UNCHANGED <<minp, localp, bonded, active, feedOn, cool, req, rep, members, room, sgn, dkg, bal, out, last>>
EnvRevoke(g) ==                         \* authz MsgRevoke, or the grant expires
    /\ g \in grants
    /\ grants' = grants \ {g}
    /\ UNCHANGED <<minp, localp, bonded, active, feedOn, cool, req, rep, members, room, sgn, dkg, bal, out, last>>
EnvBonded(v) ==                         \* (un)bonding, jailing
    /\ bonded' = IF v \in bonded THEN bonded \ {v} ELSE bonded \cup {v}
    /\ UNCHANGED <<minp, localp, active, feedOn, cool, grants, req, rep, members, room, sgn, dkg, bal, out, last>>
EnvActive(v) ==                         \* MsgActivate / deactivation for a miss
    /\ active' = IF v \in active THEN active \ {v} ELSE active \cup {v}
    /\ UNCHANGED <<minp, localp, bonded, feedOn, cool, grants, req, rep, members, room, sgn, dkg, bal, out, last>>
EnvFeed ==                              \* current feeds recomputed
    /\ feedOn' = ~feedOn
    /\ UNCHANGED <<minp, localp, bonded, active, cool, grants, req, rep, members, room, sgn, dkg, bal, out, last>>
EnvPrice(v) ==                          \* a delivered MsgSubmitSignalPrices
    /\ v \in bonded \cap active /\ feedOn /\ v \notin cool
    /\ cool' = cool \cup {v}
    /\ UNCHANGED <<minp, localp, bonded, active, feedOn, grants, req, rep, members, room, sgn, dkg, bal, out, last>>
EnvCoolOff(v) ==                        \* time passes
    /\ v \in cool
    /\ cool' = cool \ {v}
    /\ UNCHANGED <<minp, localp, bonded, active, feedOn, grants, req, rep, members, room, sgn, dkg, bal, out, last>>
EnvMember(a) ==                         \* bandtss group transition
    /\ members' = IF a \in members THEN members \ {a} ELSE members \cup {a}
    /\ UNCHANGED <<minp, localp, bonded, active, feedOn, cool, grants, req, rep, room, sgn, dkg, bal, out, last>>
EnvRoom(a, d) ==                        \* DEs queued (-1: a delivered MsgSubmitDEs) or consumed / reset (+1)
    /\ room[a] + d \in 0..MaxRoom
    /\ room' = [room EXCEPT ![a] = @ + d]
    /\ UNCHANGED <<minp, localp, bonded, active, feedOn, cool, grants, req, rep, members, sgn, dkg, bal, out, last>>
EnvSigning(s, A) ==                     \* a new signing or a new attempt with committee A
    /\ A # {} /\ A \subseteq Addr
    /\ sgn' = [sgn EXCEPT ![s] = [waiting |-> TRUE, assigned |-> A, signed |-> {}]]
    /\ UNCHANGED <<minp, localp, bonded, active, feedOn, cool, grants, req, rep, members, room, dkg, bal, out, last>>
EnvSign(a, s) ==                        \* a delivered MsgSubmitSignature
    /\ sgn[s].waiting /\ a \in sgn[s].assigned \ sgn[s].signed
    /\ sgn' = [sgn EXCEPT ![s].signed = @ \cup {a}]
    /\ UNCHANGED <<minp, localp, bonded, active, feedOn, cool, grants, req, rep, members, room, dkg, bal, out, last>>
EnvSigningEnd(s) ==                     \* success / expiry
    /\ sgn[s].waiting
    /\ sgn' = [sgn EXCEPT ![s].waiting = FALSE]
    /\ UNCHANGED <<minp, localp, bonded, active, feedOn, cool, grants, req, rep, members, room, dkg, bal, out, last>>
EnvDkgStart(M) ==
    /\ ~dkg.round1 /\ M # {} /\ M \subseteq Addr
    /\ dkg' = [round1 |-> TRUE, mem |-> M, done |-> {}]
    /\ UNCHANGED <<minp, localp, bonded, active, feedOn, cool, grants, req, rep, members, room, sgn, bal, out, last>>
EnvDkg1(a) ==                           \* a delivered MsgSubmitDKGRound1
    /\ dkg.round1 /\ a \in dkg.mem \ dkg.done
    /\ dkg' = [dkg EXCEPT !.done = @ \cup {a}]
    /\ UNCHANGED <<minp, localp, bonded, active, feedOn, cool, grants, req, rep, members, room, sgn, bal, out, last>>
EnvDkgEnd ==                            \* round 2 begins, or the group expires
    /\ dkg.round1
    /\ dkg' = [dkg EXCEPT !.round1 = FALSE]
    /\ UNCHANGED <<minp, localp, bonded, active, feedOn, cool, grants, req, rep, members, room, sgn, bal, out, last>>
EnvPrices(g, l) ==                      \* governance changes the global price / the operator the node's
    /\ minp' = g /\ localp' = l
    /\ UNCHANGED <<bonded, active, feedOn, cool, grants, req, rep, members, room, sgn, dkg, bal, out, last>>

(***************************************************************************)
(* The property, stated over the model state and the FLATTENED tx,         *)
(* independently of the order / scratch-state structure of the checker.    *)
(*                                                                         *)
(* Flat(ms) = the set of leaf occurrences, each with the set of grant      *)
(* links its wrappers need: <<leaf, {[granter, grantee, k], ...}>>.        *)
(***************************************************************************)
RECURSIVE FlatMsg(_, _), FlatSeq(_, _)
Link(m, g) == [granter |-> SignerOf(m), grantee |-> g, k |-> m.k]
FlatMsg(m, links) ==
    IF m.k = "exec" THEN FlatSeq(m, links) ELSE {<<m, links>>}
FlatSeq(e, links) ==
    UNION {FlatMsg(e.inner[i], links \cup {Link(e.inner[i], e.who)}) : i \in 1..Len(e.inner)}
Flat(ms) == UNION {FlatMsg(ms[i], {}) : i \in 1..Len(ms)}

\* the sender of this leaf is entitled to send it for free now
LeafEntitled(m) ==
    CASE m.k = "report" -> m.id \in ReqIds /\ req[m.id].present /\ m.who \in req[m.id].vals /\ m.who \notin rep[m.id]
      [] m.k = "price"  -> m.who \in bonded \cap active /\ (m.shape = "ok" => (feedOn /\ m.who \notin cool))
      [] m.k = "sig"    -> m.id \in SigIds /\ sgn[m.id].waiting /\ m.who \in sgn[m.id].assigned \ sgn[m.id].signed
      [] m.k = "de"     -> m.who \in members /\ (m.shape = "ok" => room[m.who] >= 1)
      [] m.k = "dkg1"   -> dkg.round1 /\ m.who \in dkg.mem \ dkg.done
      [] OTHER          -> FALSE

AllEntitled(ms) ==
    \A p \in Flat(ms) : /\ p[1].k \in FreeKinds
                        /\ p[1].shape # "bad"
                        /\ LeafEntitled(p[1])
                        /\ p[2] \subseteq grants

\* the messages of the tx do not compete for the same entitlement
RECURSIVE CountOcc(_, _, _, _)
CountOcc(ms, k, who, id) ==     \* occurrences of a leaf (k, who, id) in the tx, through execs
    IF ms = <<>> THEN 0
    ELSE LET m == Head(ms) IN
         (IF m.k = "exec" THEN CountOcc(m.inner, k, who, id)
          ELSE IF m.k = k /\ m.who = who /\ m.id = id /\ m.shape # "empty" THEN 1 ELSE 0)
         + CountOcc(Tail(ms), k, who, id)

Compatible(ms) ==
    \A p \in Flat(ms) :
        LET m == p[1] IN
        CASE m.k \in {"price", "sig", "dkg1"} -> CountOcc(ms, m.k, m.who, m.id) <= 1
          [] m.k = "de" -> CountOcc(ms, m.k, m.who, m.id) <= room[m.who]
          [] OTHER -> TRUE

EntitledTx(ms) == ms # <<>> /\ AllEntitled(ms) /\ Compatible(ms)

\* ---- action properties (they speak about Check steps: only Check changes `last` / `out`) ----

\* a step that leaves the state alone is a Check step (every environment action changes the state)
CheckStep == UNCHANGED state

\* a tx admitted below the minimum fee contains only entitled free messages from entitled senders
\* (and no two of them spend the same entitlement -- except reports, which the checker only reads)
NoFreeRideA == (CheckStep /\ out' = "free") => EntitledTx(last'.msgs)
\* an entitled free tx is never refused for its fee
EntitledNeverChargedA == (CheckStep /\ EntitledTx(last'.msgs)) => out' # "refFee"
\* ... and is admitted whenever it is properly signed
EntitledAdmittedA == (CheckStep /\ EntitledTx(last'.msgs) /\ SignersOK(last'.signer, last'.msgs)) => out' \in {"free", "paid"}
\* a tx that is not entitled is admitted only with fee >= gas * price
PaidRuleA == (CheckStep /\ out' \in {"free", "paid"} /\ ~AllEntitled(last'.msgs)) => FeeEnough(last'.fee, last'.gas)
\* "paid"/"free" are split by the fee alone
ClassSplitA == CheckStep => /\ out' = "paid" => FeeEnough(last'.fee, last'.gas)
                            /\ out' = "free" => ~FeeEnough(last'.fee, last'.gas)
\* the exemption decision changes nothing
CheckPureA == (last' # last \/ out' # out) => UNCHANGED state
\* a wrong signer never gets in, whatever it offers
SignerRuleA == (CheckStep /\ out' \in {"free", "paid"}) => SignersOK(last'.signer, last'.msgs)

NoFreeRide           == [][NoFreeRideA]_vars
EntitledNeverCharged == [][EntitledNeverChargedA]_vars
EntitledAdmitted     == [][EntitledAdmittedA]_vars
PaidRule             == [][PaidRuleA]_vars
ClassSplit           == [][ClassSplitA]_vars
CheckPure            == [][CheckPureA]_vars
SignerRule           == [][SignerRuleA]_vars

(***************************************************************************)
(* LEAD, not part of X02's verdict (FeeFree_MC_lead_spend.cfg shows the    *)
(* counter-examples): a free message should spend the entitlement that     *)
(* made it free, so that it cannot be repeated for free.  Three shapes do  *)
(* not: a price message with an empty list and a MsgSubmitDEs with no pair *)
(* (both succeed and change nothing), and a report whose data exceeds      *)
(* MaxReportDataSize (passes CheckValidReport, refused by the handler).    *)
(***************************************************************************)
LeafSpends(m) ==
    CASE m.k = "report" -> m.shape = "ok"
      [] OTHER          -> LeafApply(m, Scratch0) # Scratch0

(***************************************************************************)
(* Type invariant (also evaluated on the recorded states).                 *)
(***************************************************************************)
TypeOK ==
    /\ minp \in Nat /\ localp \in Nat
    /\ bonded \subseteq Val /\ active \subseteq Val /\ cool \subseteq Val
    /\ feedOn \in BOOLEAN
    /\ \A g \in grants : g.granter \in Addr /\ g.grantee \in Addr
    /\ \A id \in ReqIds : req[id].vals \subseteq Val /\ rep[id] \subseteq Val
    /\ \A id \in ReqIds : ~req[id].present => rep[id] = {}
    /\ members \subseteq Addr
    /\ \A a \in Addr : room[a] \in 0..MaxRoom /\ bal[a] \in Nat
    /\ \A s \in SigIds : sgn[s].signed \subseteq sgn[s].assigned /\ sgn[s].assigned \subseteq Addr
    /\ dkg.done \subseteq dkg.mem /\ dkg.mem \subseteq Addr
    /\ out \in {"init", "free", "paid", "refFee", "refOther"}
=============================================================================
