\* thorough fault facet: as the quick one with 3 tries
CONSTANTS
  Sig = {"s1", "s2"}
  Start = 50
  Offset = 30
  SlotChoices = {50}
  Buffer = 1
  UOff = 3
  MaxT = 103
  MaxH = 4
  MaxSub = 3
  MaxMem = 2
  RelCap = 10
  GraceCap = 6
  ParSet <- ParFault2
  FeedInit <- FeedInitF
  FeedChanges <- FeedChangesF
  Quotes <- QuotesF
SPECIFICATION FaultSpec
VIEW ViewH
INVARIANTS Inv
PROPERTIES Release
CHECK_DEADLOCK FALSE
