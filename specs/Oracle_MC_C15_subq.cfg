\* quick variant of Oracle_MC_C15_sub.cfg (one request): half-second clock, penalty of 3 half seconds, request times truncated
CONSTANTS
  Val = {v1, v2}
  Stranger = {x1}
  MaxReq = 1
  Units = 2
  ExpSet = {1}
  PenaltySet = {0, 3}
  DtSet = {0, 1, 3}
  AskSet = {1, 2}
  MinSet = {1}
  ShapeSet = {"exact"}
  MaxH = 5
INIT Init
NEXT Next
SYMMETRY Sym
VIEW View
CONSTRAINT Bound
INVARIANTS Inv
PROPERTIES ActivationRule DeactivationRule StatusStable ReporterSafe ResultImmutable
CHECK_DEADLOCK FALSE
