---------------------------- MODULE BridgeVerify ----------------------------
(* Property C12: relay proofs verify against the real store layout, header and signatures.          *)
(*                                                                                                  *)
(* This module is the DESTINATION CHAIN's side of the relay: the Bridge contract's verification     *)
(* algorithm, written as TLA+ definitions over hex strings and evaluated by TLC.  The only external  *)
(* primitive is SHA-256 (IOUtils!IOExec -> python3 hashlib).  Everything else - the IAVL leaf/inner  *)
(* node layouts, zig-zag varints, the protobuf encoding of a Result, the multistore leaf and the     *)
(* FIXED left/right pattern around the `oracle` store, the 14-leaf header tree, the canonical vote   *)
(* bytes rebuilt from the common prefix/suffix - is spelled out below.                               *)
(*                                                                                                  *)
(* State:  stores  the sorted list of store names committed by the application (a configuration;     *)
(*                 it changes when an upgrade mounts, unmounts or renames a store);                   *)
(*         chk     the stage-by-stage verdict of the bridge algorithm on the last proof;              *)
(*         layout  the verdict of the structural check of `stores` against the fixed pattern;         *)
(*         nproof  number of proofs that were due (provable inputs).                                  *)
(* Actions: Relay (a proof for a stored result / the request count / several results at a committed   *)
(*          block: the service must produce it and every stage must verify), Refuse (an input that     *)
(*          has no proof: unresolved or unknown id, height outside the provable range - the property   *)
(*          says nothing about the service's answer), Mount/Unmount/Rename (configuration changes,     *)
(*          explored by the MC role), Boot (a chain starts with an observed store list).               *)
EXTENDS Integers, Sequences, FiniteSets, TLC, IOUtils

VARIABLES stores, chk, layout, nproof
vars == <<stores, chk, layout, nproof>>

-----------------------------------------------------------------------------
(* bytes as lower-case hex strings                                                                  *)

\* `python3` from PATH; bin/props.d/bridge.py exports VERIF_PYTHON = the interpreter that PATH entry resolves to
\* (sys.executable), which saves the start-up cost of shim scripts.  Standard library only.
Python == IF "VERIF_PYTHON" \in DOMAIN IOEnv THEN IOEnv.VERIF_PYTHON ELSE "python3"
Sha256(hex) ==
    IOExec(<<Python, "-S", "-c",
             "import sys,hashlib;sys.stdout.write(hashlib.sha256(bytes.fromhex(sys.argv[1])).hexdigest())",
             hex>>).stdout

HexDigit == <<"0", "1", "2", "3", "4", "5", "6", "7", "8", "9", "a", "b", "c", "d", "e", "f">>
HexByte(b) == HexDigit[(b \div 16) + 1] \o HexDigit[(b % 16) + 1]
ByteLen(hex) == Len(hex) \div 2

RECURSIVE Uvarint(_)
Uvarint(n) == IF n < 128 THEN HexByte(n) ELSE HexByte(128 + (n % 128)) \o Uvarint(n \div 128)
\* zig-zag ("signed") varint of a NON-NEGATIVE value below 2^30: the unsigned varint of 2n
Varint(n) == Uvarint(2 * n)

RECURSIVE BytesLE(_, _)
BytesLE(n, k) == IF k = 0 THEN "" ELSE HexByte(n % 256) \o BytesLE(n \div 256, k - 1)
RECURSIVE BytesBE(_, _)
BytesBE(n, k) == IF k = 0 THEN "" ELSE BytesBE(n \div 256, k - 1) \o HexByte(n % 256)

\* the contract writes lengths as one byte (uint8); all lengths here are far below 128
Len1(hex) == HexByte(ByteLen(hex)) \o hex

MerkleLeaf(hex) == Sha256("00" \o hex)
MerkleInner(l, r) == Sha256("01" \o l \o r)

-----------------------------------------------------------------------------
(* 1. oracle store (IAVL): value leaf up the returned path                                          *)

\* protobuf encoding of oracle Result as the contract's codec rebuilds it: zero/empty fields are omitted
PbInt(tag, n) == IF n = 0 THEN "" ELSE HexByte(tag) \o Uvarint(n)
PbBytes(tag, hex) == IF hex = "" THEN "" ELSE HexByte(tag) \o Uvarint(ByteLen(hex)) \o hex
EncodeResult(r) ==
    PbBytes(10, r.cid) \o PbInt(16, r.osid) \o PbBytes(26, r.calldata) \o PbInt(32, r.ask) \o PbInt(40, r.min) \o
    PbInt(48, r.rid) \o PbInt(56, r.ans) \o PbInt(64, r.reqt) \o PbInt(72, r.rest) \o PbInt(80, r.status) \o
    PbBytes(90, r.result)

ResultKey(rid) == "ff" \o BytesBE(rid, 8)
CountKey == "00" \o "52657175657374436f756e74"            \* 0x00 ++ "RequestCount"

ItemKey(it) == IF it.isCount THEN CountKey ELSE ResultKey(it.res.rid)
ItemValueHash(it) == IF it.isCount THEN Sha256(BytesBE(it.count, 8)) ELSE Sha256(EncodeResult(it.res))

IavlLeaf(version, key, vhash) == Sha256("00" \o "02" \o Varint(version) \o Len1(key) \o "20" \o vhash)
IavlInner(pe, sub) ==
    Sha256(Varint(pe.h) \o Varint(pe.size) \o Varint(pe.ver) \o
           "20" \o (IF pe.right THEN pe.sib ELSE sub) \o "20" \o (IF pe.right THEN sub ELSE pe.sib))
RECURSIVE IavlClimb(_, _, _)
IavlClimb(cur, paths, i) == IF i > Len(paths) THEN cur ELSE IavlClimb(IavlInner(paths[i], cur), paths, i + 1)
IavlRoot(version, key, vhash, paths) == IavlClimb(IavlLeaf(version, key, vhash), paths, 1)

-----------------------------------------------------------------------------
(* 2. multistore: the oracle leaf and the five siblings in the contract's FIXED positions            *)

OracleName == "6f7261636c65"                               \* "oracle"
AppHashOf(ms) ==
    LET leaf == MerkleLeaf(Len1(OracleName) \o "20" \o Sha256(ms.oracle))
        n1 == MerkleInner(ms.mint, leaf)                    \* [mint | oracle]
        n2 == MerkleInner(n1, ms.params)                    \* [.. | params..restake]
        n3 == MerkleInner(n2, ms.rolling)                   \* [.. | rollingseed..transfer]
        n4 == MerkleInner(n3, ms.tss)                       \* [.. | tss..upgrade]
    IN MerkleInner(ms.auth, n4)                             \* [first 16 stores | ..]

-----------------------------------------------------------------------------
(* 3. block header: the 14-field tree from 5 sub-tree hashes + height, time and the app hash          *)

EncodeTime(sec, nano) == "08" \o Uvarint(sec) \o (IF nano > 0 THEN "10" \o Uvarint(nano) ELSE "")
BlockHashOf(hp, appHash) ==
    LET hgt == MerkleLeaf("08" \o Uvarint(hp.height))
        tim == MerkleLeaf(EncodeTime(hp.sec, hp.nano))
        app == MerkleLeaf("0a" \o "20" \o appHash)
        l == MerkleInner(MerkleInner(hp.vc, MerkleInner(hgt, tim)), hp.lbi)
        r == MerkleInner(MerkleInner(hp.nvc, MerkleInner(app, hp.lrh)), hp.ep)
    IN MerkleInner(l, r)

-----------------------------------------------------------------------------
(* 4. canonical vote bytes and signers                                                              *)

SignBytesOf(cv, blockHash, ts, chain) ==
    LET body == cv.prefix \o blockHash \o cv.suffix \o "2a" \o Len1(ts) \o "32" \o Len1(chain)
    IN HexByte(ByteLen(body)) \o body

\* the fixed vote format the contract insists on (so that exactly one block hash fits)
FixedVoteFormat(cv, sigs) ==
    /\ ByteLen(cv.prefix) \in {15, 24}
    /\ ByteLen(cv.suffix) = 38
    /\ \A i \in 1..Len(sigs) : ByteLen(sigs[i].ts) \in 6..12 /\ sigs[i].v \in {27, 28}
                               /\ ByteLen(sigs[i].r) = 32 /\ ByteLen(sigs[i].s) = 32

\* addresses as byte lists: strict lexicographic order (the contract requires ascending signers = no duplicates)
RECURSIVE LexLess(_, _, _)
LexLess(x, y, i) ==
    IF i > Len(x) \/ i > Len(y) THEN Len(x) < Len(y)
    ELSE IF x[i] # y[i] THEN x[i] < y[i] ELSE LexLess(x, y, i + 1)

-----------------------------------------------------------------------------
(* the whole algorithm on one proof.  a = request, o = answer (o.p = returned proof fields, o.evm = the    *)
(* ABI-decoded EvmProofBytes), obs = trusted observations                                              *)

NonNeg(it) == /\ it.version >= 0 /\ it.count >= 0
              /\ \A j \in 1..Len(it.paths) : it.paths[j].h >= 0 /\ it.paths[j].size >= 0 /\ it.paths[j].ver >= 0
              /\ (~it.isCount => \A f \in {"osid", "ask", "min", "rid", "ans", "reqt", "rest", "status"} : it.res[f] >= 0)

AllGood == [produced |-> TRUE, form |-> TRUE, evm |-> TRUE, asked |-> TRUE, value |-> TRUE, iavl |-> TRUE, oracleRoot |-> TRUE,
            appHash |-> TRUE, height |-> TRUE, blockHash |-> TRUE, voteFormat |-> TRUE, voteBytes |-> TRUE,
            recovered |-> TRUE, ascending |-> TRUE]

Verdict(a, o, obs) ==
    LET p == o.p
        items == p.items
        n == Len(items)
        form == /\ n = Len(obs.stored) /\ n >= 1
                /\ \A i \in 1..n : NonNeg(items[i])
                /\ p.bh >= 0 /\ p.hp.height >= 0 /\ p.hp.sec >= 0 /\ p.hp.nano >= 0
                /\ Len(p.sigs) = Len(obs.signer) /\ Len(p.sigs) >= 1
    IN IF ~form THEN [AllGood EXCEPT !.form = FALSE]
       ELSE
       LET vh == [i \in 1..n |-> ItemValueHash(items[i])]
           roots == [i \in 1..n |-> IavlRoot(items[i].version, ItemKey(items[i]), vh[i], items[i].paths)]
           app == AppHashOf(p.ms)
           blk == BlockHashOf(p.hp, app)
           sg == obs.signer
           m == Len(p.sigs)
       IN [produced   |-> TRUE,
           form       |-> TRUE,
           \* the ABI bytes handed to the contract (decoded by go-ethereum) carry exactly these fields
           evm        |-> o.evm = p,
           \* the proof is about what was asked for
           asked      |-> \A i \in 1..n : /\ items[i].isCount = (a.kind = "count")
                                          /\ (a.kind # "count" => items[i].res.rid = a.rids[i])
                                          /\ ItemKey(items[i]) = obs.stored[i].key,
           \* the leaf the contract hashes is the stored value (SHA-256 of the bytes read from the oracle store)
           value      |-> \A i \in 1..n : vh[i] = obs.stored[i].vhash,
           \* hashing the leaf up the returned IAVL path gives the oracle store root of the proof ...
           iavl       |-> \A i \in 1..n : roots[i] = p.ms.oracle,
           \* ... which is the real root of the oracle store at the version below the block
           oracleRoot |-> p.ms.oracle = obs.oracleRoot,
           \* combining it with the returned multistore siblings gives that block's app hash
           appHash    |-> app = obs.appHash,
           height     |-> p.bh = obs.H /\ p.hp.height = obs.H,
           \* recombining the returned header parts gives the block hash
           blockHash  |-> blk = obs.blockHash,
           voteFormat |-> FixedVoteFormat(p.cv, p.sigs),
           \* the vote bytes the contract rebuilds are the bytes the recovered validator really signed
           voteBytes  |-> \A i \in 1..m : sg[i] \in 1..Len(obs.vals) =>
                              SignBytesOf(p.cv, blk, p.sigs[i].ts, obs.chain) = obs.vals[sg[i]].sb,
           \* each returned signature recovers a validator that pre-committed this block
           recovered  |-> \A i \in 1..m : sg[i] \in 1..Len(obs.vals) /\ obs.vals[sg[i]].flag = 2,
           ascending  |-> \A i \in 1..(m - 1) : (sg[i] \in 1..Len(obs.vals) /\ sg[i + 1] \in 1..Len(obs.vals)) =>
                              LexLess(obs.vals[sg[i]].eth, obs.vals[sg[i + 1]].eth, 1)]

\* an input for which the property promises a proof
Provable(obs) == obs.avail /\ \A i \in 1..Len(obs.stored) : obs.stored[i].present

Relay(a, o, obs) ==
    /\ Provable(obs)
    /\ chk' = (IF o.ok THEN Verdict(a, o, obs) ELSE [AllGood EXCEPT !.produced = FALSE])
    /\ nproof' = nproof + 1
    /\ UNCHANGED <<stores, layout>>

\* no proof is promised; but what the service does hand out for a committed block must still be a proof of what was
\* asked: a response for a batch that names a result that is not stored (skipped, substituted, ...) is not one
Refuse(a, o, obs) ==
    /\ ~Provable(obs)
    /\ chk' = (IF o.ok /\ obs.avail THEN [AllGood EXCEPT !.asked = FALSE] ELSE AllGood)
    /\ UNCHANGED <<stores, layout, nproof>>

Verified == \A k \in DOMAIN chk : chk[k]

-----------------------------------------------------------------------------
(* STORE LAYOUT.  The multistore hashes its stores as a simple Merkle tree over the names in byte    *)
(* order (split point = largest power of two below the size).  The proof for `oracle` is the list of  *)
(* sibling sub-trees from the leaf up; the proof builder (multi_store.go) and the contract hard-code  *)
(* that this list has the sides  L R R R L  (mint | params..restake | rollingseed..transfer |          *)
(* tss..upgrade | first sixteen).                                                                     *)

RECURSIVE Pow2Below(_, _)
Pow2Below(n, k) == IF 2 * k < n THEN Pow2Below(n, 2 * k) ELSE k
Split(n) == Pow2Below(n, 1)

\* siblings of leaf i in the tree over positions lo..hi, from the leaf upwards
RECURSIVE PathOf(_, _, _)
PathOf(lo, hi, i) ==
    IF lo = hi THEN <<>>
    ELSE LET k == Split(hi - lo + 1) IN
         IF i < lo + k THEN Append(PathOf(lo, lo + k - 1, i), [side |-> "R", lo |-> lo + k, hi |-> hi])
         ELSE Append(PathOf(lo + k, hi, i), [side |-> "L", lo |-> lo, hi |-> lo + k - 1])

IndexOf(seq, x) == CHOOSE i \in 1..Len(seq) : seq[i] = x
HasOracle(ss) == \E i \in 1..Len(ss) : ss[i] = "oracle"
OraclePath(ss) == PathOf(1, Len(ss), IndexOf(ss, "oracle"))
SidesOf(ss) == [j \in 1..Len(OraclePath(ss)) |-> OraclePath(ss)[j].side]

ExpectedSides == <<"L", "R", "R", "R", "L">>
SidesValid(ss) == HasOracle(ss) /\ SidesOf(ss) = ExpectedSides

\* the field names of the proof say which stores each sibling covers (first..last); the left-most group is
\* named after the auth module whose store key is "acc", so only its last member is compared
ExpectedRanges == << <<"mint", "mint">>, <<"params", "restake">>, <<"rollingseed", "transfer">>,
                     <<"tss", "upgrade">>, <<"", "icahost">> >>
NamesValid(ss) ==
    /\ SidesValid(ss)
    /\ \A j \in 1..5 : LET pe == OraclePath(ss)[j] IN
           /\ (ExpectedRanges[j][1] # "" => ss[pe.lo] = ExpectedRanges[j][1])
           /\ ss[pe.hi] = ExpectedRanges[j][2]

\* closed form of SidesValid (proved for all sizes up to 40 by the MC role): exactly 17 stores sort before
\* `oracle` and there are 25..32 stores.  Hence: mounting/unmounting/renaming a store that sorts AFTER
\* "oracle" (and staying within 25..32 stores) keeps the hard-coded pattern valid; any change to the number of
\* stores sorting BEFORE "oracle" breaks every relay proof.
Rule(ss) == HasOracle(ss) /\ IndexOf(ss, "oracle") = 18 /\ Len(ss) \in 25..32

(* Symbolic cross-check of the pattern (hash = injective constructor): the SDK's proof, the builder's   *)
(* positional extraction and the contract's fixed recombination.                                       *)
RECURSIVE SymRoot(_, _, _)
SymRoot(ss, lo, hi) ==
    IF lo = hi THEN <<"leaf", ss[lo]>>
    ELSE LET k == Split(hi - lo + 1) IN <<"node", SymRoot(ss, lo, lo + k - 1), SymRoot(ss, lo + k, hi)>>
\* what the SDK serves: per level the sibling sub-tree and the side it is on
SdkProof(ss) == [j \in 1..Len(OraclePath(ss)) |->
                    [side |-> OraclePath(ss)[j].side, sib |-> SymRoot(ss, OraclePath(ss)[j].lo, OraclePath(ss)[j].hi)]]
\* multi_store.go: op j is read as a LEFT sibling (Prefix[1:]) for j in {1,5} and as a RIGHT sibling (Suffix) for
\* j in {2,3,4}; reading the wrong part of an op yields bytes that are not the sibling ("junk"); fewer than five
\* ops: the builder fails (<<>>)
Extract(pf) ==
    IF Len(pf) < 5 THEN <<>>
    ELSE [j \in 1..5 |-> IF pf[j].side = ExpectedSides[j] THEN pf[j].sib ELSE <<"junk", ToString(j)>>]
\* the contract's recombination
SymBridgeRoot(x, leaf) ==
    <<"node", x[5], <<"node", <<"node", <<"node", <<"node", x[1], leaf>>, x[2]>>, x[3]>>, x[4]>> >>
BridgeRecomputesRoot(ss) ==
    LET x == Extract(SdkProof(ss)) IN
    /\ Len(x) = 5
    /\ SymBridgeRoot(x, <<"leaf", "oracle">>) = SymRoot(ss, 1, Len(ss))

LayoutVerdict(ss, observedSides) ==
    [hasOracle |-> HasOracle(ss),
     \* the structural model agrees with the proof the SDK really serves
     model     |-> HasOracle(ss) => SidesOf(ss) = observedSides,
     \* ... and that is the pattern the builder and the contract hard-code
     sides     |-> observedSides = ExpectedSides]

LayoutOK == \A k \in DOMAIN layout : layout[k]

Boot(ss, observedSides) ==
    /\ stores' = ss
    /\ layout' = LayoutVerdict(ss, observedSides)
    /\ chk' = AllGood
    /\ nproof' = 0

\* configuration changes (MC role); "new" stands for a name that sorts at the chosen gap
InsertAt(ss, g, x) == SubSeq(ss, 1, g) \o <<x>> \o SubSeq(ss, g + 1, Len(ss))     \* g in 0..Len
RemoveAt(ss, i) == SubSeq(ss, 1, i - 1) \o SubSeq(ss, i + 1, Len(ss))
Mount(g, x) == /\ stores' = InsertAt(stores, g, x)
               /\ UNCHANGED <<chk, layout, nproof>>
Unmount(i) == /\ stores[i] # "oracle"
              /\ stores' = RemoveAt(stores, i)
              /\ UNCHANGED <<chk, layout, nproof>>
Rename(i, g, x) == /\ stores[i] # "oracle"
                   /\ stores' = InsertAt(RemoveAt(stores, i), g, x)
                   /\ UNCHANGED <<chk, layout, nproof>>

Init == stores = <<"oracle">> /\ chk = AllGood /\ nproof = 0
        /\ layout = [hasOracle |-> TRUE, model |-> TRUE, sides |-> TRUE]
=============================================================================
