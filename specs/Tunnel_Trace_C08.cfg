\* C08: the packet rule.  Tunnel creation / reconfiguration, triggers and end-blocks are owned; sequence numbers,
\* packets, latest prices, LastInterval, fee-payer balances, the module's fee book and the route-fee escrow are
\* checked.  Deposits, withdrawals, (de)activation messages are assumed as observed.
CONSTANTS
  MaxTun = 4
  Sig = {"s1", "s2"}
  Acct = {"p1", "p2", "p3"}
  Denom = {"ua", "ub"}
  FeeDenom = "ub"
  MinIv = 1
  MaxIv = 10
  MinDev = 50
  MaxDev = 3000
  ParamSet = {}
  KindSet = {}
  IvSet = {}
  SigSets = {}
  DevSet = {}
  AmtSet = {}
  FundSet = {}
  PriceSet = {}
  ModeSet = {}
  DtSet = {}
  InitBal = 0
  TraceFile = "trace.ndjson"
  Owned = {"CreateTunnel", "UpdateSignals", "UpdateRoute", "Trigger", "Activate", "Deactivate", "EndBlock"}
  Checked = {"count", "cfg", "active", "activeIdx", "seq", "latest", "lastInt", "pkts", "feeBal", "tssBal", "totalFees"}
  EBChecked = {"count", "cfg", "active", "activeIdx", "seq", "latest", "lastInt", "pkts", "feeBal", "tssBal", "totalFees", "ev", "frame"}
SPECIFICATION TraceSpec
INVARIANTS TInvC08 TraceBoundOK
PROPERTIES TSeqStep TPacketRule TFeesOnlyWithPackets
POSTCONDITION TraceAccepted
CHECK_DEADLOCK FALSE
