\* number devices (ASSUME): Horner on half-limbs, scaling by K
CONSTANTS
  SeedLen = 3
  Byte = {0, 1}
  Facet = "scale"
  MaxN = 3
  WSet = {0, 1, 2, 3}
  MaxCnt = 1
  MaxTries = 1
  DSet = {0}
  IdSet = {1}
INIT MCInit
NEXT MCNext
VIEW View
INVARIANTS Valid Deterministic Consumed OneSpec SomeSpec MaxSpec ShufSpec
PROPERTIES SeedRule
CHECK_DEADLOCK FALSE
