\* C19: the checked model has no crash transition and no tolerance: every event is owned, both observations
\* (workers blocked in the executor, messages queued on pendingMsgs) are checked
CONSTANTS
  Req = {1, 2, 3}
  DS = {1, 2, 3, 4}
  MaxTry = 3
  SliceBug = FALSE
  TxSkip = "return"
  AssumeSnapshot = TRUE
  TraceFile = "trace.ndjson"
  Checked = {"msgs", "gate"}
  Owned = {"Startup", "Start", "Tx", "Release", "Deliver", "End", "Crashed"}
SPECIFICATION TraceSpec
INVARIANTS TInv
PROPERTIES TQueueAppendOnly TDeliverOK
POSTCONDITION TraceAccepted
CHECK_DEADLOCK FALSE
