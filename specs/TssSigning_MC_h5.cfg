\* thorough: the calibrated cfg of DESIGN C05 (h<=5); every invariant and action property
CONSTANTS
  Member = {m1, m2, m3}
  Stranger = {}
  TSet = {2}
  MaxSig = 2
  MaxSerial = 3
  MaxDESet = {2}
  MaxAttSet = {2}
  PeriodSet = {1}
  PenaltySet = {1}
  KSet = {1, 2}
  PreSet = {0}
  PostSet = {0}
  TransOn = FALSE
  MaxH = 5
INIT Init
NEXT NextMC
SYMMETRY Sym
VIEW View
CONSTRAINT Bound
INVARIANTS Inv OnTime BoundedTermination
PROPERTIES AssignFromHead Fifo QueueStep Eligible RejectedNoChange GhostExact CreationExact DEPartOK Status Attempt NoEarlyTimeout ExactTimeout NewAttempt Success Timeout Penalty Signed Callback TransitionStep
CHECK_DEADLOCK FALSE
