\* thorough algebra facet: n=3, t=3, q=5, every degree-2 polynomial of dealer 1 (125) x two choices for the others,
\* <= 1 deviation, one schedule
CONSTANTS
  MaxN = 3
  NSet = {3}
  TSet = {3}
  Q = 5
  Periods = {9}
  PolyMode = "mixed"
  MaxH = 6
  MaxDev = 1
INIT Init
NEXT AlgNext
VIEW View
CONSTRAINT Bound
INVARIANTS Inv
PROPERTIES KeysImmutable NeverActiveAfterMal
CHECK_DEADLOCK FALSE
