\* deposit ledger (C17) under a minimum deposit changed by governance: (1 ua, 2 ub) <-> (0 ua = denom dropped, 2 ub) <->
\* (2 ua, 1 ub); one tunnel, two symmetric accounts, histories of up to 6 steps: deposits made in a denom stay
\* withdrawable after the denom was dropped, later deposits in it are refused, the activation gate reads the new value
CONSTANTS
  MaxTun = 1
  Sig = {"s1"}
  Acct = {a1, a2}
  Denom = {"ua", "ub"}
  FeeDenom = "ub"
  MinIv = 1
  MaxIv = 10
  MinDev = 50
  MaxDev = 3000
  ParamSet <- P_mindep
  KindSet = {"tss"}
  IvSet = {2}
  SigSets <- Sig_all
  DevSet <- Dev_one
  AmtSet <- Amt_small
  FundSet = {7}
  PriceSet <- Price_one
  ModeSet = {"ok"}
  DtSet = {1}
  InitBal = 3
  MaxNow = 103
  MaxSteps = 8
  NTun = 0
  InitFee = 0
INIT InitLedger
NEXT NextLedgerPar
SYMMETRY SymAcct
VIEW View
CONSTRAINT BoundSteps
INVARIANTS Inv
PROPERTIES WithdrawOwn DepositOwn ActivationGate Deactivation EndBlockFrame SeqStep FeesOnlyWithPackets
CHECK_DEADLOCK FALSE
