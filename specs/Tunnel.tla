------------------------------- MODULE Tunnel -------------------------------
(***************************************************************************)
(* Tunnels of BandChain (x/tunnel): properties C08 (packets produced       *)
(* exactly when due, gap-free sequence, atomic fee) and C17 (deposits      *)
(* fully backed, owner-withdrawable, gate activation).                     *)
(*                                                                         *)
(* One action per entry point of the real code:                            *)
(*   CreateTunnel   msg_server.go CreateTunnel -> AddTunnel (+ deposit)    *)
(*   UpdateSignals  msg_server.go UpdateSignalsAndInterval                 *)
(*   UpdateRoute    msg_server.go UpdateRoute (no IBC channel exists in    *)
(*                  this environment: always refused)                      *)
(*   Activate / Deactivate    msg_server.go -> keeper_tunnel.go            *)
(*   Deposit / Withdraw       msg_server.go -> keeper_deposit.go           *)
(*   Trigger        msg_server.go TriggerTunnel                            *)
(*   EndBlock       abci.go -> keeper_packet.go ProduceActiveTunnelPackets *)
(*                  followed by the header of the next block (time + dt)   *)
(* Environment actions: SetFeed (x/feeds price store), SetRoute (state of  *)
(* the bandtss signing group), Fund (bank send to a tunnel's fee payer).   *)
(* Inputs the code must refuse are actions too (outcome "rej", state       *)
(* unchanged).                                                             *)
(***************************************************************************)
EXTENDS Integers, Sequences, FiniteSets, TLC

CONSTANTS
    MaxTun,     \* bound on the number of tunnels (ids 1..MaxTun)
    Sig,        \* signal ids
    Acct,       \* user accounts (creators, depositors, strangers)
    Denom,      \* deposit denoms accepted by the module (= denoms of params.min_deposit)
    FeeDenom,   \* the denom fees are paid in (member of Denom)
    MinIv, MaxIv,     \* params.min_interval / max_interval
    MinDev, MaxDev,   \* params.min_deviation_bps / max_deviation_bps
    \* ---- input domains enumerated by Init / Next ----
    ParamSet,   \* set of [minDep : [Denom -> Nat], base : Nat, route : Nat]
    KindSet,    \* subset of {"tss", "ibc", "tssLong"}
    IvSet,      \* intervals tried (may include values outside MinIv..MaxIv)
    SigSets,    \* signal sets tried (may include {})
    DevSet,     \* set of [soft : Nat, hard : Nat] tried per signal (may include out-of-range values)
    AmtSet,     \* coin vectors [Denom -> Nat] tried by deposits / withdrawals / initial deposits
    FundSet,    \* amounts sent to fee payers
    PriceSet,   \* feed prices (NoPrice = feed missing)
    ModeSet,    \* states of the TSS route: "ok", "noGroup", or any other string = a failing mode
    DtSet,      \* block-time increments (seconds)
    InitBal     \* initial balance of every account, per denom

Tuns    == 1..MaxTun
NoPrice == -1                   \* no entry (latest price never sent / feed missing)
Never   == -1                   \* LastInterval = 0 in the code: "never sent"
Inf     == 1000000000           \* math.MaxInt64 of calculateDeviationBPS: larger than any threshold
Zero    == [d \in Denom |-> 0]

VARIABLES
    now,        \* block time of the block in progress (seconds since genesis)
    params,     \* [minDep, base, route]: min deposit, base packet fee, TSS route fee (fee per signer * threshold)
    count,      \* number of tunnels ever created (= last id)
    cfg,        \* t -> [present, kind, creator, interval, sigs, soft, hard]
    active,     \* t -> Tunnel.IsActive
    activeIdx,  \* the ActiveTunnelID index (what end-block iterates)
    seq,        \* t -> Tunnel.Sequence
    latest,     \* t -> [Sig -> price | NoPrice]   LatestPrices.Prices
    lastInt,    \* t -> LatestPrices.LastInterval (Never = 0)
    pkts,       \* t -> sequence of stored packets [seq, sigs]
    feed,       \* s -> current feeds price (NoPrice = not in the store)          (environment)
    mode,       \* state of the TSS route                                         (environment)
    feeBal,     \* t -> balance of the tunnel's fee payer (FeeDenom)
    bal,        \* a -> [Denom -> Nat]  account balances
    dep,        \* t -> a -> [Denom -> Nat]  Deposit records
    totDep,     \* t -> [Denom -> Nat]       Tunnel.TotalDeposit
    modBal,     \* [Denom -> Nat]  balance of the tunnel module account
    tssBal,     \* balance of the bandtss module account (route fees in escrow), FeeDenom
    totalFees,  \* TotalFees.TotalBasePacketFee, FeeDenom
    \* ---- outputs of the last step ----
    out,        \* "init" | "ok" | "rej"
    ev,         \* [succ, fail, deact]: tunnels with a produce_packet_success / _fail / deactivate event
    last,       \* [e, who, t]: the last action
    \* ---- ghost ----
    pchg        \* params.min_deposit was changed by governance at some point of this history

tunvars == <<count, cfg, active, activeIdx, seq, latest, lastInt, pkts>>
envvars == <<feed, mode, pchg>>
balvars == <<feeBal, bal, dep, totDep, modBal, tssBal, totalFees>>
outvars == <<out, ev, last>>
vars == <<now, params, count, cfg, active, activeIdx, seq, latest, lastInt, pkts, feed, mode, pchg,
          feeBal, bal, dep, totDep, modBal, tssBal, totalFees, out, ev, last>>

NoCfg == [present |-> FALSE, kind |-> "none", creator |-> "none", interval |-> 0, sigs |-> {},
          soft |-> [s \in Sig |-> 0], hard |-> [s \in Sig |-> 0]]
NoEv  == [succ |-> {}, fail |-> {}, deact |-> {}]
NoLatest == [s \in Sig |-> NoPrice]

AllGTE(x, y) == \A d \in Denom : x[d] >= y[d]
IsZero(x)    == \A d \in Denom : x[d] = 0
\* keeper_deposit.go validateDepositDenom: a deposit may only contain denoms that params.min_deposit names NOW (a
\* denom governance dropped from the list has minimum 0 here).  Withdrawals are not restricted that way.
Accepts(x)   == \A d \in Denom : x[d] > 0 => params.minDep[d] > 0
Plus(x, y)   == [d \in Denom |-> x[d] + y[d]]
Minus(x, y)  == [d \in Denom |-> x[d] - y[d]]
Abs(x)       == IF x < 0 THEN -x ELSE x

\* sum of the function f over the set S
RECURSIVE SumF(_, _)
SumF(f, S) == IF S = {} THEN 0 ELSE LET x == CHOOSE y \in S : TRUE IN f[x] + SumF(f, S \ {x})

Init ==
    /\ now = 100
    /\ params \in ParamSet
    /\ count = 0
    /\ cfg = [t \in Tuns |-> NoCfg]
    /\ active = [t \in Tuns |-> FALSE]
    /\ activeIdx = {}
    /\ seq = [t \in Tuns |-> 0]
    /\ latest = [t \in Tuns |-> NoLatest]
    /\ lastInt = [t \in Tuns |-> Never]
    /\ pkts = [t \in Tuns |-> <<>>]
    /\ feed = [s \in Sig |-> NoPrice]
    /\ mode = "ok" /\ pchg = FALSE
    /\ feeBal = [t \in Tuns |-> 0]
    /\ bal = [a \in Acct |-> [d \in Denom |-> InitBal]]
    /\ dep = [t \in Tuns |-> [a \in Acct |-> Zero]]
    /\ totDep = [t \in Tuns |-> Zero]
    /\ modBal = Zero
    /\ tssBal = 0
    /\ totalFees = 0
    /\ out = "init" /\ ev = NoEv /\ last = [e |-> "Init", who |-> "none", t |-> 0]

Done(e, who, t, o) == out' = o /\ ev' = NoEv /\ last' = [e |-> e, who |-> who, t |-> t]

Rejected(e, who, t) ==
    /\ Done(e, who, t, "rej")
    /\ UNCHANGED <<now, params, tunvars, envvars, balvars>>

Exists(t) == t \in Tuns /\ t <= count

(***************************************************************************)
(* The packet rule: keeper_packet.go ProducePacket, helper.go              *)
(* GenerateNewPrices / calculateDeviationBPS.                              *)
(***************************************************************************)
\* old price: 0 when the tunnel never sent this signal
Old(t, s) == IF latest[t][s] = NoPrice THEN 0 ELSE latest[t][s]
\* feeds price: a signal that is not in the price store is sent with price 0 (status NOT_IN_CURRENT_FEEDS);
\* the status of a stored price is not looked at
FeedP(s) == IF feed[s] = NoPrice THEN 0 ELSE feed[s]
DevBps(old, new) == IF new = old THEN 0
                    ELSE IF old = 0 THEN Inf
                    ELSE (Abs(new - old) * 10000) \div old
Dev(t, s)  == DevBps(Old(t, s), FeedP(s))
SendAll(t) == lastInt[t] = Never \/ now >= cfg[t].interval + lastInt[t]
Hard(t)    == {s \in cfg[t].sigs : Dev(t, s) >= cfg[t].hard[s]}
Soft(t)    == {s \in cfg[t].sigs : Dev(t, s) >= cfg[t].soft[s]}
\* a signal rides along if it is beyond its hard or its soft threshold; the packet exists iff sendAll or some hard
Content(t) == IF SendAll(t) THEN cfg[t].sigs
              ELSE IF Hard(t) # {} THEN Hard(t) \cup Soft(t) ELSE {}

\* route fee: bandtss GetSigningFee (no current group => no fee); IBC route => no fee
RouteFee(t) == IF cfg[t].kind = "ibc" \/ mode = "noGroup" THEN 0 ELSE params.route
Funded(t)   == feeBal[t] >= params.base + RouteFee(t)
\* the route delivers: a TSS route with encodable signal ids while the signing group can sign.
\* "ibc" tunnels have no channel in this environment, "tssLong" tunnels have signal ids the TSS encoder refuses.
\* mode "panic" = the route panics (fault injected at the verif hook in SendPacket): SendPacket must turn the panic
\* into an error, i.e. the route failed like in any other failing mode (no packet, no fees, tunnel deactivated).
RouteOK(t)  == cfg[t].kind = "tss" /\ mode = "ok"

\* effects of one produced packet of tunnel t with content S (CreatePacket + SendPacket + latest-price update)
NewLatest(t, S) == [s \in Sig |-> IF s \in S THEN FeedP(s) ELSE latest[t][s]]
NewPkt(t, S)    == [seq |-> seq[t] + 1, sigs |-> S]

(***************************************************************************)
(* MsgCreateTunnel                                                         *)
(***************************************************************************)
ValidSignals(sigs, soft, hard) ==
    /\ sigs # {}
    /\ \A s \in sigs : /\ soft[s] >= MinDev /\ soft[s] <= MaxDev
                       /\ hard[s] >= MinDev /\ hard[s] <= MaxDev
ValidIv(iv) == iv >= MinIv /\ iv <= MaxIv

CreateTunnel(a, kind, iv, sigs, soft, hard, d0) ==
    /\ count < MaxTun
    /\ LET t == count + 1 IN
       IF ValidSignals(sigs, soft, hard) /\ ValidIv(iv) /\ AllGTE(bal[a], d0) /\ Accepts(d0)
       THEN /\ count' = t
            /\ cfg' = [cfg EXCEPT ![t] = [present |-> TRUE, kind |-> kind, creator |-> a, interval |-> iv, sigs |-> sigs,
                                          soft |-> [s \in Sig |-> IF s \in sigs THEN soft[s] ELSE 0],
                                          hard |-> [s \in Sig |-> IF s \in sigs THEN hard[s] ELSE 0]]]
            /\ dep' = [dep EXCEPT ![t][a] = d0]
            /\ totDep' = [totDep EXCEPT ![t] = d0]
            /\ bal' = [bal EXCEPT ![a] = Minus(@, d0)]
            /\ modBal' = Plus(modBal, d0)
            /\ Done("CreateTunnel", a, t, "ok")
            /\ UNCHANGED <<now, params, active, activeIdx, seq, latest, lastInt, pkts, envvars, feeBal, tssBal, totalFees>>
       ELSE Rejected("CreateTunnel", a, t)

(***************************************************************************)
(* MsgUpdateSignalsAndInterval: creator only; resets the latest prices and *)
(* LastInterval, so the next end-block sends everything.                   *)
(***************************************************************************)
UpdateSignals(a, t, iv, sigs, soft, hard) ==
    IF Exists(t) /\ a = cfg[t].creator /\ ValidSignals(sigs, soft, hard) /\ ValidIv(iv)
    THEN /\ cfg' = [cfg EXCEPT ![t].interval = iv, ![t].sigs = sigs,
                               ![t].soft = [s \in Sig |-> IF s \in sigs THEN soft[s] ELSE 0],
                               ![t].hard = [s \in Sig |-> IF s \in sigs THEN hard[s] ELSE 0]]
         /\ latest' = [latest EXCEPT ![t] = NoLatest]
         /\ lastInt' = [lastInt EXCEPT ![t] = Never]
         /\ Done("UpdateSignals", a, t, "ok")
         /\ UNCHANGED <<now, params, count, active, activeIdx, seq, pkts, envvars, balvars>>
    ELSE Rejected("UpdateSignals", a, t)

\* MsgUpdateRoute: TSS routes cannot be updated, IBC routes need an existing channel (none in this environment)
UpdateRoute(a, t) == Rejected("UpdateRoute", a, t)

(***************************************************************************)
(* MsgActivate / MsgDeactivate                                             *)
(***************************************************************************)
Activate(a, t) ==
    IF Exists(t) /\ a = cfg[t].creator /\ ~active[t] /\ AllGTE(totDep[t], params.minDep)
    THEN /\ active' = [active EXCEPT ![t] = TRUE]
         /\ activeIdx' = activeIdx \cup {t}
         /\ Done("Activate", a, t, "ok")
         /\ UNCHANGED <<now, params, count, cfg, seq, latest, lastInt, pkts, envvars, balvars>>
    ELSE Rejected("Activate", a, t)

Deactivate(a, t) ==
    IF Exists(t) /\ a = cfg[t].creator /\ active[t]
    THEN /\ active' = [active EXCEPT ![t] = FALSE]
         /\ activeIdx' = activeIdx \ {t}
         /\ Done("Deactivate", a, t, "ok")
         /\ UNCHANGED <<now, params, count, cfg, seq, latest, lastInt, pkts, envvars, balvars>>
    ELSE Rejected("Deactivate", a, t)

(***************************************************************************)
(* MsgDepositToTunnel / MsgWithdrawFromTunnel.  `bad` = the amount also    *)
(* contains a coin of a denom the module does not accept.                  *)
(***************************************************************************)
Deposit(a, t, amt, bad) ==
    IF Exists(t) /\ ~IsZero(amt) /\ ~bad /\ Accepts(amt) /\ AllGTE(bal[a], amt)
    THEN /\ dep' = [dep EXCEPT ![t][a] = Plus(@, amt)]
         /\ totDep' = [totDep EXCEPT ![t] = Plus(@, amt)]
         /\ bal' = [bal EXCEPT ![a] = Minus(@, amt)]
         /\ modBal' = Plus(modBal, amt)
         /\ Done("Deposit", a, t, "ok")
         /\ UNCHANGED <<now, params, tunvars, envvars, feeBal, tssBal, totalFees>>
    ELSE Rejected("Deposit", a, t)

Withdraw(a, t, amt, bad) ==
    IF Exists(t) /\ ~IsZero(amt) /\ ~bad /\ AllGTE(dep[t][a], amt)
    THEN LET nt == Minus(totDep[t], amt) IN
         /\ dep' = [dep EXCEPT ![t][a] = Minus(@, amt)]
         /\ totDep' = [totDep EXCEPT ![t] = nt]
         /\ bal' = [bal EXCEPT ![a] = Plus(@, amt)]
         /\ modBal' = Minus(modBal, amt)
         /\ IF active[t] /\ ~AllGTE(nt, params.minDep)
            THEN /\ active' = [active EXCEPT ![t] = FALSE]
                 /\ activeIdx' = activeIdx \ {t}
            ELSE UNCHANGED <<active, activeIdx>>
         /\ Done("Withdraw", a, t, "ok")
         /\ UNCHANGED <<now, params, count, cfg, seq, latest, lastInt, pkts, envvars, feeBal, tssBal, totalFees>>
    ELSE Rejected("Withdraw", a, t)

(***************************************************************************)
(* MsgTriggerTunnel: creator, active, funded; sends ALL signals and resets *)
(* the interval; any failure of the route fails the message (tx atomic).   *)
(***************************************************************************)
Trigger(a, t) ==
    IF Exists(t) /\ a = cfg[t].creator /\ active[t] /\ Funded(t) /\ RouteOK(t)
    THEN /\ seq' = [seq EXCEPT ![t] = @ + 1]
         /\ pkts' = [pkts EXCEPT ![t] = Append(@, NewPkt(t, cfg[t].sigs))]
         /\ latest' = [latest EXCEPT ![t] = NewLatest(t, cfg[t].sigs)]
         /\ lastInt' = [lastInt EXCEPT ![t] = now]
         /\ feeBal' = [feeBal EXCEPT ![t] = @ - params.base - RouteFee(t)]
         /\ totalFees' = totalFees + params.base
         /\ modBal' = [modBal EXCEPT ![FeeDenom] = @ + params.base]
         /\ tssBal' = tssBal + RouteFee(t)
         /\ Done("Trigger", a, t, "ok")
         /\ UNCHANGED <<now, params, count, cfg, active, activeIdx, envvars, bal, dep, totDep>>
    ELSE Rejected("Trigger", a, t)

(***************************************************************************)
(* Environment                                                             *)
(***************************************************************************)
SetFeed(s, p) ==
    /\ feed' = [feed EXCEPT ![s] = p]
    /\ Done("SetFeed", "none", 0, "ok")
    /\ UNCHANGED <<now, params, tunvars, mode, pchg, balvars>>

SetRoute(m) ==
    /\ mode' = m
    /\ Done("SetRoute", "none", 0, "ok")
    /\ UNCHANGED <<now, params, tunvars, feed, pchg, balvars>>

\* governance changes params.min_deposit (amounts raised / lowered, a denom dropped = minimum 0).  Nothing stored
\* changes: active tunnels stay active, deposits stay withdrawable by their owners in whatever denom they were made;
\* only later deposits, activations and the withdraw-deactivation rule read the new value.
SetMinDep(md) ==
    /\ md # params.minDep /\ \E d \in Denom : md[d] > 0
    /\ params' = [params EXCEPT !.minDep = md]
    /\ pchg' = TRUE
    /\ Done("SetMinDep", "none", 0, "ok")
    /\ UNCHANGED <<now, tunvars, feed, mode, balvars>>

Fund(t, x) ==
    /\ Exists(t)
    /\ feeBal' = [feeBal EXCEPT ![t] = @ + x]
    /\ Done("Fund", "none", t, "ok")
    /\ UNCHANGED <<now, params, tunvars, envvars, bal, dep, totDep, modBal, tssBal, totalFees>>

(***************************************************************************)
(* End of the block: for every id in the active index (ascending; the      *)
(* tunnels do not interact: own fee payer, additive module totals):        *)
(*   not funded            -> deactivate                                   *)
(*   nothing to send       -> nothing                                      *)
(*   route delivers        -> packet, seq+1, fees once, latest prices,     *)
(*                            LastInterval = now iff sendAll               *)
(*   route fails           -> produce_packet_fail, NOTHING persists        *)
(* then the header of the next block.                                      *)
(***************************************************************************)
EndBlock(dt) ==
    LET deact   == {t \in activeIdx : ~Funded(t)}
        attempt == {t \in activeIdx \ deact : Content(t) # {}}
        succ    == {t \in attempt : RouteOK(t)}
        fail    == attempt \ succ
        nBase   == params.base * Cardinality(succ)
        nRoute  == SumF([t \in Tuns |-> RouteFee(t)], succ)
    IN
    /\ seq' = [t \in Tuns |-> IF t \in succ THEN seq[t] + 1 ELSE seq[t]]
    /\ pkts' = [t \in Tuns |-> IF t \in succ THEN Append(pkts[t], NewPkt(t, Content(t))) ELSE pkts[t]]
    /\ latest' = [t \in Tuns |-> IF t \in succ THEN NewLatest(t, Content(t)) ELSE latest[t]]
    /\ lastInt' = [t \in Tuns |-> IF t \in succ /\ SendAll(t) THEN now ELSE lastInt[t]]
    /\ feeBal' = [t \in Tuns |-> IF t \in succ THEN feeBal[t] - params.base - RouteFee(t) ELSE feeBal[t]]
    /\ totalFees' = totalFees + nBase
    /\ modBal' = [modBal EXCEPT ![FeeDenom] = @ + nBase]
    /\ tssBal' = tssBal + nRoute
    /\ active' = [t \in Tuns |-> active[t] /\ t \notin deact]
    /\ activeIdx' = activeIdx \ deact
    /\ now' = now + dt
    /\ out' = "ok"
    /\ ev' = [succ |-> succ, fail |-> fail, deact |-> deact]
    /\ last' = [e |-> "EndBlock", who |-> "none", t |-> 0]
    /\ UNCHANGED <<params, count, cfg, envvars, bal, dep, totDep>>

-----------------------------------------------------------------------------
Devs == [Sig -> DevSet]

NextLedger ==
    \/ \E a \in Acct, k \in KindSet, iv \in IvSet, S \in SigSets, dv \in Devs, d0 \in AmtSet :
          CreateTunnel(a, k, iv, S, [s \in Sig |-> dv[s].soft], [s \in Sig |-> dv[s].hard], d0)
    \/ \E a \in Acct, t \in Tuns : Activate(a, t) \/ Deactivate(a, t)
    \/ \E a \in Acct, t \in Tuns, amt \in AmtSet, bad \in BOOLEAN : Deposit(a, t, amt, bad) \/ Withdraw(a, t, amt, bad)

NextPacket ==
    \/ \E a \in Acct, t \in Tuns : Trigger(a, t) \/ UpdateRoute(a, t)
    \/ \E a \in Acct, t \in Tuns, iv \in IvSet, S \in SigSets, dv \in Devs :
          UpdateSignals(a, t, iv, S, [s \in Sig |-> dv[s].soft], [s \in Sig |-> dv[s].hard])
    \/ \E s \in Sig, p \in PriceSet : SetFeed(s, p)
    \/ \E m \in ModeSet : SetRoute(m)
    \/ \E t \in Tuns, x \in FundSet : Fund(t, x)

NextBlock == \E dt \in DtSet : EndBlock(dt)

Next == NextLedger \/ NextPacket \/ NextBlock

Spec == Init /\ [][Next]_vars

-----------------------------------------------------------------------------
(* Invariants *)

TypeOK ==
    /\ now \in Nat /\ count \in 0..MaxTun
    /\ activeIdx \subseteq Tuns
    /\ \A t \in Tuns : /\ seq[t] \in Nat /\ feeBal[t] \in Nat
                       /\ \A d \in Denom : totDep[t][d] \in Nat
                       /\ \A a \in Acct, d \in Denom : dep[t][a][d] \in Nat
    /\ \A a \in Acct, d \in Denom : bal[a][d] \in Nat
    /\ \A d \in Denom : modBal[d] \in Nat
    /\ tssBal \in Nat /\ totalFees \in Nat
    /\ out \in {"init", "ok", "rej"}

\* ---- C08 ----
\* the k-th stored packet of a tunnel has sequence number k, and there are exactly Sequence of them
SeqGapFree == \A t \in Tuns : /\ Len(pkts[t]) = seq[t]
                              /\ \A k \in 1..Len(pkts[t]) : pkts[t][k].seq = k /\ pkts[t][k].sigs # {}
\* every packet paid the base fee exactly once into the module's fee book, the route fee once into escrow
FeesBooked == /\ totalFees = params.base * SumF(seq, Tuns)
              /\ tssBal = params.route * SumF(seq, Tuns)
\* tunnels that were never created have nothing
AbsentEmpty == \A t \in Tuns : t > count => /\ ~cfg[t].present /\ ~active[t] /\ seq[t] = 0 /\ feeBal[t] = 0
                                            /\ IsZero(totDep[t]) /\ t \notin activeIdx
InvC08 == TypeOK /\ SeqGapFree /\ FeesBooked /\ AbsentEmpty

\* ---- C17 ----
LedgerTotal  == \A t \in Tuns, d \in Denom : totDep[t][d] = SumF([a \in Acct |-> dep[t][a][d]], Acct)
LedgerBacked == \A d \in Denom :
                    modBal[d] = SumF([t \in Tuns |-> totDep[t][d]], Tuns) + (IF d = FeeDenom THEN totalFees ELSE 0)
ActiveIndex  == activeIdx = {t \in Tuns : active[t]}
\* while the minimum deposit is unchanged an active tunnel always covers it
ActiveCovered == \A t \in Tuns : active[t] => (cfg[t].present /\ (pchg \/ AllGTE(totDep[t], params.minDep)))
InvC17 == TypeOK /\ LedgerTotal /\ LedgerBacked /\ ActiveIndex /\ ActiveCovered

Inv == InvC08 /\ InvC17

-----------------------------------------------------------------------------
(* Action properties: XxxA is the action-level formula, Xxx the temporal property *)

IsBlock == last'.e = "EndBlock" /\ now' >= now

\* C08: sequence numbers advance one at a time, only at end-block or by a trigger, only for active tunnels,
\* and each advance stores exactly the packet with that number and charges base + route fee exactly once
SeqStepA ==
    \A t \in Tuns :
        /\ seq'[t] \in {seq[t], seq[t] + 1}
        /\ seq'[t] = seq[t] + 1 =>
              /\ last'.e \in {"EndBlock", "Trigger"}
              /\ active[t] /\ t \in activeIdx
              /\ pkts'[t] = Append(pkts[t], pkts'[t][seq[t] + 1])
              /\ feeBal'[t] = feeBal[t] - (params.base + RouteFee(t))
              /\ feeBal[t] >= params.base + RouteFee(t)
        /\ seq'[t] = seq[t] =>
              /\ pkts'[t] = pkts[t]
              /\ feeBal'[t] >= feeBal[t]                               \* a fee payer is only ever charged for a packet
              /\ (last'.e # "UpdateSignals" => (latest'[t] = latest[t] /\ lastInt'[t] = lastInt[t]))

\* C08: at end-block a packet is produced (or, with a failing route, attempted) exactly when it is due or some
\* signal moved by at least its hard deviation; its content is everything (interval) or the signals beyond soft/hard
PacketRuleA ==
    last'.e = "EndBlock" =>
        \A t \in Tuns :
            LET due       == lastInt[t] = Never \/ now - lastInt[t] >= cfg[t].interval
                moved(th) == {s \in cfg[t].sigs : LET o == Old(t, s)  n == FeedP(s) IN
                                  IF o = 0 THEN n # 0 ELSE Abs(n - o) * 10000 >= th[s] * o + (IF n = o THEN 1 ELSE 0)}
                hard      == moved(cfg[t].hard)
                want      == active[t] /\ Funded(t) /\ (due \/ hard # {})
            IN
            /\ (t \in ev'.succ \cup ev'.fail) <=> want
            /\ t \in ev'.succ <=> seq'[t] = seq[t] + 1
            /\ t \in ev'.succ =>
                  /\ pkts'[t][seq'[t]].sigs = (IF due THEN cfg[t].sigs ELSE hard \cup moved(cfg[t].soft))
                  /\ \A s \in Sig : latest'[t][s] = (IF s \in pkts'[t][seq'[t]].sigs THEN FeedP(s) ELSE latest[t][s])
                  /\ lastInt'[t] = (IF due THEN now ELSE lastInt[t])
            /\ t \in ev'.fail =>                                        \* nothing of the attempt persists
                  /\ seq'[t] = seq[t] /\ latest'[t] = latest[t] /\ lastInt'[t] = lastInt[t]
                  /\ feeBal'[t] = feeBal[t] /\ pkts'[t] = pkts[t] /\ active'[t]
            /\ (active[t] /\ ~Funded(t)) <=> t \in ev'.deact
            /\ t \in ev'.deact => ~active'[t]
            /\ (active[t] /\ Funded(t)) => active'[t]

\* C08: a failing step moves no fees at all
FeesOnlyWithPacketsA ==
    (\A t \in Tuns : seq'[t] = seq[t]) => (totalFees' = totalFees /\ tssBal' = tssBal)

\* C17: a deposit record decreases only by a withdrawal of its owner, who receives exactly the difference
WithdrawOwnA ==
    \A t \in Tuns, a \in Acct :
        (\E d \in Denom : dep'[t][a][d] < dep[t][a][d]) =>
            /\ last' = [e |-> "Withdraw", who |-> a, t |-> t]
            /\ \A d \in Denom : dep'[t][a][d] <= dep[t][a][d] /\ bal'[a][d] - bal[a][d] = dep[t][a][d] - dep'[t][a][d]
\* C17: a deposit record increases only by its owner paying in exactly the difference
DepositOwnA ==
    \A t \in Tuns, a \in Acct :
        (\E d \in Denom : dep'[t][a][d] > dep[t][a][d]) =>
            /\ last'.who = a /\ last'.t = t /\ last'.e \in {"Deposit", "CreateTunnel"}
            /\ \A d \in Denom : dep'[t][a][d] >= dep[t][a][d] /\ bal[a][d] - bal'[a][d] = dep'[t][a][d] - dep[t][a][d]
\* C17: only the creator activates, only while the total deposit covers the minimum
ActivationGateA ==
    \A t \in Tuns : (~active[t] /\ active'[t]) =>
        /\ last' = [e |-> "Activate", who |-> cfg[t].creator, t |-> t]
        /\ AllGTE(totDep[t], params.minDep)
\* C17: deactivation happens by the creator, by a withdrawal below the minimum, or at end-block (unfunded)
DeactivationA ==
    \A t \in Tuns : (active[t] /\ ~active'[t]) =>
        \/ last' = [e |-> "Deactivate", who |-> cfg[t].creator, t |-> t]
        \/ last'.e = "Withdraw" /\ last'.t = t /\ ~AllGTE(totDep'[t], params.minDep)
        \/ last'.e = "EndBlock" /\ ~Funded(t)
\* C17: end-block touches only flagged tunnels
EndBlockFrameA ==
    last'.e = "EndBlock" =>
        /\ (ev'.succ \cup ev'.fail \cup ev'.deact) \subseteq {t \in Tuns : active[t]}
        /\ \A t \in Tuns : ~active[t] => /\ seq'[t] = seq[t] /\ feeBal'[t] = feeBal[t] /\ latest'[t] = latest[t]
                                         /\ lastInt'[t] = lastInt[t] /\ pkts'[t] = pkts[t] /\ ~active'[t]
        /\ dep' = dep /\ totDep' = totDep /\ bal' = bal

SeqStep == [][SeqStepA]_vars
PacketRule == [][PacketRuleA]_vars
FeesOnlyWithPackets == [][FeesOnlyWithPacketsA]_vars
WithdrawOwn == [][WithdrawOwnA]_vars
DepositOwn == [][DepositOwnA]_vars
ActivationGate == [][ActivationGateA]_vars
Deactivation == [][DeactivationA]_vars
EndBlockFrame == [][EndBlockFrameA]_vars
=============================================================================
