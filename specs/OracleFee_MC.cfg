\* exhaustive quick facet: one payer, balances 0..2 x 0..2, lists of <= 2 sources over 4 data sources, ask 1..2, every limit vector
\* in 0..3 x 0..3, two requests in a row with / without a TSS encoder, signing fee 0 or 2, resolution at the end of a block
CONSTANTS
  Denom = {"u", "x"}
  DS = {1, 2, 3, 4}
  Fee <- MCFee
  TreasuryOf <- MCTreasuryOf
  Treasury = {"t1", "t2", "t3"}
  Payer = {"p1"}
  MaxBal = 2
  AskSet = {1, 2}
  MaxSrc = 2
  MaxLimit = 3
  MaxReq = 2
  SigFeeSet = {0, 2}
  SigDenom = "u"
  EncSet = {TRUE, FALSE}
INIT Init
NEXT Next
VIEW View
INVARIANTS NonNegative
PROPERTIES Exact Conserved Signing
CHECK_DEADLOCK FALSE
