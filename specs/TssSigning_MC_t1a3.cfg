\* thorough facet: threshold 1, three attempts, one pair per submission; h<=6
CONSTANTS
  Member = {m1, m2, m3}
  Stranger = {}
  TSet = {1}
  MaxSig = 1
  MaxSerial = 3
  MaxDESet = {2}
  MaxAttSet = {3}
  PeriodSet = {1}
  PenaltySet = {1}
  KSet = {1}
  PreSet = {0}
  PostSet = {0}
  TransOn = FALSE
  MaxH = 6
INIT Init
NEXT NextMC
SYMMETRY Sym
VIEW View
CONSTRAINT Bound
INVARIANTS Inv OnTime BoundedTermination
PROPERTIES AssignFromHead Fifo QueueStep Eligible RejectedNoChange GhostExact CreationExact DEPartOK Status Attempt NoEarlyTimeout ExactTimeout NewAttempt Success Timeout Penalty Signed Callback TransitionStep
CHECK_DEADLOCK FALSE
