----------------------------- MODULE FeedsVote_MC -----------------------------
(* MC role for FeedsVote.tla: small constants, facets in the cfg files. *)
EXTENDS FeedsVote
CONSTANTS MaxH,      \* heights explored (CONSTRAINT)
          PowSet,    \* small signal powers used to build the votes
          MaxLen,    \* longest enumerated vote
          MaxFeedsSet, StepSet, UpdSet, MinI, MaxI

H1 == 1000000   \* stands for 2^63 - 1
H2 == 999999    \* stands for 2^63 - 2

Pairs == [s : Signal, p : PowSet]
SeqsUpTo(n) == UNION {[1..k -> Pairs] : k \in 0..n}

\* votes whose true sum is beyond every voter's power although the int64 sum is small or zero,
\* a zero power and a duplicated id (both refused by ValidateBasic)
Special ==
    LET a == CHOOSE s \in Signal : TRUE
        b == CHOOSE s \in Signal \ {a} : TRUE
        c == CHOOSE s \in Signal \ {a, b} : TRUE
    IN {<<[s |-> a, p |-> H1], [s |-> b, p |-> H1], [s |-> c, p |-> 2]>>,
        <<[s |-> a, p |-> H1], [s |-> b, p |-> H2], [s |-> c, p |-> 4]>>,
        <<[s |-> a, p |-> H1]>>,
        <<[s |-> a, p |-> 0]>>,
        <<[s |-> a, p |-> 1], [s |-> a, p |-> 1]>>}

MCVotes == SeqsUpTo(MaxLen) \cup Special

MCPars == [maxFeeds : MaxFeedsSet, step : StepSet, minI : {MinI}, maxI : {MaxI}, upd : UpdSet]

Sym == Permutations(Voter)
Bound == h <= MaxH
View == <<h, par, power, vote, total, idx, lock, feeds, lastUpd, fpar>>
=============================================================================
