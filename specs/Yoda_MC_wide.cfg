\* thorough facet "interleavings, wide": as Yoda_MC.cfg with every initial cache content (cached / not cached per data source)
CONSTANTS
  Req = {1, 2}
  DS = {1, 2}
  MaxTry = 3
  SliceBug = FALSE
  TxSkip = "return"
  AssumeSnapshot = TRUE
  NSet = {1, 2}
  NSet2 = {1, 2}
  WantSet = {"me"}
  FReqSet = {0}
  FHashSet = {0}
  FDataSet = {0}
  LenSet = {5}
  CachedSet = {TRUE, FALSE}
  DmgSet = {FALSE}
  KindSet = {"ok", "error"}
  Modes = {"direct"}
  DeliverAnyTime = FALSE
SPECIFICATION MCSpec
VIEW View
INVARIANTS Inv ExactlyOnceAtEnd
PROPERTIES QueueAppendOnly DeliverOK
CHECK_DEADLOCK FALSE
