\* C15 (feeds half): validator statuses, deactivate events, stored validator prices, the feed-list update stamp and
\* the outcomes of Submit / Activate are checked; the price store and the pure functions are not looked at
CONSTANTS
  Val = {"v1", "v2", "v3", "v4"}
  Stranger = {"x1"}
  Sig = {"s1", "s2"}
  GraceSet = {1}
  CoolSet = {1}
  DiscSet = {1}
  UpdSet = {1}
  QuorumSet = {1}
  PenaltySet = {1}
  DtSet = {1}
  IntervalSet = {1}
  PowerSet = {1}
  PriceSet = {1}
  StatusSet = {"avail"}
  ToffSet = {0}
  TraceFile = "trace.ndjson"
  Checked = {"vstat", "deactEv", "vprice", "upd"}
  Owned = {"Submit", "Activate", "EndBlock"}
SPECIFICATION TraceSpec
INVARIANTS TInvStatus
PROPERTIES TActivationRule TDeactivationRule TReporterSafe TGraceSafe TStatusStable TVPriceRule
POSTCONDITION TraceAccepted
CHECK_DEADLOCK FALSE
