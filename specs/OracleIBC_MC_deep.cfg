\* thorough facet "deep": as "ibc" with one channel failure, the three outcome classes, two payers at the balance boundary
CONSTANTS
  Val = {v1, v2}
  Stranger = {}
  MaxReq = 2
  Units = 1
  ExpSet = {2}
  PenaltySet = {2}
  DtSet = {1}
  AskSet = {1, 2}
  MinSet = {1}
  ShapeSet = {"exact"}
  Chan = {"c0", "c1"}
  Payer = {"p1"}
  Acct = {}
  Treas = {"t1", "t2", "t3"}
  MaxDs = 3
  MaxOs = 5
  BalSet = {3, 7}
  LimitSet = {6}
  EncSet = {"none"}
  FormSet = {"good", "notjson"}
  OsReqSet = {1, 2, 5}
  ClientSet = {"k1"}
  TokSet = {}
  DsContSet = {}
  OsCodeSet = {}
  FeeSet = {}
  DsEditSet = {}
  OsEditSet = {}
  TreasTry = {}
  HowSet = {"closed"}
  FlipSet = {}
  StepSet = {}
  MaxH = 5
  MaxBreak = 1
INIT IInitActive
NEXT INext
SYMMETRY Sym
VIEW IView
CONSTRAINT IBound
INVARIANTS Inv IbcInv
PROPERTIES FeeExact Conserved AckRule ResponseTimely OwnerOnly ResultImmutable ResultOnlyAtEndBlock
CHECK_DEADLOCK FALSE
