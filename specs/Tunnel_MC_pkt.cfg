\* packet rule (C08): one active TSS tunnel, one signal, prices straddling soft 300 / hard 3000 bps (and the
\* swapped pair), intervals 2 and 3, missing feed and price 0, three route modes, funding around base+route
CONSTANTS
  MaxTun = 1
  Sig = {"s1"}
  Acct = {a1, a2}
  Denom = {"ua", "ub"}
  FeeDenom = "ub"
  MinIv = 1
  MaxIv = 10
  MinDev = 50
  MaxDev = 3000
  ParamSet <- P_1_2_3_4
  KindSet = {"tss"}
  IvSet = {2, 3}
  SigSets <- Sig_all
  DevSet <- Dev_pkt
  AmtSet <- Amt_zero
  FundSet = {7}
  PriceSet <- Price_pkt
  ModeSet = {"ok", "noNonces"}
  DtSet = {1, 2}
  InitBal = 3
  MaxNow = 104
  MaxSteps = 0
  NTun = 1
  InitFee = 14
INIT InitPacket
NEXT NextPktCore
VIEW View
CONSTRAINT Bound
INVARIANTS Inv
PROPERTIES SeqStep PacketRule FeesOnlyWithPackets EndBlockFrame ActivationGate Deactivation
CHECK_DEADLOCK FALSE
