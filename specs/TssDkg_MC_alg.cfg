\* quick algebra facet: n=3, t=2, q=5, EVERY polynomial of every dealer (25^3), no deviation, one schedule (members in id order, blocks end when a round completes)
CONSTANTS
  MaxN = 3
  NSet = {3}
  TSet = {2}
  Q = 5
  Periods = {9}
  PolyMode = "all"
  MaxH = 6
  MaxDev = 0
INIT Init
NEXT AlgNext
VIEW View
CONSTRAINT Bound
INVARIANTS Inv
PROPERTIES KeysImmutable NeverActiveAfterMal
CHECK_DEADLOCK FALSE
