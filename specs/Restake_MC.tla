------------------------------ MODULE Restake_MC ------------------------------
(* MC role for Restake.tla: small constants, several facets (see the cfg files). *)
EXTENDS Restake
CONSTANTS MaxEntry,   \* bound on the low part of every delegation / stake entry (CONSTRAINT)
          MaxHi,      \* bound on the number of 2^63 units in an entry
          CoinAmts,   \* amounts from which the one-denom coin vectors are built
          LockAmts,   \* non-negative powers tried by SetLock / LockVia (-1 is always added)
          InitAllowed \* initial allowed denoms of the facet

HM == U64Lim \div 2
MCLocks == LockAmts \cup {-1}

\* coin vectors with one non-zero denom, plus the all-zero vector (rejected by ValidateBasic)
MCCoins == {[d \in Denom |-> IF d = dd THEN n ELSE 0] : dd \in Denom, n \in CoinAmts} \cup {ZeroCoins}

SymAV == Permutations(Acct) \cup Permutations(Val) \cup Permutations(Vault)
SymAll == Permutations(Acct) \cup Permutations(Val) \cup Permutations(Vault) \cup Permutations(Denom)

Small(x) == (x % HM) <= MaxEntry /\ (x \div HM) <= MaxHi
Bound == \A a \in Acct : /\ \A v \in Val : Small(deleg[a][v])
                         /\ \A d \in Denom : Small(stake[a][d])

\* output-only variable `out` is not part of the state identity
View == <<deleg, stake, allowed, vault, lock, lidx, modBal>>

InitFixed == Init /\ allowed = InitAllowed

\* facet without changes of the allowed denoms: every active lock stays covered
NextFixed ==
    \/ \E a \in Acct, c \in CoinSet : StakeOK(a, c) \/ StakeRej(a, c) \/ Unstake(a, c)
    \/ \E a \in Acct, v \in Val, n \in AmtSet : DelegateOK(a, v, n) \/ DelegateRej(a, v, n) \/ Undelegate(a, v, n)
    \/ \E a \in Acct, v \in Val, w \in Val, n \in AmtSet : RedelegateOK(a, v, w, n) \/ RedelegateRej(a, v, w, n)
    \/ \E a \in Acct, k \in Vault, n \in LockSet : SetLock(a, k, n) \/ LockViaOK(a, k, n) \/ LockViaRej(a, k)
    \/ \E k \in Vault : Deactivate(k)
=============================================================================
