\* the payer IS a treasury (t1 receives the fees of ds1 and ds4): transfers to itself count against the limit and need the
\* balance at that moment, but do not move it; all balances 0..3 x 0..3, lists of <= 2 sources, ask 1..2, limits 0..4
CONSTANTS
  Denom = {"u", "x"}
  DS = {1, 2, 3, 4}
  Fee <- MCFee
  TreasuryOf <- MCTreasuryOf
  Treasury = {"t1", "t2", "t3"}
  Payer = {"t1"}
  MaxBal = 3
  AskSet = {1, 2}
  MaxSrc = 2
  MaxLimit = 4
  MaxReq = 2
  SigFeeSet = {2}
  SigDenom = "u"
  EncSet = {FALSE}
INIT Init
NEXT Next
VIEW View
INVARIANTS NonNegative
PROPERTIES Exact Conserved Signing
CHECK_DEADLOCK FALSE
