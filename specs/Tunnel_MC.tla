------------------------------ MODULE Tunnel_MC ------------------------------
(***************************************************************************)
(* MC role for Tunnel.tla: small constants, facet initial states and facet *)
(* next-state relations.  Non-scalar constants (records, functions) cannot *)
(* be written in a cfg file; they are defined here and substituted (<-).   *)
(***************************************************************************)
EXTENDS Tunnel

CONSTANTS MaxNow,    \* time bound of the facet
          MaxSteps,  \* bound on the number of non-block steps between two end-blocks (ledger facets)
          NTun,      \* number of pre-created tunnels of the packet facets
          InitFee    \* their fee payers' initial balance

VARIABLE steps       \* steps since the last end-block

mcvars == <<vars, steps>>

\* output-only variables are not part of the state identity
View == <<now, params, count, cfg, active, activeIdx, seq, latest, lastInt, pkts, feed, mode,
          feeBal, bal, dep, totDep, modBal, tssBal, totalFees, steps>>

SymAcct == Permutations(Acct)

Coins(a, b) == [d \in Denom |-> IF d = FeeDenom THEN b ELSE a]

\* ---- constant substitutions ----
P_1_2_3_4   == {[minDep |-> Coins(1, 2), base |-> 3, route |-> 4]}
P_fees      == {[minDep |-> Coins(1, 2), base |-> 3, route |-> 4], [minDep |-> Coins(1, 2), base |-> 0, route |-> 2]}
Dev_pkt     == {[soft |-> 300, hard |-> 3000], [soft |-> 3000, hard |-> 300]}
Dev_one     == {[soft |-> 300, hard |-> 3000]}
Dev_range   == {[soft |-> 300, hard |-> 3000], [soft |-> 10, hard |-> 300], [soft |-> 300, hard |-> 4000]}
Amt_small   == {Coins(0, 0), Coins(1, 0), Coins(0, 2), Coins(1, 2), Coins(0, 3)}
Amt_tiny    == {Coins(1, 0), Coins(0, 2)}
Amt_zero    == {Coins(0, 0)}
Price_pkt   == {NoPrice, 0, 100, 103, 130}
Price_few   == {NoPrice, 100, 130}
Price_one   == {100}
Sig_all     == {Sig}
Sig_some    == {Sig, {}} \cup {{s} : s \in Sig}

Bound      == now <= MaxNow
BoundSteps == now <= MaxNow /\ steps <= MaxSteps

(***************************************************************************)
(* Packet facets: NTun tunnels already created by the first account, with  *)
(* the minimum deposit, active, fee payers funded; every configuration of  *)
(* kind / interval / deviations from the constant sets.                    *)
(***************************************************************************)
Creator0 == CHOOSE a \in Acct : TRUE
Cfgs == {[present |-> TRUE, kind |-> k, creator |-> Creator0, interval |-> iv, sigs |-> Sig,
          soft |-> [s \in Sig |-> dv[s].soft], hard |-> [s \in Sig |-> dv[s].hard]] :
            k \in KindSet, iv \in (IvSet \cap MinIv..MaxIv), dv \in [Sig -> DevSet]}

InitPacket ==
    /\ now = 100
    /\ params \in ParamSet
    /\ count = NTun
    /\ cfg \in [Tuns -> Cfgs \cup {NoCfg}]
    /\ \A t \in Tuns : cfg[t].present <=> t <= NTun
    /\ active = [t \in Tuns |-> t <= NTun]
    /\ activeIdx = 1..NTun
    /\ seq = [t \in Tuns |-> 0]
    /\ latest = [t \in Tuns |-> NoLatest]
    /\ lastInt = [t \in Tuns |-> Never]
    /\ pkts = [t \in Tuns |-> <<>>]
    /\ feed = [s \in Sig |-> 100]
    /\ mode = "ok"
    /\ feeBal = [t \in Tuns |-> IF t <= NTun THEN InitFee ELSE 0]
    /\ bal = [a \in Acct |-> [d \in Denom |-> InitBal]]
    /\ dep = [t \in Tuns |-> [a \in Acct |-> IF t <= NTun /\ a = Creator0 THEN params.minDep ELSE Zero]]
    /\ totDep = [t \in Tuns |-> IF t <= NTun THEN params.minDep ELSE Zero]
    /\ modBal = [d \in Denom |-> NTun * params.minDep[d]]
    /\ tssBal = 0 /\ totalFees = 0
    /\ out = "init" /\ ev = NoEv /\ last = [e |-> "Init", who |-> "none", t |-> 0]
    /\ steps = 0

\* the packet rule proper: prices, route modes, funding, triggers, blocks
NextPktCore ==
    /\ \/ \E a \in Acct, t \in Tuns : Trigger(a, t)
       \/ \E s \in Sig, p \in PriceSet : SetFeed(s, p)
       \/ \E m \in ModeSet : SetRoute(m)
       \/ \E t \in Tuns, x \in FundSet : Fund(t, x)
       \/ NextBlock
    /\ steps' = 0

\* plus reconfiguration
NextPktCfg ==
    /\ \/ NextPacket
       \/ NextBlock
       \/ \E a \in Acct, t \in Tuns : Deactivate(a, t) \/ Activate(a, t)
    /\ steps' = 0

(***************************************************************************)
(* Ledger facets: everything from scratch.                                 *)
(***************************************************************************)
InitLedger == Init /\ steps = 0

NextLedgerMC ==
    \/ NextLedger /\ steps' = steps + 1
    \/ NextBlock /\ steps' = 0
    \/ (\E t \in Tuns, x \in FundSet : Fund(t, x)) /\ steps' = steps + 1

NextAllMC ==
    \/ (NextLedger \/ NextPacket) /\ steps' = steps + 1
    \/ NextBlock /\ steps' = 0
=============================================================================
