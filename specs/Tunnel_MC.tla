------------------------------ MODULE Tunnel_MC ------------------------------
(***************************************************************************)
(* MC role for Tunnel.tla: small constants, facet initial states and facet *)
(* next-state relations.  Non-scalar constants (records, functions) cannot *)
(* be written in a cfg file; they are defined here and substituted (<-).   *)
(***************************************************************************)
EXTENDS Tunnel

CONSTANTS MaxNow,    \* time bound of the facet
          MaxSteps,  \* bound on the length of the history (ledger facets)
          NTun,      \* number of pre-created tunnels of the packet facets
          InitFee    \* their fee payers' initial balance

VARIABLE steps       \* packet facets: rank of the last environment step in this block; ledger facets: length of the history

mcvars == <<vars, steps>>

\* output-only variables are not part of the state identity
View == <<now, params, count, cfg, active, activeIdx, seq, latest, lastInt, pkts, feed, mode, pchg,
          feeBal, bal, dep, totDep, modBal, tssBal, totalFees, steps>>

SymAcct == Permutations(Acct)

Coins(a, b) == [d \in Denom |-> IF d = FeeDenom THEN b ELSE a]

\* ---- constant substitutions ----
P_1_2_3_4   == {[minDep |-> Coins(1, 2), base |-> 3, route |-> 4]}
P_mindep    == {[minDep |-> Coins(1, 2), base |-> 3, route |-> 4], [minDep |-> Coins(0, 2), base |-> 3, route |-> 4],
                [minDep |-> Coins(2, 1), base |-> 3, route |-> 4]}
P_fees      == {[minDep |-> Coins(1, 2), base |-> 3, route |-> 4], [minDep |-> Coins(1, 2), base |-> 0, route |-> 2]}
Dev_pkt     == {[soft |-> 300, hard |-> 3000], [soft |-> 3000, hard |-> 300]}
Dev_one     == {[soft |-> 300, hard |-> 3000]}
Dev_two     == {[soft |-> 300, hard |-> 3000], [soft |-> 10, hard |-> 300]}
Dev_range   == {[soft |-> 300, hard |-> 3000], [soft |-> 10, hard |-> 300], [soft |-> 300, hard |-> 4000]}
Amt_small   == {Coins(0, 0), Coins(1, 0), Coins(0, 2), Coins(1, 2), Coins(0, 3)}
Amt_tiny    == {Coins(1, 0), Coins(0, 2)}
Amt_zero    == {Coins(0, 0)}
Price_pkt   == {NoPrice, 0, 100, 103, 130}
Price_few   == {NoPrice, 100, 130}
Price_c     == {100, 103, 130}
Price_two   == {100, 130}
Price_four  == {NoPrice, 100, 103, 130}
Price_one   == {100}
Sig_all     == {Sig}
Sig_some    == {Sig, {}} \cup {{s} : s \in Sig}

Bound      == now <= MaxNow
BoundSteps == now <= MaxNow /\ steps <= MaxSteps

(***************************************************************************)
(* Packet facets: NTun tunnels already created by the first account, with  *)
(* the minimum deposit, active, fee payers funded; every configuration of  *)
(* kind / interval / deviations from the constant sets.                    *)
(***************************************************************************)
Creator0 == CHOOSE a \in Acct : TRUE
Cfgs == {[present |-> TRUE, kind |-> k, creator |-> Creator0, interval |-> iv, sigs |-> Sig,
          soft |-> [s \in Sig |-> dv[s].soft], hard |-> [s \in Sig |-> dv[s].hard]] :
            k \in KindSet, iv \in (IvSet \cap MinIv..MaxIv), dv \in [Sig -> DevSet]}

InitPacket ==
    /\ now = 100
    /\ params \in ParamSet
    /\ count = NTun
    /\ cfg \in [Tuns -> Cfgs \cup {NoCfg}]
    /\ \A t \in Tuns : cfg[t].present <=> t <= NTun
    /\ active = [t \in Tuns |-> t <= NTun]
    /\ activeIdx = 1..NTun
    /\ seq = [t \in Tuns |-> 0]
    /\ latest = [t \in Tuns |-> NoLatest]
    /\ lastInt = [t \in Tuns |-> Never]
    /\ pkts = [t \in Tuns |-> <<>>]
    /\ feed = [s \in Sig |-> 100]
    /\ mode = "ok" /\ pchg = FALSE
    /\ feeBal = [t \in Tuns |-> IF t <= NTun THEN InitFee ELSE 0]
    /\ bal = [a \in Acct |-> [d \in Denom |-> InitBal]]
    /\ dep = [t \in Tuns |-> [a \in Acct |-> IF t <= NTun /\ a = Creator0 THEN params.minDep ELSE Zero]]
    /\ totDep = [t \in Tuns |-> IF t <= NTun THEN params.minDep ELSE Zero]
    /\ modBal = [d \in Denom |-> NTun * params.minDep[d]]
    /\ tssBal = 0 /\ totalFees = 0
    /\ out = "init" /\ ev = NoEv /\ last = [e |-> "Init", who |-> "none", t |-> 0]
    /\ steps = 0

\* the packet rule proper: prices, route modes, funding, triggers, blocks.  Within a block the environment
\* steps commute, so they are explored in one canonical order (feed, route, fund, trigger) only.
NextPktCore ==
    \/ steps <= 1 /\ (\E s \in Sig, p \in PriceSet : SetFeed(s, p)) /\ steps' = 1
    \/ steps < 2 /\ (\E m \in ModeSet : SetRoute(m)) /\ steps' = 2
    \/ steps < 3 /\ (\E t \in Tuns, x \in FundSet : Fund(t, x)) /\ steps' = 3
    \/ steps < 4 /\ (\E a \in Acct, t \in Tuns : Trigger(a, t)) /\ steps' = 4
    \/ NextBlock /\ steps' = 0

\* plus reconfiguration
NextPktCfg ==
    /\ \/ NextPacket
       \/ NextBlock
       \/ \E a \in Acct, t \in Tuns : Deactivate(a, t) \/ Activate(a, t)
    /\ steps' = 0

(***************************************************************************)
(* Ledger facets: everything from scratch.                                 *)
(***************************************************************************)
InitLedger == Init /\ steps = 0

\* (here `steps` counts all steps of the history)
NextLedgerMC ==
    /\ \/ NextLedger
       \/ NextBlock
       \/ \E t \in Tuns, x \in FundSet : Fund(t, x)
    /\ steps' = steps + 1

\* the same with the unaccepted denom tried with one amount only (refusals do not depend on the amount)
NextLedgerSmall ==
    /\ \/ \E a \in Acct, k \in KindSet, iv \in IvSet, S \in SigSets, dv \in Devs, d0 \in AmtSet :
             CreateTunnel(a, k, iv, S, [s \in Sig |-> dv[s].soft], [s \in Sig |-> dv[s].hard], d0)
       \/ \E a \in Acct, t \in Tuns : Activate(a, t) \/ Deactivate(a, t)
       \/ \E a \in Acct, t \in Tuns, amt \in AmtSet : Deposit(a, t, amt, FALSE) \/ Withdraw(a, t, amt, FALSE)
       \/ \E a \in Acct, t \in Tuns : Deposit(a, t, Coins(1, 0), TRUE) \/ Withdraw(a, t, Coins(1, 0), TRUE)
       \/ NextBlock
       \/ \E t \in Tuns, x \in FundSet : Fund(t, x)
    /\ steps' = steps + 1

\* the ledger under a minimum deposit that governance changes (raised, lowered, a denom dropped)
NextLedgerPar ==
    /\ \/ \E a \in Acct, k \in KindSet, iv \in IvSet, S \in SigSets, dv \in Devs, d0 \in AmtSet :
             CreateTunnel(a, k, iv, S, [s \in Sig |-> dv[s].soft], [s \in Sig |-> dv[s].hard], d0)
       \/ \E a \in Acct, t \in Tuns : Activate(a, t) \/ Deactivate(a, t)
       \/ \E a \in Acct, t \in Tuns, amt \in AmtSet : Deposit(a, t, amt, FALSE) \/ Withdraw(a, t, amt, FALSE)
       \/ \E p \in ParamSet : SetMinDep(p.minDep)
       \/ NextBlock
    /\ steps' = steps + 1

NextAllMC == Next /\ steps' = steps + 1
=============================================================================
