\* CONTROL (expected to fail, not part of the pipeline): strings concatenated before hashing
CONSTANTS
  MaxSig = 3
  MaxMemo = 2
  MaxText = 2
  MaxSigs = 1
  Zero = 0
  FineFrom = 10
  MaxNow = 1
  OrigMode = "concat"
  StrDom <- Strs6
  SigDom <- SigsPlain
INIT InitOrig
NEXT Stay
INVARIANTS OrigInj
CHECK_DEADLOCK FALSE
