CONSTANTS
  TraceFile = "trace.ndjson"
SPECIFICATION TraceSpec
INVARIANTS Verified LayoutOK Consecutive
POSTCONDITION TraceAccepted
ALIAS TAlias
CHECK_DEADLOCK FALSE
