CONSTANTS
  TraceFile = "trace.ndjson"
SPECIFICATION TraceSpec
INVARIANTS Verified LayoutOK Consecutive
POSTCONDITION TraceAccepted
CHECK_DEADLOCK FALSE
