CONSTANTS
  Val = {"v1", "v2", "v3"}
  Mem = {"m1", "m2", "m3"}
  Denom = {"u", "x"}
  MaxAmt = 2000000000
  TraceFile = "trace.ndjson"
SPECIFICATION TraceSpec
INVARIANTS NonNegative BankConsistent NoDust AccConsistent
PROPERTIES TConserved TOnlyActivePaid TRightBase
POSTCONDITION TraceAccepted
CHECK_DEADLOCK FALSE
