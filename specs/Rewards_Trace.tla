---------------------------- MODULE Rewards_Trace ----------------------------
(* Trace validation for Rewards.tla (C14): one TLC step per recorded line (single property, every variable   *)
(* checked).  Lines come from harness/fam_rewards: "Env" (the driver refilled the fee collector and set the  *)
(* flags / parameters), then one of OracleAlloc / TssAlloc / FullBegin = the real oracle.BeginBlocker,        *)
(* bandtss.BeginBlocker, app.BeginBlocker, with the arguments read back from the real state and the integer  *)
(* observations of the real state afterwards.  The absolute outstanding rewards (`out`) live here: they tie   *)
(* the logged increases `inc` and the exact total `acc` to what ValidatorOutstandingRewards really returns.  *)
EXTENDS Rewards, Json, Sequences

CONSTANTS TraceFile
TraceLog == ndJsonDeserialize(TraceFile)
VARIABLES l, out
tvars == <<vars, l, out>>

Line == TraceLog[l]
IVec(r) == [d \in Denom |-> r[d]]
DVec(r) == [d \in Denom |-> [i |-> r[d].i, f |-> r[d].f]]

Observed(st) ==
    /\ fc' = IVec(st.fc) /\ dm' = IVec(st.dm) /\ cp' = DVec(st.cp) /\ acc' = DVec(st.acc)
    /\ mb' = [m \in Mem |-> IVec(st.mb[m])]
    /\ sup' = IVec(st.sup) /\ rest' = IVec(st.rest)
    /\ out' = [v \in Val |-> DVec(st.out[v])]

Args(a) == [pw |-> [v \in Val |-> a.pw[v]], prop |-> a.prop, act |-> [v \in Val |-> a.act[v]], grp |-> a.grp,
            min |-> [m \in Mem |-> a.min[m]], mact |-> [m \in Mem |-> a.mact[m]], mde |-> [m \in Mem |-> a.mde[m]],
            pctO |-> a.pctO, pctT |-> a.pctT, taxN |-> a.taxN, taxD |-> a.taxD]

NoArgs == [pw |-> [v \in Val |-> 0], prop |-> CHOOSE v \in Val : TRUE, act |-> [v \in Val |-> FALSE], grp |-> FALSE,
           min |-> [m \in Mem |-> FALSE], mact |-> [m \in Mem |-> FALSE], mde |-> [m \in Mem |-> FALSE],
           pctO |-> 0, pctT |-> 0, taxN |-> 0, taxD |-> 1]

\* the contract speaks about percentages 0..100, a tax in [0, 1] and amounts / powers that keep TLC's integers exact
InDomain(a) ==
    /\ a.pctO \in 0..100 /\ a.pctT \in 0..100 /\ a.taxD = 100 /\ a.taxN \in 0..100 /\ a.prop \in Val
    /\ \A v \in Val : a.pw[v] \in 0..100
    /\ \A d \in Denom : fc[d] \in 0..1000000

\* the accounting identity "acc = cp + sum of outstanding" seen through (floor, flag)
AccConsistent ==
    \A d \in Denom :
        LET I == cp[d].i + SumOver([v \in Val |-> out[v][d].i], Val)
            K == Cardinality({v \in Val : out[v][d].f}) + (IF cp[d].f THEN 1 ELSE 0)
            gap == acc[d].i - I
        IN IF K = 0 THEN gap = 0 /\ ~acc[d].f
           ELSE /\ gap \in 0..(K - 1)
                /\ (K = 1 => acc[d].f)
                /\ (~acc[d].f => gap >= 1)

OutFollowsInc == \A v \in Val, d \in Denom : Adds(out[v][d], inc'[v][d], out'[v][d])

TraceInit ==
    /\ l = 1
    /\ fc = [d \in Denom |-> 0] /\ dm = [d \in Denom |-> 0] /\ sup = [d \in Denom |-> 0] /\ rest = [d \in Denom |-> 0]
    /\ cp = [d \in Denom |-> Z] /\ acc = [d \in Denom |-> Z]
    /\ mb = [m \in Mem |-> [d \in Denom |-> 0]]
    /\ out = ZeroInc /\ inc = ZeroInc
    /\ res = "init" /\ last = [k |-> "none", a |-> NoArgs]

TReset ==
    /\ Line.e = "Reset"
    /\ Observed(Line.s)
    /\ inc' = ZeroInc /\ res' = "init" /\ last' = [k |-> "none", a |-> NoArgs]

TEnv ==
    /\ Line.e = "Env"
    /\ Observed(Line.s)
    /\ Env /\ last' = last /\ out' = out

TAlloc ==
    /\ Line.e \in {"OracleAlloc", "TssAlloc", "FullBegin"}
    /\ Observed(Line.s)
    /\ inc' = [v \in Val |-> DVec(Line.o.inc[v])]
    /\ LET a == Args(Line.a) IN
       IF InDomain(a)
       THEN /\ Line.o.ok                       \* within the contract's domain the allocators never fail
            /\ \/ Line.e = "OracleAlloc" /\ OracleAlloc(a)
               \/ Line.e = "TssAlloc" /\ TssAlloc(a)
               \/ Line.e = "FullBegin" /\ FullBegin(a)
            /\ OutFollowsInc
       ELSE res' = "outside" /\ last' = [k |-> Line.e, a |-> a]      \* nothing is demanded (C02's business)

TraceNext == l <= Len(TraceLog) /\ l' = l + 1 /\ (TReset \/ TEnv \/ TAlloc)
TraceSpec == TraceInit /\ [][TraceNext]_tvars

TraceAccepted ==
    LET d == TLCGet("stats").diameter IN
    IF d - 1 = Len(TraceLog) THEN TRUE
    ELSE Print(<<"TRACE_REJECTED_AT_LINE", d, "PHASE", "act", "OF", Len(TraceLog)>>, FALSE)

TConserved == [][ConservedA]_tvars
TOnlyActivePaid == [][OnlyActivePaidA]_tvars
TRightBase == [][RightBaseA]_tvars
=============================================================================
