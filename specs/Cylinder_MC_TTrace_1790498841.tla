---- MODULE Cylinder_MC_TTrace_1790498841 ----
EXTENDS Sequences, TLCExt, Toolbox, Naturals, TLC, Cylinder_MC

_expression ==
    LET Cylinder_MC_TEExpression == INSTANCE Cylinder_MC_TEExpression
    IN Cylinder_MC_TEExpression!expression
----

_trace ==
    LET Cylinder_MC_TETrace == INSTANCE Cylinder_MC_TETrace
    IN Cylinder_MC_TETrace!trace
----

_inv ==
    ~(
        TLCGet("level") = Len(_TETrace)
        /\
        par = ([minDE |-> 2, maxDE |-> 4, gas |-> FALSE])
        /\
        mq = (<<[k |-> "des", des |-> <<1, 2, 3, 4>>, pre |-> TRUE]>>)
        /\
        cnt = (0)
        /\
        nextTok = (4)
        /\
        cq = (<<>>)
        /\
        out = ("-")
        /\
        calm = (TRUE)
        /\
        sg = (<<[me |-> FALSE, a |-> 0, open |-> FALSE, signed |-> FALSE, de |-> 0]>>)
        /\
        everSub = ({1, 2, 3, 4})
        /\
        usedFor = (<<{}, {}, {}, {}, {}, {}>>)
        /\
        pendN = (0)
        /\
        sentKeys = ()
        /\
        priv = ({1, 2, 3, 4})
        /\
        evDE = ({})
    )
----

_init ==
    /\ mq = _TETrace[1].mq
    /\ nextTok = _TETrace[1].nextTok
    /\ par = _TETrace[1].par
    /\ out = _TETrace[1].out
    /\ sentKeys = _TETrace[1].sentKeys
    /\ cq = _TETrace[1].cq
    /\ priv = _TETrace[1].priv
    /\ sg = _TETrace[1].sg
    /\ cnt = _TETrace[1].cnt
    /\ everSub = _TETrace[1].everSub
    /\ usedFor = _TETrace[1].usedFor
    /\ evDE = _TETrace[1].evDE
    /\ calm = _TETrace[1].calm
    /\ pendN = _TETrace[1].pendN
----

_next ==
    /\ \E i,j \in DOMAIN _TETrace:
        /\ \/ /\ j = i + 1
              /\ i = TLCGet("level")
        /\ mq  = _TETrace[i].mq
        /\ mq' = _TETrace[j].mq
        /\ nextTok  = _TETrace[i].nextTok
        /\ nextTok' = _TETrace[j].nextTok
        /\ par  = _TETrace[i].par
        /\ par' = _TETrace[j].par
        /\ out  = _TETrace[i].out
        /\ out' = _TETrace[j].out
        /\ sentKeys  = _TETrace[i].sentKeys
        /\ sentKeys' = _TETrace[j].sentKeys
        /\ cq  = _TETrace[i].cq
        /\ cq' = _TETrace[j].cq
        /\ priv  = _TETrace[i].priv
        /\ priv' = _TETrace[j].priv
        /\ sg  = _TETrace[i].sg
        /\ sg' = _TETrace[j].sg
        /\ cnt  = _TETrace[i].cnt
        /\ cnt' = _TETrace[j].cnt
        /\ everSub  = _TETrace[i].everSub
        /\ everSub' = _TETrace[j].everSub
        /\ usedFor  = _TETrace[i].usedFor
        /\ usedFor' = _TETrace[j].usedFor
        /\ evDE  = _TETrace[i].evDE
        /\ evDE' = _TETrace[j].evDE
        /\ calm  = _TETrace[i].calm
        /\ calm' = _TETrace[j].calm
        /\ pendN  = _TETrace[i].pendN
        /\ pendN' = _TETrace[j].pendN

\* Uncomment the ASSUME below to write the states of the error trace
\* to the given file in Json format. Note that you can pass any tuple
\* to `JsonSerialize`. For example, a sub-sequence of _TETrace.
    \* ASSUME
    \*     LET J == INSTANCE Json
    \*         IN J!JsonSerialize("Cylinder_MC_TTrace_1790498841.json", _TETrace)

=============================================================================

 Note that you can extract this module `Cylinder_MC_TEExpression`
  to a dedicated file to reuse `expression` (the module in the 
  dedicated `Cylinder_MC_TEExpression.tla` file takes precedence 
  over the module `Cylinder_MC_TEExpression` below).

---- MODULE Cylinder_MC_TEExpression ----
EXTENDS Sequences, TLCExt, Toolbox, Naturals, TLC, Cylinder_MC

expression == 
    [
        \* To hide variables of the `Cylinder_MC` spec from the error trace,
        \* remove the variables below.  The trace will be written in the order
        \* of the fields of this record.
        mq |-> mq
        ,nextTok |-> nextTok
        ,par |-> par
        ,out |-> out
        ,sentKeys |-> sentKeys
        ,cq |-> cq
        ,priv |-> priv
        ,sg |-> sg
        ,cnt |-> cnt
        ,everSub |-> everSub
        ,usedFor |-> usedFor
        ,evDE |-> evDE
        ,calm |-> calm
        ,pendN |-> pendN
        
        \* Put additional constant-, state-, and action-level expressions here:
        \* ,_stateNumber |-> _TEPosition
        \* ,_mqUnchanged |-> mq = mq'
        
        \* Format the `mq` variable as Json value.
        \* ,_mqJson |->
        \*     LET J == INSTANCE Json
        \*     IN J!ToJson(mq)
        
        \* Lastly, you may build expressions over arbitrary sets of states by
        \* leveraging the _TETrace operator.  For example, this is how to
        \* count the number of times a spec variable changed up to the current
        \* state in the trace.
        \* ,_mqModCount |->
        \*     LET F[s \in DOMAIN _TETrace] ==
        \*         IF s = 1 THEN 0
        \*         ELSE IF _TETrace[s].mq # _TETrace[s-1].mq
        \*             THEN 1 + F[s-1] ELSE F[s-1]
        \*     IN F[_TEPosition - 1]
    ]

=============================================================================



Parsing and semantic processing can take forever if the trace below is long.
 In this case, it is advised to uncomment the module below to deserialize the
 trace from a generated binary file.

\*
\*---- MODULE Cylinder_MC_TETrace ----
\*EXTENDS IOUtils, TLC, Cylinder_MC
\*
\*trace == IODeserialize("Cylinder_MC_TTrace_1790498841.bin", TRUE)
\*
\*=============================================================================
\*

---- MODULE Cylinder_MC_TETrace ----
EXTENDS TLC, Cylinder_MC

trace == 
    <<
    ([par |-> [minDE |-> 2, maxDE |-> 4, gas |-> FALSE],mq |-> <<>>,cnt |-> 0,nextTok |-> 0,cq |-> <<>>,out |-> "-",calm |-> TRUE,sg |-> <<[me |-> FALSE, a |-> 0, open |-> FALSE, signed |-> FALSE, de |-> 0]>>,everSub |-> {},usedFor |-> <<{}, {}, {}, {}, {}, {}>>,pendN |-> 0,sentKeys |-> {},priv |-> {},evDE |-> {}]),
    ([par |-> [minDE |-> 2, maxDE |-> 4, gas |-> FALSE],mq |-> <<[k |-> "des", des |-> <<1, 2, 3, 4>>, pre |-> TRUE]>>,cnt |-> 0,nextTok |-> 4,cq |-> <<>>,out |-> "-",calm |-> TRUE,sg |-> <<[me |-> FALSE, a |-> 0, open |-> FALSE, signed |-> FALSE, de |-> 0]>>,everSub |-> {1, 2, 3, 4},usedFor |-> <<{}, {}, {}, {}, {}, {}>>,pendN |-> 0,sentKeys |-> ,priv |-> {1, 2, 3, 4},evDE |-> {}])
    >>
----


=============================================================================

---- CONFIG Cylinder_MC_TTrace_1790498841 ----
CONSTANTS
    NSig = 1
    MaxAtt = 2
    MaxTok = 6
    MinSet = { 2 }
    MaxDESet = { 4 }
    GasSet = { FALSE }
    MaxQ = 2
    QSet = { "ok" , "fail" }
    WithCrash = FALSE
    WithDup = TRUE

INVARIANT
    _inv

CHECK_DEADLOCK
    \* CHECK_DEADLOCK off because of PROPERTY or INVARIANT above.
    FALSE

INIT
    _init

NEXT
    _next

CONSTANT
    _TETrace <- _trace

ALIAS
    _expression
=============================================================================
\* Generated on Sun Sep 27 08:47:22 UTC 2026