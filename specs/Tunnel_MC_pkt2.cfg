\* content rule (C08): one active TSS tunnel, two signals, one moves beyond hard while the other is beyond / below
\* its soft threshold (and the swapped pair soft > hard); route ok / failing
CONSTANTS
  MaxTun = 1
  Sig = {"s1", "s2"}
  Acct = {a1}
  Denom = {"ua", "ub"}
  FeeDenom = "ub"
  MinIv = 1
  MaxIv = 10
  MinDev = 50
  MaxDev = 3000
  ParamSet <- P_1_2_3_4
  KindSet = {"tss"}
  IvSet = {3}
  SigSets <- Sig_all
  DevSet <- Dev_pkt
  AmtSet <- Amt_zero
  FundSet = {}
  PriceSet <- Price_c
  ModeSet = {"ok", "noNonces"}
  DtSet = {1}
  InitBal = 3
  MaxNow = 103
  MaxSteps = 0
  NTun = 1
  InitFee = 21
INIT InitPacket
NEXT NextPktCore
VIEW View
CONSTRAINT Bound
INVARIANTS Inv
PROPERTIES SeqStep PacketRule FeesOnlyWithPackets EndBlockFrame ActivationGate Deactivation
CHECK_DEADLOCK FALSE
