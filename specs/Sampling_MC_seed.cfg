\* rolling seed: shift rule on 3-byte seeds over {0,1}
CONSTANTS
  SeedLen = 3
  Byte = {0, 1}
  Facet = "seed"
  MaxN = 1
  WSet = {1}
  MaxCnt = 1
  MaxTries = 1
  DSet = {0}
  IdSet = {1}
INIT MCInit
NEXT MCNext
VIEW View
INVARIANTS Valid Deterministic Consumed OneSpec SomeSpec MaxSpec ShufSpec
PROPERTIES SeedRule
CHECK_DEADLOCK FALSE
