------------------------------ MODULE OracleFee ------------------------------
(***************************************************************************)
(* Data-request fees (property C13, data-request half).                    *)
(*                                                                         *)
(* x/oracle/keeper/owasm.go PrepareRequest -> CollectFee: for every raw    *)
(* request (in the order the oracle script asked for them, a data source   *)
(* asked twice counts twice) the payer sends ask_count * fee(ds) to the    *)
(* treasury of that data source; the running total may not exceed the      *)
(* caller's fee limit in any denom.  The message is a transaction: if the  *)
(* limit or the balance is insufficient at ANY source nothing is moved.    *)
(* Amounts are true integers; Denom is a small set.                        *)
(***************************************************************************)
EXTENDS Integers, Sequences, FiniteSets, TLC

CONSTANTS
    Denom,      \* e.g. {"u", "x"}
    DS,         \* data-source ids, e.g. 1..4
    Fee,        \* DS -> [Denom -> Nat]     fee vector of each data source
    TreasuryOf, \* DS -> Treasury
    Treasury,   \* set of treasury names
    Payer,      \* set of payer names
    MaxBal,     \* initial payer balances range over 0..MaxBal (per denom)
    AskSet,     \* ask counts tried
    MaxSrc,     \* raw-request lists have 1..MaxSrc entries
    MaxLimit,   \* fee limits range over 0..MaxLimit (per denom)
    MaxReq      \* bound on accepted requests (MC only)

VARIABLES
    bal,     \* Payer -> [Denom -> Nat]
    tre,     \* Treasury -> [Denom -> Nat]   (received so far)
    nreq,    \* number of accepted requests
    remain,  \* remaining fee limit stored in the last accepted request ([Denom -> Nat])
    out,     \* "init" | "ok" | "rej"
    last     \* the input of the last step [p, ask, srcs, limit] (history; not part of the state identity)

vars == <<bal, tre, nreq, remain, out, last>>

Zero == [d \in Denom |-> 0]

RECURSIVE SumFee(_, _)
SumFee(srcs, d) == IF srcs = <<>> THEN 0 ELSE Fee[Head(srcs)][d] + SumFee(Tail(srcs), d)

Cost(ask, srcs) == [d \in Denom |-> ask * SumFee(srcs, d)]

\* what treasury k receives: ask * (sum of the fees of the listed sources that pay into k)
RECURSIVE SumFeeTo(_, _, _)
SumFeeTo(srcs, d, k) ==
    IF srcs = <<>> THEN 0
    ELSE (IF TreasuryOf[Head(srcs)] = k THEN Fee[Head(srcs)][d] ELSE 0) + SumFeeTo(Tail(srcs), d, k)

Init ==
    /\ bal \in [Payer -> [Denom -> 0..MaxBal]]
    /\ tre = [k \in Treasury |-> Zero]
    /\ nreq = 0
    /\ remain = Zero
    /\ out = "init"
    /\ last = [p |-> CHOOSE p \in Payer : TRUE, ask |-> 0, srcs |-> <<>>, limit |-> Zero]

Known(srcs) == \A i \in 1..Len(srcs) : srcs[i] \in DS      \* an unknown data source id rejects the request

Affordable(p, ask, srcs, limit) ==
    Known(srcs) /\ \A d \in Denom : Cost(ask, srcs)[d] <= limit[d] /\ Cost(ask, srcs)[d] <= bal[p][d]

Request(p, ask, srcs, limit) ==
    /\ last' = [p |-> p, ask |-> ask, srcs |-> srcs, limit |-> limit]
    /\ IF Affordable(p, ask, srcs, limit)
       THEN /\ bal' = [bal EXCEPT ![p] = [d \in Denom |-> bal[p][d] - Cost(ask, srcs)[d]]]
            /\ tre' = [k \in Treasury |-> [d \in Denom |-> tre[k][d] + ask * SumFeeTo(srcs, d, k)]]
            /\ nreq' = nreq + 1
            /\ remain' = [d \in Denom |-> limit[d] - Cost(ask, srcs)[d]]
            /\ out' = "ok"
       ELSE /\ out' = "rej"
            /\ UNCHANGED <<bal, tre, nreq, remain>>

SrcLists == UNION {[1..n -> DS] : n \in 1..MaxSrc}

Next == \E p \in Payer, ask \in AskSet, srcs \in SrcLists, limit \in [Denom -> 0..MaxLimit] :
            nreq < MaxReq /\ Request(p, ask, srcs, limit)

Spec == Init /\ [][Next]_vars

-----------------------------------------------------------------------------
NonNegative == /\ \A p \in Payer, d \in Denom : bal[p][d] >= 0
               /\ \A k \in Treasury, d \in Denom : tre[k][d] >= 0
               /\ \A d \in Denom : remain[d] >= 0

\* C13 (data requests), stated on the input of the step independently of the action's definition:
\* accepted => the payer pays exactly ask * (sum of the requested sources' fees), each treasury receives exactly
\* its sources' share, nobody else's balance moves, and the cost is within the limit;
\* rejected => no balance moves, and the limit or the balance really was insufficient.
ExactA ==
    LET i == last'
        cost == IF Known(i.srcs) THEN Cost(i.ask, i.srcs) ELSE Zero
    IN IF out' = "ok"
       THEN /\ Known(i.srcs)
            /\ \A d \in Denom : /\ bal'[i.p][d] = bal[i.p][d] - cost[d]
                                 /\ cost[d] <= i.limit[d]
                                 /\ remain'[d] = i.limit[d] - cost[d]
                                 /\ \A k \in Treasury : tre'[k][d] = tre[k][d] + i.ask * SumFeeTo(i.srcs, d, k)
            /\ \A q \in Payer \ {i.p} : bal'[q] = bal[q]
       ELSE /\ UNCHANGED <<bal, tre, nreq, remain>>
            /\ (~Known(i.srcs) \/ \E d \in Denom : cost[d] > i.limit[d] \/ cost[d] > bal[i.p][d])
Exact == [][ExactA]_vars

\* conservation per denom, stated with a fold over the (small, fixed) sets
RECURSIVE SumOver(_, _)
SumOver(f, S) == IF S = {} THEN 0 ELSE LET x == CHOOSE x \in S : TRUE IN f[x] + SumOver(f, S \ {x})
Total(d) == SumOver([p \in Payer |-> bal[p][d]], Payer) + SumOver([k \in Treasury |-> tre[k][d]], Treasury)
ConservedA == \A d \in Denom : Total(d)' = Total(d)
Conserved == [][ConservedA]_vars
=============================================================================
