------------------------------ MODULE OracleFee ------------------------------
(***************************************************************************)
(* Data-request fees (property C13, data-request half).                    *)
(*                                                                         *)
(* x/oracle/keeper/owasm.go PrepareRequest -> CollectFee: for every raw    *)
(* request (in the order the oracle script asked for them, a data source   *)
(* asked twice counts twice) the payer sends ask_count * fee(ds) to the    *)
(* treasury of that data source; the running total may not exceed the      *)
(* caller's fee limit in any denom.  The message is a transaction: if the  *)
(* limit or the balance is insufficient at ANY source nothing is moved.    *)
(* A payer may itself be the treasury of a requested data source: that fee *)
(* is a transfer to itself - it still counts against the limit and the     *)
(* payer must hold it at that moment, although its balance does not move.  *)
(* Amounts are true integers; Denom is a small set.                        *)
(*                                                                         *)
(* Result signing (x/oracle/keeper/result.go -> bandtss                    *)
(* CreateDirectSigningRequest): a request that names a TSS encoder asks,   *)
(* when it is resolved at the end of a block, the signing group to sign    *)
(* its result.  The requester pays the signing fee (fee_per_signer x       *)
(* threshold, SigFee here) into the bandtss escrow out of what is LEFT of  *)
(* its fee limit after the data-source fees: exactly once per request; if  *)
(* the remaining limit or the balance does not cover it there is no        *)
(* signing and nothing is charged (the result is still stored).            *)
(***************************************************************************)
EXTENDS Integers, Sequences, FiniteSets, TLC

CONSTANTS
    Denom,      \* e.g. {"u", "x"}
    DS,         \* data-source ids, e.g. 1..4
    Fee,        \* DS -> [Denom -> Nat]     fee vector of each data source
    TreasuryOf, \* DS -> Treasury
    Treasury,   \* set of treasury account names
    Payer,      \* set of payer account names (may contain treasuries)
    MaxBal,     \* initial payer balances range over 0..MaxBal (per denom)
    AskSet,     \* ask counts tried
    MaxSrc,     \* raw-request lists have 1..MaxSrc entries
    MaxLimit,   \* fee limits range over 0..MaxLimit (per denom)
    MaxReq,     \* bound on accepted requests (MC only)
    SigFeeSet,  \* possible signing fees (fee_per_signer x threshold), paid in SigDenom
    SigDenom,   \* the denom of the signing fee
    EncSet      \* subset of BOOLEAN: whether requests may name a TSS encoder

Acct == Payer \cup Treasury

VARIABLES
    bal,     \* Acct -> [Denom -> Nat]   bank balances of payers and treasuries
    nreq,    \* number of accepted requests
    remain,  \* remaining fee limit stored in the last accepted request ([Denom -> Nat])
    sigFee,  \* the signing fee of this history (environment)
    open,    \* accepted requests that are not resolved yet: sequence of [p, remain, enc]
    esc,     \* balance of the bandtss escrow account (SigDenom)
    nsig,    \* number of signing requests created so far
    out,     \* "init" | "ok" | "rej"
    last     \* the input of the last step [p, ask, srcs, limit] (history; not part of the state identity)

vars == <<bal, nreq, remain, sigFee, open, esc, nsig, out, last>>

Zero == [d \in Denom |-> 0]

RECURSIVE SumFee(_, _)
SumFee(srcs, d) == IF srcs = <<>> THEN 0 ELSE Fee[Head(srcs)][d] + SumFee(Tail(srcs), d)

Cost(ask, srcs) == [d \in Denom |-> ask * SumFee(srcs, d)]

\* what account k receives: ask * (sum of the fees of the listed sources that pay into k)
RECURSIVE SumFeeTo(_, _, _)
SumFeeTo(srcs, d, k) ==
    IF srcs = <<>> THEN 0
    ELSE (IF TreasuryOf[Head(srcs)] = k THEN Fee[Head(srcs)][d] ELSE 0) + SumFeeTo(Tail(srcs), d, k)

\* the transfers are made one source after the other: the payer must hold each amount when its turn comes; a
\* transfer to the payer itself leaves the running balance as it is
RECURSIVE PayOK(_, _, _, _)
PayOK(srcs, ask, p, b) ==
    IF srcs = <<>> THEN TRUE
    ELSE LET a == [d \in Denom |-> ask * Fee[Head(srcs)][d]] IN
         /\ \A d \in Denom : a[d] <= b[d]
         /\ PayOK(Tail(srcs), ask, p, IF TreasuryOf[Head(srcs)] = p THEN b ELSE [d \in Denom |-> b[d] - a[d]])

Init ==
    /\ bal \in {b \in [Acct -> [Denom -> 0..MaxBal]] : \A a \in Acct \ Payer : b[a] = Zero}
    /\ nreq = 0
    /\ remain = Zero
    /\ sigFee \in SigFeeSet /\ open = <<>> /\ esc = 0 /\ nsig = 0
    /\ out = "init"
    /\ last = [p |-> CHOOSE p \in Payer : TRUE, ask |-> 0, srcs |-> <<>>, limit |-> Zero, enc |-> FALSE]

Known(srcs) == \A i \in 1..Len(srcs) : srcs[i] \in DS      \* an unknown data source id rejects the request

Affordable(p, ask, srcs, limit) ==
    /\ Known(srcs)
    /\ \A d \in Denom : Cost(ask, srcs)[d] <= limit[d]
    /\ PayOK(srcs, ask, p, bal[p])

Request(p, ask, srcs, limit, enc) ==
    /\ last' = [p |-> p, ask |-> ask, srcs |-> srcs, limit |-> limit, enc |-> enc]
    /\ UNCHANGED <<sigFee, esc, nsig>>
    /\ IF Affordable(p, ask, srcs, limit)
       THEN /\ bal' = [a \in Acct |-> [d \in Denom |->
                          bal[a][d] - (IF a = p THEN Cost(ask, srcs)[d] ELSE 0) + ask * SumFeeTo(srcs, d, a)]]
            /\ nreq' = nreq + 1
            /\ remain' = [d \in Denom |-> limit[d] - Cost(ask, srcs)[d]]
            /\ open' = Append(open, [p |-> p, remain |-> [d \in Denom |-> limit[d] - Cost(ask, srcs)[d]], enc |-> enc])
            /\ out' = "ok"
       ELSE /\ out' = "rej"
            /\ UNCHANGED <<bal, nreq, remain, open>>

\* the end of the block: every open request is resolved, in order; st = [bal, esc, nsig]
PaysSig(r, b) == r.enc /\ r.remain[SigDenom] >= sigFee /\ b[r.p][SigDenom] >= sigFee
RECURSIVE ResolveAll(_, _)
ResolveAll(rs, st) ==
    IF rs = <<>> THEN st
    ELSE LET r == Head(rs) IN
         ResolveAll(Tail(rs),
            IF PaysSig(r, st.bal)
            THEN [bal  |-> [st.bal EXCEPT ![r.p][SigDenom] = @ - sigFee],
                  esc  |-> st.esc + sigFee,
                  nsig |-> st.nsig + 1]
            ELSE st)

Resolve ==
    /\ LET st == ResolveAll(open, [bal |-> bal, esc |-> esc, nsig |-> nsig])
       IN bal' = st.bal /\ esc' = st.esc /\ nsig' = st.nsig
    /\ open' = <<>>
    /\ out' = "ok"
    /\ last' = [last EXCEPT !.ask = 0]
    /\ UNCHANGED <<nreq, remain, sigFee>>

SrcLists == UNION {[1..n -> DS] : n \in 1..MaxSrc}

Next == \/ \E p \in Payer, ask \in AskSet, srcs \in SrcLists, limit \in [Denom -> 0..MaxLimit], enc \in EncSet :
               nreq < MaxReq /\ Request(p, ask, srcs, limit, enc)
        \/ open # <<>> /\ Resolve

Spec == Init /\ [][Next]_vars

-----------------------------------------------------------------------------
NonNegative == /\ \A a \in Acct, d \in Denom : bal[a][d] >= 0
               /\ \A d \in Denom : remain[d] >= 0
               /\ esc >= 0 /\ \A i \in 1..Len(open) : \A d \in Denom : open[i].remain[d] >= 0

\* C13 (data requests), stated on the input of the step independently of the action's definition:
\* accepted => the payer pays exactly ask * (sum of the requested sources' fees), each treasury receives exactly
\* its sources' share (the payer's own share comes back to it), nobody else's balance moves, the cost is within the
\* limit and the payer held, in every denom, at least the largest single amount it had to send;
\* rejected => no balance moves, and the limit or the balance really was insufficient (had every transfer gone to
\* somebody else, the balance would be insufficient exactly when it is below the cost).
IsRequestStep == open' # <<>> \/ out' = "rej"
ExactA == IsRequestStep =>
    LET i == last'
        cost == IF Known(i.srcs) THEN Cost(i.ask, i.srcs) ELSE Zero
        self == IF Known(i.srcs) THEN [d \in Denom |-> i.ask * SumFeeTo(i.srcs, d, i.p)] ELSE Zero
    IN IF out' = "ok"
       THEN /\ Known(i.srcs)
            /\ \A d \in Denom : /\ bal'[i.p][d] = bal[i.p][d] - cost[d] + self[d]
                                 /\ cost[d] <= i.limit[d]
                                 /\ remain'[d] = i.limit[d] - cost[d]
                                 /\ cost[d] - self[d] <= bal[i.p][d]
                                 /\ \A k \in Acct \ {i.p} : bal'[k][d] = bal[k][d] + i.ask * SumFeeTo(i.srcs, d, k)
                                 /\ \A j \in 1..Len(i.srcs) : i.ask * Fee[i.srcs[j]][d] <= bal[i.p][d]
       ELSE /\ UNCHANGED <<bal, nreq, remain, open>>
            /\ (~Known(i.srcs) \/ \E d \in Denom : cost[d] > i.limit[d] \/ cost[d] > bal[i.p][d])
Exact == [][ExactA]_vars

\* conservation per denom, stated with a fold over the (small, fixed) set of accounts
RECURSIVE SumOver(_, _)
SumOver(f, S) == IF S = {} THEN 0 ELSE LET x == CHOOSE x \in S : TRUE IN f[x] + SumOver(f, S \ {x})
Total(d) == SumOver([a \in Acct |-> bal[a][d]], Acct) + (IF d = SigDenom THEN esc ELSE 0)
ConservedA == \A d \in Denom : Total(d)' = Total(d)
Conserved == [][ConservedA]_vars

\* C13 (result signing), stated on the step: at the end of a block every open request with a TSS encoder is charged the
\* signing fee at most once and only out of what its fee limit has left; only the signing denom moves, everything a
\* payer loses is in escrow, and the number of new signings is the number of requests that paid (or, with a zero fee,
\* that named an encoder)
CountSeq(rs, P(_)) == Len(SelectSeq(rs, P))
SigningA == (open # <<>> /\ open' = <<>>) =>
    LET may(p) == CountSeq(open, LAMBDA r : r.p = p /\ r.enc /\ r.remain[SigDenom] >= sigFee)
        enc    == CountSeq(open, LAMBDA r : r.enc)
    IN /\ \A a \in Acct, d \in Denom \ {SigDenom} : bal'[a][d] = bal[a][d]
       /\ \A a \in Acct : /\ bal'[a][SigDenom] <= bal[a][SigDenom]
                           /\ bal[a][SigDenom] - bal'[a][SigDenom] <= sigFee * (IF a \in Payer THEN may(a) ELSE 0)
       /\ nsig' - nsig <= enc
       /\ esc' - esc = sigFee * (nsig' - nsig)
Signing == [][SigningA]_vars
=============================================================================
