\* quick facet: MaxCurrentFeeds 3 so that the three-signal votes whose int64 sum wraps are not refused for their size;
\* single-signal votes + the special votes (stand-ins for 2^63-1, 2^63-2), total powers {0,2,4}
CONSTANTS
  Voter = {u1, u2}
  Signal = {1, 2, 3}
  PowSet = {1, 2, 3}
  MaxLen = 1
  VoteSet <- MCVotes
  PowerSet = {0, 2, 4}
  ParSet <- MCPars
  MaxFeedsSet = {3}
  StepSet = {2}
  UpdSet = {2}
  MinI = 2
  MaxI = 7
  MaxH = 4
INIT Init
NEXT Next
SYMMETRY Sym
VIEW View
CONSTRAINT Bound
INVARIANTS Inv
PROPERTIES VoteBound VoteSize RejUnchanged FeedsOnlyAtUpdate FeedsFresh
CHECK_DEADLOCK FALSE
