--------------------------- MODULE TssAlgebra_MC ---------------------------
(***************************************************************************)
(* MC role for TssAlgebra.tla: small constants, the submission menus of    *)
(* the exhaustive facets, VIEW without the output-only variables.          *)
(* The invariants of TssAlgebra quantify over ALL auxiliary values (all    *)
(* wrong scalars, all wrong points, all other committees); the transitions *)
(* taken here use one representative per kind, because a refused share     *)
(* leaves the state unchanged.                                             *)
(***************************************************************************)
EXTENDS TssAlgebra

CONSTANTS
    MaxH,       \* explore heights 1..MaxH
    AscOnly,    \* correct shares are submitted in ascending member order (cuts interleavings in the big facets)
    MCKinds     \* corruption kinds whose submission is taken as a transition

MCAux(kind, i) == IF kind \in {"scalar", "nonce", "staleRho"} THEN {1} ELSE Aux(kind, i)

MCNext ==
    \/ \E C \in {X \in KSub(Members, t) : CommitteeOK(X)} :
         \E dd \in NonceFns(C, NonceD), ee \in NonceFns(C, NonceE), rr \in NonceFns(C, RhoSet), cc \in CSet :
            Request(C, dd, ee, rr, cc)
    \/ /\ S # {}
       /\ \E kind \in MCKinds, i \in S : \E x \in MCAux(kind, i) :
            /\ (AscOnly /\ kind = "none") => \A j \in S : j < i => j \in Signed
            /\ LET c == Corr(kind, i, x) IN Submit(c.snd, c.mid, c.sh)
    \/ IF RetryDue
       THEN \E C \in {X \in KSub(Members, t) : CommitteeOK(X)} \cup {{}} :
              \E dd \in NonceFns(C, NonceD), ee \in NonceFns(C, NonceE), rr \in NonceFns(C, RhoSet), cc \in CSet :
                 EndBlock(C, dd, ee, rr, cc)
       ELSE EndBlock({}, Empty, Empty, Empty, 0)

MCSpec == Init /\ [][MCNext]_vars

View == <<gvars, h, st, avars, ps, pend, sig>>
Bound == h <= MaxH
=============================================================================
