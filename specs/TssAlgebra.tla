---------------------------- MODULE TssAlgebra ----------------------------
(***************************************************************************)
(* Property C03: threshold signing yields a valid group signature; bad     *)
(* shares are rejected.                                                    *)
(*                                                                         *)
(* The algebra of pkg/tss "in the exponent" over a small prime field Z_Q:  *)
(* a group element x*G is represented by its discrete logarithm x, so that *)
(* point addition is addition mod Q and scalar multiplication is           *)
(* multiplication mod Q.  The identity element is 0 and is not special in  *)
(* the algebra (the code cannot represent it: a point that does not parse; *)
(* real keys / nonces hit it with probability 2^-256).                     *)
(* Hash functions are random oracles: the answer for a new argument tuple  *)
(* is chosen nondeterministically (parameters rr / cc of the actions, kept *)
(* in rho / orc so that the same arguments get the same answer).           *)
(*                                                                         *)
(* Transcribed definitions (file : function):                              *)
(*   Lam(i,C)      pkg/tss/internal/lagrange : ComputeCoefficient          *)
(*                 prod_{j in C\{i}} j/(j-i)                               *)
(*   PrivNonce(i)  pkg/tss/signing.go : ComputeOwnPrivNonce  d_i+rho_i*e_i *)
(*   PubNonce(i)   ... ComputeOwnPubNonce  D_i + rho_i*E_i                 *)
(*   GroupNonce    ... ComputeGroupPublicNonce   sum R_i                   *)
(*   HonestZ(i)    pkg/tss/schnorr.go : Sign   k + (c*lambda)*s_i          *)
(*   VerifyShare   pkg/tss/schnorr.go : Verify R = z*G - (c*lambda)*Y_i    *)
(*   aggregate     pkg/tss/signing.go : CombineSignatures (sum R, sum z)   *)
(*   GroupVerify   ... VerifyGroupSigningSignature  z*G = R + c*Y,         *)
(*                 c = H8(R, Y, msg) recomputed from the aggregate R       *)
(*                                                                         *)
(* One action per real entry point (one signing per behaviour):            *)
(*   Request   x/bandtss MsgRequestSignature -> x/tss RequestSigning ->    *)
(*             InitiateNewSigningRound (committee = any threshold-sized    *)
(*             subset; eligibility is the subject of C05/C09/C10)          *)
(*   Submit    x/tss msg_server.go : SubmitSignature, checks in the code's *)
(*             order; a refused share is an action too (out = "rej")       *)
(*   EndBlock  x/tss HandleSigningEndBlock: aggregate pending, expire,     *)
(*             retry / fail                                                *)
(***************************************************************************)
EXTENDS Integers, FiniteSets, Sequences, TLC

CONSTANTS
    Q,              \* prime; every member id is < Q
    NSet,           \* group sizes explored
    TMin, TMax,     \* thresholds explored (capped by the group size)
    PolyMode,       \* "all": every polynomial of degree < t over Z_Q; "few": three sampled ones
    NonceD, NonceE, \* menus for the private nonces d_i, e_i
    RhoSet, CSet,   \* menus for oracle answers (binding factors, challenges)
    MaxAttempt,     \* x/tss param MaxSigningAttempt
    Period,         \* x/tss param SigningPeriod (blocks)
    MinHigh,        \* committees explored must contain an id >= MinHigh (0: every committee)
    SecrecyOn       \* evaluate the (expensive) secrecy count

VARIABLES
    n, t, coef,     \* the group: size, threshold, dealer polynomial f(x) = sum coef[k] x^(k-1)   (never change)
    h,              \* block height
    st,             \* signing status "none" | "waiting" | "success" | "fallen"
    att,            \* Signing.CurrentAttempt
    S,              \* assigned member ids of the live attempt record ({} when there is none)
    expH,           \* SigningAttempt.ExpiredHeight
    dn, en, rho,    \* private nonces and binding factors of the live/last attempt (functions on its committee)
    pk,             \* Member.PubKey: Y_i = s_i*G for every member (set when the group is installed)
    pubN,           \* AssignedMember.PubNonce of the live/last attempt
    gR, ch,         \* Signing.GroupPubNonce and the challenge H8(gR, Y, msg)
    chl,            \* c * lambda_i for every assigned member, as SubmitSignature computes it
    hon,            \* ghost: the correct share of every assigned member (what an honest cylinder would send)
    orc,            \* the challenge oracle H8(R, Y, msg): Z_Q -> Z_Q \cup {-1 = not asked yet} (Y and msg are fixed)
    prev,           \* material of the previous attempt (for the stale-share corruption)
    ps,             \* partial signatures stored for the live attempt
    pend,           \* signing is on the pending-process list
    sig,            \* Signing.Signature
    out,            \* outcome of the last handler call
    wasBad          \* ghost: the last submitted share differed from the sender's correct share

gvars == <<n, t, coef, pk>>
avars == <<att, S, expH, dn, en, rho, pubN, gR, ch, chl, hon, orc, prev>>     \* what a new round writes (besides ps)
vars == <<gvars, h, st, avars, ps, pend, sig, out, wasBad>>

Zq == 0..(Q - 1)
Members == 1..n
NoShare == [R |-> -1, z |-> -1]
NoSig == [R |-> -1, z |-> -1]
Empty == [x \in {} |-> 0]
NoPrev == [S |-> {}, dn |-> Empty, en |-> Empty, rho |-> Empty, c |-> 0]

---------------------------------------------------------------------------
(* arithmetic mod Q *)
RECURSIVE SumF(_, _), ProdF(_, _), Pow(_, _), KSub(_, _)
SumF(f, D) == IF D = {} THEN 0 ELSE LET x == CHOOSE y \in D : TRUE IN (f[x] + SumF(f, D \ {x})) % Q
ProdF(f, D) == IF D = {} THEN 1 ELSE LET x == CHOOSE y \in D : TRUE IN (f[x] * ProdF(f, D \ {x})) % Q
Pow(x, k) == IF k = 0 THEN 1 ELSE (x * Pow(x, k - 1)) % Q
InvTab == [a \in 1..(Q - 1) |-> CHOOSE x \in 1..(Q - 1) : (a * x) % Q = 1]
Inv(a) == InvTab[a]

\* all k-element subsets of D
KSub(D, k) == IF k = 0 THEN {{}}
              ELSE IF Cardinality(D) < k THEN {}
              ELSE LET x == CHOOSE y \in D : TRUE
                   IN KSub(D \ {x}, k) \cup {C \cup {x} : C \in KSub(D \ {x}, k - 1)}

\* f(x) for f given by its coefficient vector (pkg/tss ComputeSecretShare)
Eval(p, x) == SumF([k \in DOMAIN p |-> (p[k] * Pow(x, k - 1)) % Q], DOMAIN p)

\* Lagrange coefficient at 0 of member i within committee C
Lam(i, C) == ProdF([j \in C \ {i} |-> (j * Inv((j - i) % Q)) % Q], C \ {i})

Polys(k) ==
    IF PolyMode = "all" THEN [1..k -> Zq]
    ELSE {[j \in 1..k |-> (3 * j + 1) % Q], [j \in 1..k |-> (5 * j * j + 2) % Q], [j \in 1..k |-> (7 + 11 * j) % Q]}

CommitteeOK(C) == MinHigh = 0 \/ \E i \in C : i >= MinHigh

---------------------------------------------------------------------------
(* key material and the values of the live attempt *)
Sk(i) == Eval(coef, i)            \* member i's key share s_i; its public key Y_i = s_i*G has the same representation (pk[i])
Y == coef[1]                      \* group secret f(0); group public key

PrivNonceOf(d, e, r, i) == (d[i] + r[i] * e[i]) % Q          \* ComputeOwnPrivNonce; ComputeOwnPubNonce D_i + rho_i*E_i
ZOf(k, c, lam, s) == (k + ((c * lam) % Q) * s) % Q            \* Sign: S = k + (c*lambda)*d

\* the values of a round with committee C, nonces d/e, binding factors r and challenge c
PubNonces(C, d, e, r) == [i \in C |-> PrivNonceOf(d, e, r, i)]
GroupNonceOf(C, d, e, r) == SumF(PubNonces(C, d, e, r), C)                       \* ComputeGroupPublicNonce
ChalLam(C, c) == [i \in C |-> (c * Lam(i, C)) % Q]
HonestOf(C, d, e, r, c) ==
    [i \in C |-> LET k == PrivNonceOf(d, e, r, i) IN [R |-> k, z |-> ZOf(k, c, Lam(i, C), Sk(i))]]

\* the live attempt (cached in pubN / chl / hon by NewRound, see CacheOK)
PrivNonce(i) == PrivNonceOf(dn, en, rho, i)
PubNonce(i) == pubN[i]                                        \* AssignedMember.PubNonce
GroupNonce == gR                                              \* Signing.GroupPubNonce
Chal == ch                                                    \* H8(GroupPubNonce, GroupPubKey, Message)
Honest(i) == hon[i]
HonestZ(i) == hon[i].z

\* VerifySigningSignature: R == z*G - (c*lambda_mid)*Y_mid
VerifyShare(mid, sh) == sh.z = (sh.R + chl[mid] * pk[mid]) % Q

\* SubmitSignature's checks, in the code's order
Acceptable(snd, mid, sh) ==
    /\ st = "waiting"                   \* signing.Status == WAITING
    /\ mid \in S /\ snd = mid           \* FindAssignedMember(MemberID) found and its address is the signer
    /\ ps[mid] = NoShare                \* !HasPartialSignature
    /\ sh.R = pubN[mid]                 \* VerifySignatureR
    /\ VerifyShare(mid, sh)             \* ComputeLagrangeCoefficient + VerifySigningSignature

Signed == {i \in Members : ps[i] # NoShare}

\* VerifyGroupSigningSignature, with the oracle's answer c for the aggregate R
VerifyWith(s, c) == s.z = (s.R + c * Y) % Q
GroupVerify(s) == s.R \in Zq /\ orc[s.R] # -1 /\ VerifyWith(s, orc[s.R])
SigValid == sig # NoSig /\ GroupVerify(sig)

\* CombineSignatures over the stored partial signatures
Aggregate(p, C) == [R |-> SumF([i \in C |-> p[i].R], C), z |-> SumF([i \in C |-> p[i].z], C)]

---------------------------------------------------------------------------
(* single-component corruptions of member i's share (x = auxiliary choice) *)
PrevHonest(i) ==
    LET k == PrivNonceOf(prev.dn, prev.en, prev.rho, i)
    IN [R |-> k, z |-> ZOf(k, prev.c, Lam(i, prev.S), Sk(i))]

OtherCommittees(i) == {C \in KSub(Members \ {i}, t - 1) : C \cup {i} # S}

Kinds == {"none", "scalar", "nonce", "nonceOther", "signer", "steal", "outsider", "committee", "staleRho", "prevAttempt"}

\* the auxiliary choices that make sense for a kind (i is an assigned member)
Aux(kind, i) ==
    CASE kind = "none"        -> {0}
      [] kind = "scalar"      -> 1..(Q - 1)            \* z_i + x
      [] kind = "nonce"       -> 1..(Q - 1)            \* R_i + x   (a random point)
      [] kind = "nonceOther"  -> S \ {i}               \* another member's public nonce
      [] kind = "signer"      -> S \ {i}               \* own share under another assigned member's id
      [] kind = "steal"       -> Members \ {i}         \* i's correct share sent by somebody else
      [] kind = "outsider"    -> Members \ S           \* a group member that is not assigned (i is ignored)
      [] kind = "committee"   -> OtherCommittees(i)    \* Lagrange coefficient of a different committee
      [] kind = "staleRho"    -> 1..(Q - 1)            \* binding factor rho_i + x
      [] kind = "prevAttempt" -> IF i \in prev.S THEN {0} ELSE {}

Corr(kind, i, x) ==
    CASE kind = "none"        -> [snd |-> i, mid |-> i, sh |-> Honest(i)]
      [] kind = "scalar"      -> [snd |-> i, mid |-> i, sh |-> [R |-> PubNonce(i), z |-> (HonestZ(i) + x) % Q]]
      [] kind = "nonce"       -> [snd |-> i, mid |-> i, sh |-> [R |-> (PubNonce(i) + x) % Q, z |-> HonestZ(i)]]
      [] kind = "nonceOther"  -> [snd |-> i, mid |-> i, sh |-> [R |-> PubNonce(x), z |-> HonestZ(i)]]
      [] kind = "signer"      -> [snd |-> i, mid |-> x, sh |-> Honest(i)]
      [] kind = "steal"       -> [snd |-> x, mid |-> i, sh |-> Honest(i)]
      [] kind = "outsider"    -> [snd |-> x, mid |-> x, sh |-> [R |-> 1, z |-> 1]]
      [] kind = "committee"   -> [snd |-> i, mid |-> i,
                                  sh |-> [R |-> PubNonce(i), z |-> ZOf(PrivNonce(i), Chal, Lam(i, x \cup {i}), Sk(i))]]
      [] kind = "staleRho"    -> LET k == (dn[i] + ((rho[i] + x) % Q) * en[i]) % Q
                                 IN [snd |-> i, mid |-> i, sh |-> [R |-> k, z |-> ZOf(k, Chal, Lam(i, S), Sk(i))]]
      [] kind = "prevAttempt" -> [snd |-> i, mid |-> i, sh |-> PrevHonest(i)]

\* the submission is exactly the claimed member's correct share, sent by that member
IsCorrect(c) == c.mid \in S /\ c.snd = c.mid /\ c.sh = Honest(c.mid)

---------------------------------------------------------------------------
Init ==
    /\ n \in NSet
    /\ t \in TMin..(IF n < TMax THEN n ELSE TMax)
    /\ coef \in Polys(t)
    /\ h = 1 /\ st = "none" /\ att = 0 /\ S = {} /\ expH = 0
    /\ dn = Empty /\ en = Empty /\ rho = Empty /\ pubN = Empty /\ gR = 0 /\ ch = 0 /\ chl = Empty /\ hon = Empty
    /\ pk = [i \in 1..n |-> Eval(coef, i)]
    /\ orc = [r \in Zq |-> -1]
    /\ prev = NoPrev
    /\ ps = [i \in Members |-> NoShare]
    /\ pend = FALSE /\ sig = NoSig /\ out = "init" /\ wasBad = FALSE

\* InitiateNewSigningRound: attempt a, committee C, fresh nonces dd/ee (the heads of the members' DE queues), oracle
\* answers rr (binding factors: a new commitment list is a new argument) and cc (challenge, if R was not asked before)
NewRound(a, C, dd, ee, rr, cc) ==
    LET R == GroupNonceOf(C, dd, ee, rr)
        c == IF orc[R] # -1 THEN orc[R] ELSE cc
    IN /\ (C = S /\ dd = dn /\ ee = en) => rr = rho          \* same arguments, same oracle answers
       /\ orc' = [orc EXCEPT ![R] = c]
       /\ att' = a /\ S' = C /\ dn' = dd /\ en' = ee /\ rho' = rr
       /\ pubN' = PubNonces(C, dd, ee, rr) /\ gR' = R /\ ch' = c
       /\ chl' = ChalLam(C, c)
       /\ hon' = HonestOf(C, dd, ee, rr, c)
       /\ expH' = h + Period
       /\ ps' = [i \in Members |-> NoShare]
       /\ prev' = IF S = {} THEN prev ELSE [S |-> S, dn |-> dn, en |-> en, rho |-> rho, c |-> Chal]

Request(C, dd, ee, rr, cc) ==
    /\ st = "none"
    /\ C \subseteq Members /\ Cardinality(C) = t
    /\ st' = "waiting"
    /\ NewRound(1, C, dd, ee, rr, cc)
    /\ out' = "ok"
    /\ UNCHANGED <<gvars, h, pend, sig, wasBad>>

\* MsgSubmitSignature{MemberID: mid, Signature: sh} signed by the account of member snd (0: not a member of the group)
Submit(snd, mid, sh) ==
    /\ wasBad' = ~(mid \in S /\ snd = mid /\ sh = Honest(mid))
    /\ IF Acceptable(snd, mid, sh)
       THEN /\ ps' = [ps EXCEPT ![mid] = sh]                                  \* AddPartialSignature
            /\ pend' = (pend \/ Cardinality(Signed) + 1 = Cardinality(S))     \* AddPendingProcessSigning
            /\ out' = "ok"
       ELSE /\ out' = "rej"
            /\ UNCHANGED <<ps, pend>>
    /\ UNCHANGED <<gvars, h, st, avars, sig>>

AggOK == pend /\ GroupVerify(Aggregate(ps, S))                 \* AggregatePartialSignatures succeeds
Expired == S # {} /\ expH <= h                                  \* HandleExpiredSignings: the attempt record is due
RetryDue == (pend /\ ~AggOK) \/ (Expired /\ Signed # S)          \* failed aggregation or time-out

\* HandleSigningEndBlock for the one signing, then the next block begins.
\* (C2, dd, ee, rr, cc): committee and oracle answers of the new round, used only if there is a retry; C2 = {} stands
\* for "not enough available members" (the retry fails).
EndBlock(C2, dd, ee, rr, cc) ==
    LET canRetry == att + 1 <= MaxAttempt /\ C2 # {}
    IN /\ h' = h + 1
       /\ pend' = FALSE
       /\ out' = "ok"
       /\ sig' = IF AggOK THEN Aggregate(ps, S) ELSE sig
       /\ IF RetryDue /\ canRetry
          THEN /\ C2 \subseteq Members /\ Cardinality(C2) = t
               /\ st' = "waiting"
               /\ NewRound(att + 1, C2, dd, ee, rr, cc)
          ELSE /\ st' = IF AggOK THEN "success" ELSE IF RetryDue THEN "fallen" ELSE st
               /\ IF Expired                                      \* DeleteInterimSigningData
                  THEN S' = {} /\ ps' = [i \in Members |-> NoShare]
                  ELSE UNCHANGED <<S, ps>>
               /\ UNCHANGED <<att, expH, dn, en, rho, pubN, gR, ch, chl, hon, orc, prev>>
       /\ UNCHANGED <<gvars, wasBad>>

\* environment: nonce pairs (DE) are handed to members; the queues are the subject of C05
Nonces == out' = "ok" /\ UNCHANGED <<gvars, h, st, avars, ps, pend, sig, wasBad>>

NonceFns(C, M) == [C -> M]

Next ==
    \/ \E C \in {X \in KSub(Members, t) : CommitteeOK(X)} :
         \E dd \in NonceFns(C, NonceD), ee \in NonceFns(C, NonceE), rr \in NonceFns(C, RhoSet), cc \in CSet :
            Request(C, dd, ee, rr, cc)
    \/ /\ S # {}
       /\ \E kind \in Kinds, i \in S : \E x \in Aux(kind, i) :
            LET c == Corr(kind, i, x) IN Submit(c.snd, c.mid, c.sh)
    \/ IF RetryDue
       THEN \E C \in {X \in KSub(Members, t) : CommitteeOK(X)} \cup {{}} :
              \E dd \in NonceFns(C, NonceD), ee \in NonceFns(C, NonceE), rr \in NonceFns(C, RhoSet), cc \in CSet :
                 EndBlock(C, dd, ee, rr, cc)
       ELSE EndBlock({}, Empty, Empty, Empty, 0)

Spec == Init /\ [][Next]_vars

---------------------------------------------------------------------------
(* Invariants *)

TypeOK ==
    /\ n >= 1 /\ t \in 1..n /\ coef \in [1..t -> Zq]
    /\ st \in {"none", "waiting", "success", "fallen"}
    /\ S \subseteq Members /\ (S # {} => Cardinality(S) = t)
    /\ \A i \in Members : ps[i] = NoShare \/ (ps[i].R \in Zq /\ ps[i].z \in Zq)
    /\ Signed \subseteq S
    /\ sig = NoSig \/ (sig.R \in Zq /\ sig.z \in Zq)

\* (1) interpolation: every threshold-sized committee recovers f(0)  (evaluated on the group, i.e. once per polynomial)
LagrangeInterp ==
    st = "none" =>
        \A C \in KSub(Members, t) : SumF([i \in C |-> (Lam(i, C) * Sk(i)) % Q], C) = Y

\* (2) secrecy as a counting statement: whatever t-1 members see, every value of f(0) is explained by exactly one
\* polynomial of degree < t, so their shares carry no information about the secret.  (Evaluated once per group, on the
\* state after the first block without a request, so that TLC's workers share the work: initial states are generated
\* by a single thread.  The MC facets with SecrecyOn have MaxH >= 2.)
Secrecy ==
    (SecrecyOn /\ st = "none" /\ h = 2) =>
        \A A \in KSub(Members, t - 1) : \A s \in Zq :
            Cardinality({hi \in [2..t -> Zq] :
                           LET g == [k \in 1..t |-> IF k = 1 THEN s ELSE hi[k]]
                           IN \A i \in A : Eval(g, i) = Sk(i)}) = 1

Live == st = "waiting" /\ S # {}
\* a round that has just been created: the predicates that do not depend on who has signed are evaluated here, once
\* per round (nothing they mention changes until the next round: avars are written by NewRound only)
Fresh == Live /\ Signed = {} /\ expH = h + Period

\* the cached values are the transcribed definitions
CacheOK ==
    /\ pk = [i \in Members |-> Sk(i)]
    /\ Fresh => /\ pubN = PubNonces(S, dn, en, rho)
                 /\ gR = GroupNonceOf(S, dn, en, rho) /\ gR = SumF(pubN, S) /\ ch = orc[gR] /\ ch # -1
                 /\ chl = ChalLam(S, Chal)
                 /\ hon = HonestOf(S, dn, en, rho, Chal)

\* (3) every correct share passes SubmitSignature's checks (as long as that member has not signed)
HonestAccepted == Live => \A i \in S \ Signed : Acceptable(i, i, Honest(i))

\* (4) the checks accept nothing else: for every claimed id, over ALL pairs (R, z) sent by that member; and nothing at all
\* from anybody else (0 = an account that is not a member), whichever assigned member's correct share is sent
AcceptIffCorrect ==
    Fresh => /\ \A mid \in Members, r \in Zq, z \in Zq :
                 LET sh == [R |-> r, z |-> z]
                 IN Acceptable(mid, mid, sh) <=> (mid \in S \ Signed /\ sh = Honest(mid))
            /\ \A snd \in 0..n : \A mid \in Members \ {snd}, i \in S : ~Acceptable(snd, mid, Honest(i))

\* ... in particular not a second share of a member that has signed
SignedRejected == Live => \A mid \in Signed, i \in S : ~Acceptable(mid, mid, Honest(i))

\* (5) the aggregate of the correct shares verifies under Y = f(0)*G with the challenge of the group nonce
AggregateVerifies ==
    Fresh => LET a == Aggregate([i \in S |-> Honest(i)], S)
            IN a.R = GroupNonce /\ VerifyWith(a, Chal)

\* (6) every single-component corruption that changes the share is refused ...
CorruptRejected ==
    Fresh => \A kind \in Kinds, i \in S : \A x \in Aux(kind, i) :
        LET c == Corr(kind, i, x) IN ~IsCorrect(c) => ~Acceptable(c.snd, c.mid, c.sh)

\* (7) ... and, were it stored in the claimed member's slot next to the other members' correct shares, the aggregate
\* would not verify: never if the aggregate nonce is unchanged (same oracle query, same challenge), and for at most
\* one of the Q possible oracle answers if the aggregate nonce changed (a fresh oracle query: probability 1/Q here,
\* 2^-256 on the curve).  The group key must be a point (Y # 0): under the identity key every (R, R) verifies.
WouldNotVerify ==
    (Fresh /\ Y # 0) => \A kind \in Kinds \ {"outsider"}, i \in S : \A x \in Aux(kind, i) :
        LET c == Corr(kind, i, x)
            a == Aggregate([j \in S |-> IF j = c.mid THEN c.sh ELSE Honest(j)], S)
        IN (c.mid \in S /\ c.sh # Honest(c.mid)) =>
              IF a.R = GroupNonce THEN ~VerifyWith(a, Chal)
              ELSE Cardinality({c2 \in Zq : VerifyWith(a, c2)}) <= 1

\* (8) what is stored is correct, what is published is the aggregate of the committee's correct shares and verifies
StoredCorrect == Live => \A i \in Signed : ps[i] = Honest(i)
PendIffComplete == Live => (pend <=> Signed = S)
PublishedValid == (st = "success") <=> (sig # NoSig)
PublishedVerifies == sig # NoSig => SigValid
NeverFailsComplete == st = "fallen" => sig = NoSig

Safety ==
    /\ TypeOK /\ CacheOK /\ LagrangeInterp /\ Secrecy
    /\ HonestAccepted /\ AcceptIffCorrect /\ SignedRejected /\ AggregateVerifies /\ CorruptRejected /\ WouldNotVerify
    /\ StoredCorrect /\ PendIffComplete /\ PublishedValid /\ PublishedVerifies /\ NeverFailsComplete

---------------------------------------------------------------------------
(* Action properties *)
\* a share that is not the sender's correct share is never stored
BadNeverStoredA == wasBad' => (ps' = ps \/ ps' = [i \in Members |-> NoShare])
\* SUCCESS only in an end-block that found the complete committee's shares, and then with their aggregate
SuccessRuleA == (st # "success" /\ st' = "success") =>
                    (pend /\ Signed = S /\ S # {} /\ sig' = Aggregate(ps, S) /\ h' = h + 1)
\* a complete set of shares is always aggregated successfully by the next end-block
CompleteSucceedsA == (pend /\ st = "waiting" /\ h' = h + 1) => st' = "success"
SigImmutableA == sig # NoSig => sig' = sig
FinalA == st \in {"success", "fallen"} => st' = st
GroupFixedA == UNCHANGED gvars

BadNeverStored == [][BadNeverStoredA]_vars
SuccessRule == [][SuccessRuleA]_vars
CompleteSucceeds == [][CompleteSucceedsA]_vars
SigImmutable == [][SigImmutableA]_vars
Final == [][FinalA]_vars
GroupFixed == [][GroupFixedA]_vars
=============================================================================
