\* thorough algebra facet: q = 11, n <= 5, t <= 3, EVERY polynomial (4532 groups), every committee, one attempt
\* measured: 340,659 distinct / 8,111,708 generated states, 220 s (16 workers)
CONSTANTS
  Q = 11
  NSet = {1, 2, 3, 4, 5}
  TMin = 1
  TMax = 3
  PolyMode = "all"
  NonceD = {2}
  NonceE = {1}
  RhoSet = {3}
  CSet = {7}
  MaxAttempt = 1
  Period = 1
  MinHigh = 0
  SecrecyOn = TRUE
  MaxH = 2
  AscOnly = TRUE
  MCKinds = {"none", "scalar", "committee", "outsider"}
SPECIFICATION MCSpec
VIEW View
CONSTRAINT Bound
INVARIANTS Safety
PROPERTIES BadNeverStored SuccessRule CompleteSucceeds SigImmutable Final GroupFixed
CHECK_DEADLOCK FALSE
