\* quick exhaustive cfg (DESIGN C05/C10 calibrated bounds): 3 symmetric members, t=2, MaxDE=2, MaxAttempt=2,
\* Period=1, 2 signings, <=3 nonce pairs per member, h<=5
CONSTANTS
  Member = {m1, m2, m3}
  Stranger = {}
  T = 2
  MaxSig = 2
  MaxSerial = 3
  MaxDESet = {2}
  MaxAttSet = {2}
  PeriodSet = {1}
  PenaltySet = {0}
  KSet = {1, 2}
  PreSet = {0}
  MaxH = 5
INIT Init
NEXT Next
SYMMETRY Sym
VIEW View
CONSTRAINT Bound
INVARIANTS Inv OnTime BoundedTermination
PROPERTIES AssignFromHead Fifo QueueStep Eligible RejectedNoChange GhostExact DEPartOK Status Attempt NoEarlyTimeout ExactTimeout NewAttempt Success Timeout Penalty Signed Callback
CHECK_DEADLOCK FALSE
