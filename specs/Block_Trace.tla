---------------------------- MODULE Block_Trace ----------------------------
(* Trace validation for Block.tla (property C02): one TLC step per recorded line.                   *)
(* Lines come from harness/fam_block: a Reset line starts a script (a genesis configuration and a   *)
(* generated block sequence); every Exec line is one block executed by replica A (in-process, all   *)
(* cores) and by replica B (a second OS process, GOMAXPROCS=1, replaying the recorded transaction   *)
(* bytes from the same genesis).                                                                    *)
(*                                                                                                  *)
(* TLC gives the verdict through INVARIANTS only: Total and Deterministic (the property, from       *)
(* Block.tla) must hold after every recorded block, and Consecutive says that every line was a      *)
(* step of the specification (a Reset, or the Exec of the next height on a running chain) - a line  *)
(* that is not sets `bad`.  l counts consumed lines, so an invariant violated in a state with       *)
(* l = k is a statement about line k (bin/check reads l from the reported state).                   *)
EXTENDS Block, Json, TLC

CONSTANTS TraceFile
TraceLog == ndJsonDeserialize(TraceFile)
VARIABLES l, bad
tvars == <<vars, l, bad>>

Line == TraceLog[l + 1]

TraceInit == l = 0 /\ bad = FALSE /\ Init

IsReset == Line.e = "Reset"
IsExec == Line.e = "Exec" /\ errA = "none" /\ errB = "none" /\ Line.a.h = h + 1

TReset ==
    /\ IsReset
    /\ h' = Line.s.h
    /\ errA' = "none" /\ errB' = "none"
    /\ hashA' = "" /\ hashB' = ""
    /\ resA' = <<>> /\ resB' = <<>>
    /\ bad' = FALSE

TExec ==
    /\ IsExec
    /\ Exec(Line.a.h, Line.o.a, Line.o.b)
    /\ bad' = FALSE

TMalformed == ~IsReset /\ ~IsExec /\ bad' = TRUE /\ UNCHANGED vars

TraceNext == l < Len(TraceLog) /\ l' = l + 1 /\ (TReset \/ TExec \/ TMalformed)
TraceSpec == TraceInit /\ [][TraceNext]_tvars

Consecutive == ~bad

\* every line was consumed (false exactly when an invariant stopped the run earlier)
TraceAccepted == TLCGet("stats").diameter - 1 = Len(TraceLog)
=============================================================================
