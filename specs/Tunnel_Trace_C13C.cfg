\* C13 (tunnel signing fees, part C13C): only the money is checked - fee-payer balances, the tunnel module fee book and the
\* bandtss escrow must move exactly as the model says on every trigger and end-block (base fee + route fee once on success,
\* nothing at all when the send fails).  Everything else is assumed as observed.
CONSTANTS
  MaxTun = 4
  Sig = {"s1", "s2"}
  Acct = {"p1", "p2", "p3"}
  Denom = {"ua", "ub"}
  FeeDenom = "ub"
  MinIv = 1
  MaxIv = 10
  MinDev = 50
  MaxDev = 3000
  ParamSet = {}
  KindSet = {}
  IvSet = {}
  SigSets = {}
  DevSet = {}
  AmtSet = {}
  FundSet = {}
  PriceSet = {}
  ModeSet = {}
  DtSet = {}
  InitBal = 0
  TraceFile = "trace.ndjson"
  Owned = {"Trigger", "EndBlock"}
  Checked = {"feeBal", "tssBal", "totalFees"}
  EBChecked = {"feeBal", "tssBal", "totalFees"}
SPECIFICATION TraceSpec
INVARIANTS TraceBoundOK
PROPERTIES TFeesOnlyWithPackets
POSTCONDITION TraceAccepted
CHECK_DEADLOCK FALSE
