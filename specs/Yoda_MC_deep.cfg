\* thorough facet: a request with 4 raw requests over 2 data sources (repeats) concurrently with a request with
\* one raw request; fetchable or unfetchable executables; every interleaving (all 4! completion orders)
CONSTANTS
  Req = {1, 2}
  DS = {1, 2}
  MaxTry = 3
  SliceBug = FALSE
  TxSkip = "return"
  AssumeSnapshot = TRUE
  NSet = {4}
  NSet2 = {1}
  WantSet = {"me"}
  FReqSet = {0}
  FHashSet = {0}
  FDataSet = {0, 99}
  LenSet = {5}
  CachedSet = {TRUE, FALSE}
  DmgSet = {FALSE}
  KindSet = {"ok"}
  Modes = {"direct"}
  DeliverAnyTime = FALSE
SPECIFICATION MCSpec
VIEW View
INVARIANTS Inv ExactlyOnceAtEnd
PROPERTIES QueueAppendOnly DeliverOK
CHECK_DEADLOCK FALSE
