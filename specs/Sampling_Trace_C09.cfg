\* C09: every variable is checked (single-property family)
CONSTANTS
  SeedLen = 32
  Byte <- TByte
  TraceFile = "trace.ndjson"
SPECIFICATION TraceSpec
INVARIANTS Valid
PROPERTIES TSeedRule
POSTCONDITION TraceAccepted
CHECK_DEADLOCK FALSE
