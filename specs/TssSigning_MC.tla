---------------------------- MODULE TssSigning_MC ----------------------------
EXTENDS TssSigning
CONSTANTS MaxH
Sym == Permutations(Member)
Bound == h <= MaxH
\* `out`, `pen`, `ret` describe the last step only: not part of the state identity
View == <<h, params, q, nser, tssAct, ownAct, cool, count, sig, att, tok, exps, pend, mapped, nSucc, nFail, usedBy>>

\* liveness cfg: stop creating work at MaxH instead of constraining (a constraint can hide non-progress cycles)
NextBounded ==
    \/ h < MaxH /\ Next
    \/ h >= MaxH /\ EndBlock(0)
SpecBounded == Init /\ [][NextBounded]_vars /\ WF_vars(EndBlock(0))
=============================================================================
