---------------------------- MODULE TssSigning_MC ----------------------------
EXTENDS TssSigning
CONSTANTS MaxH
Sym == Permutations(Member)
Bound == h <= MaxH
\* `out`, `pen`, `ret` describe the last step only: not part of the state identity
View == <<h, params, q, nser, tssAct, ownAct, cool, count, sig, att, tok, exps, pend, mapped, nSucc, nFail, tr, trSig, usedBy, pchg>>

\* MC next-state relation: the accepted steps of Next; all refused inputs lead to the same successor
\* (core unchanged, out = "rej"), so one representative refused step is generated instead of one per input
NextMC ==
    \/ \E a \in Addr, k \in KSet : Len(q[a]) + k <= params.maxDE /\ SubmitDEs(a, k)
    \/ \E a \in Addr : q[a] # <<>> /\ ResetDE(a)
    \/ \E S \in SUBSET Member :
          IF tr = "exec" THEN \E pr \in Prios : RequestOK(S, pr) ELSE RequestOK(S, CHOOSE pr \in Prios : TRUE)
    \/ \E id \in Ids : \E m \in att[id].mem \ att[id].signed : SigAcceptable(m, id, TRUE) /\ SubmitSig(m, id, TRUE)
    \/ \E a \in Member, g \in Grp : (g = 1 \/ tr = "exec") /\ ~ownAct[g][a] /\ cool[g][a] = 0 /\ Activate(a, g)
    \/ TransOn /\ tr = "none" /\ Transition
    \/ \E n \in PreSet, k \in PostSet : EndBlock(n, k)
    \/ \E p \in PeriodSet : SetPeriod(p)
    \/ \E m \in MaxAttSet : SetMaxAtt(m)
    \/ \E m \in MaxDESet : SetMaxDE(m)
    \/ Rejected

\* liveness cfg: stop creating work at MaxH instead of constraining (a constraint can hide non-progress cycles)
NextBounded ==
    \/ h < MaxH /\ NextMC
    \/ h >= MaxH /\ h < MaxH + 8 /\ EndBlock(0, 0)
    \/ h >= MaxH + 8 /\ UNCHANGED vars
SpecBounded == Init /\ [][NextBounded]_vars /\ WF_vars(EndBlock(0, 0))
\* beyond MaxH + maxAtt*period blocks nothing can be WAITING any more (checked as part of liveness cfg)
Drained == h >= MaxH + 8 => \A id \in Ids : sig[id].status # "WAITING"
=============================================================================
