CONSTANTS
  Acct = {a1, a2}
  Val = {v1, v2}
  Vault = {k1, k2, feeds}
  FeedsVault = feeds
  Denom = {d1, d2}
  CoinSet = {}
  GCoinAmts = {1, 2, 3}
  GHugeAmts = {99999999, 100000000, 100000001}
  AmtSet = {1, 2, 3}
  LockSet = {0, 1, 2, 3, 4, 5, 100000000, 100000001, 199999999, 200000000}
  U64Lim = 200000000
  Depth = 22
SPECIFICATION GSpec
INVARIANT Emit
CHECK_DEADLOCK FALSE
