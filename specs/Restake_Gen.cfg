CONSTANTS
  Acct = {a1, a2}
  Val = {v1, v2}
  Vault = {k1, k2, feeds}
  FeedsVault = feeds
  Denom = {d1, d2}
  CoinSet = {}
  GCoinAmts = {1, 2, 3}
  GHugeAmts = {999999, 1000000, 1000001}
  AmtSet = {1, 2, 3}
  LockSet = {0, 1, 2, 3, 4, 5, 1000000, 1000001, 1999999, 2000000}
  U64Lim = 2000000
  Depth = 22
SPECIFICATION GSpec
INVARIANT Emit
CHECK_DEADLOCK FALSE
