\* thorough live facet: two signals, I = 30 (half scale: cool 15, buffer 2, unavailable offset 5, grace 15), P in {1,2}
CONSTANTS
  Sig = {"s1", "s2"}
  Start = 50
  Offset = 30
  SlotChoices = {50, 79}
  Buffer = 2
  UOff = 5
  MaxT = 221
  MaxH = 0
  MaxSub = 0
  MaxMem = 0
  RelCap = 34
  GraceCap = 18
  ParSet <- ParSet30
  FeedInit <- FeedInit30
  FeedChanges <- NoFeeds
  Quotes <- QuotesLean
SPECIFICATION LiveSpec
VIEW View
INVARIANTS Inv Calm StatedImpliesExact
PROPERTIES Release
CHECK_DEADLOCK FALSE
