\* exhaustive: one payer, all balances 0..4 x 0..4, lists of <= 2 sources over 4 data sources,
\* ask 1..2, every limit vector in 0..5 x 0..5 (covers cost-1, cost, cost+1), two requests in a row
CONSTANTS
  Denom = {"u", "x"}
  DS = {1, 2, 3, 4}
  Fee <- MCFee
  TreasuryOf <- MCTreasuryOf
  Treasury = {"t1", "t2", "t3"}
  Payer = {"p1"}
  MaxBal = 3
  AskSet = {1, 2}
  MaxSrc = 3
  MaxLimit = 4
  MaxReq = 2
  SigFeeSet = {2}
  SigDenom = "u"
  EncSet = {TRUE, FALSE}
INIT Init
NEXT Next
VIEW View
INVARIANTS NonNegative
PROPERTIES Exact Conserved Signing
CHECK_DEADLOCK FALSE
