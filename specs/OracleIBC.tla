------------------------------ MODULE OracleIBC ------------------------------
(***************************************************************************)
(* Extension X04 (not one of the twenty listed properties; DESIGN.md 6 and *)
(* 8.8): oracle requests that arrive as IBC packets, their                 *)
(* acknowledgements and response packets, and the ownership rules of data  *)
(* sources and oracle scripts.  The module EXTENDS Oracle.tla (request     *)
(* life cycle: committee as a set, report shapes, EndBlock order) and adds *)
(* fees, channels and the two registries.                                  *)
(*                                                                         *)
(* PROPERTY X04 (in the style of properties.jsonl).                        *)
(* statement:                                                              *)
(*  (a) Admission.  An OracleRequestPacketData received on an OPEN oracle  *)
(*      channel is turned into a request exactly when a MsgRequestData     *)
(*      with the same fields, sent by the packet's relayer, would be:      *)
(*      1 <= min_count <= ask_count <= #active validators, a known TSS     *)
(*      encoder, an existing executable oracle script, and                 *)
(*      cost = ask_count * (sum of the fees of the data sources the script *)
(*      asks, a source asked twice counting twice) within BOTH the         *)
(*      packet's fee limit and the relayer's balance -- and, in addition,  *)
(*      the module parameter ibc_request_enabled is true and the packet    *)
(*      data is well-formed JSON of that type passing its basic            *)
(*      validation.  On acceptance the packet is acknowledged with a       *)
(*      result acknowledgement carrying the new request id (= previous     *)
(*      request count + 1), the request records the channel it came from,  *)
(*      and the relayer (the fee payer documented in keeper/relay.go)      *)
(*      pays exactly cost, each treasury receiving its sources' share.     *)
(*      Otherwise the packet gets an ERROR acknowledgement and nothing     *)
(*      else changes: no request, no id consumed, no coin moved.           *)
(*  (b) Response.  Every accepted IBC request yields exactly one           *)
(*      OracleResponsePacketData, sent on the channel the request came     *)
(*      from, in the end-block that stores the request's Result, with      *)
(*      client id, request id, ans count, request time, resolve time,      *)
(*      status (SUCCESS / FAILURE / EXPIRED) and result bytes equal to     *)
(*      the stored Result's; packet sequences on a channel are gap-free;   *)
(*      a request that did not come over IBC sends nothing.  If the        *)
(*      channel cannot send (closed, or the module lost the capability)    *)
(*      the Result is stored all the same, one send_packet_fail event is   *)
(*      emitted, and block processing continues.                           *)
(*  (c) Ownership.  Data-source / oracle-script ids are handed out         *)
(*      sequentially; only the current owner's edit is accepted; the new   *)
(*      owner named by an edit takes effect immediately; a field given as  *)
(*      "[do-not-modify]" keeps its value (name, description, file --      *)
(*      and schema, source-code URL for scripts) while owner, fee and      *)
(*      treasury are always overwritten; the stored file name is the       *)
(*      SHA-256 of the uploaded content (after gunzip; of the COMPILED     *)
(*      module for a script) and that file exists in the file cache with   *)
(*      exactly that content -- in particular it is never the sentinel;    *)
(*      an edit of a data source's fee / treasury, or of a script's code,  *)
(*      governs every later request (and, for code, every later            *)
(*      resolution).                                                       *)
(* quantifier: all interleavings of IBC and direct requests, reports,      *)
(*      end-blocks, expiry, channel failures, parameter flips, creations   *)
(*      and edits by owners and non-owners.                                *)
(* observe_at: the acknowledgement written by ibc core for MsgRecvPacket,  *)
(*      bank balances, oracle stores, `send_packet`/`send_packet_fail`     *)
(*      events and the packet commitments of the channel, the file cache.  *)
(*                                                                         *)
(* One action per entry point of the real code:                            *)
(*   Direct*   msg_server.go RequestData -> PrepareRequest(payer = sender) *)
(*   Recv*     ibc core RecvPacket -> oracle/ibc_module.go OnRecvPacket    *)
(*             -> keeper/relay.go OnRecvPacket -> PrepareRequest(relayer,  *)
(*             channel); ibc core keeps the callback's writes only for a   *)
(*             successful acknowledgement                                  *)
(*   IReport   msg_server.go ReportData (Oracle!Report)                    *)
(*   IEndBlock abci.go EndBlocker; keeper/result.go SaveResult sends the   *)
(*             response through ics4Wrapper.SendPacket                     *)
(*   CreateDS / EditDS / CreateOS / EditOS   msg_server.go                 *)
(*   SetIBC, Break   environment (parameter change; channel closed or      *)
(*             capability released)                                        *)
(*   ChanOpen  ibc_module.go OnChanOpenInit / OnChanOpenTry                *)
(***************************************************************************)
EXTENDS Oracle

CONSTANTS
    Chan,       \* band-side oracle channels
    Payer,      \* fee-paying accounts: senders of MsgRequestData, relayers of packets
    Acct,       \* accounts that create / own / edit data sources and oracle scripts
    Treas,      \* treasury accounts
    MaxDs,      \* data-source ids are 1..MaxDs (1..3 exist at genesis)
    MaxOs,      \* oracle-script ids are 1..MaxOs (1..5 exist at genesis)
    BalSet,     \* initial balances of the payers
    LimitSet, EncSet, FormSet, OsReqSet, ClientSet,   \* request inputs tried
    TokSet, DsContSet, OsCodeSet, FeeSet,             \* registry inputs tried
    DsEditSet, OsEditSet, TreasTry,                   \* ids tried by the edits, treasuries tried
    HowSet, FlipSet, StepSet                          \* environment moves tried: Break kinds, SetIBC values, handshake steps

DsIds  == 1..MaxDs
OsIds  == 1..MaxOs
NoChan == "none"

VARIABLES
    ibcOn,    \* params.ibc_request_enabled
    cstate,   \* channel -> "open" | "closed" | "nocap"
    chan,     \* request id -> channel it arrived on (NoChan: direct, or request deleted)
    meta,     \* request id -> [os, client] of the stored request
    acks,     \* success acknowledgements written so far: sequence of [ch, id]
    sent,     \* response packets sent so far (sequence of packet records)
    nsend,    \* channel -> next send sequence
    nfail,    \* number of send_packet_fail events so far
    bal,      \* payer -> balance
    tre,      \* treasury -> amount received
    rx,       \* request id -> [client, result] of the stored Result ("" before)
    ds, nds,  \* data-source registry and its counter
    os, nos,  \* oracle-script registry and its counter
    ackOut,   \* acknowledgement of the last step: "none" | "ok" | "err"
    inp,      \* input of the last registry message (history; output only)
    \* ---- ghosts ----
    gchan,    \* request id -> channel (survives the deletion of the request)
    gfail,    \* ids whose response could not be sent
    gpayer    \* request id -> who paid

ibcObs    == <<ibcOn, cstate, chan, meta, acks, sent, nsend, nfail, bal, tre, rx, ds, nds, os, nos>>
ibcOut    == <<ackOut, inp>>
ibcGhosts == <<gchan, gfail, gpayer>>
ibcReq    == <<chan, meta, acks, bal, tre, gchan, gpayer>>
ibcResp   == <<sent, nsend, nfail, rx, gfail>>
registry  == <<ds, nds, os, nos>>
ivars     == <<vars, ibcObs, ibcOut, ibcGhosts>>

NoMeta == [os |-> 0, client |-> ""]
NoRx   == [client |-> "", result |-> ""]
NoDs   == [present |-> FALSE, owner |-> "", name |-> "", desc |-> "", file |-> "", fee |-> 0, tre |-> ""]
NoOs   == [present |-> FALSE, owner |-> "", name |-> "", desc |-> "", file |-> "", schema |-> "", url |-> ""]
NoInp  == [kind |-> "none", id |-> 0, s |-> "", owner |-> "", name |-> "", desc |-> "", cont |-> "", schema |-> "", url |-> ""]

-----------------------------------------------------------------------------
(* Content tokens.  Data-source executables: "e1","e2",.. plain; "gz1" is   *)
(* gzip("e1"); "dnm" the sentinel; "gzdnm" gzip(sentinel); "empty", "big",  *)
(* "gzbad" are refused by validation.  Oracle-script codes: "w3" asks data  *)
(* sources 1,2,3 and returns data; "w1" asks 1 and returns data; "wnil"     *)
(* asks 1 and returns zero bytes (still SUCCESS); "wfail" asks 1 and        *)
(* returns nothing (FAILURE); "w4" needs OBI calldata the driver never      *)
(* sends (prepare fails); "gzw1" is gzip("w1"); "notwasm" does not compile. *)
Unz(c)     == CASE c = "gz1" -> "e1" [] c = "gzw1" -> "w1" [] c = "gzdnm" -> "dnm" [] OTHER -> c
BadCont(c) == c \in {"empty", "big", "gzbad", "notwasm"}
Mod(old, new) == IF new = "dnm" THEN old ELSE new
BadTok(t) == t = "long"                       \* a name longer than MaxNameLength: refused by ValidateBasic

Runnable(f) == f \in {"w3", "w1", "wnil", "wfail"}
Srcs(f)     == IF f = "w3" THEN <<1, 2, 3>> ELSE <<1>>
OkOf(f)     == f # "wfail"
DataOf(f)   == IF f = "wnil" THEN "empty" ELSE "data"

RECURSIVE SumFee(_)
SumFee(s) == IF s = <<>> THEN 0 ELSE ds[Head(s)].fee + SumFee(Tail(s))
RECURSIVE SumFeeTo(_, _)
SumFeeTo(s, t) == IF s = <<>> THEN 0
                  ELSE (IF ds[Head(s)].tre = t THEN ds[Head(s)].fee ELSE 0) + SumFeeTo(Tail(s), t)

Cost(k, ask)     == ask * SumFee(Srcs(os[k].file))
PayTo(t, k, ask) == ask * SumFeeTo(Srcs(os[k].file), t)

GenesisDs == [d \in DsIds |->
    IF d = 1 THEN [present |-> TRUE, owner |-> "own", name |-> "ds1", desc |-> "", file |-> "g1", fee |-> 1, tre |-> "t1"]
    ELSE IF d = 2 THEN [present |-> TRUE, owner |-> "own", name |-> "ds2", desc |-> "", file |-> "g2", fee |-> 2, tre |-> "t2"]
    ELSE IF d = 3 THEN [present |-> TRUE, owner |-> "own", name |-> "ds3", desc |-> "", file |-> "g3", fee |-> 0, tre |-> "t3"]
    ELSE NoDs]
GenesisOsFile == <<"w3", "wfail", "w4", "w1", "wnil">>
GenesisOs == [k \in OsIds |->
    IF k <= 5 THEN [present |-> TRUE, owner |-> "own", name |-> "os", desc |-> "", file |-> GenesisOsFile[k], schema |-> "", url |-> ""]
    ELSE NoOs]

IInitWith(oracleInit) ==
    /\ oracleInit
    /\ ibcOn = TRUE
    /\ cstate = [c \in Chan |-> "open"]
    /\ chan = [id \in Ids |-> NoChan]
    /\ meta = [id \in Ids |-> NoMeta]
    /\ acks = <<>> /\ sent = <<>>
    /\ nsend = [c \in Chan |-> 1]
    /\ nfail = 0
    /\ bal \in [Payer -> BalSet]
    /\ tre = [t \in Treas |-> 0]
    /\ rx = [id \in Ids |-> NoRx]
    /\ ds = GenesisDs /\ nds = 3
    /\ os = GenesisOs /\ nos = 5
    /\ ackOut = "none" /\ inp = NoInp
    /\ gchan = [id \in Ids |-> NoChan]
    /\ gfail = {}
    /\ gpayer = [id \in Ids |-> ""]

IInit == IInitWith(Init)

-----------------------------------------------------------------------------
(* Requests: MsgRequestData and the IBC packet share PrepareRequest.       *)

Acceptable(p, k, ask, min, limit, enc) ==
    /\ min >= 1 /\ min <= ask /\ ask <= Cardinality(Eligible)
    /\ enc # "bad"                                   \* MsgRequestData.ValidateBasic: known encoder
    /\ k \in OsIds /\ os[k].present /\ Runnable(os[k].file)
    /\ Cost(k, ask) <= limit /\ Cost(k, ask) <= bal[p]

ReqEffects(p, k, ask, client, c) ==
    LET id == count + 1 IN
    /\ bal' = [bal EXCEPT ![p] = @ - Cost(k, ask)]
    /\ tre' = [t \in Treas |-> tre[t] + PayTo(t, k, ask)]
    /\ meta' = [meta EXCEPT ![id] = [os |-> k, client |-> client]]
    /\ chan' = [chan EXCEPT ![id] = c]
    /\ gchan' = [gchan EXCEPT ![id] = c]
    /\ gpayer' = [gpayer EXCEPT ![id] = p]

IRejected(a) == /\ Rejected /\ ackOut' = a /\ UNCHANGED <<ibcObs, inp, ibcGhosts>>

DirectOK(p, k, ask, min, limit, enc, client, S) ==
    /\ Acceptable(p, k, ask, min, limit, enc)
    /\ RequestOK(ask, min, OkOf(os[k].file), S)
    /\ ReqEffects(p, k, ask, client, NoChan)
    /\ ackOut' = "none"
    /\ UNCHANGED <<ibcOn, cstate, acks, ibcResp, registry, inp>>

DirectRej(p, k, ask, min, limit, enc) ==
    /\ ~Acceptable(p, k, ask, min, limit, enc)
    /\ IRejected("none")

\* form: "good" | "notjson" | "resp" (a response packet's JSON) | "gas0" | "longcl" (fail the packet's ValidateBasic)
RecvAcceptable(c, p, k, ask, min, limit, enc, form) ==
    /\ ibcOn /\ form = "good"
    /\ Acceptable(p, k, ask, min, limit, enc)

RecvOK(c, p, k, ask, min, limit, enc, form, client, S) ==
    /\ cstate[c] = "open"
    /\ RecvAcceptable(c, p, k, ask, min, limit, enc, form)
    /\ RequestOK(ask, min, OkOf(os[k].file), S)
    /\ ReqEffects(p, k, ask, client, c)
    /\ acks' = Append(acks, [ch |-> c, id |-> count + 1])
    /\ ackOut' = "ok"
    /\ UNCHANGED <<ibcOn, cstate, ibcResp, registry, inp>>

\* error acknowledgement: ibc core drops every write of the callback
RecvErr(c, p, k, ask, min, limit, enc, form) ==
    /\ cstate[c] = "open"
    /\ ~RecvAcceptable(c, p, k, ask, min, limit, enc, form)
    /\ IRejected("err")

\* the channel is not OPEN / not owned any more: ibc core refuses the message before the module is called
RecvCore(c) ==
    /\ cstate[c] # "open"
    /\ IRejected("none")

IReport(v, id, shape) ==
    /\ Report(v, id, shape)
    /\ ackOut' = "none"
    /\ UNCHANGED <<ibcObs, inp, ibcGhosts>>

-----------------------------------------------------------------------------
(* Environment.                                                            *)
OracleStill == UNCHANGED <<h, now, params, count, lastExpired, req, rep, res, pending, vstat, resolveEv, ghosts>>

SetIBC(b) ==
    /\ ibcOn' = b /\ out' = "ok" /\ ackOut' = "none"
    /\ OracleStill
    /\ UNCHANGED <<cstate, ibcReq, ibcResp, registry, inp>>

Break(c, how) ==
    /\ cstate' = [cstate EXCEPT ![c] = IF @ = "open" THEN how ELSE @]
    /\ out' = "ok" /\ ackOut' = "none"
    /\ OracleStill
    /\ UNCHANGED <<ibcOn, ibcReq, ibcResp, registry, inp>>

-----------------------------------------------------------------------------
(* End of block.  `order` = the ids that get a Result in this end-block in  *)
(* the order the code saves them (pending list, then expiry in id order),   *)
(* R = the results, gone = the requests deleted.                            *)
Payload(id, status) ==
    IF status = "SUCCESS" /\ meta[id].os \in OsIds THEN DataOf(os[meta[id].os].file) ELSE "empty"

IbcEnd(order, R, gone) ==
    LET ibc == SelectSeq(order, LAMBDA id : chan[id] # NoChan)
        CanSend(j) == cstate[chan[ibc[j]]] = "open"
        Before(k, c) == Cardinality({j \in 1..k : chan[ibc[j]] = c /\ CanSend(j)})
        Pkt(j) == LET id == ibc[j] IN
                  [ch |-> chan[id], seq |-> nsend[chan[id]] + Before(j - 1, chan[id]), id |-> id,
                   client |-> meta[id].client, ans |-> R[id].ans, rt |-> R[id].rt, resT |-> R[id].resT,
                   status |-> R[id].status, result |-> Payload(id, R[id].status)]
        idx == [j \in 1..Len(ibc) |-> j]
        okSeq == SelectSeq(idx, CanSend)
    IN
    /\ sent' = sent \o [n \in 1..Len(okSeq) |-> Pkt(okSeq[n])]
    /\ nsend' = [c \in Chan |-> nsend[c] + Before(Len(ibc), c)]
    /\ nfail' = nfail + (Len(ibc) - Len(okSeq))
    /\ gfail' = gfail \cup {ibc[j] : j \in {i \in 1..Len(ibc) : ~CanSend(i)}}
    /\ rx' = [id \in Ids |-> IF \E i \in 1..Len(order) : order[i] = id
                             THEN [client |-> meta[id].client, result |-> Payload(id, R[id].status)]
                             ELSE rx[id]]
    /\ chan' = [id \in Ids |-> IF id \in gone THEN NoChan ELSE chan[id]]
    /\ meta' = [id \in Ids |-> IF id \in gone THEN NoMeta ELSE meta[id]]

RECURSIVE SortedSeq(_)
SortedSeq(S) == IF S = {} THEN <<>>
                ELSE LET m == CHOOSE x \in S : \A y \in S : x <= y IN <<m>> \o SortedSeq(S \ {m})

Expiring     == {id \in (lastExpired + 1)..count : req[id].rh + params.exp <= h}
NewlyExpired == {id \in Expiring : id \notin Range(pending) /\ res[id].status = "NONE"}
SaveOrder    == pending \o SortedSeq(NewlyExpired)

IEndBlock(dt) ==
    /\ EndBlock(dt)
    /\ IbcEnd(SaveOrder, res', Expiring)
    /\ ackOut' = "none"
    /\ UNCHANGED <<ibcOn, cstate, acks, bal, tre, registry, inp, gchan, gpayer>>

-----------------------------------------------------------------------------
(* Registries (msg_server.go).                                             *)
RegStill == /\ ackOut' = "none"
            /\ UNCHANGED <<h, now, params, count, lastExpired, rep, res, pending, vstat, resolveEv, ghosts>>
            /\ UNCHANGED <<ibcOn, cstate, ibcReq, ibcResp>>

CreateDS(s, owner, name, desc, cont, fee, t) ==
    /\ inp' = [kind |-> "CreateDS", id |-> nds + 1, s |-> s, owner |-> owner, name |-> name, desc |-> desc, cont |-> cont, schema |-> "", url |-> ""]
    /\ RegStill /\ UNCHANGED <<req, os, nos>>
    /\ IF ~BadCont(cont) /\ ~BadTok(name) /\ Unz(cont) # "dnm" /\ nds < MaxDs
       THEN /\ nds' = nds + 1
            /\ ds' = [ds EXCEPT ![nds + 1] = [present |-> TRUE, owner |-> owner, name |-> name, desc |-> desc,
                                              file |-> Unz(cont), fee |-> fee, tre |-> t]]
            /\ out' = "ok"
       ELSE /\ out' = "rej" /\ UNCHANGED <<ds, nds>>

EditDS(s, d, owner, name, desc, cont, fee, t) ==
    /\ inp' = [kind |-> "EditDS", id |-> d, s |-> s, owner |-> owner, name |-> name, desc |-> desc, cont |-> cont, schema |-> "", url |-> ""]
    /\ RegStill /\ UNCHANGED <<req, os, nos, nds>>
    /\ IF d \in DsIds /\ ds[d].present /\ s = ds[d].owner /\ ~BadCont(cont) /\ ~BadTok(name)
       THEN /\ ds' = [ds EXCEPT ![d] = [present |-> TRUE, owner |-> owner, name |-> Mod(@.name, name),
                                        desc |-> Mod(@.desc, desc), file |-> Mod(@.file, Unz(cont)),
                                        fee |-> fee, tre |-> t]]
            /\ out' = "ok"
       ELSE /\ out' = "rej" /\ UNCHANGED ds

CreateOS(s, owner, name, desc, schema, url, code) ==
    /\ inp' = [kind |-> "CreateOS", id |-> nos + 1, s |-> s, owner |-> owner, name |-> name, desc |-> desc, cont |-> code, schema |-> schema, url |-> url]
    /\ RegStill /\ UNCHANGED <<req, ds, nds>>
    /\ IF ~BadCont(code) /\ ~BadTok(name) /\ Unz(code) # "dnm" /\ nos < MaxOs
       THEN /\ nos' = nos + 1
            /\ os' = [os EXCEPT ![nos + 1] = [present |-> TRUE, owner |-> owner, name |-> name, desc |-> desc,
                                              file |-> Unz(code), schema |-> schema, url |-> url]]
            /\ out' = "ok"
       ELSE /\ out' = "rej" /\ UNCHANGED <<os, nos>>

\* the code of a script is looked up when a request is prepared AND when it is resolved: a stored request's
\* outcome class follows the script's current code
EditOS(s, k, owner, name, desc, schema, url, code) ==
    /\ inp' = [kind |-> "EditOS", id |-> k, s |-> s, owner |-> owner, name |-> name, desc |-> desc, cont |-> code, schema |-> schema, url |-> url]
    /\ RegStill /\ UNCHANGED <<ds, nds, nos>>
    /\ IF k \in OsIds /\ os[k].present /\ s = os[k].owner /\ ~BadCont(code) /\ ~BadTok(name)
       THEN /\ os' = [os EXCEPT ![k] = [present |-> TRUE, owner |-> owner, name |-> Mod(@.name, name),
                                        desc |-> Mod(@.desc, desc), file |-> Mod(@.file, Unz(code)),
                                        schema |-> Mod(@.schema, schema), url |-> Mod(@.url, url)]]
            /\ req' = [id \in Ids |-> IF req[id].present /\ meta[id].os = k
                                      THEN [req[id] EXCEPT !.ok = OkOf(Mod(os[k].file, Unz(code)))] ELSE req[id]]
            /\ out' = "ok"
       ELSE /\ out' = "rej" /\ UNCHANGED <<os, req>>

\* channel handshake callbacks of the oracle port: UNORDERED only, version "bandchain-1" (empty = default on Init)
ChanOpen(step, order, ver) ==
    /\ out' = (IF order = "UNORDERED" /\ (ver = "bandchain-1" \/ (step = "init" /\ ver = "")) THEN "ok" ELSE "rej")
    /\ ackOut' = "none"
    /\ OracleStill
    /\ UNCHANGED <<ibcObs, inp, ibcGhosts>>

-----------------------------------------------------------------------------
INext ==
    \/ \E p \in Payer, k \in OsReqSet, ask \in AskSet, min \in MinSet, limit \in LimitSet, enc \in EncSet, cl \in ClientSet :
          \/ \E S \in SUBSET Eligible : DirectOK(p, k, ask, min, limit, enc, cl, S)
          \/ DirectRej(p, k, ask, min, limit, enc)
          \/ \E c \in Chan, form \in FormSet :
                \/ \E S \in SUBSET Eligible : RecvOK(c, p, k, ask, min, limit, enc, form, cl, S)
                \/ RecvErr(c, p, k, ask, min, limit, enc, form)
    \/ \E c \in Chan : RecvCore(c)
    \/ \E v \in Addr, id \in 1..MaxReq, shape \in Shapes : IReport(v, id, shape)
    \/ \E dt \in DtSet : IEndBlock(dt)
    \/ \E b \in FlipSet : SetIBC(b)
    \/ \E c \in Chan, how \in HowSet : Break(c, how)
    \/ \E s \in Acct, o \in Acct, n \in TokSet, c \in DsContSet, f \in FeeSet, t \in TreasTry :
          \/ CreateDS(s, o, n, n, c, f, t)
          \/ \E i \in DsEditSet : EditDS(s, i, o, n, n, c, f, t)
    \/ \E s \in Acct, o \in Acct, n \in TokSet, c \in OsCodeSet :
          \/ CreateOS(s, o, n, n, n, n, c)
          \/ \E i \in OsEditSet : EditOS(s, i, o, n, n, n, n, c)
    \/ \E step \in StepSet, order \in {"UNORDERED", "ORDERED"}, ver \in {"bandchain-1", "", "v2"} :
          ChanOpen(step, order, ver)

ISpec == IInit /\ [][INext]_ivars

-----------------------------------------------------------------------------
(* Invariants.                                                             *)
PktsOf(id) == {i \in 1..Len(sent) : sent[i].id = id}

ITypeOK ==
    /\ ibcOn \in BOOLEAN
    /\ \A c \in Chan : cstate[c] \in {"open", "closed", "nocap"} /\ nsend[c] >= 1
    /\ nfail >= 0 /\ nds \in 0..MaxDs /\ nos \in 0..MaxOs
    /\ ackOut \in {"none", "ok", "err"}

\* (a) the success acknowledgements are exactly the IBC requests, in id order, each on its own channel
AckSound ==
    /\ {acks[i].id : i \in 1..Len(acks)} = {id \in Ids : gchan[id] # NoChan}
    /\ \A i \in 1..Len(acks) : acks[i].id <= count /\ acks[i].ch = gchan[acks[i].id]
    /\ \A i, j \in 1..Len(acks) : i < j => acks[i].id < acks[j].id
    /\ \A id \in Ids : chan[id] # NoChan => (req[id].present /\ chan[id] = gchan[id])
    /\ \A id \in Ids : (id > count) => gchan[id] = NoChan

\* (a) money: nobody goes negative, coins are conserved (the sum is constant: checked as an action property)
MoneyOK == /\ \A p \in Payer : bal[p] >= 0
           /\ \A t \in Treas : tre[t] >= 0

\* (b) exactly one response per IBC request that has a Result, none otherwise
ResponseOnce ==
    \A id \in Ids : Cardinality(PktsOf(id)) =
        (IF gchan[id] # NoChan /\ res[id].status # "NONE" /\ id \notin gfail THEN 1 ELSE 0)

\* (b) the packet carries what the stored Result says, on the channel the request came from
ResponseFaithful ==
    \A i \in 1..Len(sent) :
        LET p == sent[i] r == res[p.id] IN
        /\ p.ch = gchan[p.id]
        /\ p.status = r.status /\ p.status \in {"SUCCESS", "FAILURE", "EXPIRED"}
        /\ p.ans = r.ans /\ p.rt = r.rt /\ p.resT = r.resT
        /\ p.client = rx[p.id].client /\ p.result = rx[p.id].result

\* (b) sequences on a channel are 1,2,3,.. without gaps or repetitions
SeqGapFree ==
    \A c \in Chan :
        LET mine == {i \in 1..Len(sent) : sent[i].ch = c} IN
        /\ {sent[i].seq : i \in mine} = 1..(nsend[c] - 1)
        /\ Cardinality(mine) = nsend[c] - 1
        /\ \A i, j \in mine : i < j => sent[i].seq < sent[j].seq

FailCount == /\ nfail = Cardinality(gfail)
             /\ \A id \in gfail : gchan[id] # NoChan /\ res[id].status # "NONE"

\* a stored Result mirrors the request's client id; only SUCCESS carries data
ResultMirror ==
    \A id \in Ids : IF res[id].status = "NONE" THEN rx[id] = NoRx
                    ELSE (res[id].status # "SUCCESS" => rx[id].result = "empty")

\* (c) registries: ids sequential, no sentinel as a stored file
RegistryOK ==
    /\ \A d \in DsIds : ds[d].present <=> d <= nds
    /\ \A k \in OsIds : os[k].present <=> k <= nos
    /\ \A d \in DsIds : ds[d].present => ds[d].file \notin {"dnm", "", "gzdnm", "gz1"}
    /\ \A k \in OsIds : os[k].present => os[k].file \notin {"dnm", "", "gzdnm", "gzw1"}
    /\ \A id \in Ids : req[id].present => (meta[id].os \in OsIds /\ req[id].ok = OkOf(os[meta[id].os].file))

IbcInv == ITypeOK /\ AckSound /\ MoneyOK /\ ResponseOnce /\ ResponseFaithful /\ SeqGapFree /\ FailCount
          /\ ResultMirror /\ RegistryOK

-----------------------------------------------------------------------------
(* Action properties.                                                      *)
RECURSIVE SumMap(_, _)
SumMap(f, S) == IF S = {} THEN 0 ELSE LET x == CHOOSE x \in S : TRUE IN f[x] + SumMap(f, S \ {x})

\* (a) a new request is paid for exactly, by the recorded payer; without a new request no coin moves
FeeExactA ==
    IF count' = count + 1
    THEN LET id == count'
             p == gpayer'[id]
             k == meta'[id].os
             ask == Cardinality(req'[id].vals) IN
         /\ p \in Payer /\ k \in OsIds
         /\ Cost(k, ask) <= bal[p]
         /\ bal' = [bal EXCEPT ![p] = @ - Cost(k, ask)]
         /\ \A t \in Treas : tre'[t] = tre[t] + PayTo(t, k, ask)
    ELSE bal' = bal /\ tre' = tre
ConservedA == SumMap(bal, Payer)' + SumMap(tre, Treas)' = SumMap(bal, Payer) + SumMap(tre, Treas)

\* (a) acknowledgements: success <=> a request was created on that channel with the acknowledged id
AckRuleA ==
    /\ ackOut' = "ok" => /\ count' = count + 1
                         /\ Len(acks') = Len(acks) + 1
                         /\ acks'[Len(acks')].id = count' /\ acks'[Len(acks')].ch = chan'[count']
                         /\ chan'[count'] # NoChan
    /\ ackOut' = "err" => /\ count' = count /\ acks' = acks /\ bal' = bal /\ tre' = tre
                          /\ chan' = chan /\ req' = req
    /\ ackOut' # "ok" => acks' = acks
    /\ (count' = count + 1 /\ ackOut' # "ok") => chan'[count'] = NoChan
    /\ (ackOut' = "ok") => ibcOn

\* (b) packets appear only in an end-block, only for IBC requests, in the step that stores their Result
ResponseTimelyA ==
    /\ Len(sent') >= Len(sent) /\ SubSeq(sent', 1, Len(sent)) = sent
    /\ sent' # sent => h' = h + 1
    /\ nfail' # nfail => h' = h + 1
    /\ \A i \in (Len(sent) + 1)..Len(sent') :
          /\ chan[sent'[i].id] # NoChan
          /\ res[sent'[i].id].status = "NONE" /\ res'[sent'[i].id].status # "NONE"
    /\ \A id \in Ids : (res[id].status = "NONE" /\ res'[id].status # "NONE" /\ chan[id] # NoChan) =>
          \/ (id \in gfail' /\ id \notin gfail /\ cstate[chan[id]] # "open")
          \/ (\E i \in (Len(sent) + 1)..Len(sent') : sent'[i].id = id /\ cstate[chan[id]] = "open")

\* (c) an existing entry changes only through a message of its owner; ids are handed out one by one;
\*     do-not-modify keeps the old value; owner / fee / treasury are always taken from the message
OwnerOnlyA ==
    /\ \A d \in DsIds : (ds[d].present /\ ds'[d] # ds[d]) =>
            /\ inp'.kind = "EditDS" /\ inp'.id = d /\ inp'.s = ds[d].owner
            /\ ds'[d].owner = inp'.owner
            /\ (inp'.name = "dnm" => ds'[d].name = ds[d].name) /\ (inp'.name # "dnm" => ds'[d].name = inp'.name)
            /\ (inp'.desc = "dnm" => ds'[d].desc = ds[d].desc)
            /\ (Unz(inp'.cont) = "dnm" => ds'[d].file = ds[d].file)
            /\ (Unz(inp'.cont) # "dnm" => ds'[d].file = Unz(inp'.cont))
    /\ \A k \in OsIds : (os[k].present /\ os'[k] # os[k]) =>
            /\ inp'.kind = "EditOS" /\ inp'.id = k /\ inp'.s = os[k].owner
            /\ os'[k].owner = inp'.owner
            /\ (inp'.name = "dnm" => os'[k].name = os[k].name) /\ (inp'.name # "dnm" => os'[k].name = inp'.name)
            /\ (inp'.desc = "dnm" => os'[k].desc = os[k].desc)
            /\ (inp'.schema = "dnm" => os'[k].schema = os[k].schema) /\ (inp'.schema # "dnm" => os'[k].schema = inp'.schema)
            /\ (inp'.url = "dnm" => os'[k].url = os[k].url) /\ (inp'.url # "dnm" => os'[k].url = inp'.url)
            /\ (Unz(inp'.cont) = "dnm" => os'[k].file = os[k].file)
            /\ (Unz(inp'.cont) # "dnm" => os'[k].file = Unz(inp'.cont))
    /\ nds' \in {nds, nds + 1} /\ nos' \in {nos, nos + 1}
    /\ nds' = nds + 1 => (inp'.kind = "CreateDS" /\ ds'[nds'].owner = inp'.owner /\ ds'[nds'].file = Unz(inp'.cont))
    /\ nos' = nos + 1 => (inp'.kind = "CreateOS" /\ os'[nos'].owner = inp'.owner /\ os'[nos'].file = Unz(inp'.cont))

IStepProps == FeeExactA /\ ConservedA /\ AckRuleA /\ ResponseTimelyA /\ OwnerOnlyA

FeeExact       == [][FeeExactA]_ivars
Conserved      == [][ConservedA]_ivars
AckRule        == [][AckRuleA]_ivars
ResponseTimely == [][ResponseTimelyA]_ivars
OwnerOnly      == [][OwnerOnlyA]_ivars

(* Liveness (one cfg): every accepted IBC request is answered or its failure recorded *)
EveryIbcAnswered == \A id \in Ids : (gchan[id] # NoChan) ~> (PktsOf(id) # {} \/ id \in gfail)
=============================================================================
