\* thorough facet: two accounts, two validators, two shared vaults, one allowed denom
CONSTANTS
  Acct = {a1, a2}
  Val = {v1, v2}
  Vault = {k1, k2}
  Denom = {d1}
  AmtSet = {1, 2}
  CoinAmts = {1, 2}
  CoinSet <- MCCoins
  LockAmts = {0, 1, 2, 3}
  LockSet <- MCLocks
  MaxHi = 0
  U64Lim = 200000000
  MaxEntry = 2
  InitAllowed = {d1}
INIT InitFixed
NEXT NextFixed
SYMMETRY SymAV
VIEW View
CONSTRAINT Bound
INVARIANTS Inv LocksCovered
PROPERTIES WithdrawGuard RejUnchanged LockRule VaultRule BackingStep
CHECK_DEADLOCK FALSE
