\* ChooseSomeMaxWeight: <= 3 entries over 1..2, cnt 1, tries 1..3, every stream over 0..5 (tries = 3 with cnt = 2: Sampling_MC_max_deep.cfg)
CONSTANTS
  SeedLen = 3
  Byte = {0, 1}
  Facet = "max"
  MaxN = 3
  WSet = {1, 2}
  MaxCnt = 1
  MaxTries = 3
  DSet = {0, 1, 2, 3, 4, 5}
  IdSet = {1}
INIT MCInit
NEXT MCNext
VIEW View
INVARIANTS Valid Deterministic Consumed OneSpec SomeSpec MaxSpec ShufSpec
PROPERTIES SeedRule
CHECK_DEADLOCK FALSE
