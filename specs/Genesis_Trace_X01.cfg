CONSTANTS
  Deps <- TDeps
  TraceFile = "trace.ndjson"
SPECIFICATION TraceSpec
INVARIANTS Consecutive TExportedAlwaysValid TImportAccepts RoundTrip DiffConsistent DiffKnown SameBehaviour TLive
POSTCONDITION TraceAccepted
CHECK_DEADLOCK FALSE
