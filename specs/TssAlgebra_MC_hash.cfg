\* quick oracle facet: EVERY challenge value and EVERY pair of binding factors, one nonce pair;
\* q = 11, n = 3, t = 2, three sampled polynomials, one attempt
\* measured: 37,029 distinct / 258,099 generated states, 19 s
CONSTANTS
  Q = 11
  NSet = {3}
  TMin = 2
  TMax = 2
  PolyMode = "few"
  NonceD = {5}
  NonceE = {4}
  RhoSet = {0, 1, 2, 3, 4, 5, 6, 7, 8, 9, 10}
  CSet = {0, 1, 2, 3, 4, 5, 6, 7, 8, 9, 10}
  MaxAttempt = 1
  Period = 1
  MinHigh = 0
  SecrecyOn = FALSE
  MaxH = 1
  AscOnly = TRUE
  MCKinds = {"none", "nonceOther", "staleRho"}
SPECIFICATION MCSpec
VIEW View
CONSTRAINT Bound
INVARIANTS Safety
PROPERTIES BadNeverStored SuccessRule CompleteSucceeds SigImmutable Final GroupFixed
CHECK_DEADLOCK FALSE
