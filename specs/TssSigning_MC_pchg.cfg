\* C10 facet: signing_period changed by governance (1 <-> 2) while signings are in flight: everything except the
\* "exactly then" clauses must survive; 2 signings, <=2 pairs per member (submitted in one batch), h<=4
CONSTANTS
  Member = {m1, m2, m3}
  Stranger = {}
  TSet = {2}
  MaxSig = 2
  MaxSerial = 2
  MaxDESet = {2}
  MaxAttSet = {2}
  PeriodSet = {1, 2}
  PenaltySet = {1}
  KSet = {2}
  PreSet = {0}
  PostSet = {0}
  TransOn = FALSE
  MaxH = 4
INIT Init
NEXT NextMC
SYMMETRY Sym
VIEW View
CONSTRAINT Bound
INVARIANTS TypeOK InvC10 OnTime BoundedTermination
PROPERTIES Status Attempt NoEarlyTimeout ExactTimeout NewAttempt Success Timeout Penalty Signed Callback TransitionStep
CHECK_DEADLOCK FALSE
