-------------------------- MODULE BridgeVerify_MC --------------------------
(* MC role for C12: the StoreLayout part of BridgeVerify.tla.  Starting from the store set the           *)
(* application really commits (BaseStores: logged by the driver from the multistore's commit info and     *)
(* compared with this list on every trace), TLC applies every single Mount / Unmount / Rename (and, in    *)
(* the deep cfg, every pair of them) and checks                                                           *)
(*   Sound : the contract's fixed recombination of what multi_store.go extracts from the SDK's proof      *)
(*           equals the multistore root  <=>  the sibling sides are L R R R L   (hash = injective symbol); *)
(*   Ruled : that holds  <=>  exactly 17 stores sort before "oracle" and there are 25..32 stores;         *)
(*   BaseOK: the unchanged store set is valid and the proof's field names describe the sibling groups.    *)
(* The hashing stages of BridgeVerify.tla are not explored here (they are functions of recorded bytes).   *)
EXTENDS BridgeVerify

CONSTANT MaxChanges
VARIABLE nchg
mcvars == <<vars, nchg>>

BaseStores == <<"acc", "authz", "bandtss", "bank", "capability", "consensus", "crisis", "distribution", "evidence",
                "feeds", "feegrant", "feeibc", "globalfee", "gov", "ibc", "icahost", "mint", "oracle", "params",
                "restake", "rollingseed", "slashing", "staking", "transfer", "tss", "tunnel", "upgrade">>

NewName == "new"

MCInit == /\ stores = BaseStores /\ chk = AllGood /\ nproof = 0
          /\ layout = LayoutVerdict(BaseStores, SidesOf(BaseStores))
          /\ nchg = 0

MCNext ==
    /\ nchg < MaxChanges
    /\ nchg' = nchg + 1
    /\ \/ \E g \in 0..Len(stores) : Mount(g, NewName)
       \/ \E i \in 1..Len(stores) : Unmount(i)
       \/ \E i \in 1..Len(stores) : \E g \in 0..(Len(stores) - 1) : Rename(i, g, NewName)

MCSpec == MCInit /\ [][MCNext]_mcvars

Sound == SidesValid(stores) <=> BridgeRecomputesRoot(stores)
Ruled == SidesValid(stores) <=> Rule(stores)
BaseOK == (nchg = 0) => (NamesValid(stores) /\ LayoutOK)
NamesImplySides == NamesValid(stores) => SidesValid(stores)

\* the closed form, for every tree size up to 40 and every position of the leaf (pure; evaluated once)
ASSUME \A n \in 1..40 : \A i \in 1..n :
          ([j \in 1..Len(PathOf(1, n, i)) |-> PathOf(1, n, i)[j].side] = ExpectedSides) <=> (i = 18 /\ n \in 25..32)

\* byte-level helpers against fixed vectors of the proof package's own tests (no hashing)
ASSUME Uvarint(300) = "ac02"
ASSUME Varint(217) = "b203"                                  \* iavl_proof_test.go: leaf prefix 00 02 b2 03
ASSUME EncodeTime(1605781207, 476745924) = "08d78dd9fd0510c4a1aae301"   \* util_test.go TestEncodeTime
ASSUME BytesLE(25000, 8) = "a861000000000000"                \* signature_test.go TestGetPrefix
ASSUME ResultKey(1) = "ff0000000000000001"
=============================================================================
