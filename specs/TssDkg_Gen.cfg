CONSTANTS
  MaxN = 4
  NSet = {2, 3, 4}
  TSet = {1, 2, 3}
  Q = 7
  Periods = {3, 4, 6, 12}
  PolyMode = "one"
  Depth = 30
  DevSet = {0, 1, 2, 3}
  MaxRej = 6
  MaxIdle = 2
SPECIFICATION GSpec
INVARIANT Emit
CHECK_DEADLOCK FALSE
