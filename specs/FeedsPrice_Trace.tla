-------------------------- MODULE FeedsPrice_Trace --------------------------
(***************************************************************************)
(* Trace validation for FeedsPrice.tla.  Every line of the ndjson file was *)
(* recorded from the real x/feeds (+ x/oracle status) code by              *)
(* harness/fam_feedsprice.                                                 *)
(*                                                                         *)
(* Each line is consumed in two TLC steps (same scheme as Oracle_Trace):   *)
(*   Act  - if the event is OWNED by the property being checked, the spec  *)
(*          action it names must be enabled with the logged arguments and  *)
(*          produce the logged outcome; otherwise the spec stutters;       *)
(*   Sync - every CHECKED variable must now equal the projection of the    *)
(*          real state; every other variable adopts the observed value.    *)
(* `Reset` lines start a new trace.                                        *)
(*                                                                         *)
(* Calc events bind the PURE part: the driver called the real              *)
(* types.MedianValidatorPriceInfos / Keeper.CalculatePrice on the logged   *)
(* entries with every power multiplied by 2^kexp and every price by        *)
(* 2^pexp; TLC computes the expected result from the unscaled entries      *)
(* (the rule is exactly homogeneous in the powers, and prices are only     *)
(* compared) and requires equality.                                        *)
(***************************************************************************)
EXTENDS FeedsPrice, Json

CONSTANTS TraceFile, Checked, Owned
TraceLog == ndJsonDeserialize(TraceFile)

VARIABLES l, ph
tvars == <<vars, l, ph>>

Line == TraceLog[l]

\* ---- reading a projected state ------------------------------------------------------------------------------------
Has(r, k) == k \in DOMAIN r
LStat(st, a) == IF Has(st.vstat, a) THEN [active |-> st.vstat[a].active, since |-> st.vstat[a].since]
                ELSE [active |-> FALSE, since |-> Never]
LVP(st, v, s) == IF Has(st.vprice, v) /\ Has(st.vprice[v], s) /\ st.vprice[v][s].st # "none"
                 THEN [st |-> st.vprice[v][s].st, price |-> st.vprice[v][s].price,
                       ts |-> st.vprice[v][s].ts, bh |-> st.vprice[v][s].bh]
                 ELSE NoVP
LPrice(st, s) == IF Has(st.price, s) /\ st.price[s].status # "NONE"
                 THEN [status |-> st.price[s].status, price |-> st.price[s].price, ts |-> st.price[s].ts]
                 ELSE NoPrice
LFeeds(f)     == [s \in Sig |-> IF Has(f, s) THEN f[s] ELSE 0]
LParams(st)   == [grace |-> st.grace, cool |-> st.cool, disc |-> st.disc, upd |-> st.upd, qn |-> st.qn, penalty |-> st.penalty]
LVPrice(st)   == [v \in Val |-> [s \in Sig |-> LVP(st, v, s)]]
LPriceAll(st) == [s \in Sig |-> LPrice(st, s)]
LVStat(st)    == [a \in Addr |-> LStat(st, a)]
LDeact(st)    == [a \in Addr |-> IF Has(st.deactEv, a) THEN st.deactEv[a] ELSE 0]
LBonded(st)   == [v \in Val |-> IF Has(st.bonded, v) THEN st.bonded[v] ELSE FALSE]
LPower(st)    == [v \in Val |-> IF Has(st.power, v) THEN st.power[v] ELSE 0]
LJailed(st)   == Range(st.jailed) \cap Val

\* a logged price list [{sig, st, price}, ...] as the function signal -> [st, price]
MsgOf(sps) ==
    [s \in {sps[i].sig : i \in 1..Len(sps)} |->
        LET i == CHOOSE j \in 1..Len(sps) : sps[j].sig = s IN [st |-> sps[i].st, price |-> sps[i].price]]

\* the first line of every trace file is a Reset; these values are never looked at
TraceInit ==
    /\ h = 0 /\ now = 0
    /\ params = [grace |-> 1, cool |-> 1, disc |-> 1, upd |-> 1, qn |-> 1, penalty |-> 1]
    /\ feeds = [s \in Sig |-> 0] /\ updT = 0 /\ updH = 0
    /\ vprice = [v \in Val |-> [s \in Sig |-> NoVP]]
    /\ price = [s \in Sig |-> NoPrice]
    /\ vstat = [a \in Addr |-> [active |-> FALSE, since |-> Never]]
    /\ deactEv = [a \in Addr |-> 0]
    /\ bonded = [v \in Val |-> FALSE] /\ jailed = {} /\ power = [v \in Val |-> 0]
    /\ out = "init"
    /\ l = 1 /\ ph = "act"

ResetVars(st) ==
    /\ h' = st.h /\ now' = st.now
    /\ params' = LParams(st)
    /\ feeds' = LFeeds(st.feeds) /\ updT' = st.updT /\ updH' = st.updH
    /\ vprice' = LVPrice(st)
    /\ price' = LPriceAll(st)
    /\ vstat' = LVStat(st)
    /\ deactEv' = LDeact(st)
    /\ bonded' = LBonded(st) /\ jailed' = LJailed(st) /\ power' = LPower(st)
    /\ out' = "init"

\* ---- one trace action per spec action -----------------------------------------------------------------------------
TSubmit ==
    LET a == Line.a IN
    /\ Submit(a.v, a.toff, MsgOf(a.sps), a.shape)
    /\ out' = (IF Line.o.ok THEN "ok" ELSE "rej")

TActivate == Activate(Line.a.a) /\ out' = (IF Line.o.ok THEN "ok" ELSE "rej")

TEndBlock ==
    LET a == Line.a IN
    \* whether the end-blocker fails depends only on the price computation: C06's business; other checks take the
    \* observed outcome
    /\ IF "price" \in Checked
       THEN EndBlock(a.dt, LFeeds(a.nf), a.order) /\ out' = (IF Line.o.ok THEN "ok" ELSE "err")
       ELSE EndBlockCore(a.dt, LFeeds(a.nf), a.order, LAMBDA b : ~Line.o.ok)

\* pure binding; the Assert is about the SPECIFICATION (a failure is a machinery error, never a violation)
TCalc ==
    LET a == Line.a  o == Line.o IN
    /\ Assert(PureAll(a.infos), <<"SPEC-ERROR: a pure property of the transcription fails on a driven input", a.infos>>)
    /\ IF a.fn = "median"
       THEN LET m == Median(a.infos) IN o.ok = m.ok /\ o.price = m.price
       ELSE LET r == CalcPrice(a.infos, a.quorum)
            IN o.ok = (r.status # "ERROR") /\ o.status = r.status /\ o.price = r.price
    /\ UNCHANGED vars

Act ==
    /\ ph = "act" /\ l <= Len(TraceLog)
    /\ ph' = "sync" /\ l' = l
    /\ IF Line.e = "Reset" THEN ResetVars(Line.s)
       ELSE IF Line.e \notin Owned THEN UNCHANGED vars
       ELSE CASE Line.e = "Submit"   -> TSubmit
              [] Line.e = "Activate" -> TActivate
              [] Line.e = "EndBlock" -> TEndBlock
              [] Line.e = "Calc"     -> TCalc
              [] Line.e = "Jail"     -> UNCHANGED vars

\* checked variable: must equal the observation; unchecked: adopt the observation
Bind(name, cur, nxt, obs) == IF name \in Checked THEN cur = obs /\ nxt = cur ELSE nxt = obs

\* an end-blocker that returned an error ends the trace: nothing of that block is committed on a real chain, the
\* partially written L1 context is not compared
Halted == Line.e = "EndBlock" /\ ~Line.o.ok

Sync ==
    /\ ph = "sync"
    /\ ph' = "act" /\ l' = l + 1
    /\ IF Halted THEN UNCHANGED vars
       ELSE LET st == Line.s IN
        /\ h = st.h /\ now = st.now /\ UNCHANGED <<h, now>>       \* the block clock is always an input
        /\ params' = LParams(st)
        /\ feeds' = LFeeds(st.feeds)
        /\ bonded' = LBonded(st) /\ jailed' = LJailed(st) /\ power' = LPower(st)
        /\ Bind("upd", updT, updT', st.updT)
        /\ Bind("upd", updH, updH', st.updH)
        /\ Bind("vprice", vprice, vprice', LVPrice(st))
        /\ Bind("price", price, price', LPriceAll(st))
        /\ Bind("vstat", vstat, vstat', LVStat(st))
        /\ Bind("deactEv", deactEv, deactEv', LDeact(st))
        \* C06 does not decide which submissions are accepted, but the price rule reads the stored lists: after an
        \* ACCEPTED submission the validator's list is the latest report per signal - the submitted signals as sent,
        \* stamped with the time and height of the block they arrived in; every other current feed keeps its earlier
        \* report whatever its status; reports of signals that are no current feeds are dropped; other validators'
        \* lists are untouched
        /\ ("vpstamp" \in Checked /\ Line.e = "Submit" /\ Line.o.ok /\ Line.a.shape = "wf") =>
               LET m == MsgOf(Line.a.sps)
                   obs == LVPrice(st)
               IN /\ obs[Line.a.v] = [s \in Sig |->
                          IF s \in DOMAIN m THEN [st |-> m[s].st, price |-> m[s].price, ts |-> now, bh |-> h]
                          ELSE IF s \in Cur THEN vprice[Line.a.v][s] ELSE NoVP]
                  /\ \A v \in Val \ {Line.a.v} : obs[v] = vprice[v]
        /\ UNCHANGED out

TraceNext == Act \/ Sync
TraceSpec == TraceInit /\ [][TraceNext]_tvars

TraceAccepted ==
    LET d == TLCGet("stats").diameter IN
    IF d - 1 = 2 * Len(TraceLog) THEN TRUE
    ELSE Print(<<"TRACE_REJECTED_AT_LINE", (d + 1) \div 2, "PHASE", IF d % 2 = 1 THEN "act" ELSE "sync", "OF", Len(TraceLog)>>, FALSE)

\* invariants are evaluated on the states between lines (after Sync)
AtLine == ph = "act"
TInvPrice  == AtLine => InvPrice
TInvStatus == AtLine => InvStatus

\* the action properties of FeedsPrice, on every Act step that is not a Reset
Exempt == ph = "sync" \/ (l <= Len(TraceLog) /\ TraceLog[l].e = "Reset")
TPriceRule == [][Exempt \/ PriceRuleA]_tvars
TPriceOnlyAtEndBlock == [][Exempt \/ PriceOnlyAtEndBlockA]_tvars
TActivationRule == [][Exempt \/ ActivationRuleA]_tvars
TDeactivationRule == [][Exempt \/ DeactivationRuleA]_tvars
TReporterSafe == [][Exempt \/ ReporterSafeA]_tvars
TGraceSafe == [][Exempt \/ GraceSafeA]_tvars
TStatusStable == [][Exempt \/ StatusStableA]_tvars
TVPriceRule == [][Exempt \/ VPriceRuleA]_tvars
=============================================================================
