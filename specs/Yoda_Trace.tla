---------------------------- MODULE Yoda_Trace ----------------------------
(***************************************************************************)
(* Trace validation for Yoda.tla.  Every line of the ndjson file was       *)
(* recorded from the real yoda handlers (harness/fam_yoda): the driver     *)
(* performs an environment action (announce requests, let executor calls   *)
(* return, hand a report to the chain), waits until every goroutine of the *)
(* daemon is blocked, and logs what it sees: the workers blocked in the    *)
(* executor and the messages queued on pendingMsgs.                        *)
(*                                                                         *)
(* Each line is consumed as  Act ; Run* ; Sync :                           *)
(*   Act   the environment action named by the line (arguments as logged), *)
(*   Run   the daemon's own steps, in any interleaving (TLC explores all),  *)
(*   Sync  only when the model is quiescent too, and only if the checked   *)
(*         observations equal the model state.                             *)
(* A `Crashed` line (the child process died) is explained only by the      *)
(* as-written model (SliceBug = TRUE); the checked configuration has no    *)
(* crash transition, so such a line rejects the trace.                     *)
(* Because lines take a varying number of steps, acceptance is measured    *)
(* with TLC registers (high-water mark of synced lines; -workers 1).       *)
(***************************************************************************)
EXTENDS Yoda, Json

CONSTANTS TraceFile, Checked, Owned
TraceLog == ndJsonDeserialize(TraceFile)

VARIABLES l, ph
tvars == <<vars, l, ph>>

ToSet(s) == {s[i] : i \in 1..Len(s)}
Line == TraceLog[l]

Mark(i, v) == IF TLCGet(i) < v THEN TLCSet(i, v) ELSE TRUE

TraceInit ==
    /\ l = 1 /\ ph = "act"
    /\ sc = [exists |-> [r \in Req |-> FALSE], hasMe |-> [r \in Req |-> FALSE], raws |-> [r \in Req |-> <<>>],
             exec |-> [r \in Req |-> <<>>], fReq |-> [r \in Req |-> 0], fHash |-> [d \in DS |-> 0],
             fData |-> [d \in DS |-> 0], len |-> [d \in DS |-> 1000], cached |-> [d \in DS |-> TRUE], dmg |-> [d \in DS |-> FALSE]]
    /\ Init0 /\ InitCache
    /\ TLCSet(1, 0) /\ TLCSet(2, 0)

ScenarioOf(c) ==
    [exists |-> [r \in Req |-> c.reqs[r].exists],
     hasMe  |-> [r \in Req |-> c.reqs[r].hasMe],
     raws   |-> [r \in Req |-> [k \in 1..Len(c.reqs[r].raws) |-> [eid |-> c.reqs[r].raws[k].eid, ds |-> c.reqs[r].raws[k].ds]]],
     exec   |-> [r \in Req |-> [k \in 1..Len(c.reqs[r].exec) |->
                    [kind |-> c.reqs[r].exec[k].kind, code |-> c.reqs[r].exec[k].code, out |-> c.reqs[r].exec[k].out]]],
     fReq   |-> [r \in Req |-> c.reqs[r].fReq],
     fHash  |-> [d \in DS |-> c.ds[d].fHash],
     fData  |-> [d \in DS |-> c.ds[d].fData],
     len    |-> [d \in DS |-> c.ds[d].len],
     cached |-> [d \in DS |-> c.ds[d].cached],
     dmg    |-> [d \in DS |-> c.ds[d].dmg]]

TReset ==
    LET s == ScenarioOf(Line.c) IN
    /\ sc' = s
    /\ cache' = {d \in DS : s.cached[d]}
    /\ booted' = FALSE /\ pend' = {} /\ announced' = {} /\ intx' = {} /\ txs' = <<>>
    /\ hpc' = [r \in Req |-> "idle"] /\ hidx' = [r \in Req |-> 0]
    /\ wpc' = [r \in Req |-> <<>>]
    /\ results' = [r \in Req |-> <<>>] /\ collected' = [r \in Req |-> <<>>]
    /\ msgs' = <<>> /\ crashed' = FALSE /\ reported' = {} /\ delivered' = {} /\ out' = "init"

\* the environment action of an event (e, a)
EventAct(e, a, o) ==
    CASE e = "Startup" -> Startup(ToSet(a.P))
      [] e = "Start"   -> Start(ToSet(a.rs))
      [] e = "Tx"      -> Tx(a.ids)
      [] e = "Release" -> a.exe = "match" /\ ReleaseMany(a.ws)      \* the executor was given the data source's own bytes
      [] e = "Deliver" -> Deliver(a.i) /\ out' = (IF o.ok THEN "ok" ELSE "rej")
      [] e = "End"     -> UNCHANGED vars
      [] OTHER         -> FALSE

Act ==
    /\ ph = "act" /\ l <= Len(TraceLog)
    /\ ph' = "run" /\ l' = l
    /\ IF Line.e = "Reset" THEN TReset
       ELSE IF Line.e \notin Owned THEN UNCHANGED vars
       ELSE IF Line.e = "Crashed" THEN SliceBug /\ EventAct(Line.a.during.e, Line.a.during.a, Line.o)
       ELSE EventAct(Line.e, Line.a, Line.o)
    /\ Mark(2, l)

Run == ph = "run" /\ Internal /\ UNCHANGED <<l, ph>>

\* observations
Norm(rep) == [eid |-> rep.eid, code |-> rep.code, out |-> IF rep.code = 255 THEN 0 ELSE rep.out]
SameBag(a, b) ==    \* a: logged raw reports, b: the model's (same multiset, any order)
    /\ Len(a) = Len(b)
    /\ \A x \in {Norm(a[i]) : i \in 1..Len(a)} \cup ToSet(b) :
          Cardinality({i \in 1..Len(a) : Norm(a[i]) = x}) = Cardinality({i \in 1..Len(b) : b[i] = x})
MsgsMatch(obs) ==
    /\ Len(obs) = Len(msgs)
    /\ \A i \in 1..Len(obs) : obs[i].rid = msgs[i].rid /\ SameBag(obs[i].reps, msgs[i].reps)
GateMatch(obs) == ToSet(obs) = {w \in Req \X (1..4) : w[2] <= Len(wpc[w[1]]) /\ wpc[w[1]][w[2]] = "atGate"}

Sync ==
    /\ ph = "run"
    /\ ph' = "act" /\ l' = l + 1
    /\ IF Line.e = "Crashed" THEN crashed
       ELSE /\ ~crashed /\ Quiescent
            /\ Line.e \in {"Startup", "Start", "Tx", "Release", "End"} => Line.o.quiet
            /\ Line.e = "End" => Finished /\ Line.o.stray = 0
            /\ ("msgs" \in Checked) => MsgsMatch(Line.s.msgs)
            /\ ("gate" \in Checked) => GateMatch(Line.s.gate)
    /\ UNCHANGED vars
    /\ Mark(1, l)

TraceNext == Act \/ Run \/ Sync
TraceSpec == TraceInit /\ [][TraceNext]_tvars

TraceAccepted ==
    LET a == TLCGet(1) IN
    IF a = Len(TraceLog) THEN TRUE
    ELSE Print(<<"TRACE_REJECTED_AT_LINE", a + 1, "PHASE", IF TLCGet(2) > a THEN "sync" ELSE "act", "OF", Len(TraceLog)>>, FALSE)

\* the invariants of Yoda.tla on every state the real execution passes through
TInv == Inv /\ ExactlyOnceAtEnd
\* for the as-written model (SliceBug = TRUE): everything but the absence of crashes
TInvAsWritten == TypeOK /\ AtMostOnce /\ MsgsRight /\ ChainAccepts /\ NoDrop /\ NoSkip /\ ChanBound

Exempt == ph = "act" /\ l <= Len(TraceLog) /\ TraceLog[l].e = "Reset"
TQueueAppendOnly == [][Exempt \/ QueueAppendOnlyA]_tvars
\* the chain accepts every report the daemon queued (first delivery)
TDeliverOK == [][(ph = "act" /\ l <= Len(TraceLog) /\ TraceLog[l].e = "Deliver") => out' = "ok"]_tvars
=============================================================================
