\* C07: the standing votes, the signal totals + by-power index, the lock under the vault "feeds", the current
\* feeds and their last update height are checked; the outcomes of Vote and EndBlock are owned.  The voters'
\* total power (changed by staking / restake messages, C16's subject) and the feeds parameters are inputs.
CONSTANTS
  Voter = {"a1", "a2", "a3"}
  Signal = {1, 2, 3, 4}
  VoteSet <- TNone
  PowerSet <- TNone
  ParSet <- TNone
  TraceFile = "trace.ndjson"
  Checked = {"vote", "total", "idx", "lock", "feeds", "lastUpd", "locked"}
  Owned = {"Vote", "EndBlock"}
SPECIFICATION TraceSpec
INVARIANTS TInv
PROPERTIES TVoteBound TVoteSize TRejUnchanged TFeedsOnlyAtUpdate TFeedsFresh
POSTCONDITION TraceAccepted
CHECK_DEADLOCK FALSE
