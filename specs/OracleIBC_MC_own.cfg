\* quick facet "own": registries only (creation and edits by owners and non-owners, sentinel, gzip), no requests
CONSTANTS
  Val = {v1}
  Stranger = {}
  MaxReq = 1
  Units = 1
  ExpSet = {2}
  PenaltySet = {2}
  DtSet = {1}
  AskSet = {1}
  MinSet = {1}
  ShapeSet = {"exact"}
  Chan = {"c0"}
  Payer = {"p1"}
  Acct = {"own", "a1"}
  Treas = {"t1", "t2", "t3"}
  MaxDs = 4
  MaxOs = 6
  BalSet = {7}
  LimitSet = {6}
  EncSet = {"none"}
  FormSet = {"good", "notjson"}
  OsReqSet = {}
  ClientSet = {"k1"}
  TokSet = {"n1", "dnm"}
  DsContSet = {"e2", "gz1", "dnm", "gzdnm", "big"}
  OsCodeSet = {"w1", "wfail", "gzw1", "dnm", "gzdnm", "notwasm"}
  FeeSet = {2}
  DsEditSet = {3, 4}
  OsEditSet = {6}
  TreasTry = {"t1"}
  HowSet = {}
  FlipSet = {}
  StepSet = {}
  MaxH = 3
  MaxBreak = 1
INIT IInitActive
NEXT INext
VIEW IView
CONSTRAINT IBound
INVARIANTS Inv IbcInv
PROPERTIES FeeExact Conserved AckRule ResponseTimely OwnerOnly ResultImmutable ResultOnlyAtEndBlock
CHECK_DEADLOCK FALSE
