\* quick facet "own": registries only (creation and edits by owners and non-owners, sentinel, gzip), no requests
CONSTANTS
  Val = {v1}
  Stranger = {}
  MaxReq = 1
  ExpSet = {2}
  PenaltySet = {2}
  DtSet = {1}
  AskSet = {1}
  MinSet = {1}
  ShapeSet = {"exact"}
  Chan = {"c0"}
  Payer = {"p1"}
  Acct = {"own", "a1"}
  Treas = {"t1", "t2", "t3"}
  MaxDs = 4
  MaxOs = 6
  BalSet = {7}
  LimitSet = {6}
  EncSet = {"none"}
  FormSet = {"good", "notjson"}
  OsReqSet = {}
  ClientSet = {"k1"}
  TokSet = {"n1", "dnm"}
  DsContSet = {"e1", "gz1", "dnm", "gzdnm", "big"}
  OsCodeSet = {"w1", "wfail", "dnm", "gzdnm", "notwasm"}
  FeeSet = {0, 2}
  HowSet = {}
  FlipSet = {}
  StepSet = {}
  MaxH = 3
  MaxBreak = 1
INIT IInitActive
NEXT INext
SYMMETRY Sym
VIEW IView
CONSTRAINT IBound
INVARIANTS Inv IbcInv
PROPERTIES FeeExact Conserved AckRule ResponseTimely OwnerOnly ResultImmutable ResultOnlyAtEndBlock
CHECK_DEADLOCK FALSE
