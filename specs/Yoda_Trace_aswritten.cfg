\* not a check: the AS-WRITTEN model (GetExecutable slices resValue[:32]) explains the recorded executions of
\* the unfixed code including the crashes (used to establish the 25-byte bound)
CONSTANTS
  Req = {1, 2, 3}
  DS = {1, 2, 3, 4}
  MaxTry = 3
  SliceBug = TRUE
  TxSkip = "return"
  AssumeSnapshot = TRUE
  TraceFile = "trace.ndjson"
  Checked = {"msgs", "gate"}
  Owned = {"Startup", "Start", "Tx", "Release", "Deliver", "End", "Crashed"}
SPECIFICATION TraceSpec
INVARIANTS TInvAsWritten
PROPERTIES TQueueAppendOnly TDeliverOK
POSTCONDITION TraceAccepted
CHECK_DEADLOCK FALSE
