------------------------------- MODULE Restake -------------------------------
(***************************************************************************)
(* x/restake of BandChain, property C16: locked power cannot be withdrawn, *)
(* locks are bounded by the total power and live only in active vaults, a  *)
(* deactivated vault stays deactivated, the module account backs the       *)
(* recorded stakes.                                                        *)
(*                                                                         *)
(* One action per entry point of the real code:                            *)
(*   Stake / Unstake   x/restake/keeper/msg_server.go                      *)
(*   Delegate / Undelegate / Redelegate                                    *)
(*                     x/staking msg server -> restake hooks (hooks.go:    *)
(*                     AfterDelegationModified / BeforeDelegationRemoved)  *)
(*   SetLock           keeper_lock.go SetLockedPower (keeper API of vault  *)
(*                     owners)                                             *)
(*   LockVia           the same API reached through another module's       *)
(*                     handler (feeds.Vote): the locked amount is decided  *)
(*                     by that module, the restake rule only bounds it     *)
(*   Deactivate        keeper_vault.go DeactivateVault                     *)
(*   SetAllowed        params.allowed_denoms (environment)                 *)
(*                                                                         *)
(* The model is the PROPERTY: where C16 leaves the outcome open (Stake,    *)
(* Delegate, a Redelegate whose final power suffices, a lock set by        *)
(* another module) both outcomes are allowed and the trace binds them.     *)
(* Amounts are true integers.  Values near 2^63/2^64 are represented as    *)
(* hi * 10^8 + mid * 10^4 + lo by the driver for the real value            *)
(* hi * 2^63 + mid * 10^6 + lo (|mid|, |lo| < 5000: no carries, so order   *)
(* and sums are preserved); U64Lim (= 2 * 10^8) stands for 2^64.           *)
(*                                                                         *)
(* Power.  keeper.GetTotalPower = staking.GetDelegatorBonded + allowed     *)
(* stakes, and GetDelegatorBonded (SDK 0.50) sums the delegations to ALL   *)
(* validators whatever their status: a validator that is jailed (e.g. its  *)
(* operator went below MinSelfDelegation) or that the end-blocker moved    *)
(* out of the bonded set still counts.  Accounts include validator         *)
(* operators, whose self-delegation is a delegation like any other.  The   *)
(* trace check compares the code's power with this definition after every  *)
(* step, across jailing and validator-set updates.                         *)
(***************************************************************************)
EXTENDS Integers, Sequences, FiniteSets, TLC

CONSTANTS
    Acct,      \* accounts
    Val,       \* validators (share/token rate 1, no slashing; they may be jailed and leave the bonded set)
    Vault,     \* vault keys
    Denom,     \* coin denominations that may be staked
    CoinSet,   \* coin vectors [Denom -> Nat] tried by Stake / Unstake
    AmtSet,    \* amounts tried by Delegate / Undelegate / Redelegate
    LockSet,   \* powers tried by SetLock / LockVia
    U64Lim     \* model image of 2^64 (SetLockedPower refuses powers that are not uint64)

NoLock == -1

VARIABLES
    deleg,     \* [Acct -> [Val -> Nat]]   bonded delegations (tokens)
    stake,     \* [Acct -> [Denom -> Nat]] restaked coins
    allowed,   \* SUBSET Denom             params.allowed_denoms
    vault,     \* [Vault -> {"absent","active","inactive"}]
    lock,      \* [Acct -> [Vault -> Int]] locked power, NoLock when there is no lock record
    lidx,      \* [Acct -> set of [p, k]]  the LocksByPower index (secondary store)
    modBal,    \* [Denom -> Nat]           bank balance of the restake module account
    out        \* outcome of the last step: "init" | "ok" | "rej"

vars == <<deleg, stake, allowed, vault, lock, lidx, modBal, out>>
subject == <<deleg, stake, vault, lock, lidx, modBal>>

RECURSIVE SumF(_, _)
SumF(f, S) == IF S = {} THEN 0 ELSE LET x == CHOOSE y \in S : TRUE IN f[x] + SumF(f, S \ {x})

MaxOf(S) == CHOOSE m \in S : \A x \in S : x <= m

PowerOf(dg, sk, al, a) == SumF(dg[a], Val) + SumF(sk[a], al)
Power(a)  == PowerOf(deleg, stake, allowed, a)
PowerN(a) == PowerOf(deleg', stake', allowed', a)

ActiveLocksOf(lk, vt, a) == {lk[a][k] : k \in {x \in Vault : vt[x] = "active" /\ lk[a][x] >= 0}}
MaxActiveLockOf(lk, vt, a) == IF ActiveLocksOf(lk, vt, a) = {} THEN 0 ELSE MaxOf(ActiveLocksOf(lk, vt, a))
MaxActiveLock(a)  == MaxActiveLockOf(lock, vault, a)
MaxActiveLockN(a) == MaxActiveLockOf(lock', vault', a)

ZeroCoins == [d \in Denom |-> 0]

Init ==
    /\ deleg = [a \in Acct |-> [v \in Val |-> 0]]
    /\ stake = [a \in Acct |-> ZeroCoins]
    /\ allowed \in SUBSET Denom
    /\ vault = [k \in Vault |-> "absent"]
    /\ lock = [a \in Acct |-> [k \in Vault |-> NoLock]]
    /\ lidx = [a \in Acct |-> {}]
    /\ modBal = ZeroCoins
    /\ out = "init"

Rejected == out' = "rej" /\ UNCHANGED <<deleg, stake, allowed, vault, lock, lidx, modBal>>

(***************************************************************************)
(* MsgStake: coins move from the account to the module account.  C16 does  *)
(* not decide the outcome (denom not allowed, balance too low).            *)
(***************************************************************************)
StakeOK(a, c) ==
    /\ c # ZeroCoins
    /\ stake' = [stake EXCEPT ![a] = [d \in Denom |-> stake[a][d] + c[d]]]
    /\ modBal' = [d \in Denom |-> modBal[d] + c[d]]
    /\ out' = "ok"
    /\ UNCHANGED <<deleg, allowed, vault, lock, lidx>>
StakeRej(a, c) == Rejected

(***************************************************************************)
(* MsgUnstake: subtract, re-check the power against the locks, pay out.    *)
(***************************************************************************)
UnstakeAllowed(a, c) ==
    /\ c # ZeroCoins
    /\ \A d \in Denom : c[d] <= stake[a][d]
    /\ Power(a) - SumF(c, allowed) >= MaxActiveLock(a)

Unstake(a, c) ==
    IF UnstakeAllowed(a, c)
    THEN /\ stake' = [stake EXCEPT ![a] = [d \in Denom |-> stake[a][d] - c[d]]]
         /\ modBal' = [d \in Denom |-> modBal[d] - c[d]]
         /\ out' = "ok"
         /\ UNCHANGED <<deleg, allowed, vault, lock, lidx>>
    ELSE Rejected

(***************************************************************************)
(* staking.MsgDelegate: an increase; the outcome is not C16's business     *)
(* (the hook refuses it while the power is below a lock).                  *)
(***************************************************************************)
DelegateOK(a, v, n) ==
    /\ n >= 1
    /\ deleg' = [deleg EXCEPT ![a][v] = @ + n]
    /\ out' = "ok"
    /\ UNCHANGED <<stake, allowed, vault, lock, lidx, modBal>>
DelegateRej(a, v, n) == Rejected

(***************************************************************************)
(* staking.MsgUndelegate (partial: AfterDelegationModified, full removal:  *)
(* BeforeDelegationRemoved).  Unbonding completion is out of scope.  The   *)
(* rule is the same whatever the validator's state (jailed earlier in the  *)
(* block, unbonding): the remaining power must cover every active lock.    *)
(***************************************************************************)
UndelegateAllowed(a, v, n) ==
    /\ n >= 1 /\ n <= deleg[a][v]
    /\ Power(a) - n >= MaxActiveLock(a)

Undelegate(a, v, n) ==
    IF UndelegateAllowed(a, v, n)
    THEN /\ deleg' = [deleg EXCEPT ![a][v] = @ - n]
         /\ out' = "ok"
         /\ UNCHANGED <<stake, allowed, vault, lock, lidx, modBal>>
    ELSE Rejected

(***************************************************************************)
(* staking.MsgBeginRedelegate: the total power is unchanged; it may only   *)
(* succeed if that power covers the locks.  The code is stricter (its hook *)
(* sees the intermediate state, staking has rules of its own): rejecting   *)
(* is always allowed.                                                      *)
(***************************************************************************)
RedelegateOK(a, v, w, n) ==
    /\ v # w /\ n >= 1 /\ n <= deleg[a][v]
    /\ Power(a) >= MaxActiveLock(a)
    /\ deleg' = [deleg EXCEPT ![a][v] = @ - n, ![a][w] = @ + n]
    /\ out' = "ok"
    /\ UNCHANGED <<stake, allowed, vault, lock, lidx, modBal>>
RedelegateRej(a, v, w, n) == Rejected

(***************************************************************************)
(* SetLockedPower(a, k, n): n must be a uint64, at most the total power,   *)
(* the vault is created active when absent and must not be deactivated.    *)
(* SetLock removes the previous index entry before writing the new one.    *)
(***************************************************************************)
WriteLock(a, k, n) ==
    /\ lock' = [lock EXCEPT ![a][k] = n]
    /\ lidx' = [lidx EXCEPT ![a] = (@ \ {[p |-> lock[a][k], k |-> k]}) \cup {[p |-> n, k |-> k]}]
    /\ vault' = [vault EXCEPT ![k] = "active"]

LockAllowed(a, k, n) ==
    /\ n >= 0 /\ n < U64Lim
    /\ n <= Power(a)
    /\ vault[k] # "inactive"

SetLock(a, k, n) ==
    IF LockAllowed(a, k, n)
    THEN /\ WriteLock(a, k, n)
         /\ out' = "ok"
         /\ UNCHANGED <<deleg, stake, allowed, modBal>>
    ELSE Rejected

\* the same keeper call made by another module's handler, which chooses the amount m
LockViaOK(a, k, m) ==
    /\ LockAllowed(a, k, m)
    /\ WriteLock(a, k, m)
    /\ out' = "ok"
    /\ UNCHANGED <<deleg, stake, allowed, modBal>>
LockViaRej(a, k) == Rejected

Deactivate(k) ==
    IF vault[k] = "active"
    THEN /\ vault' = [vault EXCEPT ![k] = "inactive"]
         /\ out' = "ok"
         /\ UNCHANGED <<deleg, stake, allowed, lock, lidx, modBal>>
    ELSE Rejected

\* allowed_denoms is a SET: a governance list that names a denom twice must either be refused or count the
\* denom once (the driver sends such lists through MsgUpdateParams; the trace spec reads `allowed` back as a
\* set and compares the code's total power with PowerOf over that set)
SetAllowed(D) ==
    /\ allowed' = D
    /\ out' = "ok"
    /\ UNCHANGED <<deleg, stake, vault, lock, lidx, modBal>>

Next ==
    \/ \E a \in Acct, c \in CoinSet : StakeOK(a, c) \/ StakeRej(a, c) \/ Unstake(a, c)
    \/ \E a \in Acct, v \in Val, n \in AmtSet : DelegateOK(a, v, n) \/ DelegateRej(a, v, n) \/ Undelegate(a, v, n)
    \/ \E a \in Acct, v \in Val, w \in Val, n \in AmtSet : RedelegateOK(a, v, w, n) \/ RedelegateRej(a, v, w, n)
    \/ \E a \in Acct, k \in Vault, n \in LockSet : SetLock(a, k, n) \/ LockViaOK(a, k, n) \/ LockViaRej(a, k)
    \/ \E k \in Vault : Deactivate(k)
    \/ \E D \in SUBSET Denom : SetAllowed(D)

Spec == Init /\ [][Next]_vars

-----------------------------------------------------------------------------
(* Invariants *)

TypeOK ==
    /\ \A a \in Acct : /\ \A v \in Val : deleg[a][v] >= 0
                       /\ \A d \in Denom : stake[a][d] >= 0
                       /\ \A k \in Vault : lock[a][k] >= NoLock /\ lock[a][k] < U64Lim
    /\ allowed \subseteq Denom
    /\ \A k \in Vault : vault[k] \in {"absent", "active", "inactive"}
    /\ out \in {"init", "ok", "rej"}

\* the module account holds exactly the sum of all recorded stakes
Backing == \A d \in Denom : modBal[d] = SumF([a \in Acct |-> stake[a][d]], Acct)

\* the by-power index is in lock-step with the lock records
IndexSound == \A a \in Acct : lidx[a] = {[p |-> lock[a][k], k |-> k] : k \in {x \in Vault : lock[a][x] >= 0}}

LockNeedsVault == \A a \in Acct, k \in Vault : lock[a][k] >= 0 => vault[k] # "absent"

Inv == TypeOK /\ Backing /\ IndexSound /\ LockNeedsVault

\* while the allowed denoms do not shrink, every active lock stays covered by the power
LocksCovered == \A a \in Acct : MaxActiveLock(a) <= Power(a)

(* Action properties: XxxA is the action-level formula, Xxx the temporal property *)

\* a withdrawal (any stake or delegation entry going down) leaves the power at or above every active lock
WithdrawGuardA ==
    \A a \in Acct :
        ((\E d \in Denom : stake'[a][d] < stake[a][d]) \/ (\E v \in Val : deleg'[a][v] < deleg[a][v]))
            => PowerN(a) >= MaxActiveLockN(a)

RejUnchangedA == out' = "rej" => UNCHANGED <<deleg, stake, allowed, vault, lock, lidx, modBal>>

\* a lock record changes only to a value within the power, in a vault that is and was not deactivated
LockRuleA ==
    \A a \in Acct, k \in Vault :
        lock'[a][k] # lock[a][k] =>
            /\ lock'[a][k] >= 0 /\ lock'[a][k] <= PowerN(a)
            /\ vault[k] # "inactive" /\ vault'[k] = "active"

\* deactivation is final; a vault never disappears
VaultRuleA ==
    \A k \in Vault : /\ vault[k] = "inactive" => vault'[k] = "inactive"
                     /\ vault[k] # "absent" => vault'[k] # "absent"

\* coins enter and leave the module account only together with the stake records
BackingStepA == \A d \in Denom : modBal'[d] - modBal[d] = SumF([a \in Acct |-> stake'[a][d] - stake[a][d]], Acct)

WithdrawGuard == [][WithdrawGuardA]_vars
RejUnchanged  == [][RejUnchangedA]_vars
LockRule      == [][LockRuleA]_vars
VaultRule     == [][VaultRuleA]_vars
BackingStep   == [][BackingStepA]_vars
=============================================================================
