\* C15 (feeds half) update facet: the feed list is recomputed every 2 blocks (the feed may leave, come back or change its
\* interval); each update restarts the grace period in time and in blocks
CONSTANTS
  Val = {v1, v2}
  Stranger = {}
  Sig = {s1}
  GraceSet = {3}
  CoolSet = {1}
  DiscSet = {1}
  UpdSet = {2}
  QuorumSet = {50}
  PenaltySet = {1}
  DtSet = {0, 1, 4}
  IntervalSet = {2, 3}
  PowerSet = {1}
  PriceSet = {1}
  StatusSet = {"avail"}
  ToffSet = {0}
  MaxH = 7
  MaxN = 0
  AllOrders = FALSE
  PPowerSet = {1}
  PTsSet = {0}
  PPriceSet = {1}
INIT MCInit
NEXT MissNext
SYMMETRY Sym
VIEW View
CONSTRAINT Bound
INVARIANTS Inv NoEndBlockError
PROPERTIES MCActivationRule MCDeactivationRule MCReporterSafe MCGraceSafe MCStatusStable MCVPriceRule MCPriceOnlyAtEndBlock MCPriceRule
CHECK_DEADLOCK FALSE
