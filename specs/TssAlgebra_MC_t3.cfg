\* quick facet t = 3: q = 11, n = 3, EVERY polynomial of degree < 3 (1331), every committee, one challenge value
\* one attempt, representative corruption kinds as transitions (the invariants quantify over all kinds)
\* measured: 35,937 distinct / 408,617 generated states, 35 s
CONSTANTS
  Q = 11
  NSet = {3}
  TMin = 3
  TMax = 3
  PolyMode = "all"
  NonceD = {2}
  NonceE = {1}
  RhoSet = {3}
  CSet = {7}
  MaxAttempt = 1
  Period = 1
  MinHigh = 0
  SecrecyOn = TRUE
  MaxH = 2
  AscOnly = TRUE
  MCKinds = {"none", "scalar", "nonceOther"}
SPECIFICATION MCSpec
VIEW View
CONSTRAINT Bound
INVARIANTS Safety
PROPERTIES BadNeverStored SuccessRule CompleteSucceeds SigImmutable Final GroupFixed
CHECK_DEADLOCK FALSE
