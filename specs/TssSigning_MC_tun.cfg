\* facet: tunnel packets create signings after the tss end-blocker of the same block (after retries, with the flags left by the expiry phase); 2 signings, h<=4
CONSTANTS
  Member = {m1, m2, m3}
  Stranger = {}
  TSet = {2}
  MaxSig = 2
  MaxSerial = 3
  MaxDESet = {2}
  MaxAttSet = {2}
  PeriodSet = {1}
  PenaltySet = {1}
  KSet = {1, 2}
  PreSet = {0}
  PostSet = {0, 1}
  TransOn = FALSE
  MaxH = 4
INIT Init
NEXT NextMC
SYMMETRY Sym
VIEW View
CONSTRAINT Bound
INVARIANTS Inv OnTime BoundedTermination
PROPERTIES AssignFromHead Fifo QueueStep Eligible RejectedNoChange GhostExact CreationExact DEPartOK Status Attempt NoEarlyTimeout ExactTimeout NewAttempt Success Timeout Penalty Signed Callback TransitionStep
CHECK_DEADLOCK FALSE
