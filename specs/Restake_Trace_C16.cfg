\* C16: delegations, stakes, locks + by-power index, vault flags and the module balance are checked; the outcomes
\* of every restake / staking / lock / vault step are owned.  The allowed denoms are an input.  Nothing of x/feeds
\* is looked at except the lock a vote leaves under the vault "feeds" (bounded, not predicted).
CONSTANTS
  Acct = {"a1", "a2", "a3", "o1", "o2"}
  Val = {"v1", "v2", "v3"}
  Vault = {"k1", "k2", "feeds"}
  Denom = {"d1", "d2"}
  CoinSet <- TCoins
  AmtSet = {}
  LockSet = {}
  U64Lim = 200000000
  TraceFile = "trace.ndjson"
  Checked = {"deleg", "stake", "vault", "lock", "lidx", "modBal", "power"}
  Owned = {"Stake", "Unstake", "Delegate", "Undelegate", "Redelegate", "SetLock", "Vote", "Deactivate"}
SPECIFICATION TraceSpec
INVARIANTS TInv
PROPERTIES TWithdrawGuard TRejUnchanged TLockRule TVaultRule TBackingStep
POSTCONDITION TraceAccepted
CHECK_DEADLOCK FALSE
