\* C06: the price store and the results of the pure functions are checked, and that an accepted submission is stored
\* as sent with the block's time and height ("vpstamp": freshness is measured from it); validator statuses, the rest of
\* the stored validator prices and submission outcomes are assumed as observed
CONSTANTS
  Val = {"v1", "v2", "v3", "v4"}
  Stranger = {"x1"}
  Sig = {"s1", "s2"}
  GraceSet = {1}
  CoolSet = {1}
  DiscSet = {1}
  UpdSet = {1}
  QuorumSet = {1}
  PenaltySet = {1}
  DtSet = {1}
  IntervalSet = {1}
  PowerSet = {1}
  PriceSet = {1}
  StatusSet = {"avail"}
  ToffSet = {0}
  TraceFile = "trace.ndjson"
  Checked = {"price", "vpstamp"}
  Owned = {"Calc", "EndBlock"}
SPECIFICATION TraceSpec
INVARIANTS TInvPrice
PROPERTIES TPriceRule TPriceOnlyAtEndBlock
POSTCONDITION TraceAccepted
CHECK_DEADLOCK FALSE
