-------------------------- MODULE TssSigning_Trace --------------------------
(***************************************************************************)
(* Trace validation for TssSigning.tla.  Every line of the ndjson file was *)
(* recorded from the real x/tss + x/bandtss code (harness/fam_tsssigning). *)
(*                                                                         *)
(* Each line is consumed in two TLC steps (as in Oracle_Trace):            *)
(*   Act  - if the event (or the facet of it) is OWNED by the property     *)
(*          being checked, the spec action must be enabled with the logged *)
(*          arguments and produce the logged outcome;                      *)
(*   Sync - every CHECKED variable must equal the projection of the real   *)
(*          state; every other logged variable adopts the observed value.  *)
(*                                                                         *)
(* Two events have two facets, because both properties speak about them:   *)
(*   "Request"          C05: accepted iff >= T members are available; the  *)
(*                      committee is eligible and gets its queue heads     *)
(*   "Request.create"   C10: the creation as observed (committee, id) with *)
(*                      the life-cycle bookkeeping of the specification    *)
(*   "EndBlock"         C10: aggregation, FIFO expiry, penalties, clean-   *)
(*                      up, retry-or-FALLEN; committees as the code drew   *)
(*   "EndBlock.assign"  C05: the assignments the end-block made (as        *)
(*                      observed: which signings, in which order) follow   *)
(*                      the queue discipline (TssSigning!DEPart)           *)
(* A cfg that owns only one facet assumes the other as observed.  In the   *)
(* life-cycle facet the creations of an end-block (oracle results, the     *)
(* hand-over message of a group transition, tunnel packets) are taken as   *)
(* observed: how many, with which committees, at their place in the order. *)
(***************************************************************************)
EXTENDS TssSigning, Json

CONSTANTS TraceFile, Checked, Owned
TraceLog == ndJsonDeserialize(TraceFile)

VARIABLES l, ph
tvars == <<vars, l, ph>>

ToSet(s) == {s[i] : i \in 1..Len(s)}

Line == TraceLog[l]
Outcome == IF Line.o.ok THEN "ok" ELSE "rej"

(* ---- the projected state of a line, in the shape of the spec variables ---- *)
LParams(st) == [t |-> st.p.t, maxDE |-> st.p.maxDE, maxAtt |-> st.p.maxAtt, period |-> st.p.period, penalty |-> st.p.penalty]
LQ(st)      == [a \in Addr |-> st.q[a]]
LNser(st)   == [a \in Addr |-> st.nser[a]]
LTss(st)    == [g \in Grp |-> [m \in Member |-> st.tssAct[g][m]]]
LOwn(st)    == [g \in Grp |-> [m \in Member |-> st.ownAct[g][m]]]
LCool(st)   == [g \in Grp |-> [m \in Member |-> st.cool[g][m]]]
LSig(st)    == [id \in Ids |-> IF id <= st.count
                               THEN [status |-> st.sig[id].status, attempt |-> st.sig[id].attempt, created |-> st.sig[id].created,
                                     grp |-> st.sig[id].grp]
                               ELSE NoSig]
\* more than one stored attempt record for a signing can never equal a state of the specification
LAtt(st)    == [id \in Ids |->
                  IF id > st.count \/ Len(st.att[id]) = 0 THEN NoAtt
                  ELSE IF Len(st.att[id]) > 1 THEN [present |-> TRUE, a |-> -1, mem |-> {}, expH |-> 0, signed |-> {}]
                  ELSE LET r == st.att[id][1] IN
                       [present |-> TRUE, a |-> r.a, mem |-> ToSet(r.mem), expH |-> r.expH, signed |-> ToSet(r.signed)]]
AsgOf(lst)  == [m \in {lst[i].m : i \in 1..Len(lst)} |-> lst[CHOOSE i \in 1..Len(lst) : lst[i].m = m].s]
LTok(st)    == [id \in Ids |-> IF id <= st.count /\ st.tok[id].a > 0
                               THEN [a |-> st.tok[id].a, asg |-> AsgOf(st.tok[id].asg)] ELSE NoTok]
LExps(st)   == [i \in 1..Len(st.exps) |-> <<st.exps[i][1], st.exps[i][2]>>]
LMapped(st) == [id \in Ids |-> id <= st.count /\ st.mapped[id]]
LCnt(st, f) == [id \in Ids |-> IF id <= st.count THEN f[id] ELSE 0]

RetsObs == [i \in 1..Len(Line.o.ret) |-> [id |-> Line.o.ret[i].id, a |-> Line.o.ret[i].a, g |-> Line.o.ret[i].g,
                                          S |-> ToSet(Line.o.ret[i].S), post |-> Line.o.ret[i].post]]
PObs    == [id \in 1..(MaxSig + 2) |->
               IF \E i \in 1..Len(Line.o.ret) : Line.o.ret[i].id = id
               THEN LET r == Line.o.ret[CHOOSE i \in 1..Len(Line.o.ret) : Line.o.ret[i].id = id]
                    IN [S |-> ToSet(r.S), g |-> r.g]
               ELSE NoP]
PenObs  == {<<Line.o.pen[i].g, Line.o.pen[i].m>> : i \in 1..Len(Line.o.pen)}
AnyPr   == CHOOSE pr \in Prios : TRUE

TraceInit == Init /\ l = 1 /\ ph = "act"

ResetVars(st) ==
    /\ st.count = 0
    /\ h' = st.h /\ params' = LParams(st)
    /\ q' = LQ(st) /\ nser' = LNser(st)
    /\ tssAct' = LTss(st) /\ ownAct' = LOwn(st) /\ cool' = LCool(st)
    /\ count' = 0
    /\ sig' = [id \in Ids |-> NoSig] /\ att' = [id \in Ids |-> NoAtt] /\ tok' = [id \in Ids |-> NoTok]
    /\ exps' = <<>> /\ pend' = <<>>
    /\ mapped' = [id \in Ids |-> FALSE] /\ nSucc' = [id \in Ids |-> 0] /\ nFail' = [id \in Ids |-> 0]
    /\ tr' = st.tr /\ st.tr = "none" /\ trSig' = 0
    /\ out' = "init" /\ pen' = {} /\ ret' = <<>>
    /\ usedBy' = [t \in Token |-> {}]
    /\ pchg' = [p |-> FALSE, a |-> FALSE, d |-> FALSE]

\* a step this property does not decide: nothing is claimed, Sync adopts what was observed
Skip == /\ out' = Outcome /\ pen' = {} /\ ret' = <<>>
        /\ UNCHANGED <<core, usedBy, pchg>>

TSubmitDEs == Line.a.a \in Addr /\ SubmitDEs(Line.a.a, Line.a.k) /\ out' = Outcome
TResetDE   == Line.a.a \in Addr /\ ResetDE(Line.a.a) /\ out' = Outcome
TSubmitSig == Line.a.m \in Addr /\ SubmitSig(Line.a.m, Line.a.id, Line.a.valid) /\ out' = Outcome
TActivate  == Line.a.a \in Addr /\ Line.a.g \in Grp /\ Activate(Line.a.a, Line.a.g) /\ out' = Outcome
TTransition == Transition /\ out' = Outcome
TRollback  == ~Line.o.ok /\ RequestRollback

\* a signing request inside a block (MsgRequestSignature or MsgTriggerTunnel)
TRequest ==
    IF "Request" \in Owned
    THEN \/ /\ Line.o.ok /\ Len(Line.o.ret) >= 1
            /\ PObs[count + 1].S \subseteq Avail(q, tssAct[1]) /\ Cardinality(PObs[count + 1].S) = T
            /\ \E pr \in Prios : RequestEffect(pr, PObs, FALSE)
            /\ ret' = RetsObs
         \/ /\ ~Line.o.ok
            /\ RequestRej
    ELSE IF "Request.create" \in Owned
    THEN \/ /\ Line.o.ok /\ Len(Line.o.ret) >= 1
            /\ RequestEffect(AnyPr, PObs, TRUE)
            /\ ret' = RetsObs
         \/ /\ ~Line.o.ok
            /\ Rejected
    ELSE Skip

\* the end-block of block h; the next block's header follows
TEndBlock ==
    /\ Line.o.ok
    /\ IF "EndBlock" \in Owned
       THEN /\ \E pr \in Prios : EndBlockP(Line.o.npre, Line.o.npost, pr, PObs, TRUE, Line.o.hand)
            /\ pen' = PenObs
            /\ ("EndBlock.assign" \in Owned) => (ret' = RetsObs /\ DEPart(RetsObs, tssAct, tssAct'))
       ELSE IF "EndBlock.assign" \in Owned
       THEN /\ tssAct' = LTss(Line.s) /\ ownAct' = LOwn(Line.s)
            /\ DEPart(RetsObs, tssAct, LTss(Line.s))
            /\ ret' = RetsObs /\ pen' = {} /\ out' = "ok"
            /\ h' = h + 1
            /\ UNCHANGED <<params, nser, cool, sig, att, exps, pend, mapped, nSucc, nFail, tr, trSig, pchg>>
       ELSE /\ h' = h + 1 /\ out' = "ok" /\ pen' = {} /\ ret' = <<>>
            /\ UNCHANGED <<params, q, nser, tssAct, ownAct, cool, count, sig, att, tok, exps, pend, mapped, nSucc, nFail, tr, trSig, usedBy, pchg>>

\* environment: governance changed signing_period (always applied as given)
TSetPeriod == IF Line.a.p = params.period THEN Skip ELSE SetPeriod(Line.a.p)
TSetMaxDE == IF Line.a.m = params.maxDE THEN Skip ELSE SetMaxDE(Line.a.m)
TSetMaxAtt == IF Line.a.m = params.maxAtt THEN Skip ELSE SetMaxAtt(Line.a.m)

Act ==
    /\ ph = "act" /\ l <= Len(TraceLog)
    /\ ph' = "sync" /\ l' = l
    /\ CASE Line.e = "Reset"           -> ResetVars(Line.s)
         [] Line.e = "SetPeriod"       -> TSetPeriod
         [] Line.e = "SetMaxAtt"       -> TSetMaxAtt
         [] Line.e = "SetMaxDE"        -> TSetMaxDE
         [] Line.e = "EndBlock"        -> TEndBlock
         [] Line.e = "Request"         -> TRequest
         [] Line.e = "SubmitDEs"       -> IF "SubmitDEs" \in Owned THEN TSubmitDEs ELSE Skip
         [] Line.e = "ResetDE"         -> IF "ResetDE" \in Owned THEN TResetDE ELSE Skip
         [] Line.e = "RequestRollback" -> IF "RequestRollback" \in Owned THEN TRollback ELSE Skip
         [] Line.e = "SubmitSig"       -> IF "SubmitSig" \in Owned THEN TSubmitSig ELSE Skip
         [] Line.e = "Activate"        -> IF "Activate" \in Owned THEN TActivate ELSE Skip
         [] Line.e = "Transition"      -> IF "Transition" \in Owned THEN TTransition ELSE Skip

\* checked variable: must equal the observation; unchecked: adopt the observation
Bind(name, cur, nxt, obs) == IF name \in Checked THEN cur = obs /\ nxt = cur ELSE nxt = obs

Sync ==
    /\ ph = "sync"
    /\ ph' = "act" /\ l' = l + 1
    /\ LET st == Line.s IN
        /\ st.count <= MaxSig
        /\ h = st.h /\ UNCHANGED h                              \* the block clock is always an input
        /\ params' = LParams(st)                                \* parameters are environment
        /\ Bind("q", q, q', LQ(st))
        /\ Bind("nser", nser, nser', LNser(st))
        \* the store holds exactly the queued pairs: no stale DE entry, none missing
        /\ ("deN" \in Checked) => \A a \in Addr : st.deN[a] = Len(st.q[a])
        /\ Bind("tok", tok, tok', LTok(st))
        \* the stored attempt record carries the pairs the request_signature event announced
        /\ ("tok" \in Checked) => \A id \in 1..st.count : \A i \in 1..Len(st.att[id]) : st.att[id][i].tokOK
        /\ Bind("tssAct", tssAct, tssAct', LTss(st))
        /\ Bind("ownAct", ownAct, ownAct', LOwn(st))
        /\ Bind("cool", cool, cool', LCool(st))
        /\ Bind("count", count, count', st.count)
        /\ Bind("sig", sig, sig', LSig(st))
        /\ Bind("att", att, att', LAtt(st))
        \* interim data: the signature counter agrees with the stored partial signatures, and nothing
        \* (partial signature, counter) is stored for an attempt that has no record
        /\ ("att" \in Checked) => \A id \in 1..st.count :
                /\ ~st.leak[id]
                /\ \A i \in 1..Len(st.att[id]) : st.att[id][i].cnt = Len(st.att[id][i].signed)
        /\ Bind("exps", exps, exps', LExps(st))
        /\ Bind("pend", pend, pend', st.pend)
        /\ Bind("mapped", mapped, mapped', LMapped(st))
        /\ Bind("nSucc", nSucc, nSucc', LCnt(st, st.nSucc))
        /\ Bind("nFail", nFail, nFail', LCnt(st, st.nFail))
        /\ Bind("tr", tr, tr', st.tr)
    /\ UNCHANGED <<out, pen, ret, usedBy, pchg, trSig>>

TraceNext == Act \/ Sync
TraceSpec == TraceInit /\ [][TraceNext]_tvars

TraceAccepted ==
    LET d == TLCGet("stats").diameter IN
    IF d - 1 = 2 * Len(TraceLog) THEN TRUE
    ELSE Print(<<"TRACE_REJECTED_AT_LINE", (d + 1) \div 2, "PHASE", IF d % 2 = 1 THEN "act" ELSE "sync", "OF", Len(TraceLog)>>, FALSE)

\* the bounds of the trace spec must not be what stops the implementation
TraceBoundOK == count + 3 <= MaxSig /\ \A a \in Addr : nser[a] < MaxSerial

\* invariants are evaluated on the states between lines (after Sync)
AtLine == ph = "act"
InvC05T == NoReuse /\ QueueFresh /\ QueueBound /\ TokSound /\ TokCount
TInvC05 == AtLine => InvC05T
TInvC10 == AtLine => (InvC10 /\ OnTime /\ BoundedTermination)

\* the action properties of TssSigning, on every Act step that is not a Reset
Exempt == ph = "sync" \/ (l <= Len(TraceLog) /\ TraceLog[l].e = "Reset")
TAssignFromHead == [][Exempt \/ AssignFromHeadA]_tvars
TFifo == [][Exempt \/ FifoA]_tvars
TQueueStep == [][Exempt \/ QueueStepA]_tvars
TEligible == [][Exempt \/ EligibleA]_tvars
TRejectedNoChange == [][Exempt \/ RejectedA]_tvars
TGhostExact == [][Exempt \/ GhostA]_tvars
TCreationExact == [][Exempt \/ CreationA]_tvars
TStatus == [][Exempt \/ StatusA]_tvars
TAttempt == [][Exempt \/ AttemptA]_tvars
TNoEarlyTimeout == [][Exempt \/ NoEarlyTimeoutA]_tvars
TExactTimeout == [][Exempt \/ ExactTimeoutA]_tvars
TNewAttempt == [][Exempt \/ NewAttemptA]_tvars
TSuccess == [][Exempt \/ SuccessA]_tvars
TTimeout == [][Exempt \/ TimeoutA]_tvars
TPenalty == [][Exempt \/ PenaltyA]_tvars
TSigned == [][Exempt \/ SignedA]_tvars
TCallback == [][Exempt \/ CallbackA]_tvars
TTransitionStep == [][Exempt \/ TransitionA]_tvars
=============================================================================
