------------------------------ MODULE Cylinder ------------------------------
(***************************************************************************)
(* X03 (extension, DESIGN §6/§8.8) - the cylinder daemon's signing worker  *)
(* and nonce (DE) worker: cylinder/workers/signing/signing.go,             *)
(* cylinder/workers/de/de.go + helpers.go, with the local store            *)
(* (cylinder/store) and the message queue the sender worker drains.        *)
(*                                                                         *)
(* {"id": "X03",                                                           *)
(*  "title": "Cylinder: private nonces used once and kept while needed;    *)
(*            one correct share per assignment; nonce top-up stored first",*)
(*  "statement":                                                           *)
(*   (a) NONCE HYGIENE. A private nonce pair (d,e) of the local store is   *)
(*   used for the share of at most one signing attempt (sid, attempt); it  *)
(*   leaves the local store exactly when the daemon handles a chain event  *)
(*   that reports its public pair used by this member (submit_signature)   *)
(*   or deleted (de_deleted); the daemon queues a share only for an attempt *)
(*   that assigns it a pair (D,E) whose private part it holds; every pair  *)
(*   the chain still holds for the member (queued, or assigned and not yet *)
(*   signed) has its private part in the local store.                      *)
(*   (b) ONE SHARE PER ASSIGNMENT. Whenever the daemon handles a           *)
(*   request_signature notification or a start-up replay for signing sid   *)
(*   and its query succeeds: if the current attempt of sid assigns this    *)
(*   member, the chain holds no share of it yet, the private pair is in    *)
(*   the store and no share for that attempt is waiting in the queue, then *)
(*   - the first time - it queues exactly one MsgSubmitSignature with the  *)
(*   member's correct share (the chain's SubmitSignature accepts it while  *)
(*   the attempt is open); if a share for that attempt had been queued     *)
(*   before and was lost (see (d)) it may queue it again.  In every other  *)
(*   case - not assigned, attempt closed or pruned, unknown id, pair not   *)
(*   held, share already queued or already on chain - it queues nothing.   *)
(*   So the queue never holds two shares for one attempt and never a share *)
(*   the chain already has, whatever the order, lateness or duplication of *)
(*   notifications.                                                        *)
(*   (c) TOP-UP. An interval step whose queries succeed and which sees     *)
(*   c < 2*MinDE pairs queued on chain queues exactly one MsgSubmitDEs     *)
(*   with exactly 2*MinDE - c pairs; with c >= 2*MinDE nothing. After      *)
(*   MinDE assignment notifications since the last top-up it queues MinDE  *)
(*   pairs. Every submitted pair is fresh (never submitted before) and its *)
(*   private part is in the local store BEFORE the message is queued, so a *)
(*   crash at any point of the update leaves no public pair without its    *)
(*   private part. While the schedule is calm (no interval step while a    *)
(*   MsgSubmitDEs is in flight or a notification is undelivered, no        *)
(*   duplicated notification) on-chain + in-flight pairs never exceed      *)
(*   2*MinDE, hence with 2*MinDE <= MaxDESize the chain accepts every      *)
(*   MsgSubmitDEs.                                                         *)
(*   (d) FAILURES. No step crashes the daemon. A failed DE-count or member *)
(*   query leaves the top-up to the next interval step (nothing is lost);  *)
(*   a failed signing query, a message the sender gives up on, or a        *)
(*   notification missed while the daemon is down are where the code gives *)
(*   up: the obligation (b) is then re-established only by another         *)
(*   notification or a start-up replay for the same attempt.",             *)
(*  "quantifier": {"over": ["histories","schedules","fault_sequences",     *)
(*                 "configurations"]},                                     *)
(*  "observe_at": ["MsgCh", "local DE store", "MsgSubmitSignature /        *)
(*                 MsgSubmitDEs handlers"]}                                *)
(*                                                                         *)
(* The chain side (queue of the member's public pairs, signings, attempts, *)
(* assignments) is ENVIRONMENT here: it is the subject of C03/C05/C10. It  *)
(* is modelled only as far as the daemon's obligations and the acceptance  *)
(* of what it submits depend on it.  Nonce pairs are abstract tokens       *)
(* 1,2,3,... numbered in the order the daemon stores them.                 *)
(***************************************************************************)
EXTENDS Integers, Sequences, FiniteSets, TLC

CONSTANTS NSig,      \* signing ids 1..NSig
          MaxAtt,    \* attempts 1..MaxAtt
          MaxTok     \* tokens 1..MaxTok (bound of the model, not of the code)

Sigs == 1..NSig
Toks == 1..MaxTok
Keys == Sigs \X (1..MaxAtt)

VARIABLES
    par,      \* [minDE, maxDE, gas]: daemon config min-de, chain param MaxDESize, gas prices configured
    \* ---- chain (environment) ----
    cq,       \* the member's queue of public pairs on chain (sequence of tokens)
    sg,       \* signing id -> [a, open, me, de, signed]: current attempt (0 = no such signing), its data still on
              \* chain, assigns this member, with which pair, the member's share is recorded
    pendN,    \* assignment notifications emitted for the member and not yet handled by the DE worker
    evDE,     \* pairs for which the chain emitted submit_signature (by this member) or de_deleted
    \* ---- daemon ----
    priv,     \* tokens whose private part is in the local store
    mq,       \* the message queue (MsgCh), oldest first
    cnt,      \* DE worker: cntUsed
    nextTok,  \* number of pairs stored so far (the next stored pair is token nextTok+1)
    \* ---- ghosts ----
    usedFor,  \* token -> set of (sid, attempt) a share was made for with it
    everSub,  \* tokens ever put into a MsgSubmitDEs
    sentKeys, \* (sid, attempt) for which a share was queued at some time
    calm,     \* the schedule has been calm so far (see (c))
    out       \* outcome of the last Land: "ok" | "rej" | "-"

chainVars  == <<cq, sg, pendN, evDE>>
daemonVars == <<priv, mq, cnt, nextTok>>
ghostVars  == <<usedFor, everSub, sentKeys, calm>>
vars == <<par, chainVars, daemonVars, ghostVars, out>>

NoSig == [a |-> 0, open |-> FALSE, me |-> FALSE, de |-> 0, signed |-> FALSE]
SigMsg(sid, a, d) == [k |-> "sig", sid |-> sid, a |-> a, de |-> d, good |-> TRUE]
DesMsg(ds)        == [k |-> "des", des |-> ds, pre |-> TRUE]

Range(s) == {s[i] : i \in 1..Len(s)}
Drop(s, n) == SubSeq(s, n + 1, Len(s))
M2 == 2 * par.minDE

RECURSIVE SumDes(_)
SumDes(s) == IF s = <<>> THEN 0 ELSE (IF Head(s).k = "des" THEN Len(Head(s).des) ELSE 0) + SumDes(Tail(s))
InflightDE == SumDes(mq)
SigInQueue(sid, a) == \E i \in 1..Len(mq) : mq[i].k = "sig" /\ mq[i].sid = sid /\ mq[i].a = a

TypeOK ==
    /\ par \in [minDE : 1..8, maxDE : 1..64, gas : BOOLEAN]
    /\ cq \in Seq(Toks) /\ pendN \in Nat /\ evDE \subseteq Toks
    /\ sg \in [Sigs -> [a : 0..MaxAtt, open : BOOLEAN, me : BOOLEAN, de : 0..MaxTok, signed : BOOLEAN]]
    /\ priv \subseteq Toks /\ cnt \in Nat /\ nextTok \in 0..MaxTok
    /\ \A i \in 1..Len(mq) :
          \/ mq[i].k = "sig" /\ mq[i].sid \in Sigs /\ mq[i].a \in 1..MaxAtt /\ mq[i].de \in Toks /\ mq[i].good \in BOOLEAN
          \/ mq[i].k = "des" /\ mq[i].des \in Seq(Toks) /\ mq[i].pre \in BOOLEAN
    /\ usedFor \in [Toks -> SUBSET Keys] /\ everSub \subseteq Toks /\ sentKeys \subseteq Keys /\ calm \in BOOLEAN
    /\ out \in {"-", "ok", "rej"}

Init0 ==
    /\ cq = <<>> /\ sg = [s \in Sigs |-> NoSig] /\ pendN = 0 /\ evDE = {}
    /\ priv = {} /\ mq = <<>> /\ cnt = 0 /\ nextTok = 0
    /\ usedFor = [t \in Toks |-> {}] /\ everSub = {} /\ sentKeys = {} /\ calm = TRUE /\ out = "-"

-----------------------------------------------------------------------------
(* The signing worker: handleSigning(sid), one call per notification / replay *)

\* q: "ok" | "fail" - the QuerySigning call.  The code gives up on a failed query (logs and returns).
\* `due`: the attempt waits for this member's share, the private pair is held, no share for it is queued.
\* The first time this holds the share MUST be queued.  If a share for the attempt was queued before and is gone
\* (the sender gave up on it, its transaction was refused, the process restarted) the worker MAY queue it again:
\* that is where the code gives up, a later notification may or may not repair it.
HandleSigning(sid, q) ==
    LET s == IF sid \in Sigs THEN sg[sid] ELSE NoSig
        due == /\ q = "ok" /\ s.a > 0 /\ s.open /\ s.me /\ ~s.signed
               /\ s.de \in priv
               /\ ~SigInQueue(sid, s.a)
        send == /\ mq' = Append(mq, SigMsg(sid, s.a, s.de))
                /\ usedFor' = [usedFor EXCEPT ![s.de] = @ \cup {<<sid, s.a>>}]
                /\ sentKeys' = sentKeys \cup {<<sid, s.a>>}
        skip == UNCHANGED <<mq, usedFor, sentKeys>>
    IN  /\ IF due THEN (IF <<sid, s.a>> \in sentKeys THEN send \/ skip ELSE send) ELSE skip
        /\ out' = "-"
        /\ UNCHANGED <<par, chainVars, priv, cnt, nextTok, everSub, calm>>

-----------------------------------------------------------------------------
(* The DE worker *)

MemberOK(qmem) == par.gas \/ qmem = "ok"      \* canUpdateDE: gas prices configured, or the member query says "member"

\* updateDE(n): n fresh pairs, each stored BEFORE the message is queued
NewToks(n) == [i \in 1..n |-> nextTok + i]
UpdateDE(n, qmem) ==
    IF MemberOK(qmem) /\ n > 0
    THEN /\ nextTok + n <= MaxTok
         /\ priv' = priv \cup Range(NewToks(n))
         /\ mq' = Append(mq, DesMsg(NewToks(n)))
         /\ nextTok' = nextTok + n
         /\ everSub' = everSub \cup Range(NewToks(n))
    ELSE UNCHANGED <<priv, mq, nextTok, everSub>>

\* intervalUpdateDE: the ticker branch (and the call at start-up).  qde: the DE-count query.
Tick(qde, qmem) ==
    /\ IF qde = "ok" /\ Len(cq) < M2
       THEN /\ UpdateDE(M2 - Len(cq), qmem)
            /\ cnt' = 0
            /\ calm' = (calm /\ InflightDE = 0 /\ pendN = 0)
       ELSE UNCHANGED <<priv, mq, nextTok, everSub, cnt, calm>>
    /\ out' = "-"
    /\ UNCHANGED <<par, chainVars, usedFor, sentKeys>>

\* one assignment notification (dup: a notification that was already handled is delivered again)
AssignEv(dup, qmem) ==
    /\ dup \/ pendN > 0
    /\ pendN' = IF dup THEN pendN ELSE pendN - 1
    /\ IF cnt + 1 >= par.minDE
       THEN UpdateDE(cnt + 1, qmem) /\ cnt' = 0
       ELSE UNCHANGED <<priv, mq, nextTok, everSub>> /\ cnt' = cnt + 1
    /\ calm' = (calm /\ ~dup)
    /\ out' = "-"
    /\ UNCHANGED <<par, cq, sg, evDE, usedFor, sentKeys>>

\* deleteDE for every pair of a submit_signature / de_deleted event of this member
DeleteDE(D) ==
    /\ D \subseteq evDE
    /\ priv' = priv \ D
    /\ out' = "-"
    /\ UNCHANGED <<par, chainVars, mq, cnt, nextTok, ghostVars>>

\* the process dies and is started again: memory (queue, counter) is lost, the local store is kept;
\* notifications emitted meanwhile are not delivered (subscriptions are not durable)
Crash ==
    /\ mq' = <<>> /\ cnt' = 0 /\ pendN' = 0
    /\ out' = "-"
    /\ UNCHANGED <<par, cq, sg, evDE, priv, nextTok, ghostVars>>

\* the process dies inside updateDE after k of the n pairs were stored: nothing was queued
CrashInUpdate(k) ==
    /\ k >= 1 /\ nextTok + k <= MaxTok
    /\ priv' = priv \cup {nextTok + i : i \in 1..k}
    /\ nextTok' = nextTok + k
    /\ mq' = <<>> /\ cnt' = 0 /\ pendN' = 0
    /\ out' = "-"
    /\ UNCHANGED <<par, cq, sg, evDE, ghostVars>>

\* ... the same, named by the step during which it happened (trace validation)
CrashInUpdateVia(via, k, qmem) ==
    /\ MemberOK(qmem)
    /\ \/ via = "tick"   /\ Len(cq) < M2 /\ k <= M2 - Len(cq)
       \/ via = "assign" /\ cnt + 1 >= par.minDE /\ k <= cnt + 1
    /\ CrashInUpdate(k)

-----------------------------------------------------------------------------
(* The sender worker and the chain's handlers: the first n queued messages are *)
(* one transaction (all or nothing)                                            *)

\* running the messages in order on (queue, signed-set): [ok, cq, sgn]
RECURSIVE Run(_, _, _)
Run(ms, q, sgn) ==
    IF ms = <<>> THEN [ok |-> TRUE, cq |-> q, sgn |-> sgn]
    ELSE LET m == Head(ms) IN
         IF m.k = "des"
         THEN IF Len(q) + Len(m.des) <= par.maxDE THEN Run(Tail(ms), q \o m.des, sgn)
              ELSE [ok |-> FALSE, cq |-> q, sgn |-> sgn]
         ELSE LET s == sg[m.sid] IN
              IF s.a = m.a /\ s.open /\ s.me /\ ~s.signed /\ m.sid \notin sgn /\ m.good /\ s.de = m.de
              THEN Run(Tail(ms), q, sgn \cup {m.sid})
              ELSE [ok |-> FALSE, cq |-> q, sgn |-> sgn]

Land(n) ==
    /\ n \in 1..Len(mq)
    /\ LET r == Run(SubSeq(mq, 1, n), cq, {}) IN
         IF r.ok
         THEN /\ cq' = r.cq
              /\ sg' = [s \in Sigs |-> IF s \in r.sgn THEN [sg[s] EXCEPT !.signed = TRUE] ELSE sg[s]]
              /\ evDE' = evDE \cup {sg[s].de : s \in r.sgn}
              /\ out' = "ok"
         ELSE /\ UNCHANGED <<cq, sg, evDE>> /\ out' = "rej"
    /\ mq' = Drop(mq, n)
    /\ UNCHANGED <<par, pendN, priv, cnt, nextTok, ghostVars>>

\* the sender gives up on the first n messages (broadcast failed max-try times)
GiveUp(n) ==
    /\ n \in 1..Len(mq)
    /\ mq' = Drop(mq, n)
    /\ out' = "-"
    /\ UNCHANGED <<par, chainVars, priv, cnt, nextTok, ghostVars>>

-----------------------------------------------------------------------------
(* The chain as environment (MC only; in traces the chain state is adopted as observed) *)

Count == Cardinality({s \in Sigs : sg[s].a > 0})

Assign(sid, a, me) ==
    IF me THEN /\ cq # <<>>
               /\ sg' = [sg EXCEPT ![sid] = [a |-> a, open |-> TRUE, me |-> TRUE, de |-> Head(cq), signed |-> FALSE]]
               /\ cq' = Tail(cq) /\ pendN' = pendN + 1
    ELSE /\ sg' = [sg EXCEPT ![sid] = [a |-> a, open |-> TRUE, me |-> FALSE, de |-> 0, signed |-> FALSE]]
         /\ UNCHANGED <<cq, pendN>>

CRequest(me) ==
    /\ Count < NSig
    /\ Assign(Count + 1, 1, me)
    /\ out' = "-"
    /\ UNCHANGED <<par, evDE, daemonVars, ghostVars>>

\* the attempt expires: its data is pruned; either the signing is over, or a new attempt is made
CExpire(sid, retry, me) ==
    /\ sg[sid].a > 0 /\ sg[sid].open
    /\ IF retry /\ sg[sid].a < MaxAtt
       THEN Assign(sid, sg[sid].a + 1, me)
       ELSE /\ sg' = [sg EXCEPT ![sid].open = FALSE] /\ UNCHANGED <<cq, pendN>>
    /\ out' = "-"
    /\ UNCHANGED <<par, evDE, daemonVars, ghostVars>>

\* MsgResetDE by the member's operator
CReset ==
    /\ cq # <<>>
    /\ evDE' = evDE \cup Range(cq) /\ cq' = <<>>
    /\ out' = "-"
    /\ UNCHANGED <<par, sg, pendN, daemonVars, ghostVars>>

-----------------------------------------------------------------------------
(* Invariants = the property *)

\* (a) a private pair serves at most one attempt
NonceOnce == \A t \in Toks : Cardinality(usedFor[t]) <= 1
\* (a) every pair the chain still holds for the member has its private part
NoOrphan == Range(cq) \subseteq priv
CanSign  == \A s \in Sigs : (sg[s].a > 0 /\ sg[s].open /\ sg[s].me /\ ~sg[s].signed) => sg[s].de \in priv
\* (a)+(b) every queued share is for an attempt that assigned the member exactly that pair, with a correct share
SharesRight == \A i \in 1..Len(mq) : mq[i].k = "sig" => (mq[i].good /\ <<mq[i].sid, mq[i].a>> \in usedFor[mq[i].de])
\* (b) never two shares for one attempt in the queue, never a share for an attempt the member already signed
OneInFlight == \A i, j \in 1..Len(mq) :
    (i # j /\ mq[i].k = "sig" /\ mq[j].k = "sig") => <<mq[i].sid, mq[i].a>> # <<mq[j].sid, mq[j].a>>
NoResign == \A i \in 1..Len(mq) : mq[i].k = "sig" => ~(sg[mq[i].sid].a = mq[i].a /\ sg[mq[i].sid].signed)
\* (c) stored before queued; fresh, distinct pairs
StoreFirst == \A i \in 1..Len(mq) : mq[i].k = "des" => (mq[i].pre /\ Range(mq[i].des) \subseteq priv)
Fresh == /\ \A i \in 1..Len(mq) : mq[i].k = "des" =>
                /\ \A x, y \in 1..Len(mq[i].des) : x # y => mq[i].des[x] # mq[i].des[y]
                /\ Range(mq[i].des) \cap Range(cq) = {}
                /\ Range(mq[i].des) \subseteq everSub
         /\ \A i, j \in 1..Len(mq) : (i # j /\ mq[i].k = "des" /\ mq[j].k = "des") => Range(mq[i].des) \cap Range(mq[j].des) = {}
         /\ everSub \subseteq 1..nextTok
\* (c) while the schedule is calm the daemon's accounting is exact enough: never more than 2*MinDE pairs
CalmBound == calm => Len(cq) + InflightDE + cnt + pendN <= M2
DesAccepted == (calm /\ M2 <= par.maxDE) => Len(cq) + InflightDE <= par.maxDE

Inv == TypeOK /\ NonceOnce /\ NoOrphan /\ CanSign /\ SharesRight /\ OneInFlight /\ NoResign /\ StoreFirst /\ Fresh
         /\ CalmBound /\ DesAccepted

(* Action properties *)
\* the private store shrinks only by deleteDE and grows only by an update; the queue is FIFO
PrivRuleA == /\ priv' \subseteq priv \cup ((nextTok + 1)..nextTok')
             /\ priv \ priv' \subseteq evDE
QueueRuleA == \/ \E n \in 0..Len(mq) : mq' = Drop(mq, n)
              \/ /\ Len(mq') = Len(mq) + 1 /\ SubSeq(mq', 1, Len(mq)) = mq
                 /\ LET m == mq'[Len(mq')] IN
                      \/ m.k = "sig" /\ m.good
                      \/ m.k = "des" /\ m.pre /\ m.des = [i \in 1..Len(m.des) |-> nextTok + i] /\ nextTok' = nextTok + Len(m.des)
PrivRule  == [][PrivRuleA]_vars
QueueRule == [][QueueRuleA]_vars
=============================================================================
