----------------------------- MODULE Bandtss_Gen -----------------------------
(* GEN role for Bandtss.tla: `tlc -simulate` walks the spec and records each step as a script step.  Group and   *)
(* signing ids are allocated sequentially by the real code exactly as by the spec, so ids are written as they    *)
(* are; committees are never part of a script.  At depth Depth the script is appended to $GEN_OUT.               *)
EXTENDS Bandtss_MC, IOUtils, Json

CONSTANTS Depth
VARIABLE script
gvars == <<vars, script>>

SeqOf(S) == LET RECURSIVE F(_) F(T) == IF T = {} THEN <<>> ELSE LET x == CHOOSE x \in T : TRUE IN <<x>> \o F(T \ {x}) IN F(S)
Last == Len(script) >= Depth - 2

GInit == Init /\ script = <<>>

GNext ==
    \/ \E auth \in {"authority", "authority", "user"}, ms \in MemberMenu, thr \in 1..2, off \in ExecOffsets :
          /\ ~Last
          /\ (auth = "user" \/ tr.status # "NONE") => (off = 1 /\ thr = 1)     \* one canonical refused variant
          /\ Propose(auth, ms, thr, off)
          /\ script' = Append(script, [e |-> "Propose", auth |-> auth, ms |-> SeqOf(ms), thr |-> thr, off |-> off])
    \/ \E auth \in {"authority", "user"}, g \in Groups, off \in ExecOffsets :
          /\ ~Last /\ g <= gcount + 1
          /\ (auth = "user" \/ tr.status # "NONE" \/ g > gcount) => off = 1
          /\ Force(auth, g, off)
          /\ script' = Append(script, [e |-> "Force", auth |-> auth, g |-> g, off |-> off])
    \/ \E ms \in MemberMenu :
          /\ ~Last /\ InstallGroup(ms, 1)
          /\ script' = Append(script, [e |-> "Install", ms |-> SeqOf(ms), thr |-> 1])
    \/ \E g \in Groups, good \in BOOLEAN :
          /\ ~Last /\ DkgDone(g, good)
          /\ script' = Append(script, [e |-> "DkgDone", g |-> g, good |-> good])
    \/ \E g \in Groups, b \in BOOLEAN :
          /\ ~Last /\ g <= gcount /\ canSign[g] # b /\ SetCanSign(g, b) /\ out' = out
          /\ script' = Append(script, [e |-> "SetCanSign", g |-> g, b |-> b])
    \/ \E f \in FeeSet :
          /\ ~Last /\ SetFee(f)
          /\ script' = Append(script, [e |-> "SetFee", f |-> f])
    \/ \E p \in Payer \cup {"authority"}, limit \in LimitSet, lx \in {0, 2}, incOK \in BOOLEAN :
          \E S \in ComOrNone(current), SI \in ComOrNone(Incoming) :
          /\ ~Last /\ Request(p, limit, lx, S, incOK, SI)
          /\ script' = Append(script, [e |-> "Request", p |-> p, limit |-> limit, lx |-> lx])
    \/ \E id \in Sigs :
          /\ ~Last /\ SignAll(id)
          /\ script' = Append(script, [e |-> "SignAll", id |-> id])
    \/ \E dt \in DtSet : \E HS \in ComOrNone(current) :
          /\ Last => dt = 1
          /\ EndBlock(dt, HS)
          /\ script' = Append(script, [e |-> "EndBlock", dt |-> dt])

GSpec == GInit /\ [][GNext]_gvars

G1 == IF StartWithGroup THEN SeqOf(grp[1].mem) ELSE <<>>
Emit ==
    TLCGet("level") = Depth =>
        Serialize(<<[c |-> [period |-> par.period, create |-> par.create, fx |-> par.fx, fee |-> fee, startWithGroup |-> StartWithGroup, g1 |-> SeqOf(CHOOSE m \in MemberMenu : Cardinality(m) >= 2),
                           g1thr |-> 2, bal |-> [p1 |-> Bal0, p2 |-> Bal0]],
                     steps |-> script]>>,
                  IOEnv.GEN_OUT,
                  [format |-> "NDJSON", charset |-> "UTF-8", openOptions |-> <<"WRITE", "CREATE", "APPEND">>])
=============================================================================
