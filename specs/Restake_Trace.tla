---------------------------- MODULE Restake_Trace ----------------------------
(***************************************************************************)
(* Trace validation for Restake.tla.  Every line of the ndjson file was    *)
(* recorded from the real x/restake, x/staking and x/feeds code            *)
(* (harness/fam_restake).  Same two-phase structure as Oracle_Trace.tla:   *)
(*   Act  - an OWNED event must be explained by the spec action it names   *)
(*          with the logged arguments and the logged outcome; any other    *)
(*          event is a stutter;                                            *)
(*   Sync - every CHECKED variable must equal the projection of the real   *)
(*          state, the others adopt the observation.                       *)
(* `Reset` lines start a new trace.                                        *)
(***************************************************************************)
EXTENDS Restake, Json

CONSTANTS TraceFile, Checked, Owned
TraceLog == ndJsonDeserialize(TraceFile)

VARIABLES l, ph
tvars == <<vars, l, ph>>

TCoins == {}     \* CoinSet / AmtSet / LockSet are not used by the trace role

ToSet(s) == {s[i] : i \in 1..Len(s)}

Line == TraceLog[l]
Outcome == IF Line.o.ok THEN "ok" ELSE "rej"

ODeleg(st)  == [a \in Acct |-> [v \in Val |-> st.deleg[a][v]]]
OStake(st)  == [a \in Acct |-> [d \in Denom |-> st.stake[a][d]]]
OVault(st)  == [k \in Vault |-> st.vault[k]]
OLock(st)   == [a \in Acct |-> [k \in Vault |-> st.lock[a][k]]]
OLidx(st)   == [a \in Acct |-> {[p |-> st.lidx[a][i].p, k |-> st.lidx[a][i].k] : i \in 1..Len(st.lidx[a])}]
OModBal(st) == [d \in Denom |-> st.modBal[d]]
Coins(c)    == [d \in Denom |-> c[d]]

\* the index as iterated by the code (reverse iterator): powers never increase, no entry twice
IdxOrdered(st) == \A a \in Acct :
    /\ \A i \in 1..(Len(st.lidx[a]) - 1) : st.lidx[a][i].p >= st.lidx[a][i + 1].p
    /\ Cardinality(OLidx(st)[a]) = Len(st.lidx[a])

TraceInit == Init /\ allowed = {} /\ l = 1 /\ ph = "act"

ResetVars(st) ==
    /\ deleg' = ODeleg(st)
    /\ stake' = OStake(st)
    /\ allowed' = ToSet(st.allowed)
    /\ vault' = OVault(st)
    /\ lock' = OLock(st)
    /\ lidx' = OLidx(st)
    /\ modBal' = OModBal(st)
    /\ out' = "init"

TStake == LET a == Line.a IN IF Line.o.ok THEN StakeOK(a.a, Coins(a.c)) ELSE StakeRej(a.a, Coins(a.c))
TUnstake == Unstake(Line.a.a, Coins(Line.a.c)) /\ out' = Outcome
TDelegate == LET a == Line.a IN IF Line.o.ok THEN DelegateOK(a.a, a.v, a.n) ELSE DelegateRej(a.a, a.v, a.n)
TUndelegate == Undelegate(Line.a.a, Line.a.v, Line.a.n) /\ out' = Outcome
TRedelegate == LET a == Line.a IN IF Line.o.ok THEN RedelegateOK(a.a, a.v, a.w, a.n) ELSE RedelegateRej(a.a, a.v, a.w, a.n)
TSetLock == SetLock(Line.a.a, Line.a.k, Line.a.n) /\ out' = Outcome
\* MsgVote seen from the restake side: the feeds module locks an amount of its choosing (read from the
\* observation) in the vault "feeds"; C16 only bounds it
TVote == IF Line.o.ok THEN LockViaOK(Line.a.a, "feeds", Line.s.lock[Line.a.a]["feeds"]) ELSE LockViaRej(Line.a.a, "feeds")
TDeactivate == Deactivate(Line.a.k) /\ out' = Outcome

Act ==
    /\ ph = "act" /\ l <= Len(TraceLog)
    /\ ph' = "sync" /\ l' = l
    /\ IF Line.e = "Reset" THEN ResetVars(Line.s)
       ELSE IF Line.e \notin Owned THEN UNCHANGED vars
       ELSE CASE Line.e = "Stake"      -> TStake
              [] Line.e = "Unstake"    -> TUnstake
              [] Line.e = "Delegate"   -> TDelegate
              [] Line.e = "Undelegate" -> TUndelegate
              [] Line.e = "Redelegate" -> TRedelegate
              [] Line.e = "SetLock"    -> TSetLock
              [] Line.e = "Vote"       -> TVote
              [] Line.e = "Deactivate" -> TDeactivate

\* checked variable: must equal the observation; unchecked: adopt the observation
Bind(name, cur, nxt, obs) == IF name \in Checked THEN cur = obs /\ nxt = cur ELSE nxt = obs

Sync ==
    /\ ph = "sync"
    /\ ph' = "act" /\ l' = l + 1
    /\ LET st == Line.s IN
        /\ allowed' = ToSet(st.allowed)                 \* the allowed denoms are always an input
        /\ Bind("deleg", deleg, deleg', ODeleg(st))
        /\ Bind("stake", stake, stake', OStake(st))
        /\ Bind("vault", vault, vault', OVault(st))
        /\ Bind("lock", lock, lock', OLock(st))
        /\ Bind("lidx", lidx, lidx', OLidx(st))
        /\ ("lidx" \in Checked) => IdxOrdered(st)
        /\ Bind("modBal", modBal, modBal', OModBal(st))
        \* the code's notion of total power is the model's
        /\ ("power" \in Checked) => \A a \in Acct : st.power[a] = PowerOf(ODeleg(st), OStake(st), ToSet(st.allowed), a)
    /\ UNCHANGED out

TraceNext == Act \/ Sync
TraceSpec == TraceInit /\ [][TraceNext]_tvars

TraceAccepted ==
    LET d == TLCGet("stats").diameter IN
    IF d - 1 = 2 * Len(TraceLog) THEN TRUE
    ELSE Print(<<"TRACE_REJECTED_AT_LINE", (d + 1) \div 2, "PHASE", IF d % 2 = 1 THEN "act" ELSE "sync", "OF", Len(TraceLog)>>, FALSE)

\* invariants are evaluated on the states between lines (after Sync)
AtLine == ph = "act"
TInv == AtLine => Inv

\* the action properties of Restake, on every Act step that is not a Reset
Exempt == ph = "sync" \/ (l <= Len(TraceLog) /\ TraceLog[l].e = "Reset")
TWithdrawGuard == [][Exempt \/ WithdrawGuardA]_tvars
TRejUnchanged  == [][Exempt \/ RejUnchangedA]_tvars
TLockRule      == [][Exempt \/ LockRuleA]_tvars
TVaultRule     == [][Exempt \/ VaultRuleA]_tvars
TBackingStep   == [][Exempt \/ BackingStepA]_tvars
=============================================================================
