\* thorough facet: expiration 1..3, deeper horizon
CONSTANTS
  Val = {v1, v2, v3}
  Stranger = {}
  MaxReq = 2
  Units = 1
  ExpSet = {1, 2, 3}
  PenaltySet = {2}
  DtSet = {1}
  AskSet = {1, 2, 3}
  MinSet = {1, 2, 3}
  ShapeSet = {"exact", "missing", "extra", "wrongId", "perm", "dup", "dupAdj"}
  MaxH = 7
INIT InitActive
NEXT Next
SYMMETRY Sym
VIEW View
CONSTRAINT Bound
INVARIANTS Inv ExpiredOnTime
PROPERTIES ResultImmutable ResultOnlyAtEndBlock CursorMonotone ReportOnce ActivationRule DeactivationRule StatusStable ReporterSafe
CHECK_DEADLOCK FALSE
