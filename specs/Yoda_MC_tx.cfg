\* quick facet "transactions": start-up list P (any subset) and transactions carrying any sequence of the three
\* request ids, handleTransaction as written (return at the first pending id), under the snapshot assumption
CONSTANTS
  Req = {1, 2, 3}
  DS = {1}
  MaxTry = 3
  SliceBug = FALSE
  TxSkip = "return"
  AssumeSnapshot = TRUE
  NSet = {1}
  NSet2 = {1}
  WantSet = {"me", "other"}
  FReqSet = {0}
  FHashSet = {0}
  FDataSet = {0}
  LenSet = {5}
  CachedSet = {TRUE}
  DmgSet = {FALSE}
  KindSet = {"ok"}
  Modes = {"tx"}
  DeliverAnyTime = FALSE
SPECIFICATION MCSpec
VIEW View
INVARIANTS Inv ExactlyOnceAtEnd
PROPERTIES QueueAppendOnly DeliverOK
CHECK_DEADLOCK FALSE
