\* thorough facet with ids above 20: q = 23, n = 22, t <= 3, every committee that contains member 21 or 22
\* (the interpolation identity over ALL 1540 + 231 + 22 committees), three sampled polynomials per threshold
\* measured: 16,890 distinct / 2,496,372 generated states, 216 s (16 workers)
CONSTANTS
  Q = 23
  NSet = {22}
  TMin = 1
  TMax = 3
  PolyMode = "few"
  NonceD = {2}
  NonceE = {1}
  RhoSet = {3}
  CSet = {7}
  MaxAttempt = 1
  Period = 1
  MinHigh = 21
  SecrecyOn = TRUE
  MaxH = 2
  AscOnly = TRUE
  MCKinds = {"none", "scalar", "outsider"}
SPECIFICATION MCSpec
VIEW View
CONSTRAINT Bound
INVARIANTS Safety
PROPERTIES BadNeverStored SuccessRule CompleteSucceeds SigImmutable Final GroupFixed
CHECK_DEADLOCK FALSE
