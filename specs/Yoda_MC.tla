------------------------------ MODULE Yoda_MC ------------------------------
(***************************************************************************)
(* MC role for Yoda.tla: the scenario is chosen in the initial state from  *)
(* small sets (one facet per cfg); TLC then explores every interleaving of *)
(* handlers, workers, executor completions, transactions and deliveries.   *)
(***************************************************************************)
EXTENDS Yoda

CONSTANTS
    NSet,       \* numbers of raw requests of the least request id
    NSet2,      \* numbers of raw requests of the other requests
    WantSet,    \* subset of {"me", "other", "absent"}: request selects this validator / another / does not exist
    FReqSet, FHashSet, FDataSet,   \* failure budgets (0, 1..MaxTry-1, Always)
    LenSet, CachedSet, DmgSet,             \* executable lengths, initial cache content
    KindSet,    \* subset of {"ok", "nonZero", "error", "slow"}
    Modes,      \* subset of {"direct", "tx"}
    DeliverAnyTime  \* FALSE: reports are handed to the chain only when the daemon has finished (smaller state space)

NAll == NSet \cup NSet2
MaxN == CHOOSE n \in NAll : \A m \in NAll : m <= n
First == CHOOSE r \in Req : \A q \in Req : r <= q
NSetOf(r) == IF r = First THEN NSet ELSE NSet2

Outcome(kind, k) ==
    CASE kind = "ok"      -> [kind |-> "ok", code |-> 0, out |-> k]
      [] kind = "slow"    -> [kind |-> "slow", code |-> 0, out |-> k + 4]
      [] kind = "nonZero" -> [kind |-> "nonZero", code |-> 3, out |-> k + 8]
      [] kind = "error"   -> [kind |-> "error", code |-> 0, out |-> 0]

Choices ==
    [want : [Req -> WantSet], n : [Req -> NAll], dsOf : [Req -> [1..MaxN -> DS]], kind : [Req -> [1..MaxN -> KindSet]],
     fReq : [Req -> FReqSet], fHash : [DS -> FHashSet], fData : [DS -> FDataSet],
     len : [DS -> LenSet], cached : [DS -> CachedSet], dmg : [DS -> DmgSet]]

\* choices that differ only in unused positions give the same scenario; canonical form: unused positions
\* carry the least element
MinN(r) == CHOOSE n \in NSetOf(r) : \A m \in NSetOf(r) : n <= m
Canon(x) ==
    /\ \A d \in DS : x.dmg[d] => ~x.cached[d]
    /\ \A r \in Req : x.n[r] \in NSetOf(r)
    /\ \A r \in Req : x.want[r] # "me" => x.n[r] = MinN(r)      \* the raw requests of such a request are never looked at
    /\ \A r \in Req : \A k \in 1..MaxN : (k > x.n[r] \/ x.want[r] # "me") =>
          /\ x.dsOf[r][k] = CHOOSE d \in DS : \A e \in DS : d <= e
          /\ x.kind[r][k] = CHOOSE q \in KindSet : TRUE

Mk(x) ==
    [exists |-> [r \in Req |-> x.want[r] # "absent"],
     hasMe  |-> [r \in Req |-> x.want[r] = "me"],
     raws   |-> [r \in Req |-> IF x.want[r] = "absent" THEN <<>>
                               ELSE [k \in 1..x.n[r] |-> [eid |-> k - 1, ds |-> x.dsOf[r][k]]]],
     exec   |-> [r \in Req |-> IF x.want[r] = "absent" THEN <<>>
                               ELSE [k \in 1..x.n[r] |-> Outcome(x.kind[r][k], k)]],
     fReq   |-> x.fReq, fHash |-> x.fHash, fData |-> x.fData, len |-> x.len, cached |-> x.cached, dmg |-> x.dmg]

MCInit ==
    /\ \E x \in Choices : Canon(x) /\ sc = Mk(x)
    /\ Init0 /\ InitCache

Perms(S) == {s \in UNION {[1..n -> S] : n \in 1..Cardinality(S)} : \A i, j \in DOMAIN s : i # j => s[i] # s[j]}

MCNext ==
    \/ Internal
    \/ \E r \in Req : \E k \in 1..Len(wpc[r]) : WRelease(r, k)
    \/ (DeliverAnyTime \/ Finished) /\ \E i \in 1..Len(msgs) : Deliver(i)   \* Deliver reads only msgs (append-only): it commutes
    \/ "direct" \in Modes /\ \E r \in Req : Start({r})
    \/ "tx" \in Modes /\ \E P \in SUBSET Req : Startup(P)
    \/ "tx" \in Modes /\ booted /\ \E ids \in Perms(Req) : Tx(ids)

MCSpec == MCInit /\ [][MCNext]_vars

\* output-only variable kept out of the state identity
View == <<sc, booted, pend, announced, intx, txs, hpc, hidx, wpc, results, collected, cache, msgs, crashed, reported, delivered>>

\* every report of the spec is accepted by the chain the first time it is delivered
DeliverOK == [][\A i \in 1..Len(msgs) : Deliver(i) => out' = "ok"]_vars

\* liveness facet: under weak fairness of the daemon's own steps and of executor completions every
\* announced obliged request gets its report
Fair == WF_vars(Internal) /\ \A r \in Req : \A k \in 1..4 : WF_vars(WRelease(r, k))
LiveSpec == MCInit /\ [][MCNext]_vars /\ Fair
EveryObligedReported == \A r \in Req : (Obliged(r)) ~> (MsgsOf(r) # {})
=============================================================================
