\* thorough facet "transactions with failures": as Yoda_MC_tx with persistent GetRequest failures and a data source
\* that is fetched or cannot be fetched
CONSTANTS
  Req = {1, 2, 3}
  DS = {1}
  MaxTry = 3
  SliceBug = FALSE
  TxSkip = "return"
  AssumeSnapshot = TRUE
  NSet = {1}
  NSet2 = {1}
  WantSet = {"me", "other"}
  FReqSet = {0, 99}
  FHashSet = {0}
  FDataSet = {0, 99}
  LenSet = {5}
  CachedSet = {FALSE}
  DmgSet = {FALSE}
  KindSet = {"ok"}
  Modes = {"tx"}
  DeliverAnyTime = FALSE
SPECIFICATION MCSpec
VIEW View
INVARIANTS Inv ExactlyOnceAtEnd
PROPERTIES QueueAppendOnly DeliverOK
CHECK_DEADLOCK FALSE
