\* pure facet (quick): every sequence of <= 3 entries over power {1,2,9} x ts 0..1 x (price 1..3 | unavail | unsupp)
CONSTANTS
  Val = {v1}
  Stranger = {}
  Sig = {s1}
  GraceSet = {1}
  CoolSet = {1}
  DiscSet = {1}
  UpdSet = {1}
  QuorumSet = {1}
  PenaltySet = {1}
  DtSet = {1}
  IntervalSet = {1}
  PowerSet = {1}
  PriceSet = {1}
  StatusSet = {"avail"}
  ToffSet = {0}
  MaxH = 0
  MaxN = 3
  AllOrders = FALSE
  PPowerSet = {1, 2, 9}
  PTsSet = {0, 1}
  PPriceSet = {1, 2, 3}
INIT PureInit
NEXT PureNext
INVARIANTS PureRange PureScale PureOrder PureStatus PureAlt
CHECK_DEADLOCK FALSE
