"""X01 — extension of the specification beyond the listed properties (DESIGN.md section 6, "Genesis"):
export -> import is the identity on the observable state of every band module, and the imported chain behaves the
same afterwards.  Not part of MANIFEST.json."""
PROPS = {
    "X01": dict(
        mc=[dict(tla="Genesis_MC.tla", cfg="Genesis_MC.cfg", tier="quick", timeout=300, workers=4)],
        drive=dict(family="genesis", nrand=dict(quick=6, thorough=60), timeout=3600),
        trace=dict(tla="Genesis_Trace.tla", cfg="Genesis_Trace_X01.cfg", steps_per_line=1, timeout=1800),
        level="model_checking",
        rule="script = list of runs; run = (seed, n blocks before the export, k common blocks after the import, profile = subset "
             "of {tunnels created, new signing group proposed (unfinished DKG), transition to the second group proposed, "
             "MaxDESize lowered by governance}). Chain A = real BandApp driven through "
             "FinalizeBlock/Commit with signed transactions of every band module plus bank/staking/gov (stateful generator: "
             "requests and partial reports, signature requests and partial signatures, votes, prices, tunnels with deposits "
             "and packets, stakes, a group transition through governance); the last two blocks before the export create "
             "work that is still open at the export. Export = app.ExportAppStateAndValidators(false,nil,nil) + every "
             "module's ValidateGenesis; chain B = fresh BandApp InitChain'ed with the exported state, initial height h+1. "
             "The runs are recorded once per facet (77 store collections of the 8 band modules read by raw prefix "
             "iteration, 10 transaction groups' result codes, chain.live); evaluations = recorded lines; non-trivial = "
             "runs in which at least 45 collections are non-empty at the export",
        assumptions=[
            "the consensus engine is replaced by the harness (proposer = validator 1, votes = validators in the set, "
            "chosen header hash and time); both chains get identical blocks after the import",
            "observed state = raw key/value content of the band modules' own stores; the stores of SDK/IBC modules are not "
            "compared (staking historical info, capability indices etc. legitimately differ) - they take part through "
            "the result codes of bank/staking/gov transactions (facet sdk.tx) which need account numbers/sequences to carry over",
            "tss nonce queues are compared up to renumbering (entries relative to the queue head): no query exposes the "
            "absolute index",
            "behaviour after the import is compared per facet only if no collection its behaviour group can read (Deps in "
            "Genesis_Trace.tla) lost the round trip; the lost collection itself is always reported in its own facet",
            "two trusted-dealer tss groups and first nonce pairs are written into chain A's genesis (DKG is C04's subject); "
            "DKG rounds are not played, so round-1/2 infos, complaints and confirms stay empty",
            "oracle data-source / oracle-script files live in the node's home directory, not in the genesis: chain B gets a "
            "copy of chain A's files directory",
            "IBC: no counterparty chain",
        ],
        min_interesting=3,
    ),
}
