"""X03 (extension, DESIGN §6 / §8.8) — the cylinder daemon's signing worker and nonce (DE) worker (Cylinder.tla):
private nonce hygiene, one correct share per assignment, nonce top-up stored before it is queued, no crash.
Not one of the 20 listed properties: there is no manifest.d entry; `bin/check X03` runs it.

On the unchanged tree the check REJECTS two input shapes (see findings/X03-*): every such HandleSigning line carries
an input-derived tag, so the lines `finding: property=X03 sig=HandleSigning:repeated-notification ...` and
`finding: property=X03 sig=HandleSigning:attempt-pruned ...` in known_findings.txt turn those rejections into
KNOWN-FINDING; the driver caps the number of traces that contain such an input (6 per tag and run)."""

PROPS = {
    "X03": dict(
        mc=[dict(tla="Cylinder_MC.tla", cfg="Cylinder_MC_sign.cfg", tier="quick", timeout=300),
            dict(tla="Cylinder_MC.tla", cfg="Cylinder_MC_de.cfg", tier="quick", timeout=300),
            dict(tla="Cylinder_MC.tla", cfg="Cylinder_MC_crash.cfg", tier="quick", timeout=300),
            dict(tla="Cylinder_MC.tla", cfg="Cylinder_MC_live.cfg", tier="quick", timeout=300),
            dict(tla="Cylinder_MC.tla", cfg="Cylinder_MC_sign2.cfg", tier="thorough", timeout=1500),
            dict(tla="Cylinder_MC.tla", cfg="Cylinder_MC_de2.cfg", tier="thorough", timeout=1500)],
        drive=dict(family="cylinder", nrand=dict(quick=200, thorough=3000), timeout=3600),
        trace=dict(tla="Cylinder_Trace.tla", cfg="Cylinder_Trace_X03.cfg"),
        level="model_checking",
        rule="scripts = a fixed catalogue of 8 hand-written scenarios (life cycle; duplicates after the use event / for "
             "unassigned signings / with failing queries; crash at every store write of an update + restart + start-up "
             "replay; retry with a new pair; a top-up while another is in flight under a tight MaxDESize; sender gives up "
             "and a later notification re-creates the share; the two known-finding inputs) + seeded random scripts (2/5 "
             "'calm' schedules, 3/5 'wild': requests forcing or not forcing the member into the committee, notifications "
             "delivered once / late / again / never, start-up replays, interval steps and assignment notifications with "
             "failing DE-count / member queries and crash points, partner signatures, MsgResetDE, batches of 1..3 queued "
             "messages landing as one transaction or dropped, blocks that expire attempts and retry). evaluations = trace "
             "lines; a script is non-trivial if the real chain assigned the daemon's member to at least one attempt AND its "
             "trace has a duplicated delivery, an injected failure (query, sender), a crash, a retry or a MsgResetDE; "
             "distinct = SHA-256 of the abstract script",
        assumptions=[
            "chain side = real BandApp, L1 handler layer; a trusted-dealer 3-member group (threshold 2) installed with keeper "
            "setters as the current bandtss group; tss params (MaxDESize, SigningPeriod, MaxSigningAttempt) and the bandtss "
            "penalty (1 s) set per script; the two other members are played by the driver (tsskit): they keep pairs queued, "
            "sign when scripted, and are re-activated after a penalty as soon as the chain allows",
            "the chain state the daemon depends on (the member's queue of public pairs, signings, current attempts, "
            "assignments, recorded shares) is ADOPTED as observed after every step: it is the subject of C03/C05/C10; the "
            "acceptance of every transaction the daemon's messages land in is PREDICTED by the specification from that state",
            "the workers are entered through the verif hooks: handleSigning, intervalUpdateDE and deleteDE run unchanged; the "
            "loops around them are replayed by the driver with the statements of the hook files (handleABCIEvents / "
            "handlePendingSignings / deleteDEFromABCIEvents without `go`; the assign branch of the DE worker's select loop); "
            "Start(), the subscriptions and their queries are not exercised; one handleSigning call is atomic (its reads "
            "are taken at one chain state)",
            "the daemon's client answers gRPC queries (Signing, PendingSignings, DE, bandtss Member) from a branch of the "
            "in-process chain state through the SDK's ABCI-query path; failures are injected per query as transport errors",
            "the sender worker is replaced by the driver: it drains MsgCh and lands the first n messages as ONE transaction "
            "(all or nothing, like the MsgExec the sender builds) or drops them (BroadcastAndConfirm gave up); signing, fees, "
            "authz grants and gas are not exercised",
            "a crash is the end of the worker's goroutine at a chosen store write (runtime.Goexit inside the DB wrapper) "
            "followed by fresh workers on the same store; a failed start-up query (the daemon exits) is the same as a crash",
            "a failed signing query, a message the sender gives up on and a notification missed while the daemon is down are "
            "where the code gives up: the specification re-establishes the obligation only at the next notification or "
            "start-up replay for the same attempt (as Yoda's family does for persistent RPC failures)",
            "the calm-schedule claim (never more than 2*MinDE pairs on chain + in flight, hence every MsgSubmitDEs accepted "
            "when 2*MinDE <= MaxDESize) assumes: no interval step while a MsgSubmitDEs is in flight or an assignment "
            "notification is undelivered, no duplicated assignment notification; outside it refusals are predicted, not forbidden",
        ],
        min_interesting=20,
    ),
}
