"""C13, data-request half (internal id C13A; C13 = parts [C13A, C13B] once the bandtss half exists)."""
PROPS = {
    "C13A": dict(
        mc=[dict(tla="OracleFee_MC.tla", cfg="OracleFee_MC.cfg", tier="quick", timeout=600),
            dict(tla="OracleFee_MC.tla", cfg="OracleFee_MC_self.cfg", tier="quick", timeout=600),
            dict(tla="OracleFee_MC.tla", cfg="OracleFee_MC_deep.cfg", tier="thorough", timeout=2400)],
        drive=dict(family="oraclefee", nrand=dict(quick=400, thorough=8000)),
        trace=dict(tla="OracleFee_Trace.tla", cfg="OracleFee_Trace_C13A.cfg", steps_per_line=1),
        rule="random scripts: payer balances 0..30 per denom (one payer in four is the treasury of two of the data sources), 1-4 raw requests over 4 data sources (fees (1,0) (2,1) (0,0) "
             "(0,2), repeated and unknown ids), ask 1-3, fee limits at cost-1/cost/cost+1 per denom; non-trivial = at "
             "least one rejected request; distinct = SHA-256 of the script",
        assumptions=["IBC request path (relay.go) not driven: the fee payer there is the relayer/escrow account, same CollectFee code",
                     "handler layer (L1): the transaction is rolled back as a whole on error, exactly like baseapp.runMsgs"],
    ),
    "C13": dict(parts=["C13A", "C13B", "C13C"]),
}
