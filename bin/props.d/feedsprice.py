"""Per-property wiring of the FeedsPrice family for bin/check: C06 (feed price = quorum-gated weighted median of the
fresh validator prices) and C15F (feeds half of C15: deactivation only for a genuine miss after the grace periods;
C15F is an internal id, the lead merges it into C15)."""

FEEDS_ASSUME = [
    "L1 handler layer: messages go through app.MsgServiceRouter() on a branched context; signatures/ante handlers (and the "
    "authz feeder indirection) are not exercised",
    "environment installed with keeper setters: module params, signal total powers (the feed list itself is then computed "
    "by the real end-blocker; its formula is C07's business), the initial feed list, jailing of validators",
    "validator tokens are multiples of 10^6 uband and PriceQuorum has two decimals, so that the code's TruncateInt of "
    "bonded*quorum truncates nothing; powers up to 9*2^58 (totals near 2^63) and prices up to 4*2^60 are reached through "
    "the pure functions (the rule is exactly homogeneous in the powers: no division occurs)",
    "identical prices on every node (last clause of C06) follow from determinism, which is C02's business",
]

_PURE_Q = [dict(tla="FeedsPrice_MC.tla", cfg="FeedsPrice_MC_pure2.cfg", tier="quick", timeout=300),
           dict(tla="FeedsPrice_MC.tla", cfg="FeedsPrice_MC_pure3r.cfg", tier="quick", timeout=300)]
_PURE_T = [dict(tla="FeedsPrice_MC.tla", cfg="FeedsPrice_MC_pure3.cfg", tier="thorough", timeout=1500),
           dict(tla="FeedsPrice_MC.tla", cfg="FeedsPrice_MC_pure4r.cfg", tier="thorough", timeout=1500)]
_FULL = [dict(tla="FeedsPrice_MC.tla", cfg="FeedsPrice_MC_full.cfg", tier="thorough", timeout=1500)]
_PRICE2 = [dict(tla="FeedsPrice_MC.tla", cfg="FeedsPrice_MC_price2.cfg", tier="thorough", timeout=1500)]

PROPS = {
    "C06": dict(
        mc=_PURE_Q + [dict(tla="FeedsPrice_MC.tla", cfg="FeedsPrice_MC_price.cfg", tier="quick", timeout=300)] + _PURE_T + _PRICE2 + _FULL,
        gen=dict(tla="FeedsPrice_Gen.tla", cfg="FeedsPrice_Gen.cfg", depth=60, num=dict(quick=300, thorough=2000), timeout=900),
        drive=dict(family="feedsprice", nrand=dict(quick=400, thorough=4000)),
        trace=dict(tla="FeedsPrice_Trace.tla", cfg="FeedsPrice_Trace_C06.cfg"),
        rule="scripts = TLC -simulate walks of FeedsPrice.tla (system scripts with role-relative validators, and lists of "
             "Calc cases for the pure functions with powers scaled by 1, 2^32, 2^58 and prices by 1, 2^60) + seeded random "
             "scripts of both kinds; a script is non-trivial if its trace contains a price (stored by an end-block, or "
             "returned by MedianValidatorPriceInfos / CalculatePrice) computed from >= 2 AVAILABLE entries; distinct = "
             "SHA-256 of the abstract script",
        assumptions=FEEDS_ASSUME,
    ),
    "C15F": dict(
        mc=[dict(tla="FeedsPrice_MC.tla", cfg="FeedsPrice_MC_miss.cfg", tier="quick", timeout=300),
            dict(tla="FeedsPrice_MC.tla", cfg="FeedsPrice_MC_missupd.cfg", tier="quick", timeout=300)] + _FULL,
        gen=dict(tla="FeedsPrice_Gen.tla", cfg="FeedsPrice_Gen_C15F.cfg", depth=60, num=dict(quick=300, thorough=2000), timeout=900),
        drive=dict(family="feedsprice", mode="c15f", nrand=dict(quick=400, thorough=4000)),
        trace=dict(tla="FeedsPrice_Trace.tla", cfg="FeedsPrice_Trace_C15F.cfg"),
        rule="system scripts only, biased to equal timestamps / slow blocks, short grace periods and intervals, frequent "
             "feed-list updates, submissions at the cooldown and discrepancy boundaries, (re)activation around the "
             "penalty; non-trivial = the trace contains a deactivation or a rejected submission",
        assumptions=FEEDS_ASSUME,
    ),
}
