"""Per-property wiring for bin/check: which spec/cfg files are used in which TLC role, which driver
family records the traces, and what counts as an interesting (non-trivial) script."""

ORACLE_ASSUME = [
    "OWASM execution itself is trusted: only its SUCCESS/FAILURE outcome is modelled",
    "L1 handler layer: messages go through app.MsgServiceRouter() on a branched context; signatures/ante handlers are not exercised",
    "all validators stay bonded for the whole history of this family",
]

PROPS = {
    "C01": dict(
        mc=[dict(tla="Oracle_MC.tla", cfg="Oracle_MC.cfg", tier="quick", timeout=300),
            dict(tla="Oracle_MC.tla", cfg="Oracle_MC_exp.cfg", tier="thorough", timeout=1500),
            dict(tla="Oracle_MC.tla", cfg="Oracle_MC_3req.cfg", tier="thorough", timeout=1500),
            dict(tla="Oracle_MC.tla", cfg="Oracle_MC_live.cfg", tier="thorough", timeout=1500)],
        gen=dict(tla="Oracle_Gen.tla", cfg="Oracle_Gen.cfg", depth=24, num=dict(quick=300, thorough=4000), timeout=900),
        drive=dict(family="oracle", nrand=dict(quick=300, thorough=6000)),
        trace=dict(tla="Oracle_Trace.tla", cfg="Oracle_Trace_C01.cfg"),
        rule="scripts = TLC -simulate walks of Oracle.tla (role-relative) + seeded random scripts; a script is "
             "non-trivial if its recorded trace contains a rejected report or an EndBlock that resolves or expires a "
             "request; distinct = SHA-256 of the abstract script",
        assumptions=ORACLE_ASSUME,
    ),
    "C15O": dict(
        mc=[dict(tla="Oracle_MC.tla", cfg="Oracle_MC_C15.cfg", tier="quick", timeout=300),
            dict(tla="Oracle_MC.tla", cfg="Oracle_MC_C15_subq.cfg", tier="quick", timeout=300),
            dict(tla="Oracle_MC.tla", cfg="Oracle_MC_C15_sub.cfg", tier="thorough", timeout=1500),
            dict(tla="Oracle_MC.tla", cfg="Oracle_MC_C15_deep.cfg", tier="thorough", timeout=1500)],
        gen=dict(tla="Oracle_Gen.tla", cfg="Oracle_Gen_C15.cfg", depth=24, num=dict(quick=300, thorough=4000), timeout=900),
        drive=dict(family="oracle", mode="c15", nrand=dict(quick=600, thorough=6000)),
        trace=dict(tla="Oracle_Trace.tla", cfg="Oracle_Trace_C15.cfg"),
        rule="as C01, scripts biased to (re)activation and slow/equal block times; non-trivial = the trace contains a "
             "deactivation, a rejected activation, or an expiry",
        assumptions=ORACLE_ASSUME,
    ),
    # C15 is decided by two specifications: the oracle half (request-expiry misses, MsgActivate) and the feeds half
    # (price misses with grace periods; FeedsPrice.tla, entry C15F in feedsprice.py)
    "C15": dict(parts=["C15O", "C15F"]),
}
