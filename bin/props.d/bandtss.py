"""Bandtss family: C18 (group transitions) and the signing half of C13 (internal id C13B)."""
BT_ASSUME = [
    "the outcome of the incoming group's key generation is installed at the end of DKG round 3 (trusted-dealer keys, group "
    "put on the tss pending-process list); the real tss end-blocker then activates/fails the group and calls the real "
    "bandtss callbacks (DKG soundness itself is property C04)",
    "tss params: max_signing_attempt = 1, signing_period = 1, creation_period = 2; bandtss transition window [1 s, 3 s]",
    "canSign (a threshold of active members with queued nonces) is observed from the real state and treated as environment "
    "(nonce top-ups/resets and member re-activation through keeper setters); C05/C10 own that machinery",
    "handler layer (L1); the gov authority's messages are delivered with the authority address (no governance proposal flow)",
]
PROPS = {
    "C18": dict(
        mc=[dict(tla="Bandtss_MC.tla", cfg="Bandtss_MC.cfg", tier="quick", timeout=900),
            dict(tla="Bandtss_MC.tla", cfg="Bandtss_MC_nogroup.cfg", tier="quick", timeout=900),
            dict(tla="Bandtss_MC.tla", cfg="Bandtss_MC_stale.cfg", tier="quick", timeout=900),
            dict(tla="Bandtss_MC.tla", cfg="Bandtss_MC_deep.cfg", tier="thorough", timeout=3000)],
        gen=dict(tla="Bandtss_Gen.tla", cfg="Bandtss_Gen.cfg", depth=26, num=dict(quick=200, thorough=3000), timeout=900),
        drive=dict(family="bandtss", nrand=dict(quick=250, thorough=5000)),
        trace=dict(tla="Bandtss_Trace.tla", cfg="Bandtss_Trace_C18.cfg"),
        rule="seeded random scripts over Propose/Force (authority and non-authority, exec-time offsets inside and outside "
             "the window), Install, DkgDone(ok/malicious), SetCanSign, Request, SignAll, EndBlock(dt 0..3); non-trivial = a "
             "transition was executed or dropped in the trace; distinct = SHA-256 of the script",
        assumptions=BT_ASSUME,
    ),
    "C13B": dict(
        mc=[dict(tla="Bandtss_MC.tla", cfg="Bandtss_MC_fees.cfg", tier="quick", timeout=900)],
        gen=dict(tla="Bandtss_Gen.tla", cfg="Bandtss_Gen_fees.cfg", depth=26, num=dict(quick=150, thorough=2500), timeout=900),
        drive=dict(family="bandtss", mode="fees", nrand=dict(quick=300, thorough=5000)),
        trace=dict(tla="Bandtss_Trace.tla", cfg="Bandtss_Trace_C13B.cfg"),
        rule="as C18 with mode 'fees' (more requests by paying users and by the authority, fee 0..3, limits 0..6, payer "
             "balances 0..8 / 5..24, completions and time-outs); non-trivial = a transition executed/dropped or a request "
             "rejected; distinct = SHA-256 of the script",
        assumptions=BT_ASSUME,
    ),
}
