"""Restake + FeedsVote family: C16 (Restake.tla) and C07 (FeedsVote.tla), one driver (vdrive restake -mode c16|c07)."""

RESTAKE_ASSUME = [
    "L1 handler layer: messages go through app.MsgServiceRouter() on a branched context; signatures/ante handlers are not exercised",
    "share/token rate 1 (no slashing); unbonding completion is outside the history; validators v1, v2 (3 and 2 units of consensus power, "
    "all self-delegated) get a positive MinSelfDelegation and may be jailed by their operators o1, o2 - in the middle of a block (status still "
    "Bonded) and across the end-block validator-set update - and unjailed; v3 is never jailed",
    "total power is the code's: staking.GetDelegatorBonded sums the delegations to all validators whatever their status (SDK 0.50) + allowed "
    "stakes; the trace check compares it with the model's sum after every step",
    "environment installed with keeper setters on the run context: staking MaxEntries=1000, validators' MinSelfDelegation, restake "
    "allowed denoms, feeds params, a high-supply second denom (3*2^63 ubig per actor) minted through the bank keeper",
    "DeactivateVault and SetLockedPower (vaults k1,k2) are called as keeper API inside a cache context, the way a vault-owning module would",
    "amounts near 2^63/2^64 are logged through an order- and sum-preserving map (hi*2^63 + mid*10^6 + lo -> hi*10^8 + mid*10^4 + lo, "
    "|mid|,|lo| < 5000)",
]

PROPS = {
    "C16": dict(
        mc=[dict(tla="Restake_MC.tla", cfg="Restake_MC.cfg", tier="quick", timeout=300),
            dict(tla="Restake_MC.tla", cfg="Restake_MC_denoms.cfg", tier="quick", timeout=300),
            dict(tla="Restake_MC.tla", cfg="Restake_MC_huge.cfg", tier="quick", timeout=300),
            dict(tla="Restake_MC.tla", cfg="Restake_MC_2acc.cfg", tier="thorough", timeout=1500, workers=8)],
        gen=dict(tla="Restake_Gen.tla", cfg="Restake_Gen.cfg", depth=22, num=dict(quick=250, thorough=4000), timeout=900),
        drive=dict(family="restake", mode="c16", nrand=dict(quick=350, thorough=8000)),
        trace=dict(tla="Restake_Trace.tla", cfg="Restake_Trace_C16.cfg"),
        rule="scripts = TLC -simulate walks of Restake.tla (accounts / validators / vaults by index) + seeded random scripts whose "
             "amounts are resolved against the real state at the boundary (exactly the removable amount, one more, all, all+1, "
             "the total power +-1, values around 2^63 and 2^64) + every third random script a jailing history (operators holding locks on "
             "their self-delegation, partial / full self-undelegation around MinSelfDelegation, other delegators removing locked delegations "
             "from the validator jailed earlier in the same block and in later blocks, unjail); a script is non-trivial if its recorded trace contains a rejected "
             "unstake / undelegation / redelegation or an accepted lock update; distinct = SHA-256 of the abstract script",
        assumptions=RESTAKE_ASSUME,
    ),
    "C07": dict(
        mc=[dict(tla="FeedsVote_MC.tla", cfg="FeedsVote_MC.cfg", tier="quick", timeout=300),
            dict(tla="FeedsVote_MC.tla", cfg="FeedsVote_MC_wrap.cfg", tier="quick", timeout=300),
            dict(tla="FeedsVote_MC.tla", cfg="FeedsVote_MC_par.cfg", tier="quick", timeout=600, workers=8),
            dict(tla="FeedsVote_MC.tla", cfg="FeedsVote_MC_deep.cfg", tier="thorough", timeout=1500, workers=8)],
        gen=dict(tla="FeedsVote_Gen.tla", cfg="FeedsVote_Gen.cfg", depth=20, num=dict(quick=250, thorough=4000), timeout=900),
        drive=dict(family="restake", mode="c07", nrand=dict(quick=350, thorough=8000)),
        trace=dict(tla="FeedsVote_Trace.tla", cfg="FeedsVote_Trace_C07.cfg"),
        rule="scripts = TLC -simulate walks of FeedsVote.tla + seeded random scripts (votes, re-votes, empty / malformed votes, sums "
             "at power and power+1, powers at the int64 limit through order-preserving stand-ins, power moved by real staking / restake "
             "messages and allowed-denom changes, block ends) + three fixed scripts whose int64 sum wraps to a small value; a script is "
             "non-trivial if its recorded trace contains a re-vote or a rejected vote; distinct = SHA-256 of the abstract script",
        assumptions=RESTAKE_ASSUME + [
            "the voters' total power is an input of FeedsVote.tla (observed after every step); the real powers stay below 4*10^5 uband "
            "so that every stand-in for a power near the int64 limit is above every voter's power, as the real values are",
            "the vault 'feeds' is never deactivated and the sum of all voters' powers stays below 2^63 in C07 histories",
        ],
    ),
}
