"""Per-property wiring of the TssDkg family (property C04) for bin/check."""

DKG_ASSUME = [
    "the group is created by calling TSSKeeper.CreateGroup on the block context with module owner \"bandtss\" (the keeper "
    "API x/bandtss's MsgTransitionGroup handler calls); no bandtss transition is pending, so the owner callbacks are no-ops",
    "params.creation_period of each trace is installed with TSSKeeper.SetParams (environment)",
    "L1 handler layer: messages go through app.MsgServiceRouter() on a branched context; transaction signatures / ante "
    "handlers are not exercised (the sender field of a message is taken as authenticated)",
    "members are played by the harness with pkg/tss and cylinder/workers/group getOwnPrivKey/getSecretShare; the daemon's "
    "event loop, RPC client and key store are not run",
    "TLC checks the algebra in Z_5 / Z_7 (group elements as discrete logs); on secp256k1 the same identities are "
    "evaluated by the harness with independent arithmetic and enter the trace as booleans (gpOK, pubOK, lagOK, km)",
    "soundness of the secp256k1, AES-CTR/HKDF and Keccak libraries is trusted; polynomials, one-time keys and nonces "
    "are sampled by pkg/tss's own generators (their concrete values do not enter any verdict)",
]

PROPS = {
    "C04": dict(
        mc=[dict(tla="TssDkg_MC.tla", cfg="TssDkg_MC.cfg", tier="quick", timeout=600),
            dict(tla="TssDkg_MC.tla", cfg="TssDkg_MC_alg.cfg", tier="quick", timeout=600),
            dict(tla="TssDkg_MC.tla", cfg="TssDkg_MC_exp.cfg", tier="quick", timeout=600),
            dict(tla="TssDkg_MC.tla", cfg="TssDkg_MC_n4.cfg", tier="thorough", timeout=1500),
            dict(tla="TssDkg_MC.tla", cfg="TssDkg_MC_t3.cfg", tier="thorough", timeout=1500),
            dict(tla="TssDkg_MC.tla", cfg="TssDkg_MC_dev3.cfg", tier="thorough", timeout=1500),
            dict(tla="TssDkg_MC.tla", cfg="TssDkg_MC_alg2.cfg", tier="thorough", timeout=1500),
            dict(tla="TssDkg_MC.tla", cfg="TssDkg_MC_alg3.cfg", tier="thorough", timeout=1500)],
        gen=dict(tla="TssDkg_Gen.tla", cfg="TssDkg_Gen.cfg", depth=30, num=dict(quick=250, thorough=4000), timeout=900),
        drive=dict(family="dkg", nrand=dict(quick=300, thorough=6000)),
        trace=dict(tla="TssDkg_Trace.tla", cfg="TssDkg_Trace_C04.cfg"),
        rule="scripts = TLC -simulate walks of TssDkg.tla (group size, threshold, creation period, submission order per "
             "round, block ends, deviations, refused inputs) + seeded random DKG runs; a script is non-trivial if its "
             "recorded trace contains a deviation (corrupted share, altered or false complaint, forced confirmation, "
             "malformed / foreign / wrong-id submission) or a complaint; distinct = SHA-256 of the abstract script",
        assumptions=DKG_ASSUME,
        min_interesting=20,
    ),
}
