"""Grogu family (C20): the grogu signaller/submitter in closed loop with the x/feeds submission and miss rules,
driven through the verif hooks grogu/signaller/export_verif.go and grogu/submitter/export_verif.go."""

GROGU_ASSUME = [
    "timing assumptions of C20 as the ghost `calm` of Grogu.tla (exact form TimingOK; the stated form "
    "P+L+D < 0.2*I - buffer implies it): the daemon polls at least every P seconds, every submitPrice returns within "
    "L seconds of the decision, block time lags the daemon clock by at most D <= TimeBuffer seconds, no broadcast "
    "fault, the price service quotes every current feed, the feed list changes only while nothing is in flight; the "
    "timing properties (all accepted, never late / never deactivated, prompt) are claimed under `calm`, the in-flight "
    "bookkeeping properties unconditionally",
    "injected clock: the hook VerifStep is the body of Signaller.Start + execute with time.Now() replaced by an "
    "argument (the composition of execute is repeated in the hook: a change inside execute itself is not seen); "
    "MsgSubmitSignalPrices.Timestamp (time.Now() in submitPrice) is replaced by the virtual clock at submitPrice entry "
    "before delivery",
    "fakes at the interface boundary: FeedQuerier = the real feeds query server on the current state of the in-process "
    "chain (always the latest state, no lagging node); price service = the script's quotes; RPC client / TxQuerier / "
    "AuthQuerier scripted (CheckTx result incl. out of gas, transport error, tx found with the chain's code, time-out; "
    "failures BEFORE the broadcast: feeder keys deleted from / restored to the in-memory keyring, account query down, "
    "gas simulation down); gas simulation otherwise answered with a constant; out-of-gas as DELIVERY result not exercised",
    "chain side at the L1 handler layer: the inner MsgSubmitSignalPrices of the broadcast MsgExec is delivered through "
    "app.MsgServiceRouter(); authz grant / feeder signature / ante handlers are not exercised; feed list and params "
    "installed with keeper setters (SetCurrentFeeds, SetParams); the validator is bonded and activated by MsgActivate",
    "unix clock: a signal without a stored price is always urgent (interval - 10 s after the epoch is long past)",
]

PROPS = {
    "C20": dict(
        mc=[dict(tla="Grogu_MC.tla", cfg="Grogu_MC.cfg", tier="quick", timeout=400),
            dict(tla="Grogu_MC.tla", cfg="Grogu_MC_one.cfg", tier="quick", timeout=300),
            dict(tla="Grogu_MC.tla", cfg="Grogu_MC_feedsq.cfg", tier="quick", timeout=300),
            dict(tla="Grogu_MC.tla", cfg="Grogu_MC_faults.cfg", tier="quick", timeout=300),
            dict(tla="Grogu_MC.tla", cfg="Grogu_MC_two.cfg", tier="thorough", timeout=1500),
            dict(tla="Grogu_MC.tla", cfg="Grogu_MC_feeds.cfg", tier="thorough", timeout=1500),
            dict(tla="Grogu_MC.tla", cfg="Grogu_MC_i30.cfg", tier="thorough", timeout=1500),
            dict(tla="Grogu_MC.tla", cfg="Grogu_MC_real.cfg", tier="thorough", timeout=1500),
            dict(tla="Grogu_MC.tla", cfg="Grogu_MC_faults2.cfg", tier="thorough", timeout=1500)],
        gen=dict(tla="Grogu_Gen.tla", cfg="Grogu_Gen.cfg", depth=800, num=dict(quick=40, thorough=600), timeout=900),
        drive=dict(family="grogu", nrand=dict(quick=120, thorough=2500)),
        trace=dict(tla="Grogu_Trace.tla", cfg="Grogu_Trace_C20.cfg"),
        rule="closed-loop runs under virtual time: TLC -simulate walks of Grogu.tla (live and fault behaviours) + seeded "
             "random scripts, alternately `live` (within the timing assumptions: polling period 1-4 s, latency <= L, "
             "block lag <= D, quotes biased to the deviation threshold +-1, status flips, rare feed-list changes, "
             "2.5 intervals long) and `faults` (arbitrary interleaving with transport errors, CheckTx rejections, "
             "time-outs, retries, feeder key deleted / account query or gas simulation down and recovering, missing quotes, "
             "feed changes in flight, clock jumps); a script is non-trivial if "
             "the daemon made at least one submission; distinct = SHA-256 of the abstract script",
        assumptions=GROGU_ASSUME,
    ),
}
