"""Tunnel family (C08 packet rule, C17 deposit ledger): wiring of the TLC roles for bin/check."""

TUNNEL_ASSUME = [
    "L1 handler layer: messages go through app.MsgServiceRouter() on a branched context (tx atomicity = one cache "
    "context per message, as baseapp.runMsgs); signatures/ante handlers are not exercised",
    "environment installed with keeper setters: feeds prices (FeedsKeeper.SetPrice / DeleteAllPrices; no current feeds, so "
    "the feeds end-blocker leaves them alone), module params (tunnel min deposit / base fee / ranges, bandtss fee per "
    "signer, tss signing period 100000 blocks so that no signing expires inside a trace), a trusted-dealer 2-of-3 tss "
    "group installed as the current bandtss group (DKG is C04's subject), depositor balances, fee-payer funding (MsgSend)",
    "TSS route states driven for real: ok (members stocked with nonces through MsgSubmitDEs; the real "
    "bandtss.CreateTunnelSigningRequest -> tss.RequestSigning path runs, fee escrowed, nonces dequeued), noGroup (current "
    "group id 0 -> ErrNoActiveGroup), noNonces (two members MsgResetDE -> ErrInsufficientSigners), inactive (two members "
    "deactivated -> ErrInsufficientSigners), maxAtt0 (tss MaxSigningAttempt = 0, accepted by Params.Validate: the round "
    "fails after the fee transfer and after the signing record were written in the cache context), tssLong (a signal id "
    "longer than 32 bytes: the TSS encoder refuses the packet after the route fee was transferred); IBC route without a "
    "channel (ErrChannelCapabilityNotFound); panic (a panic inside the route, injected through the verif-tagged hook "
    "x/tunnel/keeper/verif_hook.go in SendPacket because no input provokes one on the unchanged tree: SendPacket must "
    "turn it into a failed send). NOT driven: fee above limit (unreachable: limit and fee come from the same state in one "
    "call); a delivering IBC route (needs a counterparty chain)",
    "the status of a feeds price is not modelled because the code does not read it (only Price); prices inside stored "
    "packets are not compared (signal set per packet and the latest-price table are)",
    "signed TSS packets are not completed by member signatures: packet production happens at request time",
]

PROPS = {
    "C08": dict(
        mc=[dict(tla="Tunnel_MC.tla", cfg="Tunnel_MC_pkt.cfg", tier="quick", timeout=400, workers=8),
            dict(tla="Tunnel_MC.tla", cfg="Tunnel_MC_pkt2.cfg", tier="quick", timeout=400, workers=8),
            dict(tla="Tunnel_MC.tla", cfg="Tunnel_MC_two.cfg", tier="quick", timeout=400, workers=8),
            dict(tla="Tunnel_MC.tla", cfg="Tunnel_MC_cfg.cfg", tier="thorough", timeout=1500),
            dict(tla="Tunnel_MC.tla", cfg="Tunnel_MC_pkt_deep.cfg", tier="thorough", timeout=1500, extra=["-coverage", "1"])],
        gen=dict(tla="Tunnel_Gen.tla", cfg="Tunnel_Gen.cfg", depth=32, num=dict(quick=400, thorough=5000), timeout=900),
        drive=dict(family="tunnel", nrand=dict(quick=400, thorough=6000)),
        trace=dict(tla="Tunnel_Trace.tla", cfg="Tunnel_Trace_C08.cfg"),
        rule="scripts = TLC -simulate walks of Tunnel.tla (role-relative senders; prelude creates, funds and activates the "
             "first tunnel) + seeded random scripts; a script is non-trivial if its recorded trace contains a produced "
             "packet (end-block or trigger), a failed send, or a deactivation at end-block; distinct = SHA-256 of the "
             "abstract script",
        assumptions=TUNNEL_ASSUME,
        min_interesting=50,
    ),
    "C17": dict(
        mc=[dict(tla="Tunnel_MC.tla", cfg="Tunnel_MC_dep.cfg", tier="quick", timeout=400, workers=8),
            dict(tla="Tunnel_MC.tla", cfg="Tunnel_MC_gate.cfg", tier="quick", timeout=400, workers=8),
            dict(tla="Tunnel_MC.tla", cfg="Tunnel_MC_mindep.cfg", tier="quick", timeout=400, workers=8),
            dict(tla="Tunnel_MC.tla", cfg="Tunnel_MC_dep_deep.cfg", tier="thorough", timeout=1500, extra=["-coverage", "1"])],
        gen=dict(tla="Tunnel_Gen.tla", cfg="Tunnel_Gen_C17.cfg", depth=32, num=dict(quick=400, thorough=5000), timeout=900),
        drive=dict(family="tunnel", mode="c17", nrand=dict(quick=400, thorough=6000)),
        trace=dict(tla="Tunnel_Trace.tla", cfg="Tunnel_Trace_C17.cfg"),
        rule="as C08, scripts biased to create / deposit / withdraw / activate / deactivate by three accounts with "
             "two-denom amounts around the minimum deposit and the account balances; non-trivial = the trace contains an "
             "accepted withdrawal, a deactivation, a failed send or a packet",
        assumptions=TUNNEL_ASSUME,
        min_interesting=50,
    ),
    # C13, third part: the signing fee charged through the tunnel route (x/tunnel/keeper/keeper_packet_tss.go ->
    # bandtss.CreateTunnelSigningRequest) - same traces as C08, only the money is checked
    "C13C": dict(
        mc=[dict(tla="Tunnel_MC.tla", cfg="Tunnel_MC_two.cfg", tier="quick", timeout=400, workers=8)],
        gen=dict(tla="Tunnel_Gen.tla", cfg="Tunnel_Gen.cfg", depth=32, num=dict(quick=250, thorough=3000), timeout=900),
        drive=dict(family="tunnel", nrand=dict(quick=250, thorough=4000)),
        trace=dict(tla="Tunnel_Trace.tla", cfg="Tunnel_Trace_C13C.cfg"),
        rule="tunnel scripts as C08 (TSS route ok / noGroup / noNonces / inactive / maxAtt0 / tssLong / panic, IBC route without "
             "channel); non-trivial = a packet produced or a failed send; only fee-payer balances, the tunnel fee book and the "
             "bandtss escrow are checked",
        assumptions=TUNNEL_ASSUME,
        min_interesting=50,
    ),
}
