"""X04 (extension, DESIGN §6 `OracleIBC`, §8.8) — oracle requests that arrive as IBC packets, their acknowledgements and
response packets, and the ownership rules of data sources and oracle scripts (OracleIBC.tla EXTENDS Oracle.tla).  Not one
of the 20 listed properties: there is no manifest.d entry; `bin/check X04` runs it."""

_ASSUME = [
    "L1 handler layer: MsgRecvPacket / oracle messages go through app.MsgServiceRouter() on a branched context; "
    "signatures, ante handlers and gas limits are not exercised (infinite gas meter)",
    "both ends of every oracle channel live on this chain (ibc-go 09-localhost client, connection-localhost): the real "
    "four-step handshake, the real ibc core RecvPacket (proof = localhost sentinel proof, verified against the packet "
    "commitment the driver's SendPacket on the counterparty end really stored), the real router and the real "
    "ics4Wrapper (ibc fee keeper -> channel keeper) for the responses; light-client proofs of a remote chain are not exercised",
    "environment installed directly: the counterparty end sends the request packet through ChannelKeeper.SendPacket with the "
    "oracle module's capability of that end; `Break` closes the band-side channel end with ChannelKeeper.SetChannel or "
    "releases the oracle module's capability with ScopedOracleKeeper.ReleaseCapability; the counterparty INIT end of a "
    "ChanOpenTry is written with SetChannel; payer balances by bank SendCoins before the trace; params by keeper.SetParams "
    "before the trace (ibc_request_enabled flips inside a trace go through the real MsgUpdateParams)",
    "the request life cycle itself (committee choice, which reports are accepted, when a Result is created, expiry, validator "
    "statuses) is adopted as observed: it is the subject of C01 / C09 / C15",
    "OWASM execution is trusted: only the outcome class of the five test scripts is modelled; one fee denom (uband); "
    "multi-denom limits are C13's subject",
    "TSS-encoded requests: only that a valid encoder is admitted and an unknown one refused; the signing that follows a "
    "SUCCESS is the subject of C05/C11/C13",
]

_MC = [("OracleIBC_MC.cfg", 300), ("OracleIBC_MC_fail.cfg", 300), ("OracleIBC_MC_own.cfg", 300), ("OracleIBC_MC_fee.cfg", 300)]
_MC_DEEP = [("OracleIBC_MC_deep.cfg", 1800), ("OracleIBC_MC_live.cfg", 1800)]

PROPS = {
    "X04": dict(
        mc=[dict(tla="OracleIBC_MC.tla", cfg=c, tier="quick", timeout=t, workers=8) for c, t in _MC] +
           [dict(tla="OracleIBC_MC.tla", cfg=c, tier="thorough", timeout=t, workers=8) for c, t in _MC_DEEP],
        drive=dict(family="oracleibc", nrand=dict(quick=300, thorough=5000), timeout=3600),
        trace=dict(tla="OracleIBC_Trace.tla", cfg="OracleIBC_Trace_X04.cfg"),
        level="model_checking",
        rule="scripts = a fixed catalogue of 8 hand-written scenarios (the three statuses over IBC next to a direct request / "
             "closed channel and lost capability / ibc_request_enabled off and on / fee limit and balance at the boundary "
             "with every malformed-packet class / data-source ownership with do-not-modify, gzip and fee edits between "
             "requests / oracle-script ownership with code edits under requests in flight / handshake callbacks / several "
             "Results in one end-block on two channels) + seeded random scripts of 12-38 steps; a script is non-trivial if its "
             "trace contains a response packet, a send failure or an error acknowledgement; distinct = SHA-256 of the script",
        assumptions=_ASSUME,
        min_interesting=8,
    ),
    # opt-in facet: the two inputs on which the UNCHANGED tree is rejected (see findings/X04-*).  Every triggering event carries
    # an input-derived tag, i.e. lines `finding: property=X04D sig=Recv:ibc-unknown-encoder ...` and
    # `finding: property=X04D sig=CreateDS:create-gzipped-do-not-modify ...` / `sig=CreateOS:...` in known_findings.txt turn the
    # rejections into KNOWN-FINDING.  The main X04 scripts never contain these inputs.
    "X04D": dict(
        mc=[dict(tla="OracleIBC_MC.tla", cfg="OracleIBC_MC_fail.cfg", tier="quick", timeout=300, workers=8),
            dict(tla="OracleIBC_MC.tla", cfg="OracleIBC_MC_own.cfg", tier="quick", timeout=300, workers=8)],
        drive=dict(family="oracleibc", mode="defects", nrand=dict(quick=0, thorough=0)),
        trace=dict(tla="OracleIBC_Trace.tla", cfg="OracleIBC_Trace_X04.cfg"),
        level="model_checking",
        rule="three hand-written scripts: an IBC request packet whose tss_encoder is not a known enum value (next to the same "
             "MsgRequestData, which is refused); MsgCreateDataSource / MsgCreateOracleScript whose content is gzip('[do-not-modify]') "
             "(next to the plain sentinel, which is refused)",
        assumptions=_ASSUME,
        min_interesting=0,
    ),
}
