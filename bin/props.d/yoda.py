"""Yoda family (C19): the request handling of the yoda daemon, driven through the verif hook yoda/export_verif.go."""

YODA_ASSUME = [
    "a persistent RPC failure of the request or data-source lookup (every call fails) creates no obligation; a "
    "transient one (fewer than maxTry failing calls for a key) must be masked (DESIGN C19)",
    "RPC client = adapter answering ABCIQuery from a branch context of the in-process chain (store keys and the "
    "gRPC Data query), failures injected per query key as transport errors; executor = fake whose calls block on "
    "gates; keyring in memory; pendingMsgs buffered (64) and drained by the driver",
    "handleRequest / handleTransaction are entered through the hook; the start-up loop of runImpl (mark pending, "
    "spawn a handler per id) is replayed by the driver with the same two statements; a start-up list is a "
    "consistent snapshot (whole transactions); SubmitReport / broadcasting are not exercised",
    "quiescence of the daemon is observed from the goroutine dump of the child process (every goroutine running "
    "daemon code blocked on a channel receive); the order of raw reports inside a message is not compared",
    "L1 handler layer for the chain side: the produced MsgReportData goes through app.MsgServiceRouter() "
    "(ValidateBasic + CheckValidReport); signatures / authz of the reporter key are not exercised",
]

PROPS = {
    "C19": dict(
        mc=[dict(tla="Yoda_MC.tla", cfg="Yoda_MC.cfg", tier="quick", timeout=300),
            dict(tla="Yoda_MC.tla", cfg="Yoda_MC_fail.cfg", tier="quick", timeout=300),
            dict(tla="Yoda_MC.tla", cfg="Yoda_MC_tx.cfg", tier="quick", timeout=300),
            dict(tla="Yoda_MC.tla", cfg="Yoda_MC_wide.cfg", tier="thorough", timeout=1500),
            dict(tla="Yoda_MC.tla", cfg="Yoda_MC_deep.cfg", tier="thorough", timeout=1500),
            dict(tla="Yoda_MC.tla", cfg="Yoda_MC_tx_fail.cfg", tier="thorough", timeout=1500),
            dict(tla="Yoda_MC.tla", cfg="Yoda_MC_live.cfg", tier="thorough", timeout=1500)],
        gen=dict(tla="Yoda_Gen.tla", cfg="Yoda_Gen.cfg", depth=70, num=dict(quick=250, thorough=3000), timeout=900),
        drive=dict(family="yoda", nrand=dict(quick=250, thorough=3000), timeout=3000),
        trace=dict(tla="Yoda_Trace.tla", cfg="Yoda_Trace_C19.cfg", steps_per_line=3),
        rule="scenarios = TLC -simulate walks of Yoda.tla (random scenario: 1..3 requests, 1..4 raw requests with "
             "repeated data sources, executable lengths {1,5,24,25,31,32,33,1000} cached or not, RPC failure budgets, "
             "executor ok/nonZero/error/slow, direct calls or start-up list + transactions; role-relative schedule of "
             "announcements and executor completions) + seeded random scenarios; a scenario is non-trivial if some "
             "request has >= 2 raw requests or any failure is injected; distinct = SHA-256 of the scenario+schedule",
        assumptions=YODA_ASSUME,
    ),
}
