"""C12 — relay proofs verify against the real store layout, header and signatures (BridgeVerify family).

The bridge's verification algorithm is a set of TLA+ definitions over hex strings (specs/BridgeVerify.tla) which TLC
evaluates on proofs recorded from the real proof service; SHA-256 is the one external primitive (IOUtils!IOExec ->
python3 hashlib, about 25 calls per proof)."""
import os, sys

# `python3` on PATH may be a shim script (pyenv/conda) costing ~150 ms per start; hand TLC the interpreter it resolves
# to (this orchestrator runs under `#!/usr/bin/env python3`, so that is sys.executable).  Standard library only.
os.environ.setdefault("VERIF_PYTHON", sys.executable or "python3")

PROPS = {
    "C12": dict(
        mc=[dict(tla="BridgeVerify_MC.tla", cfg="BridgeVerify_MC.cfg", tier="quick", timeout=600, workers=4),
            dict(tla="BridgeVerify_MC.tla", cfg="BridgeVerify_MC_deep.cfg", tier="thorough", timeout=2400)],
        drive=dict(family="bridge", nrand=dict(quick=300, thorough=3000), timeout=3600),
        trace=dict(tla="BridgeVerify_Trace.tla", cfg="BridgeVerify_Trace_C12.cfg", steps_per_line=1, timeout=3000),
        rule="one script = one chain: 1-4 validators (secp256k1 consensus keys), a chain id of 1..17 bytes, blocks with "
             "scripted header time (seconds and nanoseconds, incl. 0 ns), commit round (0,1,2,300), proposer, block/app version, "
             "evidence hash, consensus-params variant, undecodable tx (small: non-trivial DataHash / next LastResultsHash; large: multi-part "
             "block), validator set of the NEXT height (members re-weighted, removed, re-added: NextValidatorsHash != ValidatorsHash; "
             "each commit signed by the set of its own height and accepted by VerifyCommit), per-validator precommit flag "
             "(commit/absent/nil, > 2/3 power on the block) and vote timestamp; before every other proof request two `rich` blocks make "
             "all hash-valued header fields pairwise different and the proof is taken at that tip (driver_stats counts them); blocks carry real MsgRequestData (three oracle scripts, empty/non-empty client id "
             "and calldata) reported and resolved in the next block, some left unresolved; every seventh chain runs past height "
             "128. -nrand counts proof requests (5 per chain): single result, request count, multi-result, at the tip or at an "
             "earlier committed height, plus inputs without a proof (unknown/unresolved id, height beyond the tip or <= 2). "
             "evaluations = recorded lines; non-trivial = distinct scripts (SHA-256) with at least one proof that was due (provable input)",
        assumptions=[
            "SHA-256 is an external primitive called by TLC (IOUtils!IOExec -> python3 hashlib); everything else of the bridge "
            "algorithm (IAVL leaf/inner layouts, varints, Result protobuf encoding, multistore leaf and the fixed L R R R L "
            "recombination, header tree, canonical vote bytes) is evaluated by TLC from specs/BridgeVerify.tla",
            "library observations, not re-computed in TLA+: the header hash / app hash / VoteSignBytes come from CometBFT's "
            "types package, the stored value bytes and the oracle store root from the SDK multistore, and `signature (r,s,v) "
            "recovers validator j over SHA-256 of j's real vote bytes` from go-ethereum's crypto.Ecrecover",
            "the CometBFT node is replaced by the harness: real types.Header (AppHash = app hash of the previous Commit), real "
            "part set, real precommit votes signed with the validators' keys, accepted by ValidatorSet.VerifyCommit; the "
            "proof service reaches it through the two RPC methods it uses (Commit, ABCIQueryWithOptions -> app.Query with Prove)",
            "the Solidity ABI packing (EvmProofBytes, abi.go) is not decided: the ProofResponse fields are",
            "the contract's algorithm is transcribed from the proof package's own tests and field names (the Solidity "
            "source is not in the repository); its length guards on prefix/suffix/timestamp are included as `voteFormat`",
            "values above 2^30 (versions, sizes, ids) / 2^31 (times) are outside TLC's integers: heights stay below 200, "
            "times are real Unix seconds around 1.7e9",
            "the consensus validator set per height is scripted by the harness (re-weighting / removing / re-adding the chain's "
            "validators), not derived from the application's ValidatorUpdates (the staking set of the app stays fixed)",
        ],
        min_interesting=2,
    ),
}
