"""X02 (extension, DESIGN §6 `GlobalFee`/ante) — fee-exempt transactions: which signed transactions does CheckTx
admit below the minimum gas price, and for whom (FeeFree.tla).  Not one of the 20 listed properties: there is no
manifest.d entry; `bin/check X02` runs it."""

_MC = ["FeeFree_MC.cfg", "FeeFree_MC_price.cfg", "FeeFree_MC_sig.cfg", "FeeFree_MC_de.cfg", "FeeFree_MC_dkg.cfg",
       "FeeFree_MC_fee.cfg"]
_MC_DEEP = ["FeeFree_MC_report2.cfg", "FeeFree_MC_price2.cfg", "FeeFree_MC_tss2.cfg"]

PROPS = {
    "X02": dict(
        mc=[dict(tla="FeeFree_MC.tla", cfg=c, tier="quick", timeout=300, workers=4) for c in _MC] +
           [dict(tla="FeeFree_MC.tla", cfg=c, tier="thorough", timeout=1500, workers=4) for c in _MC_DEEP],
        drive=dict(family="feefree", nrand=dict(quick=200, thorough=3000), timeout=3600),
        trace=dict(tla="FeeFree_Trace.tla", cfg="FeeFree_Trace_X02.cfg"),
        level="model_checking",
        rule="scripts = a fixed catalogue of 9 hand-written scenarios (reports / mixed and nested MsgExec / expiry and "
             "stale grants / prices / tss signatures, nonce pairs, DKG round 1 / the price rule with a node price, odd gas, a "
             "poor payer, a wrong signer / zero and high global price / free messages that consume nothing) + seeded random scripts of ~25 signed transactions each "
             "until -nrand transactions were checked; every transaction goes through the real app.CheckTx, admitted ones are "
             "delivered in real blocks. evaluations = trace lines (CheckTx calls + blocks); a script is non-trivial if its "
             "trace contains at least one tx admitted below the minimum fee AND at least one tx refused for its fee; distinct "
             "= SHA-256 of the abstract script",
        assumptions=[
            "L2 layer: one node, the harness is the proposer; admission = app.CheckTx(New) on the check state, inclusion = "
            "FinalizeBlock+Commit of the admitted txs in admission order (no ReCheckTx, no mempool eviction)",
            "DeliverTx has no minimum-fee rule in this code base (fee checker returns early unless ctx.IsCheckTx()): a "
            "proposer can include anything; the property is about honest nodes' admission",
            "environment written into genesis / installed through keeper API: one ACTIVE trusted-dealer tss group as current "
            "bandtss group, one feeds vote (so that a current feed exists), a second tss group in DKG round 1 created through "
            "TSSKeeper.CreateGroup, the node's min-gas-prices through baseapp.SetMinGasPrices; set-up transactions (activate, "
            "first nonce pairs, the first authz grants, draining the poor account) are put into block 2 without CheckTx",
            "one fee denom (uband); multi-denom combinations of global and node prices are not explored (see report)",
            "free kinds modelled: MsgReportData, MsgSubmitSignalPrices, MsgSubmitSignature, MsgSubmitDEs, MsgSubmitDKGRound1 "
            "and authz.MsgExec around them (depth <= 2 in MC, unbounded in traces); MsgSubmitDKGRound2 / MsgConfirm / "
            "MsgComplain follow the same checker pattern (real handler on a scratch context) and are not driven",
            "effects of delivered messages (reports stored, signatures counted, requests expiring, grants) are adopted as "
            "observed after every block: they are the subject of C01/C05/C06/C04 etc.",
        ],
        min_interesting=5,
    ),
    # opt-in facet: the node's own min-gas-prices name a denom the global fee does not list.  On the unchanged tree this
    # check REJECTS (see the X02 report: CombinedGasPricesRequirement is called with its two arguments swapped, so the
    # node's denoms replace the global fee's); every Check line of these scripts carries the input-derived tag
    # `node-price-other-denom`, i.e. a line `finding: property=X02D sig=Check:node-price-other-denom ...` in
    # known_findings.txt turns the rejections into KNOWN-FINDING.
    "X02D": dict(
        mc=[dict(tla="FeeFree_MC.tla", cfg="FeeFree_MC_fee.cfg", tier="quick", timeout=300, workers=4)],
        drive=dict(family="feefree", mode="multidenom", nrand=dict(quick=0, thorough=0)),
        trace=dict(tla="FeeFree_Trace.tla", cfg="FeeFree_Trace_X02.cfg"),
        level="model_checking",
        rule="two hand-written scripts: global fee 0.0025uband, node price 0.001uabc (alone / together with 0.005uband); "
             "paying transactions offer the fee in uband, in uabc, in both, in neither",
        assumptions=["as X02; the rule judged is the one of FeeFree.tla: only the global fee's denom counts"],
        min_interesting=0,
    ),
}
