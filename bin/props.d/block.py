"""C02 — block execution is total and deterministic (Block family; level: exploration, twin execution)."""
PROPS = {
    "C02": dict(
        # There is no meaningful exhaustive MC for this property: Block.tla's state is "what two replicas observed"
        # (hashes, result lists), its content only exists in recorded executions. TLC gives the verdict on the
        # recorded twin trace (invariants Total and Deterministic after every block).
        mc=[],
        level="exploration",
        drive=dict(family="block", nrand=dict(quick=60, thorough=560), timeout=5400),
        trace=dict(tla="Block_Trace.tla", cfg="Block_Trace_C02.cfg", steps_per_line=1, timeout=3000),
        rule="scripts = (genesis parameter configuration, seed, #flow blocks, #mutated blocks); configurations: shipped "
             "defaults, a fast profile (short periods so that end-blockers have work), and every numeric parameter of "
             "oracle/tss/bandtss/feeds/tunnel/restake/globalfee at each extreme accepted by its Params.Validate, one at a "
             "time (plus whole-module min/max sets); every configuration with a known-finding tag runs once, the others are "
             "sampled by VERIF_SEED. Blocks are generated statefully on replica A (signed txs with messages of every band "
             "module + staking/bank/gov; gov proposals carry the authority-gated messages), then a mutation pass replaces "
             "message fields / gas / fee / signer by adversarial values; replica B (second OS process, GOMAXPROCS=1, own "
             "home dir) replays the recorded tx bytes. evaluations = blocks executed on both replicas; non-trivial = "
             "distinct blocks (SHA-256 of the tx bytes) with at least one tx",
        assumptions=[
            "two replicas = two OS processes of the same binary on one machine (different Go map seeds, GOMAXPROCS 16 vs 1); "
            "hardware/OS/compiler differences between real nodes are not explored",
            "the consensus engine is replaced by the harness: proposer = validator 1, last-commit votes = all validators still in "
            "the set, header hash and time chosen by the script; no evidence, no vote extensions",
            "two trusted-dealer tss groups and their first nonce pairs are written into the tss/bandtss genesis (DKG itself is C04)",
            "IBC: no counterparty chain; IBC-route tunnels and IBC oracle requests only exercise their failure paths",
            "a genesis refused by the modules' own parameter/genesis validation is outside the quantifier: skipped and counted "
            "(driver_stats.genesis_rejected)",
            "gov is used as environment with second-scale voting periods so that MsgUpdateParams / group transitions really execute",
        ],
        min_interesting=20,
    ),
}
