"""Sampling family: C09 (committee selection is deterministic, exact-size, distinct, eligible and follows the fixed
sampling specification)."""
def _mc(name, tier, timeout):
    return dict(tla="Sampling_MC.tla", cfg="Sampling_MC_%s.cfg" % name, tier=tier, timeout=timeout,
                workers=8)

PROPS = {
    "C09": dict(
        mc=[_mc("scale", "quick", 300), _mc("seed", "quick", 300), _mc("one", "quick", 600), _mc("some", "quick", 600),
            _mc("max", "quick", 900), _mc("max3", "quick", 600), _mc("req", "quick", 600), _mc("sign", "quick", 600),
            _mc("max_wide", "thorough", 2400), _mc("max_deep", "thorough", 2400), _mc("req_deep", "thorough", 2400), _mc("some_deep", "thorough", 2400),
            _mc("some4", "thorough", 2400), _mc("sign_deep", "thorough", 2400)],
        drive=dict(family="sampling", nrand=dict(quick=500, thorough=12000)),
        trace=dict(tla="Sampling_Trace.tla", cfg="Sampling_Trace_C09.cfg", steps_per_line=1),
        rule="systematic pure scripts (every weight vector of <= 3 entries over 0..2 and of 4 entries over 1..2, every "
             "feasible cnt, ChooseSome and ChooseSomeMaxWeight, K = 1) plus seeded random scripts: 35% pure level "
             "(15-30 calls of ChooseOne/ChooseSome/ChooseSomeMaxWeight on equal / tiny / zero-containing / one-whale / "
             "medium / large / total-at-the-cap vectors of 1-16 weights scaled by K in {1, 2, 4, 2^16, 2^48}, cnt 1..#positive, "
             "tries 1..5, plus Drbg stream comparisons), 65% keeper level (one of 8 genesis token vectors up to a total of "
             "2^64-2^48, sampling_try_count 1..5, inactive / jailed validators, a signing group of 1-6 members with threshold "
             "1..n and inactive / nonce-less members; 8-17 steps of Req(ask 1..n+1) / Block(header-hash byte) / SetVal / Jail "
             "/ SignReq / SetMember, signing retries by the real end-blocker); non-trivial = the script samples a committee "
             "of at least two (cnt >= 2); distinct = SHA-256 of the script",
        assumptions=[
            "the HMAC_DRBG output stream is an input of the specification; it is bound to (rolling seed, request id | "
            "signingID||attempt, chain id) by an independent twin generator in the driver (HMAC_DRBG/SHA-256 per NIST "
            "SP 800-90A written with crypto/hmac + crypto/sha256 only), which every run also compares with bandrng.Rng "
            "(Drbg events); HMAC and SHA-256 themselves are trusted",
            "environment installed through keeper setters: oracle sampling_try_count, validator activity flags after the "
            "prelude (MsgActivate), jailing (staking keeper), the signing group (trusted dealer), member activity, nonce "
            "queues (kept empty or >= 8 so that a dequeue never changes availability), tss max_signing_attempt = 3, "
            "signing_period = 1",
            "eligible lists are read independently of the code under test: staking power-index iterator + oracle "
            "validator status; tss member records + nonce-queue bounds",
            "availability seen by an end-block retry is read after the end-block (all time-out deactivations precede all "
            "retries in HandleSigningEndBlock)",
            "handler layer (L1); the begin-blocker is given the header hash through HeaderInfo as baseapp does",
            "abstract weight totals are kept <= 2^23 (Horner on bytes in 31-bit integers); concrete totals reach "
            "2^64 - 2^48 by scaling (argument in specs/Sampling.tla)",
        ],
    ),
}
