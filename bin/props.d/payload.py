"""Payload family: C11 (signed payloads are bound to their request and decode to on-chain data)."""
PL_ASSUME = [
    "the byte-layout knowledge of the structural decoder (harness/fam_payload/decode.go: offsets 32/8/8/4/4, selector and tag "
    "tables computed from the documented keccak pre-images, ABI / protobuf type definitions, originator layout) is trusted base",
    "keccak-256 is treated as injective (collision resistance); ABI / protobuf are modelled at field granularity",
    "environment installed with keeper setters: signing group (trusted dealer) as current bandtss group, nonce pairs, feed prices, "
    "module parameters (max memo 100, max text 40, max signal ids 3, zero fees), the chain id of the context, the outcome of the "
    "incoming group's key generation (as in the Bandtss family)",
    "requesters are real account addresses (bech32), so the requester field does not range over delimiter-like strings; chain id, "
    "memo, destination chain / address, client id, calldata and signal ids do",
    "tick encoders: only consistency of PriceToTick with the decoder TickToPrice is decided (weak bracket below 10^4 units where "
    "several ticks decode to the same integer); numeric accuracy against 1.0001^t is not",
    "handler layer (L1); whether and when a module asks for a signature is the subject of C01 / C08 / C18",
]
PROPS = {
    "C11": dict(
        mc=[dict(tla="Payload_MC.tla", cfg="Payload_MC.cfg", tier="quick", timeout=600),
            dict(tla="Payload_MC.tla", cfg="Payload_MC_orig.cfg", tier="quick", timeout=600),
            dict(tla="Payload_MC.tla", cfg="Payload_MC_cont.cfg", tier="quick", timeout=600),
            dict(tla="Payload_MC.tla", cfg="Payload_MC_tick.cfg", tier="quick", timeout=300),
            dict(tla="Payload_MC.tla", cfg="Payload_MC_orig8.cfg", tier="thorough", timeout=1800)],
        drive=dict(family="payload", nrand=dict(quick=300, thorough=5000)),
        trace=dict(tla="Payload_Trace.tla", cfg="Payload_Trace_C11.cfg"),
        rule="seeded random scripts over bandtss MsgRequestSignature (text / oracle result x3 encoders / feeds x2 encoders / the "
             "internal tunnel and transition kinds; memos and texts at and above their limits; unknown results; 0..4 signal ids incl. "
             "empty, 32- and 33-byte ones), data requests with a TSS encoder resolved at end-block, TSS tunnels triggered and due at "
             "end-block, a group transition (hand-over message; afterwards two signing groups), prices from tick bands and literals "
             "1, 10^4, 2^32, 2^63, 2^64-1, chain ids incl. delimiter-like ones; non-trivial = at least one signing was created; "
             "distinct = SHA-256 of the script",
        assumptions=PL_ASSUME,
    ),
}
