"""C14: block reward allocation (Rewards.tla, a contract specification)."""
PROPS = {
    "C14": dict(
        mc=[dict(tla="Rewards_MC.tla", cfg="Rewards_MC.cfg", tier="quick", timeout=600),
            dict(tla="Rewards_MC.tla", cfg="Rewards_MC_tss.cfg", tier="quick", timeout=600),
            dict(tla="Rewards_MC.tla", cfg="Rewards_MC_full.cfg", tier="quick", timeout=600),
            dict(tla="Rewards_MC.tla", cfg="Rewards_MC_deep.cfg", tier="thorough", timeout=1500),
            dict(tla="Rewards_MC.tla", cfg="Rewards_MC_3val.cfg", tier="thorough", timeout=1500),
            dict(tla="Rewards_MC.tla", cfg="Rewards_MC_tss_deep.cfg", tier="thorough", timeout=1500),
            dict(tla="Rewards_MC.tla", cfg="Rewards_MC_full_deep.cfg", tier="thorough", timeout=1500)],
        drive=dict(family="rewards", nrand=dict(quick=600, thorough=12000)),
        trace=dict(tla="Rewards_Trace.tla", cfg="Rewards_Trace_C14.cfg", steps_per_line=1),
        rule="seeded random scripts of 1-3 events (OracleAlloc = oracle.BeginBlocker alone, TssAlloc = bandtss.BeginBlocker "
             "alone, FullBegin = app.BeginBlocker with zero inflation), each with a parameter tuple from the sets of DESIGN "
             "C14: pool per denom in {0,1,2,3,7,10,99,100,101,10^6} (one or two denoms), vote-power vectors incl. a dominant "
             "validator and non-voters, proposer, oracle activity flags, 0-3 group members with active / queued-nonce flags, "
             "no current group, percentages {0,1,50,70,99,100}, community tax {0, 0.02, 0.5, 1} (and 0.07, 0.33); non-trivial = some event "
             "has a non-exact division (percentage, tax, power share or member share); distinct = SHA-256 of the script",
        assumptions=[
            "exact 18-decimal amounts are not recomputed: validators' rewards are bounded (never above the exact share, less "
            "than two units below; proposer takes the remainder), members' payment within one unit below the exact share; "
            "the exact decimal sum of community pool + all outstanding rewards is added up by the driver and compared by TLC "
            "with the distribution module's balance (no dust)",
            "environment installed with keeper setters: pool (MintCoins to the mint module, transfer to the fee collector, "
            "left-overs drained to a sink account), oracle validator status, tss member active flag, current group (tsskit "
            "trusted-dealer group), nonce queue (EnqueueDEs / real MsgResetDE), module params, mint params (zero inflation)",
            "FullBegin: the SDK distribution module's own split of the swept remainder is bounded, not decided",
            "reward percentages above 100 are outside the contract (both SetParams accept 150: a C02 matter)",
        ],
    ),
}
