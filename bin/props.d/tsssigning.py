"""TssSigning family (C05, C10): wiring of the TLC roles and the driver for bin/check."""
import os

_W = int(os.environ["TSS_MC_WORKERS"]) if os.environ.get("TSS_MC_WORKERS") else "auto"

TSS_ASSUME = [
    "the signing group is installed by a trusted dealer through keeper setters and made the current bandtss group "
    "(the DKG is property C04); tss / bandtss parameters of a script are set with the keepers' SetParams before the trace",
    "L1 handler layer: messages go through app.MsgServiceRouter() on a branched context; signatures/ante handlers are not exercised",
    "signing sources driven: bandtss MsgRequestSignature (direct) and oracle requests with a TSS encoder resolving at end-block; "
    "tunnel packets and group transitions create signings through the same tss.RequestSigning and are not driven here",
    "block time advances 1 s per block (the bandtss penalty is counted in blocks by the specification)",
    "registration serial of a nonce pair = driver-side map (address, PubD|PubE bytes) -> order of registration; "
    "the number of stored DE entries per address is read from the raw tss store (prefix iteration), everything else through exported keeper getters",
]

_MC = [
    dict(tla="TssSigning_MC.tla", cfg="TssSigning_MC_h5.cfg", tier="thorough", timeout=2400, workers=_W),
    dict(tla="TssSigning_MC.tla", cfg="TssSigning_MC_live3.cfg", tier="thorough", timeout=1500, workers=_W),
]

_RULE = ("scripts = TLC -simulate walks of TssSigning.tla (role-relative: members by index, k-th assigned / unassigned member "
         "of signing j) + seeded random scripts; a script is non-trivial if its recorded trace contains a time-out, a retry, "
         "a reset while a signing is WAITING, or a rolled-back creation; distinct = SHA-256 of the abstract script")

PROPS = {
    "C05": dict(
        mc=[dict(tla="TssSigning_MC.tla", cfg="TssSigning_MC_C05.cfg", tier="quick", timeout=900, workers=_W)] + _MC,
        gen=dict(tla="TssSigning_Gen.tla", cfg="TssSigning_Gen.cfg", depth=26, num=dict(quick=300, thorough=4000), timeout=900),
        drive=dict(family="tsssigning", mode="c05", nrand=dict(quick=300, thorough=6000)),
        trace=dict(tla="TssSigning_Trace.tla", cfg="TssSigning_Trace_C05.cfg"),
        rule=_RULE,
        assumptions=TSS_ASSUME,
    ),
    "C10": dict(
        mc=[dict(tla="TssSigning_MC.tla", cfg="TssSigning_MC_C10.cfg", tier="quick", timeout=900, workers=_W),
            dict(tla="TssSigning_MC.tla", cfg="TssSigning_MC_live.cfg", tier="quick", timeout=300, workers=_W)] + _MC,
        gen=dict(tla="TssSigning_Gen.tla", cfg="TssSigning_Gen.cfg", depth=26, num=dict(quick=300, thorough=4000), timeout=900),
        drive=dict(family="tsssigning", mode="c10", nrand=dict(quick=300, thorough=6000)),
        trace=dict(tla="TssSigning_Trace.tla", cfg="TssSigning_Trace_C10.cfg"),
        rule=_RULE,
        assumptions=TSS_ASSUME,
    ),
}
