"""TssSigning family (C05, C10): wiring of the TLC roles and the driver for bin/check."""
import os

_W = int(os.environ["TSS_MC_WORKERS"]) if os.environ.get("TSS_MC_WORKERS") else "auto"

TSS_ASSUME = [
    "the signing group is installed by a trusted dealer through keeper setters and made the current bandtss group "
    "(the DKG is property C04); tss / bandtss parameters of a script are set with the keepers' SetParams before the trace",
    "L1 handler layer: messages go through app.MsgServiceRouter() on a branched context; signatures/ante handlers are not exercised",
    "all four signing sources are driven through their real entry points: bandtss MsgRequestSignature (direct); oracle requests "
    "with a TSS encoder resolving in the oracle end-blocker; packets of a TSS-route tunnel (MsgTriggerTunnel inside a block and the "
    "tunnel end-blocker, incl. packets dropped for lack of available members and the unfunded fee payer); the hand-over message of "
    "a group transition (bandtss MsgTransitionGroup from the authority; created by OnGroupCreationCompleted in the tss end-blocker's "
    "pending-group phase, incl. the dropped transition) and, while the transition awaits execution, the best-effort requests to the incoming group",
    "environment of the tunnel source: tunnel params, one tunnel created/deposited through the real tunnel msg server, its feed price "
    "(FeedsKeeper.SetPrice), the fee payer's balance (bank MsgSend) and the tunnel's (de)activation by its creator (real MsgActivate/"
    "MsgDeactivate) decide when a packet is due; environment of the transition: the key-generation outcome of the incoming group is "
    "installed at DKG round 3 with keeper setters (as in fam_bandtss; the DKG is property C04), same three accounts and threshold as "
    "the current group; the transition is never executed inside a trace (exec time far ahead)",
    "block time advances 1 s per block (the bandtss penalty is counted in blocks by the specification)",
    "registration serial of a nonce pair = driver-side map (address, PubD|PubE bytes) -> order of registration; "
    "the number of stored DE entries per address is read from the raw tss store (prefix iteration), everything else through exported keeper getters",
]

def _mc(cfg, tier="thorough", timeout=2400):
    return dict(tla="TssSigning_MC.tla", cfg=cfg, tier=tier, timeout=timeout, workers=_W)


# thorough facets (measured at 6 workers on a loaded 16-core box, see the family report)
_TRANS = _mc("TssSigning_MC_trans.cfg", "quick", 600)   # group transition: hand-over signing, incoming-group requests
_MC_C05 = [_mc("TssSigning_MC_tun.cfg"), _mc("TssSigning_MC_h5.cfg"), _mc("TssSigning_MC_pre.cfg"), _mc("TssSigning_MC_t1a3.cfg"),
           _mc("TssSigning_MC_x.cfg")]
_MC_C10 = [_mc("TssSigning_MC_tun.cfg"), _mc("TssSigning_MC_pchg.cfg"), _mc("TssSigning_MC_pen.cfg"), _mc("TssSigning_MC_p2.cfg"),
           _mc("TssSigning_MC_live3.cfg")]

_RULE = ("scripts = TLC -simulate walks of TssSigning.tla (role-relative: members by index, k-th assigned / unassigned member "
         "of signing j) + seeded random scripts; a script is non-trivial if its recorded trace contains a time-out, a retry, "
         "a reset while a signing is WAITING, a rolled-back creation, a dropped tunnel packet / hand-over, or a failed incoming-group request; distinct = SHA-256 of the abstract script")

PROPS = {
    "C05": dict(
        mc=[_mc("TssSigning_MC_C05.cfg", "quick", 900), _mc("TssSigning_MC_dchg.cfg", "quick", 600), _TRANS] + _MC_C05,
        gen=dict(tla="TssSigning_Gen.tla", cfg="TssSigning_Gen.cfg", depth=26, num=dict(quick=300, thorough=4000), timeout=900),
        drive=dict(family="tsssigning", mode="c05", nrand=dict(quick=300, thorough=6000)),
        trace=dict(tla="TssSigning_Trace.tla", cfg="TssSigning_Trace_C05.cfg"),
        rule=_RULE,
        assumptions=TSS_ASSUME,
    ),
    "C10": dict(
        mc=[_mc("TssSigning_MC_C10.cfg", "quick", 900), _mc("TssSigning_MC_live.cfg", "quick", 300),
            _mc("TssSigning_MC_achg.cfg", "quick", 600), _TRANS] + _MC_C10,
        gen=dict(tla="TssSigning_Gen.tla", cfg="TssSigning_Gen.cfg", depth=26, num=dict(quick=300, thorough=4000), timeout=900),
        drive=dict(family="tsssigning", mode="c10", nrand=dict(quick=300, thorough=6000)),
        trace=dict(tla="TssSigning_Trace.tla", cfg="TssSigning_Trace_C10.cfg"),
        rule=_RULE,
        assumptions=TSS_ASSUME,
    ),
}
