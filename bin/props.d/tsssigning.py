"""TssSigning family (C05, C10): wiring of the TLC roles and the driver for bin/check."""
import os

_W = int(os.environ["TSS_MC_WORKERS"]) if os.environ.get("TSS_MC_WORKERS") else "auto"

TSS_ASSUME = [
    "the signing group is installed by a trusted dealer through keeper setters and made the current bandtss group "
    "(the DKG is property C04); tss / bandtss parameters of a script are set with the keepers' SetParams before the trace",
    "L1 handler layer: messages go through app.MsgServiceRouter() on a branched context; signatures/ante handlers are not exercised",
    "signing sources driven: bandtss MsgRequestSignature (direct) and oracle requests with a TSS encoder resolving at end-block; "
    "tunnel packets and group transitions create signings through the same tss.RequestSigning and are not driven here",
    "block time advances 1 s per block (the bandtss penalty is counted in blocks by the specification)",
    "registration serial of a nonce pair = driver-side map (address, PubD|PubE bytes) -> order of registration; "
    "the number of stored DE entries per address is read from the raw tss store (prefix iteration), everything else through exported keeper getters",
]

def _mc(cfg, tier="thorough", timeout=2400):
    return dict(tla="TssSigning_MC.tla", cfg=cfg, tier=tier, timeout=timeout, workers=_W)


# thorough facets (measured at 6 workers on a loaded 16-core box, see the family report)
_MC_C05 = [_mc("TssSigning_MC_h5.cfg"), _mc("TssSigning_MC_pre.cfg"), _mc("TssSigning_MC_t1a3.cfg"), _mc("TssSigning_MC_x.cfg")]
_MC_C10 = [_mc("TssSigning_MC_pchg.cfg"), _mc("TssSigning_MC_pen.cfg"), _mc("TssSigning_MC_p2.cfg"), _mc("TssSigning_MC_live3.cfg")]

_RULE = ("scripts = TLC -simulate walks of TssSigning.tla (role-relative: members by index, k-th assigned / unassigned member "
         "of signing j) + seeded random scripts; a script is non-trivial if its recorded trace contains a time-out, a retry, "
         "a reset while a signing is WAITING, or a rolled-back creation; distinct = SHA-256 of the abstract script")

PROPS = {
    "C05": dict(
        mc=[_mc("TssSigning_MC_C05.cfg", "quick", 900)] + _MC_C05,
        gen=dict(tla="TssSigning_Gen.tla", cfg="TssSigning_Gen.cfg", depth=26, num=dict(quick=300, thorough=4000), timeout=900),
        drive=dict(family="tsssigning", mode="c05", nrand=dict(quick=300, thorough=6000)),
        trace=dict(tla="TssSigning_Trace.tla", cfg="TssSigning_Trace_C05.cfg"),
        rule=_RULE,
        assumptions=TSS_ASSUME,
    ),
    "C10": dict(
        mc=[_mc("TssSigning_MC_C10.cfg", "quick", 900), _mc("TssSigning_MC_live.cfg", "quick", 300)] + _MC_C10,
        gen=dict(tla="TssSigning_Gen.tla", cfg="TssSigning_Gen.cfg", depth=26, num=dict(quick=300, thorough=4000), timeout=900),
        drive=dict(family="tsssigning", mode="c10", nrand=dict(quick=300, thorough=6000)),
        trace=dict(tla="TssSigning_Trace.tla", cfg="TssSigning_Trace_C10.cfg"),
        rule=_RULE,
        assumptions=TSS_ASSUME,
    ),
}
