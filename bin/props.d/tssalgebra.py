"""TssAlgebra family: C03 (threshold signing yields a valid group signature; bad shares are rejected)."""
PROPS = {
    "C03": dict(
        mc=[dict(tla="TssAlgebra_MC.tla", cfg="TssAlgebra_MC.cfg", tier="quick", timeout=1500),
            dict(tla="TssAlgebra_MC.tla", cfg="TssAlgebra_MC_t3.cfg", tier="quick", timeout=1500),
            dict(tla="TssAlgebra_MC.tla", cfg="TssAlgebra_MC_retry.cfg", tier="quick", timeout=1500),
            dict(tla="TssAlgebra_MC.tla", cfg="TssAlgebra_MC_hash.cfg", tier="quick", timeout=1500),
            dict(tla="TssAlgebra_MC.tla", cfg="TssAlgebra_MC_n5.cfg", tier="thorough", timeout=6000),
            dict(tla="TssAlgebra_MC.tla", cfg="TssAlgebra_MC_n22.cfg", tier="thorough", timeout=6000)],
        # GEN is on the Go side (seeded by VERIF_SEED): a covering set over the precomputed Lagrange table + random scenarios
        drive=dict(family="tssalgebra", nrand=dict(quick=110, thorough=5000), timeout=7200),
        trace=dict(tla="TssAlgebra_Trace.tla", cfg="TssAlgebra_Trace_C03.cfg"),
        rule="scenarios (n, t, committee S as member ids, submission order, corruption kinds, time-outs/retries) = a fixed "
             "covering set (committees {1,j} j=2..20 of a 20-member group, full committees 1..k, single signers, ids 21/22, "
             "21-of-21) + seeded random scenarios with n <= 40, t <= n; every signing is a real secp256k1 signing through "
             "MsgSubmitDEs / MsgRequestSignature / MsgSubmitSignature / end-block; non-trivial = the trace contains a "
             "corrupted, duplicate, late or otherwise rejected submission; distinct = SHA-256 of the scenario",
        assumptions=[
            "group and member keys are installed with keeper setters from a trusted-dealer polynomial (DKG is property C04)",
            "which members hold nonce pairs is chosen by the driver (real MsgSubmitDEs) so that the real sampler can only "
            "pick the intended committee; DE queues and the sampler are properties C05/C09",
            "tss params: max_signing_attempt = 2, signing_period = 1; bandtss fee_per_signer = 0; handler layer (L1)",
            "TLC checks the algebra in Z_q (q = 11, 23) 'in the exponent' with hash functions as random oracles; on secp256k1 "
            "the universal statement over keys/messages is by sampling; secp256k1 and keccak libraries are trusted",
            "the published signature is judged by the harness' own verifier (decred secp256k1 + x/crypto keccak, challenge "
            "bytes per the documented BAND-TSS format), not by pkg/tss",
            "driver_stats.native_* are native evaluations of the spec's interpolation invariant with the real "
            "ComputeLagrangeCoefficient over Z_N; reported separately, not what the level claim rests on",
        ],
        min_interesting=20,
    ),
}
