"""X05 (extension, DESIGN §8.8) — tunnel packets over an IBC route that really delivers: the packet rule of Tunnel.tla bound
to real ibc channels (TunnelIBC.tla EXTENDS Tunnel.tla).  Not one of the 20 listed properties: there is no manifest.d entry;
`bin/check X05` runs it, `bin/check X05D` is the opt-in entry with the one input on which the unchanged tree is rejected."""

_ASSUME = [
    "L1 handler layer: tunnel / ibc core messages go through app.MsgServiceRouter() on a branched context (tx atomicity = one "
    "cache context per message, as baseapp.runMsgs), the end-blocker is the real app.EndBlocker; signatures, ante handlers "
    "(incl. ibc's redundant-relay decorator) and gas limits are not exercised",
    "both ends of every tunnel channel live on this chain (ibc-go 09-localhost client, connection-localhost): the real "
    "MsgChannelOpenInit on port tunnel.<id> (-> x/tunnel OnChanOpenInit), the real Try / Ack / Confirm, the real ics4Wrapper "
    "(ibc fee keeper -> channel keeper SendPacket), the real MsgRecvPacket / MsgAcknowledgement / MsgTimeout with localhost "
    "sentinel proofs (verified against what the other end really stored); light-client proofs of a remote chain are not exercised",
    "environment installed directly: the counterparty port `tunnel.900` is bound with PortKeeper.BindPort and claimed for the "
    "tunnel module (it plays the remote chain: its OnChanOpenTry / OnRecvPacket are x/tunnel's too); `Break` closes the band-side "
    "channel end with ChannelKeeper.SetChannel (state CLOSED, as after a counterparty close) or releases the tunnel module's "
    "channel capability with ScopedTunnelKeeper.ReleaseCapability; an incoming packet is committed on the counterparty end with "
    "ChannelKeeper.SendPacket and that end's capability; feeds prices with FeedsKeeper.SetPrice / DeleteAllPrices (no current feeds, "
    "so the feeds end-blocker leaves them alone); tunnel params (min deposit, base fee, ranges) and bandtss fee per signer with "
    "keeper.SetParams before the trace; fee-payer funding by MsgSend",
    "a 2-of-3 trusted-dealer tss group is the current bandtss group with a positive fee per signer while IBC packets are produced "
    "(so `no TSS route fee` is not vacuous); TSS tunnels next to the IBC ones run in the healthy route state only (their failure "
    "modes are C08's subject)",
    "deposits, withdrawals, (de)activation messages are adopted as observed (C17 / C08); the status and timestamp fields of the "
    "prices inside a packet are not compared (signal set, price values, tunnel id, sequence, created_at, timeout, channel and "
    "IBC sequence are)",
]

_MC = [("TunnelIBC_MC_send.cfg", 400, []), ("TunnelIBC_MC_two.cfg", 400, []), ("TunnelIBC_MC_cb.cfg", 400, []),
       ("TunnelIBC_MC_route.cfg", 300, ["-coverage", "1"])]

_RULE = ("scripts = a fixed catalogue of 8 hand-written scenarios (packet rule over a delivering route / every way a send fails and "
         "recovery on a second channel / who may point which tunnel at which channel / incoming packets, acknowledgements, timeouts, "
         "close attempts / three tunnels incl. a TSS one in one end-block at the funding boundary / handshake callbacks / route "
         "switched between two channels with packets in flight / re-configuration) + seeded random scripts of 25-60 steps with one to "
         "three tunnels; a script is non-trivial if its trace contains a committed IBC packet or a failed send; distinct = SHA-256 "
         "of the script")

PROPS = {
    "X05": dict(
        mc=[dict(tla="TunnelIBC_MC.tla", cfg=c, tier="quick", timeout=t, workers=8, extra=x) for c, t, x in _MC],
        drive=dict(family="tunnelibc", nrand=dict(quick=300, thorough=5000), timeout=3600),
        trace=dict(tla="TunnelIBC_Trace.tla", cfg="TunnelIBC_Trace_X05.cfg"),
        level="model_checking",
        rule=_RULE,
        assumptions=_ASSUME,
        min_interesting=50,
    ),
    # opt-in facet: the input on which the UNCHANGED tree is rejected (see findings/X05-*): the creator's MsgUpdateRoute naming an
    # existing channel of the tunnel's own port that is not OPEN.  Every such event carries the input-derived tag
    # `route-to-nonopen-channel`, i.e. a line `finding: property=X05D sig=UpdateRoute:route-to-nonopen-channel ...` in
    # known_findings.txt turns the rejections into KNOWN-FINDING.  The scripts of X05 never contain this input (the driver
    # replaces it by an unknown channel id unless its mode is "defects").
    "X05D": dict(
        mc=[dict(tla="TunnelIBC_MC.tla", cfg="TunnelIBC_MC_route.cfg", tier="quick", timeout=300, workers=8)],
        drive=dict(family="tunnelibc", mode="defects", nrand=dict(quick=0, thorough=0)),
        trace=dict(tla="TunnelIBC_Trace.tla", cfg="TunnelIBC_Trace_X05.cfg"),
        level="model_checking",
        rule="two hand-written scripts: the creator points the route of an IBC tunnel at a channel of the tunnel's own port that is "
             "still in INIT (handshake not answered) / that is CLOSED; the property text wants both refused",
        assumptions=_ASSUME,
        min_interesting=0,
    ),
}
