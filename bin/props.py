"""Per-property wiring for bin/check: collected from bin/props.d/<family>.py, each defining PROPS = {id: {...}}.

Keys of a property entry:
  mc      list of {tla, cfg, tier: quick|thorough, timeout, workers?, extra?}  exhaustive TLC runs of the spec
  gen     optional {tla, cfg, depth, num: {quick, thorough}, timeout}         tlc -simulate writing scripts to $GEN_OUT
  drive   {family, mode?, nrand: {quick, thorough}, timeout?}                  vdrive sub-command recording the traces
  trace   {tla, cfg, steps_per_line?, java_opts?, timeout?}                    trace-validation spec (cfg has TraceFile = "...")
  rule    text: how scripts are generated and what makes one non-trivial
  assumptions  list of text
  level   evidence level (default model_checking)
  min_interesting  vacuity guard (default 2)
  custom  optional module name in bin/ with run(pid, prop, tier, seed, args, check_module, workdir) for special flows
"""
import glob, os, importlib.util

PROPS = {}
for _f in sorted(glob.glob(os.path.join(os.path.dirname(os.path.abspath(__file__)), "props.d", "*.py"))):
    _spec = importlib.util.spec_from_file_location("props_" + os.path.basename(_f)[:-3], _f)
    _m = importlib.util.module_from_spec(_spec)
    _spec.loader.exec_module(_m)
    PROPS.update(_m.PROPS)
