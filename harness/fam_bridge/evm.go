package fam_bridge

import (
	"fmt"
	"math/big"

	"github.com/ethereum/go-ethereum/accounts/abi"

	tf "vdrive/tracefmt"
)

// evm.go: decode EvmProofBytes - the bytes a relayer hands to the Bridge contract - with go-ethereum's ABI
// decoder (a trusted library) against the contract's argument layout as transcribed here (relayAndVerify /
// relayAndMultiVerify / relayAndVerifyCount: (bytes blockRelay, bytes|bytes[] data)), and log the decoded
// fields in the same shape as the ProofResponse fields.  The trace spec requires the two to be equal, so the
// stages it verifies are stages of what the contract would really receive.

func tuple(comps ...abi.ArgumentMarshaling) []abi.ArgumentMarshaling { return comps }
func am(name, typ string, comps ...abi.ArgumentMarshaling) abi.ArgumentMarshaling {
	return abi.ArgumentMarshaling{Name: name, Type: typ, Components: comps}
}

func mustArgs(ms ...abi.ArgumentMarshaling) abi.Arguments {
	var out abi.Arguments
	for _, m := range ms {
		t, err := abi.NewType(m.Type, "", m.Components)
		if err != nil {
			panic(err)
		}
		out = append(out, abi.Argument{Name: m.Name, Type: t})
	}
	return out
}

var pathComps = tuple(am("isDataOnRight", "bool"), am("subtreeHeight", "uint8"), am("subtreeSize", "uint256"),
	am("subtreeVersion", "uint256"), am("siblingHash", "bytes32"))

var (
	outerSingle = mustArgs(am("relay", "bytes"), am("data", "bytes"))
	outerMulti  = mustArgs(am("relay", "bytes"), am("data", "bytes[]"))
	relayArgs   = mustArgs(
		am("multiStore", "tuple", am("oracleIAVLStateHash", "bytes32"), am("mintStoreMerkleHash", "bytes32"),
			am("paramsToRestakeStoresMerkleHash", "bytes32"), am("rollingseedToTransferStoresMerkleHash", "bytes32"),
			am("tssToUpgradeStoresMerkleHash", "bytes32"), am("authToIcahostStoresMerkleHash", "bytes32")),
		am("merkleParts", "tuple", am("versionAndChainIdHash", "bytes32"), am("height", "uint64"), am("timeSecond", "uint64"),
			am("timeNanoSecond", "uint32"), am("lastBlockIdAndOther", "bytes32"), am("nextValidatorHashAndConsensusHash", "bytes32"),
			am("lastResultsHash", "bytes32"), am("evidenceAndProposerHash", "bytes32")),
		am("commonEncodedVotePart", "tuple", am("signedDataPrefix", "bytes"), am("signedDataSuffix", "bytes")),
		am("signatures", "tuple[]", am("r", "bytes32"), am("s", "bytes32"), am("v", "uint8"), am("encodedTimestamp", "bytes")),
	)
	verifyArgs = mustArgs(
		am("blockHeight", "uint256"),
		am("result", "tuple", am("clientID", "string"), am("oracleScriptID", "uint64"), am("params", "bytes"), am("askCount", "uint64"),
			am("minCount", "uint64"), am("requestID", "uint64"), am("ansCount", "uint64"), am("requestTime", "uint64"),
			am("resolveTime", "uint64"), am("resolveStatus", "uint8"), am("result", "bytes")),
		am("version", "uint256"),
		am("merklePaths", "tuple[]", pathComps...),
	)
	countArgs = mustArgs(am("blockHeight", "uint256"), am("count", "uint256"), am("version", "uint256"), am("merklePaths", "tuple[]", pathComps...))
)

type evmMultiStore struct {
	OracleIAVLStateHash, MintStoreMerkleHash, ParamsToRestakeStoresMerkleHash [32]byte
	RollingseedToTransferStoresMerkleHash, TssToUpgradeStoresMerkleHash       [32]byte
	AuthToIcahostStoresMerkleHash                                             [32]byte
}
type evmParts struct {
	VersionAndChainIdHash                                                                            [32]byte
	Height, TimeSecond                                                                               uint64
	TimeNanoSecond                                                                                   uint32
	LastBlockIdAndOther, NextValidatorHashAndConsensusHash, LastResultsHash, EvidenceAndProposerHash [32]byte
}
type evmCommon struct{ SignedDataPrefix, SignedDataSuffix []byte }
type evmSig struct {
	R, S             [32]byte
	V                uint8
	EncodedTimestamp []byte
}
type evmResult struct {
	ClientID                                                          string
	OracleScriptID                                                    uint64
	Params                                                            []byte
	AskCount, MinCount, RequestID, AnsCount, RequestTime, ResolveTime uint64
	ResolveStatus                                                     uint8
	Result                                                            []byte
}
type evmPath struct {
	IsDataOnRight  bool
	SubtreeHeight  uint8
	SubtreeSize    *big.Int
	SubtreeVersion *big.Int
	SiblingHash    [32]byte
}

func bigSmall(b *big.Int) int {
	if b == nil || !b.IsUint64() {
		return -1
	}
	return small(b.Uint64())
}

func evmPaths(v interface{}) ([]tf.M, error) {
	ps, err := conv[[]evmPath](v)
	if err != nil {
		return nil, err
	}
	out := []tf.M{}
	for _, p := range ps {
		out = append(out, tf.M{"right": p.IsDataOnRight, "h": int(p.SubtreeHeight), "size": bigSmall(p.SubtreeSize),
			"ver": bigSmall(p.SubtreeVersion), "sib": hx(p.SiblingHash[:])})
	}
	return out, nil
}

// conv copies a value decoded by the abi package (anonymous structs) into one of our named types.
func conv[T any](in interface{}) (out T, err error) {
	defer func() {
		if p := recover(); p != nil {
			err = fmt.Errorf("convert: %v", p)
		}
	}()
	out = *abi.ConvertType(in, new(T)).(*T)
	return out, nil
}

func zeroRes() tf.M {
	return tf.M{"cid": "", "osid": 0, "calldata": "", "ask": 0, "min": 0, "rid": 0, "ans": 0, "reqt": 0, "rest": 0, "status": 0, "result": ""}
}

// decodeEvm returns the proof in the shape of o.p, or {"present": false} if the bytes do not decode.
func decodeEvm(kind string, bz []byte) (out tf.M) {
	fail := tf.M{"present": false}
	defer func() {
		if p := recover(); p != nil {
			out = fail
		}
	}()
	outer := outerSingle
	if kind == "multi" {
		outer = outerMulti
	}
	top, err := outer.Unpack(bz)
	if err != nil || len(top) != 2 {
		return fail
	}
	relayBz, _ := top[0].([]byte)
	var datas [][]byte
	if kind == "multi" {
		datas, _ = top[1].([][]byte)
	} else {
		d, _ := top[1].([]byte)
		datas = [][]byte{d}
	}
	rv, err := relayArgs.Unpack(relayBz)
	if err != nil || len(rv) != 4 {
		return fail
	}
	ms, e1 := conv[evmMultiStore](rv[0])
	hp, e2 := conv[evmParts](rv[1])
	cv, e3 := conv[evmCommon](rv[2])
	sgs, e4 := conv[[]evmSig](rv[3])
	if e1 != nil || e2 != nil || e3 != nil || e4 != nil {
		return fail
	}
	sigs := []tf.M{}
	for _, sg := range sgs {
		sigs = append(sigs, tf.M{"r": hx(sg.R[:]), "s": hx(sg.S[:]), "v": int(sg.V), "ts": hx(sg.EncodedTimestamp)})
	}
	var items []tf.M
	bh := -2
	for _, d := range datas {
		if kind == "count" {
			v, err := countArgs.Unpack(d)
			if err != nil || len(v) != 4 {
				return fail
			}
			paths, err := evmPaths(v[3])
			if err != nil {
				return fail
			}
			bh = bigSmall(v[0].(*big.Int))
			items = append(items, tf.M{"version": bigSmall(v[2].(*big.Int)), "paths": paths, "isCount": true,
				"count": bigSmall(v[1].(*big.Int)), "res": zeroRes()})
			continue
		}
		v, err := verifyArgs.Unpack(d)
		if err != nil || len(v) != 4 {
			return fail
		}
		r, err := conv[evmResult](v[1])
		if err != nil {
			return fail
		}
		paths, err := evmPaths(v[3])
		if err != nil {
			return fail
		}
		h := bigSmall(v[0].(*big.Int))
		if bh != -2 && bh != h {
			return fail // the items of one multi proof name different blocks
		}
		bh = h
		items = append(items, tf.M{"version": bigSmall(v[2].(*big.Int)), "paths": paths, "isCount": false, "count": 0,
			"res": tf.M{"cid": hx([]byte(r.ClientID)), "osid": small(r.OracleScriptID), "calldata": hx(r.Params), "ask": small(r.AskCount),
				"min": small(r.MinCount), "rid": small(r.RequestID), "ans": small(r.AnsCount), "reqt": small31(r.RequestTime),
				"rest": small31(r.ResolveTime), "status": int(r.ResolveStatus), "result": hx(r.Result)}})
	}
	return tf.M{
		"bh": bh, "items": items,
		"ms": tf.M{"oracle": hx(ms.OracleIAVLStateHash[:]), "mint": hx(ms.MintStoreMerkleHash[:]), "params": hx(ms.ParamsToRestakeStoresMerkleHash[:]),
			"rolling": hx(ms.RollingseedToTransferStoresMerkleHash[:]), "tss": hx(ms.TssToUpgradeStoresMerkleHash[:]), "auth": hx(ms.AuthToIcahostStoresMerkleHash[:])},
		"hp": tf.M{"vc": hx(hp.VersionAndChainIdHash[:]), "height": small31(hp.Height), "sec": small31(hp.TimeSecond), "nano": small31(uint64(hp.TimeNanoSecond)),
			"lbi": hx(hp.LastBlockIdAndOther[:]), "nvc": hx(hp.NextValidatorHashAndConsensusHash[:]), "lrh": hx(hp.LastResultsHash[:]), "ep": hx(hp.EvidenceAndProposerHash[:])},
		"cv":   tf.M{"prefix": hx(cv.SignedDataPrefix), "suffix": hx(cv.SignedDataSuffix)},
		"sigs": sigs,
	}
}
