package fam_bridge

import (
	"bytes"
	"context"
	"crypto/sha256"
	"encoding/hex"
	"encoding/json"
	"fmt"
	"os"

	"github.com/ethereum/go-ethereum/crypto"

	abci "github.com/cometbft/cometbft/abci/types"
	cmttypes "github.com/cometbft/cometbft/types"

	ics23 "github.com/cosmos/ics23/go"

	sdkclient "github.com/cosmos/cosmos-sdk/client"
	"github.com/cosmos/cosmos-sdk/server/config"
	sdk "github.com/cosmos/cosmos-sdk/types"

	"github.com/bandprotocol/chain/v3/client/grpc/oracle/proof"
	oracletypes "github.com/bandprotocol/chain/v3/x/oracle/types"

	tf "vdrive/tracefmt"
	"vdrive/world"
)

type Driver struct {
	W                 *tf.Writer
	Traces            int
	Events            int
	Interesting       int
	Proofs            int
	Due               int
	SetChanges        int
	ProofsAtSetChange int
	ProofsAllDistinct int
	Rejected          int
	Blocks            int
	MaxHeight         int64
	MaxResults        int
	PathDepths        map[int]int
	ValSizes          map[int]int
	Rounds            map[int]int
	Stores            []string
	seen              map[string]bool
}

func NewDriver(w *tf.Writer) *Driver {
	return &Driver{W: w, seen: map[string]bool{}, PathDepths: map[int]int{}, ValSizes: map[int]int{}, Rounds: map[int]int{}}
}

func (d *Driver) Close() {}

func (d *Driver) Finish() map[string]interface{} {
	return map[string]interface{}{
		"traces": d.Traces, "events": d.Events, "interesting": d.Interesting,
		"validator_set_changes": d.SetChanges, "proofs_at_headers_with_next_validators_hash_differing": d.ProofsAtSetChange, "proofs_at_headers_with_all_hash_fields_pairwise_distinct": d.ProofsAllDistinct, "proofs_due": d.Due, "proofs_produced_by_service": d.Proofs, "proof_requests_refused_by_service": d.Rejected, "blocks": d.Blocks,
		"max_height": d.MaxHeight, "max_results_in_store": d.MaxResults, "iavl_path_depths": d.PathDepths,
		"validator_set_sizes": d.ValSizes, "commit_rounds": d.Rounds, "mounted_stores": d.Stores,
	}
}

func hx(b []byte) string { return hex.EncodeToString(b) }

var valTokens = map[int][]int64{
	1: {100_000_000},
	2: {100_000_000, 100_000_000},
	3: {70_000_000, 20_000_000, 10_000_000},
	4: {40_000_000, 30_000_000, 20_000_000, 10_000_000},
}

// ---- one script = one chain ----

type run struct {
	d       *Driver
	n       *Node
	w       *world.World
	pending []uint64 // request ids waiting for reports
	nres    int
}

func (d *Driver) RunScript(sc tf.Script) {
	// scripts built in memory hold []tf.M etc.; a JSON round trip gives the same loosely typed shape as a replay
	if b, err := json.Marshal(sc); err == nil {
		var rt tf.Script
		if json.Unmarshal(b, &rt) == nil {
			sc = rt
		}
	}
	nv := tf.Int(sc.C, "nvals", 3)
	cfg := world.DefaultConfig()
	cfg.ValTokens = valTokens[nv]
	cfg.ChainID = tf.Str(sc.C, "chain", "BANDCHAIN")
	w := world.New(cfg)
	defer w.Close()
	r := &run{d: d, n: NewNode(w), w: w}
	d.ValSizes[nv]++

	// block 2: every validator activates as an oracle provider (real MsgActivate in a real block)
	var txs [][]byte
	for _, v := range w.Vals {
		tx, err := r.n.C.SignTx(v, 0, nil, &oracletypes.MsgActivate{Validator: v.ValAddr.String()})
		if err != nil {
			panic(err)
		}
		txs = append(txs, tx)
	}
	resp, err := r.n.Produce(BlockSpec{DSec: 5, VerBlock: 11}, txs)
	if err != nil {
		panic(err)
	}
	for _, t := range resp.TxResults {
		if t.Code != 0 {
			panic("activation failed: " + t.Log)
		}
	}
	d.Blocks++

	stores := r.n.StoreNames(2)
	d.Stores = stores
	d.W.Reset(sc.C, tf.M{"stores": stores, "sides": r.observedSides(), "chain": hx([]byte(cfg.ChainID)), "nvals": nv}, sc.Steps)
	d.Traces++
	d.Events++
	interesting := false
	for _, st := range sc.Steps {
		switch tf.Str(st, "op", "") {
		case "Block":
			r.block(st)
		case "Proof":
			if r.proofStep(st) {
				interesting = true
			}
		}
	}
	d.SetChanges += r.n.SetChanges
	if interesting {
		h := sc.Hash()
		if !d.seen[h] {
			d.seen[h] = true
			d.Interesting++
		}
	}
}

// observedSides decodes (with the ics23 library) the multistore existence proof the SDK really serves
// for the oracle store: per inner op "L" if the sibling hash is on the left, "R" if on the right.
func (r *run) observedSides() []string {
	out := []string{}
	resp, err := r.w.App.Query(context.Background(), &abci.RequestQuery{
		Path: "/store/oracle/key", Data: oracletypes.RequestCountStoreKey, Height: 2, Prove: true})
	if err != nil || resp.ProofOps == nil {
		return out
	}
	for _, op := range resp.ProofOps.Ops {
		if op.Type != "ics23:simple" {
			continue
		}
		var cp ics23.CommitmentProof
		if cp.Unmarshal(op.Data) != nil || cp.GetExist() == nil {
			return out
		}
		for _, in := range cp.GetExist().Path {
			switch {
			case len(in.Prefix) == 33 && len(in.Suffix) == 0:
				out = append(out, "L")
			case len(in.Prefix) == 1 && len(in.Suffix) == 32:
				out = append(out, "R")
			default:
				out = append(out, "?")
			}
		}
	}
	return out
}

func (r *run) block(st tf.M) {
	n := r.n
	nv := len(r.w.Vals)
	bs := BlockSpec{
		DSec: int64(tf.Int(st, "dt", 3)), Nano: int64(tf.Int(st, "ns", 0)), Round: int32(tf.Int(st, "round", 0)),
		Proposer: tf.Int(st, "prop", 0) % nv, VerBlock: uint64(tf.Int(st, "vb", 11)), VerApp: uint64(tf.Int(st, "va", 0)),
		Evidence: tf.Bool(st, "evid", false), Junk: tf.Int(st, "junk", 0), ConsVar: tf.Int(st, "cp", 0),
	}
	// validator set of the next height: power per validator (0 = leaves the set); at least one member
	if np := tf.Ints(st, "nextvals"); len(np) > 0 {
		var sum int64
		for i := 0; i < nv; i++ {
			p := int64(0)
			if i < len(np) && np[i] > 0 {
				p = int64(np[i])
			}
			bs.NextPowers = append(bs.NextPowers, p)
			sum += p
		}
		if sum == 0 {
			bs.NextPowers[0] = 1
		}
	}
	cur := n.Powers[n.C.Height+1] // the set that signs this block
	for i := 0; i < nv; i++ {
		bs.Votes = append(bs.Votes, VoteSpec{Flag: 2, DSec: 1})
	}
	if vs, ok := st["votes"].([]interface{}); ok {
		for i, x := range vs {
			if m, ok := x.(map[string]interface{}); ok && i < nv {
				bs.Votes[i] = VoteSpec{Flag: tf.Int(m, "f", 2), DSec: int64(tf.Int(m, "ds", 1)), Nano: int64(tf.Int(m, "ns", 0))}
			}
		}
	}
	// keep more than 2/3 of the power on the block (a committed block always has that)
	var tot, on int64
	for i := 0; i < nv; i++ {
		tot += cur[i]
		if bs.Votes[i].Flag == 2 {
			on += cur[i]
		}
	}
	for i := 0; i < nv && on*3 <= tot*2; i++ {
		if bs.Votes[i].Flag != 2 {
			bs.Votes[i].Flag = 2
			on += cur[i]
		}
	}
	var txs [][]byte
	// reports for the requests of earlier blocks
	k := r.w.App.OracleKeeper
	ctx := n.C.Query()
	nrep := tf.Int(st, "reports", 99)
	var still []uint64
	for _, id := range r.pending {
		rq, err := k.GetRequest(ctx, oracletypes.RequestID(id))
		if err != nil {
			continue
		}
		if nrep < int(rq.MinCount) {
			still = append(still, id) // stays unresolved: no result in the store
			continue
		}
		cnt := 0
		for _, va := range rq.RequestedValidators {
			if cnt >= nrep {
				break
			}
			var acc world.Account
			for _, v := range r.w.Vals {
				if v.ValAddr.String() == va {
					acc = v
				}
			}
			var reps []oracletypes.RawReport
			for _, raw := range rq.RawRequests {
				reps = append(reps, oracletypes.NewRawReport(raw.ExternalID, 0, []byte(fmt.Sprintf("ans%d", id))))
			}
			tx, err := n.C.SignTx(acc, 0, nil, oracletypes.NewMsgReportData(oracletypes.RequestID(id), reps, acc.ValAddr))
			if err != nil {
				panic(err)
			}
			txs = append(txs, tx)
			cnt++
		}
	}
	r.pending = still
	// new requests
	before := k.GetRequestCount(ctx)
	if rs, ok := st["reqs"].([]interface{}); ok {
		for _, x := range rs {
			m, _ := x.(map[string]interface{})
			ask := tf.Int(m, "ask", 1)
			if ask > nv {
				ask = nv
			}
			mn := tf.Int(m, "min", 1)
			if mn > ask {
				mn = ask
			}
			msg := oracletypes.NewMsgRequestData(oracletypes.OracleScriptID(tf.Int(m, "os", world.ScriptOK1)), []byte(tf.Str(m, "cd", "")),
				uint64(ask), uint64(mn), tf.Str(m, "cid", ""), sdk.NewCoins(sdk.NewInt64Coin("uband", 1_000_000)), 40000, 300000, r.w.Accts[0].Addr, 0)
			tx, err := n.C.SignTx(r.w.Accts[0], 0, nil, msg)
			if err != nil {
				panic(err)
			}
			txs = append(txs, tx)
		}
	}
	resp, err := n.Produce(bs, txs)
	if err != nil {
		panic(err)
	}
	for i, t := range resp.TxResults {
		if t.Code != 0 && i < len(txs) && os.Getenv("BRIDGE_DEBUG") != "" {
			fmt.Fprintf(os.Stderr, "h=%d tx %d failed: %s\n", n.C.Height, i, t.Log)
		}
	}
	r.d.Blocks++
	r.d.Rounds[int(bs.Round)]++
	if n.C.Height > r.d.MaxHeight {
		r.d.MaxHeight = n.C.Height
	}
	ctx = n.C.Query()
	after := k.GetRequestCount(ctx)
	for id := before + 1; id <= after; id++ {
		r.pending = append(r.pending, id)
	}
	nres := 0
	for id := uint64(1); id <= after; id++ {
		if k.HasResult(ctx, oracletypes.RequestID(id)) {
			nres++
		}
	}
	if nres > r.d.MaxResults {
		r.d.MaxResults = nres
	}
}

// proofStep asks the real proof service for one proof and logs it with the trusted observations.
// Returns true when a proof was due (committed block in the provable range, value stored).
func (r *run) proofStep(st tf.M) bool {
	n := r.n
	kind := tf.Str(st, "kind", "result")
	h := int64(tf.Int(st, "h", 0)) // 0 = latest
	var rids []uint64
	for _, x := range tf.Ints(st, "rids") {
		rids = append(rids, uint64(x))
	}
	H := h
	if H == 0 {
		H = n.C.Height
	}
	ridInts := []int{}
	for _, x := range rids {
		ridInts = append(ridInts, int(x))
	}
	a := tf.M{"kind": kind, "h": int(h), "rids": ridInts}

	// ---- the call into the real proof package ----
	var items []item
	var br proof.BlockRelayProof
	var bh uint64
	var evmBz []byte
	ok, detail := false, ""
	func() {
		defer func() {
			if p := recover(); p != nil {
				ok, detail = false, fmt.Sprint("panic: ", p)
			}
		}()
		cctx := sdkclient.Context{}.WithClient(n)
		switch kind {
		case "result":
			res, err := proof.NewProofServer(cctx, config.Config{}).Proof(context.Background(), &proof.ProofRequest{RequestId: rids[0], Height: h})
			if err != nil {
				detail = err.Error()
				return
			}
			p := res.Result.Proof
			evmBz = res.Result.EvmProofBytes
			items, br, bh = []item{resultItem(p.OracleDataProof)}, p.BlockRelayProof, p.BlockHeight
		case "multi":
			res, err := proof.NewProofServer(cctx.WithHeight(h), config.Config{}).MultiProof(context.Background(), &proof.MultiProofRequest{RequestIds: rids})
			if err != nil {
				detail = err.Error()
				return
			}
			p := res.Result.Proof
			evmBz = res.Result.EvmProofBytes
			for _, od := range p.OracleDataMultiProof {
				items = append(items, resultItem(od))
			}
			br, bh = p.BlockRelayProof, p.BlockHeight
		case "count":
			res, err := proof.NewProofServer(cctx.WithHeight(h), config.Config{}).RequestCountProof(context.Background(), &proof.RequestCountProofRequest{})
			if err != nil {
				detail = err.Error()
				return
			}
			p := res.Result.Proof
			evmBz = res.Result.EvmProofBytes
			items = []item{{version: p.CountProof.Version, paths: p.CountProof.MerklePaths, count: p.CountProof.Count, isCount: true}}
			br, bh = p.BlockRelayProof, p.BlockHeight
		}
		ok = true
	}()

	// ---- observations from trusted libraries only ----
	tip := n.C.Height
	s := tf.M{"tip": int(tip), "H": int(H), "chain": hx([]byte(n.ChainID))}
	hdr := n.Headers[H]
	commit := n.Commits[H]
	avail := hdr != nil && H >= 3
	s["avail"] = avail
	var keys [][]byte
	if kind == "count" {
		keys = [][]byte{oracletypes.RequestCountStoreKey}
	} else {
		for _, id := range rids {
			keys = append(keys, oracletypes.ResultStoreKey(oracletypes.RequestID(id)))
		}
	}
	stored := []tf.M{}
	for _, key := range keys {
		var val []byte
		if avail {
			val = n.StoredValue(H-1, key)
		}
		m := tf.M{"key": hx(key), "present": val != nil, "vhash": ""}
		if val != nil {
			x := sha256.Sum256(val)
			m["vhash"] = hx(x[:])
		}
		stored = append(stored, m)
	}
	s["stored"] = stored
	vals := []tf.M{}
	if avail {
		root, app := n.OracleRoot(H - 1)
		if !bytes.Equal(app, hdr.AppHash) {
			panic("fake node: header app hash is not the multistore hash of the previous version")
		}
		s["appHash"] = hx(hdr.AppHash)
		s["blockHash"] = hx(hdr.Hash())
		s["oracleRoot"] = hx(root)
		s["round"] = int(commit.Round)
		if !bytes.Equal(hdr.ValidatorsHash, hdr.NextValidatorsHash) {
			r.d.ProofsAtSetChange++
		}
		// vacuity guard for the header stage: are the hash-valued header fields pairwise different here?
		fields := [][]byte{hdr.LastBlockID.Hash, hdr.LastCommitHash, hdr.DataHash, hdr.ValidatorsHash, hdr.NextValidatorsHash,
			hdr.ConsensusHash, hdr.AppHash, hdr.LastResultsHash, hdr.EvidenceHash}
		distinct := map[string]bool{}
		for _, f := range fields {
			distinct[string(f)] = true
		}
		if len(distinct) == len(fields) {
			r.d.ProofsAllDistinct++
		}
		for i, v := range n.Sets[H].Validators {
			cs := commit.Signatures[i]
			m := tf.M{"addr": hx(v.Address), "flag": int(cs.BlockIDFlag), "sb": "", "eth": []int{}}
			if cs.BlockIDFlag == cmttypes.BlockIDFlagCommit {
				m["sb"] = hx(commit.VoteSignBytes(n.ChainID, int32(i)))
			}
			if pub, err := crypto.DecompressPubkey(v.PubKey.Bytes()); err == nil {
				m["eth"] = byteInts(crypto.PubkeyToAddress(*pub).Bytes())
			}
			vals = append(vals, m)
		}
	} else {
		s["appHash"], s["blockHash"], s["oracleRoot"], s["round"] = "", "", "", 0
	}
	s["vals"] = vals

	o := tf.M{"ok": ok}
	signer := []int{}
	if ok {
		r.d.Proofs++
		var its []tf.M
		for _, it := range items {
			its = append(its, it.log())
			r.d.PathDepths[len(it.paths)]++
		}
		ms, hp, cv := br.MultiStoreProof, br.BlockHeaderMerkleParts, br.CommonEncodedVotePart
		sigs := []tf.M{}
		for _, sg := range br.Signatures {
			sigs = append(sigs, tf.M{"r": hx(sg.R), "s": hx(sg.S), "v": int(sg.V), "ts": hx(sg.EncodedTimestamp)})
			signer = append(signer, r.recoverSigner(H, sg))
		}
		o["p"] = tf.M{
			"bh": small31(bh), "items": its,
			"ms": tf.M{"oracle": hx(ms.OracleIAVLStateHash), "mint": hx(ms.MintStoreMerkleHash), "params": hx(ms.ParamsToRestakeStoresMerkleHash),
				"rolling": hx(ms.RollingseedToTransferStoresMerkleHash), "tss": hx(ms.TssToUpgradeStoresMerkleHash), "auth": hx(ms.AuthToIcahostStoresMerkleHash)},
			"hp": tf.M{"vc": hx(hp.VersionAndChainIdHash), "height": small31(hp.Height), "sec": small31(hp.TimeSecond), "nano": small31(uint64(hp.TimeNanoSecond)),
				"lbi": hx(hp.LastBlockIdAndOther), "nvc": hx(hp.NextValidatorHashAndConsensusHash), "lrh": hx(hp.LastResultsHash), "ep": hx(hp.EvidenceAndProposerHash)},
			"cv":   tf.M{"prefix": hx(cv.SignedDataPrefix), "suffix": hx(cv.SignedDataSuffix)},
			"sigs": sigs,
		}
		// what the contract would receive: the ABI bytes, decoded by go-ethereum
		o["evm"] = decodeEvm(kind, evmBz)
	} else {
		r.d.Rejected++
		o["p"] = tf.M{"present": false}
		o["evm"] = tf.M{"present": false}
		o["class"] = classOf(detail)
	}
	s["signer"] = signer
	r.d.W.Step("Proof", a, o, s)
	r.d.Events++
	// "due": an input for which the property promises a proof (whether or not the service delivered one)
	due := avail
	for _, m := range stored {
		if m["present"] != true {
			due = false
		}
	}
	if due {
		r.d.Due++
	}
	return due
}

func classOf(detail string) string {
	if len(detail) >= 6 && detail[:6] == "panic:" {
		return "panic"
	}
	return "error"
}

// recoverSigner: which validator of the set, if any, does go-ethereum's Ecrecover return for this (r,s,v)
// over SHA-256 of THAT validator's real canonical vote bytes (CometBFT's own VoteSignBytes)?
// Returns the 1-based position in the validator set, 0 if none.
func (r *run) recoverSigner(H int64, sg proof.TMSignature) int {
	n := r.n
	commit := n.Commits[H]
	if len(sg.R) != 32 || len(sg.S) != 32 || sg.V < 27 || sg.V > 28 {
		return 0
	}
	sig := append(append(append([]byte{}, sg.R...), sg.S...), byte(sg.V-27))
	for i, v := range n.Sets[H].Validators {
		if commit.Signatures[i].BlockIDFlag != cmttypes.BlockIDFlagCommit {
			continue
		}
		digest := sha256.Sum256(commit.VoteSignBytes(n.ChainID, int32(i)))
		pub, err := crypto.Ecrecover(digest[:], sig)
		if err != nil {
			continue
		}
		want, err := crypto.DecompressPubkey(v.PubKey.Bytes())
		if err != nil {
			continue
		}
		if bytes.Equal(pub, crypto.FromECDSAPub(want)) {
			return i + 1
		}
	}
	return 0
}

func byteInts(b []byte) []int {
	out := make([]int, len(b))
	for i, x := range b {
		out[i] = int(x)
	}
	return out
}

type item struct {
	version uint64
	paths   []proof.IAVLMerklePath
	isCount bool
	count   uint64
	res     oracletypes.Result
}

func resultItem(od proof.OracleDataProof) item {
	return item{version: od.Version, paths: od.MerklePaths, res: od.Result}
}

// small: values the spec doubles (zig-zag varints) must stay below 2^30; -1 = outside TLC's integers (the spec refuses it)
func small(x uint64) int {
	if x >= 1<<30 {
		return -1
	}
	return int(x)
}

// small31: values the spec only encodes as unsigned varints
func small31(x uint64) int {
	if x >= 1<<31 {
		return -1
	}
	return int(x)
}

func (it item) log() tf.M {
	paths := []tf.M{}
	for _, p := range it.paths {
		paths = append(paths, tf.M{"right": p.IsDataOnRight, "h": small(uint64(p.SubtreeHeight)), "size": small(p.SubtreeSize),
			"ver": small(p.SubtreeVersion), "sib": hx(p.SiblingHash)})
	}
	m := tf.M{"version": small(it.version), "paths": paths, "isCount": it.isCount, "count": small(it.count)}
	r := it.res
	m["res"] = tf.M{"cid": hx([]byte(r.ClientID)), "osid": small(uint64(r.OracleScriptID)), "calldata": hx(r.Calldata), "ask": small(r.AskCount),
		"min": small(r.MinCount), "rid": small(uint64(r.RequestID)), "ans": small(r.AnsCount), "reqt": small31(uint64(r.RequestTime)), "rest": small31(uint64(r.ResolveTime)),
		"status": int(r.ResolveStatus), "result": hx(r.Result)}
	return m
}
