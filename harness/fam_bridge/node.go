// Package fam_bridge drives the real relay-proof service (client/grpc/oracle/proof) against an
// in-process node and records, per proof, the ProofResponse fields together with observations taken
// from trusted libraries (CometBFT types, the SDK store, go-ethereum secp256k1) - never from the
// proof package - for validation by specs/BridgeVerify_Trace.tla (property C12).
//
// node.go: the fake node.  It owns a world.World (real BandApp), produces blocks through the real
// FinalizeBlock/Commit, and plays the part of CometBFT: for every block it builds a real
// cmttypes.Header (AppHash = app hash returned by the previous block's Commit), a real part set, and
// a real cmttypes.Commit of precommit votes signed with the validators' consensus keys.  It
// implements exactly the RPC methods the proof service calls: Commit and ABCIQueryWithOptions.
package fam_bridge

import (
	"bytes"
	"context"
	"crypto/sha256"
	"fmt"
	"sort"
	"time"

	abci "github.com/cometbft/cometbft/abci/types"
	cmtsecp "github.com/cometbft/cometbft/crypto/secp256k1"
	cmtbytes "github.com/cometbft/cometbft/libs/bytes"
	cmtproto "github.com/cometbft/cometbft/proto/tendermint/types"
	cmtversion "github.com/cometbft/cometbft/proto/tendermint/version"
	rpcclient "github.com/cometbft/cometbft/rpc/client"
	coretypes "github.com/cometbft/cometbft/rpc/core/types"
	cmttypes "github.com/cometbft/cometbft/types"

	"cosmossdk.io/store/rootmulti"

	sdkclient "github.com/cosmos/cosmos-sdk/client"

	"vdrive/world"
)

// VoteSpec is what the script says about one validator's precommit.
type VoteSpec struct {
	Flag int   // 1 absent, 2 commit, 3 nil
	DSec int64 // vote time = block time + DSec seconds ...
	Nano int64 // ... with this nanosecond part
}

// BlockSpec is the consensus-side description of one block (everything the application does not decide).
type BlockSpec struct {
	DSec     int64 // header time = previous header time + DSec s ...
	Nano     int64 // ... with this nanosecond part
	Round    int32
	Proposer int
	Votes    []VoteSpec
	VerBlock uint64
	VerApp   uint64
	Evidence bool // a non-empty evidence hash
	ConsVar  int  // variant of the consensus parameters (changes ConsensusHash)
	// NextPowers: voting power per world validator in the validator set of the NEXT height (0 = not in the
	// set); nil = unchanged.  This is what makes NextValidatorsHash differ from ValidatorsHash.
	NextPowers []int64
	Junk       int // bytes of an undecodable transaction (makes the part set larger)
}

type Node struct {
	sdkclient.CometRPC // nil: any RPC method other than the two below panics (the service must not call it)

	W       *world.World
	C       *world.Chain
	ChainID string
	Privs   []cmtsecp.PrivKey // by world validator index
	// the consensus validator set per height (scripted by the harness, see setFor): Sets[h] signs block h
	Sets       map[int64]*cmttypes.ValidatorSet
	Powers     map[int64][]int64 // per height: power of each world validator (0 = not in the set)
	SetChanges int

	Headers  map[int64]*cmttypes.Header
	Commits  map[int64]*cmttypes.Commit
	BlockIDs map[int64]cmttypes.BlockID
	AppHash  map[int64][]byte // app hash after block h
	lastRes  []*abci.ExecTxResult
	Queries  int
}

func NewNode(w *world.World) *Node {
	n := &Node{W: w, C: w.L2(), ChainID: w.Cfg.ChainID,
		Headers: map[int64]*cmttypes.Header{}, Commits: map[int64]*cmttypes.Commit{},
		BlockIDs: map[int64]cmttypes.BlockID{}, AppHash: map[int64][]byte{},
		Sets: map[int64]*cmttypes.ValidatorSet{}, Powers: map[int64][]int64{}}
	var initial []int64
	for i, v := range w.Vals {
		n.Privs = append(n.Privs, cmtsecp.PrivKey(v.Priv.Bytes()))
		initial = append(initial, w.Cfg.ValTokens[i]/1_000_000)
	}
	n.setFor(1, initial)
	n.setFor(2, initial)
	// block 1 was executed by world.New without a header: give it one now (the application never
	// looks at it; it only serves as LastBlockID / LastCommit of block 2).
	cid := w.App.LastCommitID()
	n.AppHash[1] = cid.Hash
	all := make([]VoteSpec, len(w.Vals))
	for i := range all {
		all[i] = VoteSpec{Flag: 2, DSec: 1}
	}
	hdr := n.header(1, w.Cfg.GenesisTime, BlockSpec{VerBlock: 11}, nil, nil)
	n.seal(hdr, nil, BlockSpec{Votes: all})
	return n
}

// setFor installs the validator set of a height from per-world-validator powers.
func (n *Node) setFor(h int64, powers []int64) {
	var vals []*cmttypes.Validator
	for i, p := range powers {
		if p > 0 {
			vals = append(vals, cmttypes.NewValidator(n.Privs[i].PubKey(), p))
		}
	}
	if len(vals) == 0 {
		panic("empty validator set")
	}
	n.Sets[h] = cmttypes.NewValidatorSet(vals)
	n.Powers[h] = append([]int64{}, powers...)
}

// WorldIndex maps a validator-set member to the world validator holding its key.
func (n *Node) WorldIndex(addr []byte) int {
	for i := range n.Privs {
		if string(n.Privs[i].PubKey().Address()) == string(addr) {
			return i
		}
	}
	panic("unknown validator")
}

// consensusHash: the hash of a variant of the consensus parameters (0 = CometBFT's defaults).
func consensusHash(variant int) []byte {
	cp := cmttypes.DefaultConsensusParams()
	cp.Block.MaxBytes += int64(variant)
	return cp.Hash()
}

func (n *Node) header(h int64, t time.Time, bs BlockSpec, txs cmttypes.Txs, lastCommit *cmttypes.Commit) *cmttypes.Header {
	hdr := &cmttypes.Header{
		Version:            cmtversion.Consensus{Block: bs.VerBlock, App: bs.VerApp},
		ChainID:            n.ChainID,
		Height:             h,
		Time:               t,
		DataHash:           txs.Hash(),
		ValidatorsHash:     n.Sets[h].Hash(),
		NextValidatorsHash: n.Sets[h+1].Hash(),
		ConsensusHash:      consensusHash(bs.ConsVar),
		LastResultsHash:    cmttypes.NewResults(n.lastRes).Hash(),
		EvidenceHash:       cmttypes.EvidenceList{}.Hash(),
		ProposerAddress:    n.Sets[h].Validators[bs.Proposer%len(n.Sets[h].Validators)].Address,
	}
	if h > 1 {
		hdr.LastBlockID = n.BlockIDs[h-1]
		hdr.LastCommitHash = lastCommit.Hash()
		hdr.AppHash = n.AppHash[h-1]
	} else {
		hdr.LastCommitHash = (&cmttypes.Commit{}).Hash()
	}
	if bs.Evidence {
		x := sha256.Sum256([]byte(fmt.Sprintf("evidence-%d", h)))
		hdr.EvidenceHash = x[:]
	}
	return hdr
}

// seal computes the block id (real part set) and the commit of precommits for the header.
func (n *Node) seal(hdr *cmttypes.Header, txs cmttypes.Txs, bs BlockSpec) {
	h := hdr.Height
	last := n.Commits[h-1]
	if last == nil {
		last = &cmttypes.Commit{}
	}
	block := &cmttypes.Block{Header: *hdr, Data: cmttypes.Data{Txs: txs}, LastCommit: last}
	ps, err := block.MakePartSet(cmttypes.BlockPartSizeBytes)
	if err != nil {
		panic(err)
	}
	bid := cmttypes.BlockID{Hash: hdr.Hash(), PartSetHeader: ps.Header()}
	commit := &cmttypes.Commit{Height: h, Round: bs.Round, BlockID: bid}
	for _, member := range n.Sets[h].Validators {
		wi := n.WorldIndex(member.Address)
		vs := VoteSpec{Flag: 2, DSec: 1}
		if wi < len(bs.Votes) {
			vs = bs.Votes[wi]
		}
		addr := n.Privs[wi].PubKey().Address()
		ts := time.Unix(hdr.Time.Unix()+vs.DSec, vs.Nano).UTC()
		switch vs.Flag {
		case 1:
			commit.Signatures = append(commit.Signatures, cmttypes.NewCommitSigAbsent())
			continue
		}
		vote := &cmttypes.Vote{
			Type: cmtproto.PrecommitType, Height: h, Round: bs.Round, Timestamp: ts,
			ValidatorAddress: addr, ValidatorIndex: int32(len(commit.Signatures)),
		}
		flag := cmttypes.BlockIDFlagNil
		if vs.Flag == 2 {
			vote.BlockID = bid
			flag = cmttypes.BlockIDFlagCommit
		}
		sig, err := n.Privs[wi].Sign(cmttypes.VoteSignBytes(n.ChainID, vote.ToProto()))
		if err != nil {
			panic(err)
		}
		commit.Signatures = append(commit.Signatures, cmttypes.CommitSig{
			BlockIDFlag: flag, ValidatorAddress: addr, Timestamp: ts, Signature: sig})
	}
	// the fake node must be a correct node: CometBFT itself accepts this commit for this block
	if err := n.Sets[h].VerifyCommit(n.ChainID, bid, h, commit); err != nil {
		panic(fmt.Sprintf("fake node produced an invalid commit at height %d: %v", h, err))
	}
	n.Headers[h] = hdr
	n.Commits[h] = commit
	n.BlockIDs[h] = bid
}

// Produce runs one block through the real FinalizeBlock + Commit under a real header.
func (n *Node) Produce(bs BlockSpec, txs [][]byte) (*abci.ResponseFinalizeBlock, error) {
	c := n.C
	h := c.Height + 1
	prev := n.Headers[h-1]
	t := time.Unix(prev.Time.Unix()+bs.DSec, bs.Nano).UTC()
	if bs.Junk > 0 {
		junk := make([]byte, bs.Junk)
		for i := range junk {
			junk[i] = byte(0x80 | (i*7+int(h))&0x7f)
		}
		txs = append(txs, junk)
	}
	var ctxs cmttypes.Txs
	for _, tx := range txs {
		ctxs = append(ctxs, cmttypes.Tx(tx))
	}
	lastCommit := n.Commits[h-1]
	next := n.Powers[h]
	if bs.NextPowers != nil {
		next = bs.NextPowers
	}
	n.setFor(h+1, next)
	if !bytes.Equal(n.Sets[h+1].Hash(), n.Sets[h].Hash()) {
		n.SetChanges++
	}
	hdr := n.header(h, t, bs, ctxs, lastCommit)
	// votes of the previous commit, as CometBFT would hand them to the application
	var votes []abci.VoteInfo
	for i, cs := range lastCommit.Signatures {
		v := n.Sets[h-1].Validators[i]
		votes = append(votes, abci.VoteInfo{
			Validator:   abci.Validator{Address: v.Address, Power: v.VotingPower},
			BlockIdFlag: cmtproto.BlockIDFlag(cs.BlockIDFlag),
		})
	}
	resp, err := n.W.App.FinalizeBlock(&abci.RequestFinalizeBlock{
		Height: h, Time: t, Hash: hdr.Hash(), ProposerAddress: hdr.ProposerAddress, Txs: txs,
		DecidedLastCommit:  abci.CommitInfo{Round: lastCommit.Round, Votes: votes},
		NextValidatorsHash: hdr.NextValidatorsHash,
	})
	if err != nil {
		return nil, err
	}
	if _, err := n.W.App.Commit(); err != nil {
		return nil, err
	}
	if len(resp.ValidatorUpdates) > 0 {
		return nil, fmt.Errorf("validator set changed (not modelled by the fake node)")
	}
	c.Height = h
	c.Time = t
	c.StartBlock()
	n.AppHash[h] = resp.AppHash
	n.lastRes = resp.TxResults
	n.seal(hdr, ctxs, bs)
	return resp, nil
}

// ---- the two RPC methods used by the proof service ----

func (n *Node) Commit(_ context.Context, height *int64) (*coretypes.ResultCommit, error) {
	h := n.C.Height
	if height != nil {
		h = *height
	}
	hdr, ok := n.Headers[h]
	if !ok {
		return nil, fmt.Errorf("height %d is not available", h)
	}
	// copies, so that a proof builder scribbling on its input cannot alter the node's records
	hc := *hdr
	cc := n.Commits[h].Clone()
	return coretypes.NewResultCommit(&hc, cc, true), nil
}

func (n *Node) ABCIQueryWithOptions(_ context.Context, path string, data cmtbytes.HexBytes, opts rpcclient.ABCIQueryOptions) (*coretypes.ResultABCIQuery, error) {
	n.Queries++
	resp, err := n.W.App.Query(context.Background(), &abci.RequestQuery{Path: path, Data: data, Height: opts.Height, Prove: opts.Prove})
	if err != nil {
		return nil, err
	}
	return &coretypes.ResultABCIQuery{Response: *resp}, nil
}

// ---- trusted observations (SDK store, no proof package) ----

func (n *Node) rootStore() *rootmulti.Store { return n.W.App.CommitMultiStore().(*rootmulti.Store) }

// StoreNames lists the stores committed at a version, in the byte order the multistore hashes them.
func (n *Node) StoreNames(version int64) []string {
	ci, err := n.rootStore().GetCommitInfo(version)
	if err != nil {
		return nil
	}
	var out []string
	for _, si := range ci.StoreInfos {
		out = append(out, si.Name)
	}
	sort.Strings(out)
	return out
}

// OracleRoot returns the committed root hash of the oracle store and the multistore hash at a version.
func (n *Node) OracleRoot(version int64) (root, app []byte) {
	ci, err := n.rootStore().GetCommitInfo(version)
	if err != nil {
		return nil, nil
	}
	for _, si := range ci.StoreInfos {
		if si.Name == "oracle" {
			root = si.CommitId.Hash
		}
	}
	return root, ci.Hash()
}

// StoredValue reads the raw value under an oracle-store key at a version.
func (n *Node) StoredValue(version int64, key []byte) (val []byte) {
	defer func() {
		if recover() != nil {
			val = nil
		}
	}()
	cms, err := n.rootStore().CacheMultiStoreWithVersion(version)
	if err != nil {
		return nil
	}
	return cms.GetKVStore(n.W.App.GetKey("oracle")).Get(key)
}
