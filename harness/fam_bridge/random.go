package fam_bridge

import (
	"fmt"
	"math/rand"

	tf "vdrive/tracefmt"
)

var nanoChoices = []int{0, 0, 1, 127, 128, 16383, 16384, 999_999_999, 268_435_455, 268_435_456}

func nano(rng *rand.Rand) int {
	if rng.Intn(3) == 0 {
		return rng.Intn(1_000_000_000)
	}
	return nanoChoices[rng.Intn(len(nanoChoices))]
}

// chain ids: the fixed vote format has a single-byte length prefix, which bounds the chain id to 17 bytes
// when the round is non-zero and the timestamp has full size (24+32+38+14+2+L <= 127).
var chainIDs = []string{"b", "band-1", "BANDCHAIN", "laozi-mainnet", "band-verif-16-ch", "band-verif-17-chn"}

// RandomScript: one chain (1-4 validators, a chain id) with blocks that carry oracle requests (reported and
// resolved in the following block, some left unresolved), interleaved with proof requests for stored results,
// the request count, several results at once, and for things that have no proof (unresolved / unknown ids,
// heights outside the chain).  `long` scripts run past height 128 (two-byte varints).
func RandomScript(rng *rand.Rand, idx int, nproofs int) tf.Script {
	nv := 1 + (idx+rng.Intn(2))%4
	c := tf.M{"nvals": nv, "chain": chainIDs[(idx+rng.Intn(2))%len(chainIDs)]}
	long := idx%7 == 3
	var steps []tf.M
	height := 2 // after the activation block
	nreq := 0
	var resolved []int // ids with a result, and the height from which a proof can show them
	resolvedAt := map[int]int{}
	type pend struct{ id, min int }
	var pending []pend
	oss := []int{4, 4, 1, 2} // ScriptOK1, ScriptOK3, ScriptFail1 (world constants)
	// the script mirrors the validator powers of the next height, so that it can ask for a real change
	cur := map[int][]int{1: {100}, 2: {100, 100}, 3: {70, 20, 10}, 4: {40, 30, 20, 10}}[nv]
	cur = append([]int{}, cur...)
	atTip := false // the next proof is taken at the tip (the rich header)
	rich := false  // the next block must have pairwise different, non-trivial header fields
	block := func(withReqs bool) {
		st := tf.M{"op": "Block", "dt": 1 + rng.Intn(7), "ns": nano(rng), "round": 0, "prop": rng.Intn(4), "vb": 11, "va": 0}
		switch rng.Intn(6) {
		case 0:
			st["round"] = 1
		case 1:
			st["round"] = 2
		case 2:
			if rng.Intn(4) == 0 {
				st["round"] = 300
			}
		}
		if rng.Intn(8) == 0 {
			st["dt"] = 100000 + rng.Intn(1000)
		}
		if rng.Intn(3) == 0 {
			st["va"] = 1 + rng.Intn(300)
		}
		if rng.Intn(4) == 0 {
			st["vb"] = 10 + rng.Intn(4)
		}
		if rng.Intn(2) == 0 {
			st["evid"] = true
		}
		if rng.Intn(2) == 0 {
			st["cp"] = 1 + rng.Intn(1000)
		}
		// an undecodable transaction: non-trivial DataHash now and LastResultsHash in the next header; a large
		// one makes the block span several parts
		switch x := rng.Intn(12); {
		case x == 0:
			st["junk"] = 70000 + rng.Intn(150000)
		case x < 8:
			st["junk"] = 8 + rng.Intn(40)
		}
		// the validator set of the next height: members re-weighted, removed (0) or re-added
		if rng.Intn(5) < 2 {
			pw := []int{0, 1, 10, 33, 100, 100}
			var np []int
			for i := 0; i < nv; i++ {
				np = append(np, pw[rng.Intn(len(pw))])
			}
			if nv == 1 || rng.Intn(3) == 0 {
				np[rng.Intn(nv)] = 1 + rng.Intn(200)
			}
			st["nextvals"] = np
		}
		if rich {
			// every field the header-parts code folds together gets its own non-trivial value: evidence hash,
			// consensus-params variant, a transaction (data hash), and a validator set for the next height that
			// differs from the current one (one member re-weighted)
			st["evid"], st["cp"] = true, 1+rng.Intn(1000)
			if tf.Int(st, "junk", 0) == 0 {
				st["junk"] = 8 + rng.Intn(40)
			}
			np := append([]int{}, cur...)
			np[rng.Intn(nv)] += 1 + rng.Intn(50)
			st["nextvals"] = np
		}
		if np, ok := st["nextvals"].([]int); ok {
			sum := 0
			for _, p := range np {
				sum += p
			}
			if sum == 0 {
				np[0] = 1
			}
			cur = append([]int{}, np...)
		}
		var votes []tf.M
		for i := 0; i < nv; i++ {
			v := tf.M{"f": 2, "ds": rng.Intn(4), "ns": nano(rng)}
			if rng.Intn(5) == 0 {
				v["f"] = 1 + 2*rng.Intn(2) // absent or nil (the driver keeps > 2/3 of the power on the block)
			}
			votes = append(votes, v)
		}
		st["votes"] = votes
		// reports for what is pending: everybody, or too few (request stays unresolved)
		nrep := 99
		if len(pending) > 0 && rng.Intn(5) == 0 {
			nrep = 0
		}
		st["reports"] = nrep
		height++
		var still []pend
		for _, p := range pending {
			if nrep >= p.min {
				resolved = append(resolved, p.id)
				resolvedAt[p.id] = height + 1
			} else {
				still = append(still, p)
			}
		}
		pending = still
		if withReqs {
			var reqs []tf.M
			k := 1 + rng.Intn(3)
			for j := 0; j < k; j++ {
				nreq++
				ask := 1 + rng.Intn(nv)
				mn := 1 + rng.Intn(ask)
				rq := tf.M{"os": oss[rng.Intn(len(oss))], "ask": ask, "min": mn, "cid": "", "cd": ""}
				if rng.Intn(3) > 0 {
					rq["cid"] = fmt.Sprintf("client-%d", rng.Intn(1000))
				}
				if rng.Intn(4) > 0 {
					rq["cd"] = fmt.Sprintf("calldata-%0*d", 1+rng.Intn(40), nreq)
				}
				reqs = append(reqs, rq)
				pending = append(pending, pend{nreq, mn})
			}
			st["reqs"] = reqs
		}
		steps = append(steps, st)
	}
	proofStep := func() {
		st := tf.M{"op": "Proof", "kind": "result", "h": 0, "rids": []int{}}
		// heights from which the proof is taken
		pickH := func(min int) int {
			if min > height || atTip || rng.Intn(4) == 0 {
				return 0 // latest
			}
			return min + rng.Intn(height-min+1)
		}
		var avail []int
		for _, id := range resolved {
			if resolvedAt[id] <= height {
				avail = append(avail, id)
			}
		}
		switch x := rng.Intn(12); {
		case x < 6 && len(avail) > 0:
			id := avail[rng.Intn(len(avail))]
			st["rids"] = []int{id}
			st["h"] = pickH(resolvedAt[id])
		case x < 8:
			st["kind"] = "count"
			st["h"] = pickH(3)
		case x < 10 && len(avail) > 0:
			st["kind"] = "multi"
			k := 1 + rng.Intn(3)
			var ids []int
			minH := 3
			for j := 0; j < k; j++ {
				id := avail[rng.Intn(len(avail))]
				ids = append(ids, id)
				if resolvedAt[id] > minH {
					minH = resolvedAt[id]
				}
			}
			// now and then a batch that also names a result that does not exist (yet), at any position: no proof is due,
			// and none may be handed out for the rest either
			if rng.Intn(4) == 0 {
				bad := nreq + 1 + rng.Intn(3)
				if len(pending) > 0 && rng.Intn(2) == 0 {
					bad = pending[0].id
				}
				pos := rng.Intn(len(ids) + 1)
				ids = append(ids[:pos], append([]int{bad}, ids[pos:]...)...)
			}
			st["rids"] = ids
			st["h"] = pickH(minH)
		default:
			// something that has no proof
			switch rng.Intn(4) {
			case 0:
				st["rids"] = []int{nreq + 1 + rng.Intn(3)} // unknown id
			case 1:
				if len(pending) > 0 {
					st["rids"] = []int{pending[0].id} // unresolved
				} else {
					st["rids"] = []int{nreq + 1}
				}
			case 2:
				st["rids"] = []int{1}
				st["h"] = height + 1 + rng.Intn(3) // beyond the tip
			default:
				st["rids"] = []int{1}
				st["h"] = 1 + rng.Intn(2) // no provable state below
			}
		}
		steps = append(steps, st)
	}
	// a few blocks with requests first, so that results exist
	block(true)
	block(true)
	block(false)
	if long {
		for i := 0; i < 125+rng.Intn(10); i++ {
			block(i%40 == 5)
		}
		block(false)
	}
	for p := 0; p < nproofs; p++ {
		for b := rng.Intn(3); b > 0; b-- {
			block(rng.Intn(2) == 0)
		}
		if rng.Intn(3) == 0 {
			block(false)
		}
		if p%2 == 0 {
			// two blocks whose headers are "rich" (the second one's LastResultsHash comes from the first one's tx)
			rich = true
			block(false)
			block(false)
			rich = false
			atTip = true
		}
		proofStep()
		atTip = false
	}
	return tf.Script{Fam: "BridgeVerify", C: c, Steps: steps}
}
